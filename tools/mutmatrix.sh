#!/bin/sh
# runs every seeded regression against the check of its property (and the reverse patches of the repairs against theirs);
# writes seeded/RESULTS.md
cd "$(dirname "$0")/.."
OUT=seeded/RESULTS.md
echo "# Seeded regressions vs checks (tools/mutmatrix.sh, quick tier, seed 0)" > $OUT
echo "" >> $OUT
echo "| change | check | outcome |" >> $OUT
echo "|---|---|---|" >> $OUT
run() { # patch label checks...
  P="$1"; L="$2"; shift 2
  for c in "$@"; do
    R=$(tools/mutcheck.sh "$P" "$c" 2>&1 | grep -E "VIOLATION|FAIL| ok |does not apply|REPLAY" | tr '\n' ' ' | sed 's/|/ /g' | cut -c1-260)
    echo "| $L | $c | $R |" >> $OUT
  done
}
for d in seeded/C??-?; do
  id=$(basename $d | cut -d- -f1)
  run "$PWD/$d/patch.diff" "$(basename $d)" "$id"
done
run "$PWD/seeded/real/F1-revert.diff" "F1 revert" C13 C09
run "$PWD/seeded/real/F2-revert.diff" "F2 revert" C04
run "$PWD/seeded/real/F3a-revert.diff" "F3a revert" C15
run "$PWD/seeded/real/F3b-revert.diff" "F3b revert" C15
run "$PWD/seeded/real/F4-revert.diff" "F4 revert" C16 C01
run "$PWD/seeded/real/F5-revert.diff" "F5 revert" C16 C01
run "$PWD/seeded/real/F6-revert.diff" "F6 revert" C18
run "$PWD/seeded/real/F7-revert.diff" "F7 revert" C05
run "$PWD/seeded/real/F8-revert.diff" "F8 revert" C07
run "$PWD/seeded/real/F10-revert.diff" "F10 revert" C12
run "$PWD/seeded/real/F11-revert.diff" "F11 revert" C15
run "$PWD/seeded/real/F12-revert.diff" "F12 revert" C18
run "$PWD/seeded/real/F13-revert.diff" "F13 revert" C11
run "$PWD/seeded/real/F14-revert.diff" "F14 revert" C12
run "$PWD/seeded/real/F16-revert.diff" "F16 revert" C01
run "$PWD/seeded/real/F17-revert.diff" "F17 revert" C04 C16
run "$PWD/seeded/real/F18-revert.diff" "F18 revert" C17
git -C /repo status --short
echo "matrix done"
