#!/bin/sh
# Confirms every seeded regression in a scratch worktree: (1) patch applies, (2) the repository's suite still passes with it
# (61 passed), (3) its demo FAILS with the change and (4) PASSES without it.  Writes the outcome into meta.json ("confirmed").
cd "$(dirname "$0")/.."
WT=/tmp/wt-confirm
git -C /repo worktree remove --force $WT 2>/dev/null
git -C /repo worktree add -q --detach $WT HEAD || exit 2
DIRS="$*"; [ -z "$DIRS" ] && DIRS=$(ls -d seeded/C??-?)
for d in $DIRS; do
  P="$PWD/$d/patch.diff"
  git -C $WT checkout -q -- . 
  if ! git -C $WT apply "$P" 2>/dev/null; then echo "$d: PATCH DOES NOT APPLY"; continue; fi
  SUITE=$(cd $WT && PYTHONPATH=$WT/src /venv/bin/python -m pytest -q -p no:cacheprovider --timeout=900 --continue-on-collection-errors 2>&1 | tail -1)
  (cd $d && PYTHONPATH=$WT/src timeout 900 /venv/bin/python demo.py > /tmp/confirm_demo.log 2>&1); RC1=$?
  git -C $WT checkout -q -- .
  (cd $d && PYTHONPATH=$WT/src timeout 900 /venv/bin/python demo.py > /tmp/confirm_demo0.log 2>&1); RC0=$?
  OK=no
  echo "$SUITE" | grep -q "61 passed" && [ $RC1 -ne 0 ] && [ $RC0 -eq 0 ] && OK=yes
  echo "$d: suite='$SUITE' demo_with_change_exit=$RC1 demo_without_exit=$RC0 confirmed=$OK"
  python3 - "$d/meta.json" "$SUITE" $RC1 $RC0 $OK <<'PY'
import json,sys
p,suite,rc1,rc0,ok=sys.argv[1:6]
m=json.load(open(p))
m['confirmed']={'by':'builder, scratch worktree /tmp/wt-confirm at /repo HEAD','suite_with_change':suite,'demo_exit_with_change':int(rc1),'demo_exit_without_change':int(rc0),'ok':ok=='yes'}
json.dump(m,open(p,'w'),indent=1)
PY
done
git -C /repo worktree remove --force $WT
echo "confirm done"
