#!/usr/bin/env python3
"""prints the obligations that failed in an evidence file (default: the scratch evidence of tools/mutcheck.sh)"""
import json, sys
pid = sys.argv[1]
d = sys.argv[2] if len(sys.argv) > 2 else '/verif/build/mut-ev'
ev = json.load(open('%s/%s.json' % (d, pid)))
for o in ev['coverage']['obligation_list']:
    if not o['ok']:
        print('  FAILED %s :: %s' % (o['name'][:110], o['detail'][:200]))
for v in ev.get('violations', []) if isinstance(ev.get('violations'), list) else []:
    print('  VIOLATION', json.dumps(v)[:300])
