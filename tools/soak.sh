#!/bin/sh
# soak: every claimed check for several seeds (evidence goes to a scratch dir); prints the runs that do not pass
# usage: tools/soak.sh "<seeds>" [tier] [props...]
cd "$(dirname "$0")/.."
SEEDS="${1:-1 2 3 4 5}"; TIER="${2:-quick}"; shift 2 2>/dev/null
PROPS="$*"
[ -z "$PROPS" ] && PROPS=$(python3 -c "import json; print(' '.join(c['property_id'] for c in json.load(open('MANIFEST.json'))['checks']))")
OUT=build/soak; mkdir -p $OUT
for s in $SEEDS; do for p in $PROPS; do echo "$p $s"; done; done | \
  xargs -P 6 -L 1 sh -c 'VERIF_EVIDENCE_DIR=build/soak/ev-$1 VERIF_SEED=$1 ./check $0 --tier '"$TIER"' > build/soak/$0-$1.log 2>&1; echo "$0 seed=$1 exit=$?"' | grep -v "exit=0" 
echo "soak done"
