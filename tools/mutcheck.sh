#!/bin/sh
# tools/mutcheck.sh <patch.diff (absolute path)> <Cxx> [Cxx ...]   -- applies the patch to /repo, runs the checks (evidence goes to a
# scratch directory so that committed evidence is not overwritten by runs on a mutated tree), replays every reported failing input on
# the mutated tree (must fail again) and on the restored tree (must pass), and reverts the patch.
# Never run this while a soak is running: it patches /repo in place.
cd "$(dirname "$0")/.."
P="$1"; shift
git -C /repo apply "$P" || { echo "patch does not apply: $P"; exit 2; }
REPLAYS=""
for c in "$@"; do
  OUT=$(VERIF_EVIDENCE_DIR="$PWD/build/mut-ev" ./check "$c" 2>&1)
  echo "$OUT" | grep -E "VIOLATION|KNOWN-FINDING| ok | FAIL |broken" | sed "s|^|[$c] |"
  for r in $(echo "$OUT" | grep "^VIOLATION" | grep -v no-failing-input-found | sed 's/.*replay=\([^ ]*\).*/\1/'); do
    ./check "$c" --replay "$r" > /dev/null 2>&1; rc=$?
    [ $rc -eq 1 ] && echo "[$c] replay on the changed tree: fails again (exit 1)" || echo "[$c] REPLAY DOES NOT REPRODUCE on the changed tree (exit $rc): $r"
    REPLAYS="$REPLAYS $c:$r"
  done
done
git -C /repo checkout -- .
for cr in $REPLAYS; do
  c=${cr%%:*}; r=${cr#*:}
  ./check "$c" --replay "$r" > /dev/null 2>&1; rc=$?
  [ $rc -eq 0 ] && echo "[$c] replay on the restored tree: passes (exit 0)" || echo "[$c] REPLAY FAILS ON THE RESTORED TREE (exit $rc): $r"
done
