#!/bin/sh
# tools/mutcheck.sh <patch.diff> <Cxx> [Cxx ...]   -- applies the patch to /repo, runs the checks (evidence goes to a scratch
# directory so that committed evidence is not overwritten by runs on a mutated tree), and reverts the patch.
cd "$(dirname "$0")/.."
P="$1"; shift
git -C /repo apply "$P" || { echo "patch does not apply: $P"; exit 2; }
for c in "$@"; do
  VERIF_EVIDENCE_DIR="$PWD/build/mut-ev" ./check "$c" 2>&1 | grep -E "VIOLATION|KNOWN-FINDING| ok | FAIL |broken" | sed "s|^|[$c] |"
done
git -C /repo checkout -- .
