#!/bin/sh
# runs every claimed check (quick, seed 0) on the current tree and rewrites evidence/*.json
cd "$(dirname "$0")/.."
git -C /repo status --short | grep -q . && { echo "/repo has uncommitted changes"; exit 2; }
PROPS=$(python3 -c "import json; print(' '.join(c['property_id'] for c in json.load(open('MANIFEST.json'))['checks']))")
for p in $PROPS; do echo $p; done | xargs -P 4 -I{} sh -c 'VERIF_SEED=0 ./check {} --tier quick 2>&1 | tail -1'
