#!/usr/bin/env python3
"""Regenerates MANIFEST.json from the table below (kept in one place so that the manifest is always valid)."""
import json, os
HERE = os.path.dirname(os.path.dirname(os.path.abspath(__file__)))
BASE_NOTE = ("Trusted: Coq 8.16.1 kernel incl. vm_compute (no native_compute); no axioms (every Print Assumptions must say "
             "'Closed under the global context'); the Gallina model is tied to /repo on every invocation by (G) definitions regenerated from the "
             "current source text by nine fail-closed translators (index arithmetic and loop structure of the crop functions, float formulas as rationals, the numba kernels compiled to "
             "folds, the upsample flag/factor through kernels and wrappers, the vectorised gridmatching formulas and defaults, the full_match loop, _tumble and _do_match, the per-frame UDF glue, the dtype decisions, the sparse stacks) with bridge lemmas re-proved against them, and by (K) the "
             "correspondence run (model under vm_compute vs implementation on the same inputs); harness (generators, exact float->Z/Q "
             "conversion, parser, comparator tolerances, translators); numpy FFT/log/sqrt/solve/lstsq are modelled by their mathematical meaning, not verified. ")
CHECKS = {}
def add(pid, text, note, technique, design_ref, category='proof'):
    CHECKS[pid] = dict(text=text, note=note, technique=technique, design_ref=design_ref, category=category)

add('C13',
    "Coq theorems for ALL frame shapes, crop sizes, buffer shapes, peaks, pixels and previous buffer contents: the per-pixel kernel and the "
    "slice arithmetic (CPython slice normalisation modelled) both produce exactly the zero-padded window, never read/write out of bounds, "
    "never raise a shape error, and agree. Model tied to the code by running both real back-ends and the model on the same guard-padded inputs.",
    BASE_NOTE + "Sparse frames (sparse.COO / GCXS, scipy.sparse) are run through the slicing back-end by the oracle only; CuPy is not available.",
    "Coq proof (lia case analysis over slice normalisation) + vm_compute correspondence + exhaustive oracle box", "5/C13")

CORR_NOTE = BASE_NOTE + ("The FFT product is modelled as exact cyclic convolution and the logarithm as a harness-supplied table over the exact "
    "arguments x-min+1 computed by the model (fixed point 2^-20); float32 round-off is bounded only by the comparator tolerances; near ties of the "
    "maximum are accepted when the model certifies them within tolerance (counted in the evidence). ")

add('C08',
    "Coq theorems for ALL numbers of peaks n >= 0 and buffer counts >= 1: the block loop writes out[i] = f(peak i) exactly for i in [0,n) (tail block, "
    "bc > n, untouched entries beyond n), blocks cover each index exactly once, block sizes fit the buffer, get_buf_count bounds and byte limit; the "
    "models of process_frame_fast/full are per-peak maps. Tie: get_buf_count on an exhaustive box, recorded block sequences of the real loops, pipeline "
    "model vs outputs under permutation/duplication. Oracle: every buffer count 1..n+3 against each peak alone.",
    CORR_NOTE + "'Bit-identical up to FFT batching' is float behaviour: sampled (1e-5 relative), not proved.",
    "Coq proof (nia over floor division, fold invariant) + vm_compute correspondence + oracle sweep", "5/C08")
add('C09',
    "Coq theorems over ALL call histories: a call on any state (arbitrary crop-buffer slots and output arrays, either cropping back-end, any buffer count) "
    "writes the pure per-peak results; induction over the list of earlier calls. Tie: the stateless Coq pipeline vs the last call of dirty histories on "
    "the implementation; oracle: shared vs fresh buffers/outputs/pattern/matcher objects bit-identical over random histories.",
    CORR_NOTE + "Within a block the model evaluates peaks sequentially (crop+evaluate per slot) whereas the code crops all slots of the block first; slots "
    "of one block are distinct so the two orders coincide. The full-frame method's frame buffer is overwritten entirely by log_scale(out=): covered by the oracle only. "
    "Pattern/matcher objects are pure functions of their parameters in the model; their re-use is checked on the implementation only.",
    "Coq proof (state-machine invariant by induction over histories) + correspondence + history oracle", "5/C09")
add('C03',
    "Coq theorems: what the FFT pipeline computes (cyclic convolution rotated by N/2) IS the cross-correlation with the centred mask for every "
    "centro-symmetric mask and every size of either parity; argmax = first maximum and attains the window maximum; clip radius / neighbourhood in bounds; "
    "minimum-subtracted centre of mass; elevation = smallest slope over pixels at distance >= 1.5, attained, None iff no such pixel. Tie: the whole model "
    "pipeline (crop, x-min+1, log table, exact convolution, argmax, COM, elevation) under vm_compute vs process_frame_fast/full on the same inputs; oracle: "
    "definitions evaluated directly in float64 without FFT.",
    CORR_NOTE + "numpy's FFT = cyclic convolution is assumed and sampled by the correspondence. JIT / bounds-checked / interpreted kernels: the thorough tier re-runs the oracle under NUMBA_DISABLE_JIT=1.",
    "Coq proof (sum reindexing by a bijection, fold invariants, nia) + vm_compute correspondence + direct-correlation oracle", "5/C03")
add('C04',
    "Coq theorems: centre within [peak-c, peak+c-1] for any peak; a signed buffer stores it exactly (unsigned refuted: the repaired defect); |refined-centre| "
    "<= r <= 2 as centre of mass of non-negative weights; denominator > 0 at the first maximum for ANY data (no 0/0); all reads in bounds; elevation finite "
    "for maps >= 4x4; upsampled grid within 0.75+0.5/u. Tie: store_int vs numpy for the dtypes actually returned, spied upsampled region size, pipeline model vs "
    "outputs. Oracle: the statement on NaN-guarded frames.",
    CORR_NOTE + "Finiteness under float32 overflow is outside the model (|values| <= 1e6 sampled). The upsampled DFT is not modelled, only its index skeleton.",
    "Coq proof (lia/nia, fold invariants) + correspondence + well-formedness oracle", "5/C04")
add('C14',
    "Coq theorems: the crop-based pipeline model is exactly translation-equivariant when windows stay inside both frames (positions move, height and centre "
    "of mass do not); cyclic shift resp. transposition of the data shifts resp. transposes the correlation map; x-min+1 is offset-invariant. Tie: model vs "
    "implementation on base/rolled/offset inputs; oracle: metamorphic relations on the implementation (also with upsampling for translation).",
    CORR_NOTE + "Axis-swap equivariance of argmax needs a unique maximum (first-maximum rule is not swap symmetric): ties are recognised with the direct map and skipped. "
    "Float32 rounding under cyclic shifts and large offsets: tolerance only.",
    "Coq proof (reindexing of sums, list lemmas) + correspondence + metamorphic oracle", "5/C14")
add('C15',
    "Coq theorem: with promotion before subtracting, the argument of the logarithm is exactly x-min+1 for every integer width/signedness and floats; the "
    "un-promoted arithmetic is refuted with witnesses (repaired defects). Tie: model argument vs exp() of log_scale / log_scale_cropbufs_inplace outputs on "
    "arrays containing dtype extremes. Oracle: both batch entry points in 10 dtypes vs float64.",
    CORR_NOTE + "Rounding of x-min+1 itself in float32 (up to 2^25+1) is outside the theorem and inside the property's 'to float32 rounding' allowance.",
    "Coq proof (by computation on the dtype model) + correspondence + dtype sweep oracle", "5/C15")

MASK_NOTE = BASE_NOTE + ("sqrt/arctan2 are not modelled: the masks are modelled as functions of the per-pixel radius and evaluated in exact rational arithmetic on "
    "radius maps produced by polar_map for the centre the harness chooses (shape//2); float round-off of the implementation is compared with 1e-9 absolute tolerance. ")
add('C16',
    "Coq theorems: UserTemplate pad/crop aligns source pixel s//2 with target pixel t//2 and preserves values for ALL s,t >= 1 (old rule refuted with witness, "
    "proved right for the other parity classes); radial masks are cyclically point symmetric about shape//2 for every shape; default radial map of "
    "RadialGradientBackgroundSubtraction pixel centred and wide enough; crop size = ceil(search); guards; values in range; background subtraction balanced. "
    "Tie: generated before/after arithmetic = model (G), exhaustive index maps vs UserTemplate.get_mask, built-in masks vs the exact-rational model at sampled pixels.",
    MASK_NOTE + "BackgroundSubtraction with a requested shape so small that the balancing ring lies entirely outside it gives 0/0 (premise 'ring sum != 0' of the "
    "balance theorem; cannot occur for (2*crop_size)^2 masks): excluded by the oracle, see DESIGN.md section 6. 'Background-subtracting' is read as BackgroundSubtraction; "
    "RadialGradientBackgroundSubtraction documents a fixed -1 ring and is not checked for zero sum.",
    "Coq proof (lia/nia with floor division, Q field) + generated-layer bridge + exhaustive correspondence + oracle", "5/C16")
add('C18',
    "Coq theorems over Q for every number of bins, width >= 1, inner radius and radius value (hence every centre, image size, pixel): telescoping sum, exactly 1 "
    "inside / exactly 0 outside / within [0,1] everywhere, ring + disk = disk, centre patch only at r < 1/2 and patched sum 1 - ri, normalised bins sum to 1. "
    "Tie: the model in exact rationals on the implementation's own polar_map radii at sampled pixels incl. the nearest-to-centre pixel, dense and sparse.",
    MASK_NOTE + "'total approximates pi r^2 within the perimeter' is a lattice-point estimate: sampled only.",
    "Coq proof (lra case analysis over clip/abs, induction on the number of bins) + exact-rational correspondence + oracle", "5/C18")
add('C19',
    "Coq theorems: densified COO stack = sum of clipped stamps per layer for every template, image, placement list (any order/offsets); empty when outside; "
    "feature-vector centre on the peak; circular stack = dense sharp disk (bounding box cuts nothing, for every radius p/q). Tie: coo_entries/todense under "
    "vm_compute vs sparse_template_multi_stack().todense() on small exhaustive-style inputs; disk template vs model.",
    BASE_NOTE + "sparse.COO is modelled as a coordinate list whose duplicates add when densified.",
    "Coq proof (sum-of-indicator lemma, induction over placements, nia) + vm_compute correspondence + exhaustive oracle", "5/C19")

LAT_NOTE = BASE_NOTE + ("np.linalg.lstsq / solve are modelled by normal equations / Cramer's rule in exact rational arithmetic on the very float inputs the "
    "implementation received; results are compared with tolerance 1e-10 x condition number; exactly singular inputs are None in the model. ")
add('C17',
    "Coq theorems over Q: indices->coordinates->indices and back are identities for non-parallel vectors (None for parallel ones); frame_peaks is exactly the "
    "filter r <= p < frame - r (both axes) in index order with p = zero + i a + j b; position and number of entries of the mgrid layout; drop_zero removes "
    "exactly (0,0). Over Coq's reals (Props/C17R.v): make_polar(make_cartesian(r, phi)) has radius r for r >= 0 (|r| in general) and phi is an admissible angle; "
    "make_cartesian(|v|, a) = v for every angle a satisfying arctan2's defining relation (zero vector included); admissible angles of a non-zero vector share sine "
    "and cosine. Tie: all Q theorems in exact rationals vs the numpy implementation, incl. integer lattices with peaks exactly ON the boundary; the R model is "
    "tied by the float oracle only (round trip, stacks, integer dtypes).",
    LAT_NOTE + "EXCEPTION to 'no axioms': the five theorems of Props/C17R.v depend on the standard library's real-number axioms "
    "ClassicalDedekindReals.sig_forall_dec, ClassicalDedekindReals.sig_not_dec and FunctionalExtensionality.functional_extensionality_dep (allowed for that file only, "
    "anything else fails the check). arctan2 is characterised by cos a |v| = x, sin a |v| = y rather than defined; that numpy's arctan2/sin/cos/norm satisfy this "
    "to round-off is sampled, not proved.",
    "Coq proof (field over Q, list induction; Reals sin2_cos2/sqrt_Rsqr_abs for the polar clause) + exact-rational correspondence + oracle", "5/C17")
add('C06',
    "Coq theorems over Q for any number of points: the Cramer solution solves the weighted normal equations, which minimises the weighted cost for "
    "non-negative weights; uniqueness; invariance under rescaling all weights; linearity in the response (= affine covariance: zero maps by the affine map, a and b by "
    "its linear part); exact lattices recovered exactly. Tie: wls3 / resid2 vs affinematch / weighted_optimize / optimize / error on the same floats.",
    LAT_NOTE + "'at least three affinely independent indices of positive weight' appears as the premise 'the fit exists' (determinant of the normal equations non-zero).",
    "Coq proof (ring/field identities over Q, nra for the quadratic form) + exact-rational correspondence + oracle", "5/C06")
add('C20',
    "Coq theorems over Q: exact affine data are recovered exactly by the column-wise weighted fit for any centre and weights; with residuals the fit is the "
    "least-squares optimum for the squared weights; the centre returned by find_center is a fixed point of the transformation. Tie: get_transformation / "
    "do_transformation / find_center in exact rationals vs lstsq/solve on the same floats.",
    LAT_NOTE,
    "Coq proof (field over Q, uniqueness of the normal-equation solution) + exact-rational correspondence + oracle", "5/C20")

add('C05',
    "Coq theorems over Q: a valid fast match has >= min_match selected peaks, all with elevation >= min_weight, one index per selected peak, and its lattice is "
    "the weighted least-squares fit (C06) of exactly those peaks; a peak on a lattice position is matched with its true indices for every tolerance > 0; a peak "
    "half a cell off is rejected for tolerance^2 <= |a|^2/(4 max(1,|i|)); parallel/zero start vectors give Invalid (a value, not an exception); matching decisions "
    "are translation invariant; the WHOLE fastmatch is covariant under every rational orthogonal map plus translation (rotations such as (3/5,4/5), reflections, axis swap: "
    "same validity, selection and indices, mapped lattice); peaks below min_weight and NaN elevations have no influence on anything. Tie: _match_all's error/rounding/decision, "
    "get_indices and the row weights of the lstsq systems regenerated from the source text (bridge lemmas), and the complete two-round fastmatch in exact rationals vs "
    "Matcher.fastmatch on the same floats.",
    LAT_NOTE + "Robustness to 'about a pixel' of start error and 0.3 px noise is quantitative: sampled by the oracle, the theorems cover the exact-position and "
    "half-cell cases. For rank-deficient matched index sets lstsq returns a minimum-norm solution where the model has none: there only well-formedness is compared. "
    "Covariance under irrational rotations is sampled (rational orthogonal maps are proved).",
    "Coq proof (Q arithmetic, rounding lemmas, list induction) + exact-rational correspondence + oracle incl. adversarial stream", "5/C05")

UDF_NOTE = ("LiberTEM itself is not installed: the real UDF classes of /repo run under harness/stubs/libertem, an explicit-schedule stand-in for the UDF protocol "
    "(get_result_buffers -> per partition get_task_data -> process_frame / process_tile with per-frame views of results and AUX data -> postprocess) with a dense "
    "MaskContainer. This runner IS the UDF semantics for the check (trusted); real LiberTEM scheduling, CuPy and sparse array back-ends are not exercised (the slicing "
    "crop function is injected through the task data). ")
add('C10',
    "Coq theorems: for ANY grouping of the frames into partitions (sizes, order), any buffer count and either cropping back-end the stored result of frame i is the "
    "stand-alone result (induction over partitions and frames of the buffer state machine); tile-wise sums over any band grid equal the sum over the plane; the "
    "masked dot product is the direct correlation with zero padding; for the code's per-tile log scaling tiling independence is proved when tiles share the minimum "
    "and REFUTED in general (known finding F9, reported as KNOWN-FINDING). Tie: spied peak lists vs shifted_peak, sparse corr buffer vs the per-tile model. Oracle: "
    "UDF classes vs stand-alone functions under random schedules.",
    CORR_NOTE + UDF_NOTE,
    "Coq proof (fold invariants over schedules, sum splitting, sum-of-indicator reindexing) + correspondence + schedule oracle", "5/C10")
add('C11',
    "Coq theorems: IntegrationUDF = masked sum of the zero-padded window; per-frame results for any partitioning; the refined peak list is exactly frame_peaks with "
    "margin search in index order. Tie: IntegrationUDF vs UDF.integrate under vm_compute; run_refine's peaks/indices vs Lattice.frame_peaks (truncated). Oracle: stored "
    "(zero, a, b, selector, error) bit-identical in float32 to the matcher on each frame's correlation result started from zero + that frame's shift; dispatch table.",
    LAT_NOTE + UDF_NOTE + "The matcher itself is verified under C05/C06.",
    "Coq proof + vm_compute / exact-rational correspondence + per-frame oracle under explicit schedules", "5/C11")

add('C12',
    "Coq theorems about the full-match loop for ANY lattice search plugged in (answers only need the right length): every peak with elevation >= min_weight that is "
    "not a zero point is unmatched XOR in a match; the zero point is never unmatched once a match exists; the weak set is exactly the complement of the weight filter; "
    "angle_check separates accepted vectors from (anti)parallel by the limit and is symmetric; a match's lattice is the weighted fit of its peaks (C06). Tie: trace-driven "
    "-- the answers of the real _find_best_vector_match are recorded at run time and fed to the Coq loop, whose (matches, unmatched, weak, number of oracle calls) must equal "
    "the implementation's; termination premise and oracle postcondition are monitored on every trace.",
    LAT_NOTE + "hdbscan is not installed: a deterministic sklearn-style stand-in clusterer is used (harness/stubs/hdbscan), as the property allows. The lattice search "
    "(candidate vectors, clustering, figure of merit) is abstracted as an oracle: which lattice is chosen is NOT modelled; 'returns without raising', check() of returned "
    "matches and the noise-free clause (read as: a complete n x m lattice patch of at most ten points containing the zero point) rest on the oracle (S). Termination is proved "
    "only relative to the monitored premise that every accepted match removes a non-zero peak.",
    "Coq proof (loop invariant by induction on fuel, pointwise selector algebra) + trace-driven correspondence + oracle", "5/C12")

add('C01',
    "Coq theorems: FFT product = cross-correlation for centro-symmetric masks of either parity; radial masks are centro-symmetric for every shape and user templates "
    "keep their shape//2 pixel; the map of background + amplitude x disk decomposes into background x mask sum + amplitude x (mask weight on the displaced disk); bathtub "
    "and sign lemmas (finite sets, any cardinality) bound the weight of every displaced copy by the centred disk; the map of point-symmetric data is point symmetric about "
    "the disk centre; a point-symmetric neighbourhood refines to its centre EXACTLY. Tie: model pipeline vs implementation on integer-valued sharp disks where the model "
    "yields argmax = centre and sy = r s exactly; hypotheses (csymb, bathtub/sign) evaluated in Coq on the implementation's masks. Oracle: the statement incl. upsampling.",
    CORR_NOTE + "Uniqueness of the maximum (centre = p rather than 'a maximum is at p') needs the strict version of the bathtub hypothesis and is established per "
    "instance by the model's argmax, not by a general theorem; for gradient-type patterns neither bathtub nor sign hypothesis holds and the claim rests on the per-instance "
    "model evaluation and the oracle. The upsampling clause (1.5/upsample) is float DFT numerics: sampled only.",
    "Coq proof (sum reindexing, finite-set bathtub argument, symmetry of the centre of mass) + per-instance hypothesis evaluation + correspondence + oracle", "5/C01")
add('C07',
    "Coq theorems: the map get_correlation returns is the cross-correlation with the centred mask for centro-symmetric masks of any shape; built-in (radial) masks are "
    "centro-symmetric for every shape; ifftshift puts zero displacement on n/2 for every n while fftshift and the default irfft2 length are wrong for odd sizes (repaired "
    "defect F8, refuted with witnesses); the map scales with the brightness. Tie: get_correlation vs exact cyclic convolution under vm_compute on frames of all parities.",
    CORR_NOTE + "skimage.feature.peak_local_max is external: its contract (k highest separated local maxima in decreasing order) is assumed and sampled by the oracle.",
    "Coq proof + vm_compute correspondence + oracle over shapes of all parities", "5/C07")
add('C02',
    "PARTIAL (level other). Proved: the centre-of-mass refined position stays in the (2r+1)^2 neighbourhood (r <= 2) of the integer centre; the upsampled grid has spacing 1/u, "
    "contains the integer position, covers +-(3/4 - 1/(2u)) px and never exceeds 3/4 + 1/(2u); translation equivariance reduces every position to one unit cell. NOT proved: "
    "the three accuracy figures (1 px, 0.5 px, 1/upsample + 0.03 px), which are float FFT/log numerics over a continuum of sub-pixel offsets -- these are sampled on the "
    "implementation. The model pipeline is compared with the implementation on sub-pixel disks.",
    CORR_NOTE + "No Gallina model of the float DFT / logarithm exists here, and interval proofs per (radius, pattern, offset box) were judged out of reach; the accuracy clauses are evidence, not proof.",
    "Coq proof of the index skeleton + correspondence; accuracy clauses by sampling (stated as such)", "5/C02", category='other')

NOT_YET = "check not built yet in this round (work in progress; design in DESIGN.md section 5)"

def main():
    props = [json.loads(l) for l in open(os.path.join(HERE, 'properties.jsonl'))]
    checks = []
    na = []
    for p in props:
        pid = p['id']
        if pid in CHECKS:
            c = CHECKS[pid]
            checks.append({
                'property_id': pid,
                'quick_cmd': './check %s --tier quick' % pid,
                'thorough_cmd': './check %s --tier thorough' % pid,
                'evidence_file': 'evidence/%s.json' % pid,
                'replay_cmd_template': './check %s --replay {path}' % pid,
                'engine': 'coq-proof+correspondence',
                'level_claimed': {'category': c['category'], 'text': c['text'], 'design_ref': 'DESIGN.md section ' + c['design_ref']},
                'level_note': c['note'],
                'technique': c['technique'],
            })
        else:
            na.append({'property_id': pid, 'reason': NOT_YET})
    m = {
        'version': 1,
        'setup_cmd': './setup.sh',
        'hooks': {
            'guard': 'LIBERTEM_BLOBFINDER_VERIF',
            'enable': 'no source hooks are needed: the checks import /repo/src directly (PYTHONPATH) and wrap functions at run time',
            'baseline_off_cmd': 'cd /repo && /venv/bin/python -m pytest -ra -q -p no:cacheprovider --timeout=900 --continue-on-collection-errors',
            'source_commits': [],
            'add_only': True,
        },
        'engines': [{
            'name': 'coq-proof+correspondence', 'path': 'check',
            'serves_properties': sorted(CHECKS),
            'kind_free_text': 'Coq 8.16.1 development (coq/theories: Model, Proofs, Props) + Python harness that re-checks the theorems, '
                              'regenerates the generated layer from /repo source, runs model (vm_compute) and implementation on the same inputs, '
                              'and searches failing inputs with property oracles',
        }],
        'checks': checks,
        'not_applicable': na,
        'notes': 'Genuine defects repaired in /repo by fix: commits are listed in known_findings.json (status fixed); see DESIGN.md section 6.',
    }
    json.dump(m, open(os.path.join(HERE, 'MANIFEST.json'), 'w'), indent=1)
    print('MANIFEST.json: %d checks, %d not_applicable' % (len(checks), len(na)))

if __name__ == '__main__':
    main()
