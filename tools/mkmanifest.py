#!/usr/bin/env python3
"""Regenerates MANIFEST.json from the table below (kept in one place so that the manifest is always valid)."""
import json, os
HERE = os.path.dirname(os.path.dirname(os.path.abspath(__file__)))
BASE_NOTE = ("Trusted: Coq 8.16.1 kernel incl. vm_compute (no native_compute); no axioms (every Print Assumptions must say "
             "'Closed under the global context'); the hand-written Gallina model is tied to /repo by the correspondence run (K) on "
             "every invocation and, for the integer kernels, by the generated layer (G); harness (generators, exact float->Z/Q "
             "conversion, parser, comparator tolerances); numpy FFT/log/sqrt/lstsq are modelled by their mathematical meaning, not verified. ")
CHECKS = {}
def add(pid, text, note, technique, design_ref, category='proof'):
    CHECKS[pid] = dict(text=text, note=note, technique=technique, design_ref=design_ref, category=category)

add('C13',
    "Coq theorems for ALL frame shapes, crop sizes, buffer shapes, peaks, pixels and previous buffer contents: the per-pixel kernel and the "
    "slice arithmetic (CPython slice normalisation modelled) both produce exactly the zero-padded window, never read/write out of bounds, "
    "never raise a shape error, and agree. Model tied to the code by running both real back-ends and the model on the same guard-padded inputs.",
    BASE_NOTE + "Sparse/CuPy inputs of the slicing back-end are not run (dense numpy only).",
    "Coq proof (lia case analysis over slice normalisation) + vm_compute correspondence + exhaustive oracle box", "5/C13")

NOT_YET = "check not built yet in this round (work in progress; design in DESIGN.md section 5)"

def main():
    props = [json.loads(l) for l in open(os.path.join(HERE, 'properties.jsonl'))]
    checks = []
    na = []
    for p in props:
        pid = p['id']
        if pid in CHECKS:
            c = CHECKS[pid]
            checks.append({
                'property_id': pid,
                'quick_cmd': './check %s --tier quick' % pid,
                'thorough_cmd': './check %s --tier thorough' % pid,
                'evidence_file': 'evidence/%s.json' % pid,
                'replay_cmd_template': './check %s --replay {path}' % pid,
                'engine': 'coq-proof+correspondence',
                'level_claimed': {'category': c['category'], 'text': c['text'], 'design_ref': 'DESIGN.md section ' + c['design_ref']},
                'level_note': c['note'],
                'technique': c['technique'],
            })
        else:
            na.append({'property_id': pid, 'reason': NOT_YET})
    m = {
        'version': 1,
        'setup_cmd': './setup.sh',
        'hooks': {
            'guard': 'LIBERTEM_BLOBFINDER_VERIF',
            'enable': 'no source hooks are needed: the checks import /repo/src directly (PYTHONPATH) and wrap functions at run time',
            'baseline_off_cmd': 'cd /repo && /venv/bin/python -m pytest -ra -q -p no:cacheprovider --timeout=900 --continue-on-collection-errors',
            'source_commits': [],
            'add_only': True,
        },
        'engines': [{
            'name': 'coq-proof+correspondence', 'path': 'check',
            'serves_properties': sorted(CHECKS),
            'kind_free_text': 'Coq 8.16.1 development (coq/theories: Model, Proofs, Props) + Python harness that re-checks the theorems, '
                              'regenerates the generated layer from /repo source, runs model (vm_compute) and implementation on the same inputs, '
                              'and searches failing inputs with property oracles',
        }],
        'checks': checks,
        'not_applicable': na,
        'notes': 'Genuine defects repaired in /repo by fix: commits are listed in known_findings.json (status fixed); see DESIGN.md section 6.',
    }
    json.dump(m, open(os.path.join(HERE, 'MANIFEST.json'), 'w'), indent=1)
    print('MANIFEST.json: %d checks, %d not_applicable' % (len(checks), len(na)))

if __name__ == '__main__':
    main()
