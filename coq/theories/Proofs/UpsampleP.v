From Coq Require Import ZArith Lia.
From BF Require Import Model.Upsample.
Open Scope Z_scope.
Ltac Zify.zify_post_hook ::= Z.to_euclidean_division_equations.

(* |refined - position| = |j - dftshift| / u <= 0.75 + 0.5/u  for every index j of the upsampled region *)
Theorem upsample_bound u j : 1 <= u -> 0 <= j < us_region u ->
  4 * Z.abs (us_delta u j) <= 3 * u + 2.
Proof. unfold us_delta, us_dftshift, us_region. intros. lia. Qed.

(* the region covers +-(3/4 - 1/(2u)) around the position: nothing closer than that is cut off *)
Theorem upsample_region_covers u d : 1 <= u -> 4 * Z.abs d <= 3 * u - 2 ->
  0 <= d + us_dftshift u < us_region u.
Proof. unfold us_dftshift, us_region. intros. lia. Qed.

(* the grid has spacing 1/u and contains the position itself (delta = 0) *)
Theorem upsample_contains_position u : 1 <= u -> 0 <= us_dftshift u < us_region u /\ us_delta u (us_dftshift u) = 0.
Proof. unfold us_delta, us_dftshift, us_region. intros. lia. Qed.

(* ifftshift puts zero displacement at n/2; corr_center = ceil(n/2) equals it for even n and is n/2+1 for odd n *)
Lemma corr_center_even n : 0 <= n -> Z.even n = true -> us_corr_center n = n / 2.
Proof. intros Hn He. unfold us_corr_center. apply Z.even_spec in He. destruct He as [k ->]. lia. Qed.
