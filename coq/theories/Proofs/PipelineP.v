From Coq Require Import ZArith List Bool Lia.
From BF Require Import Base.Util Model.Crop Model.Corr Model.Eval Model.Prelog Model.Blocks Model.Pipeline
  Proofs.CropP Proofs.BlocksP Proofs.EvalP.
Import ListNotations.
Open Scope Z_scope.

Lemma tabulate_ext H W f g : (forall y x, 0 <= y < H -> 0 <= x < W -> f y x = g y x) ->
  Corr.tabulate H W f = Corr.tabulate H W g.
Proof.
  intros E. unfold Corr.tabulate. apply map_ext_in. intros y Hy. apply in_zseq in Hy.
  apply map_ext_in. intros x Hx. apply in_zseq in Hx. apply E; assumption.
Qed.

(* ---- per-peak locality: entry i of the outputs depends on the frame, the pattern and peak i only ---- *)
Theorem process_frame_fast_per_peak one lg fy fx f c mask peaks n bc out0 i : 0 <= n -> 1 <= bc ->
  process_frame_fast_model one lg fy fx f c mask peaks n bc out0 i =
  if inb n i then fast_peak one lg fy fx f c mask (peaks i) else out0 i.
Proof.
  intros Hn Hbc. unfold process_frame_fast_model.
  exact (process_blocks_spec (fun j => fast_peak one lg fy fx f c mask (peaks j)) n bc out0 i Hn Hbc).
Qed.

Theorem process_frame_full_per_peak one lg fy fx f c mask peaks n bc out0 i : 0 <= n -> 1 <= bc ->
  process_frame_full_model one lg fy fx f c mask peaks n bc out0 i =
  if inb n i then full_peak one lg fy fx f c mask (peaks i) else out0 i.
Proof.
  intros Hn Hbc. unfold process_frame_full_model.
  exact (process_blocks_spec (fun j => full_peak one lg fy fx f c mask (peaks j)) n bc out0 i Hn Hbc).
Qed.

(* ---- the crop into a used buffer slot does not depend on what the slot held (both back-ends) ---- *)
Lemma crop_into_spec b fy fx f c py px old y x :
  0 <= fy -> 0 <= fx -> 0 <= c -> 0 <= y < 2 * c -> 0 <= x < 2 * c ->
  crop_into b fy fx f c py px old y x = pad0 fy fx f (py - c + y) (px - c + x).
Proof.
  intros Hfy Hfx Hc Hy Hx. destruct b; cbn [crop_into].
  - rewrite crop_px_spec. reflexivity.
  - rewrite crop_slice_spec by lia. reflexivity.
Qed.

Theorem fast_peak_via_slot_indep b one lg fy fx f c mask p old :
  0 <= fy -> 0 <= fx -> 0 <= c ->
  fst (fast_peak_via_slot b one lg fy fx f c mask p old) = fast_peak one lg fy fx f c mask p.
Proof.
  intros Hfy Hfx Hc. unfold fast_peak_via_slot, fast_peak, corr_fast, fast_logwin, crop_win. cbn [fst].
  replace (Corr.tabulate (2 * c) (2 * c) (crop_into b fy fx f c (fst p) (snd p) old))
     with (Corr.tabulate (2 * c) (2 * c) (fun y x => unopt (crop_px_at fy fx f c (fst p) (snd p) y x))); [reflexivity|].
  apply tabulate_ext. intros y x Hy Hx. rewrite crop_into_spec by assumption. rewrite crop_px_spec. reflexivity.
Qed.

(* ---- call histories (state machine defined in Model/Pipeline.v) ---- *)
Lemma run_call_outs_nat b one lg fy fx f c mask peaks bc st : 0 <= fy -> 0 <= fx -> 0 <= c -> forall (k : nat) i,
  outs (fold_left (step_peak b one lg fy fx f c mask peaks bc) (zseq (Z.of_nat k)) st) i =
  if inb (Z.of_nat k) i then fast_peak one lg fy fx f c mask (peaks i) else outs st i.
Proof.
  intros Hfy Hfx Hc. induction k as [|k IH]; intros i.
  - cbn. unfold inb. destruct (0 <=? i) eqn:E; cbn [andb]; [|reflexivity].
    destruct (i <? 0) eqn:E2; [apply Z.leb_le in E; apply Z.ltb_lt in E2; lia|reflexivity].
  - replace (Z.of_nat (S k)) with (Z.of_nat k + 1) by lia. rewrite zseq_succ by lia.
    rewrite fold_left_app. cbn [fold_left]. unfold step_peak at 1. cbn [outs].
    destruct (i =? Z.of_nat k) eqn:E.
    + apply Z.eqb_eq in E. subst i. rewrite fast_peak_via_slot_indep by assumption.
      replace (inb (Z.of_nat k + 1) (Z.of_nat k)) with true; [reflexivity|]. symmetry. apply inb_true. lia.
    + apply Z.eqb_neq in E. rewrite IH. unfold inb.
      replace (i <? Z.of_nat k + 1) with (i <? Z.of_nat k); [reflexivity|].
      destruct (i <? Z.of_nat k) eqn:E1; symmetry; [apply Z.ltb_lt; apply Z.ltb_lt in E1; lia|apply Z.ltb_ge; apply Z.ltb_ge in E1; lia].
Qed.

(* whatever the buffers and output arrays contained before (= whatever calls preceded), every output entry in
   [0,n) is written with the pure per-peak result; entries outside keep their value *)
Theorem run_call_outs b one lg fy fx f c mask peaks n bc st i : 0 <= fy -> 0 <= fx -> 0 <= c -> 0 <= n ->
  outs (run_call b one lg fy fx f c mask peaks n bc st) i =
  if inb n i then fast_peak one lg fy fx f c mask (peaks i) else outs st i.
Proof.
  intros Hfy Hfx Hc Hn. unfold run_call. replace n with (Z.of_nat (Z.to_nat n)) by lia.
  apply run_call_outs_nat; assumption.
Qed.

Corollary history_independent b1 b2 one lg fy fx f c mask peaks n bc1 bc2 st1 st2 i :
  0 <= fy -> 0 <= fx -> 0 <= c -> 0 <= n -> 0 <= i < n ->
  outs (run_call b1 one lg fy fx f c mask peaks n bc1 st1) i = outs (run_call b2 one lg fy fx f c mask peaks n bc2 st2) i.
Proof.
  intros. rewrite !run_call_outs by assumption.
  assert (E : inb n i = true) by (apply inb_true; assumption). rewrite E. reflexivity.
Qed.

(* the state after a history is arbitrary as far as the next call is concerned *)
Theorem last_call_of_any_history one lg c mask (hist : list call) (k : call) st0 st_fresh i :
  0 <= k_fy k -> 0 <= k_fx k -> 0 <= c -> 0 <= k_n k -> 0 <= i < k_n k ->
  outs (do_call one lg c mask (fold_left (do_call one lg c mask) hist st0) k) i =
  outs (do_call one lg c mask st_fresh k) i.
Proof. intros. unfold do_call. apply history_independent; assumption. Qed.

(* ---- translation: a window that lies inside both frames has the same content ---- *)
Definition translate (vy vx : Z) (f : frame) : frame := fun y x => f (y - vy) (x - vx).

Lemma window_translate fy fx f fy' fx' vy vx c py px y x :
  0 <= py - c + y < fy -> 0 <= px - c + x < fx ->
  0 <= py + vy - c + y < fy' -> 0 <= px + vx - c + x < fx' ->
  pad0 fy' fx' (translate vy vx f) (py + vy - c + y) (px + vx - c + x) = pad0 fy fx f (py - c + y) (px - c + x).
Proof.
  intros H1 H2 H3 H4. unfold pad0, translate.
  assert (E1 : inb fy (py - c + y) = true) by (apply inb_true; lia).
  assert (E2 : inb fx (px - c + x) = true) by (apply inb_true; lia).
  assert (E3 : inb fy' (py + vy - c + y) = true) by (apply inb_true; lia).
  assert (E4 : inb fx' (px + vx - c + x) = true) by (apply inb_true; lia).
  rewrite E1, E2, E3, E4. cbn [andb]. f_equal; lia.
Qed.

Theorem crop_win_translate fy fx f fy' fx' vy vx c py px : 0 <= c ->
  0 <= py - c -> py + c <= fy -> 0 <= px - c -> px + c <= fx ->
  0 <= py + vy - c -> py + vy + c <= fy' -> 0 <= px + vx - c -> px + vx + c <= fx' ->
  crop_win fy' fx' (translate vy vx f) c (py + vy) (px + vx) = crop_win fy fx f c py px.
Proof.
  intros. unfold crop_win. apply tabulate_ext. intros y x Hy Hx.
  rewrite !crop_px_spec. cbn [unopt]. apply window_translate; lia.
Qed.

(* positions move with the peak, heights and the centre of mass do not *)
Theorem eval_peak_translate c corr py px vy vx :
  let r0 := eval_peak c corr py px in let r1 := eval_peak c corr (py + vy) (px + vx) in
  r_cy r1 = r_cy r0 + vy /\ r_cx r1 = r_cx r0 + vx /\ r_height r1 = r_height r0 /\ r_com r1 = r_com r0.
Proof.
  cbv zeta. unfold eval_peak. destruct (argmax2 (2 * c) (2 * c) corr) as [y x]. cbn. unfold shift. repeat split; lia.
Qed.

Theorem fast_peak_translate one lg fy fx f fy' fx' vy vx c mask py px : 0 <= c ->
  0 <= py - c -> py + c <= fy -> 0 <= px - c -> px + c <= fx ->
  0 <= py + vy - c -> py + vy + c <= fy' -> 0 <= px + vx - c -> px + vx + c <= fx' ->
  let r0 := fast_peak one lg fy fx f c mask (py, px) in
  let r1 := fast_peak one lg fy' fx' (translate vy vx f) c mask (py + vy, px + vx) in
  r_cy r1 = r_cy r0 + vy /\ r_cx r1 = r_cx r0 + vx /\ r_height r1 = r_height r0 /\ r_com r1 = r_com r0.
Proof.
  intros Hc H0 H1 H2 H3 H4 H5 H6 H7 r0 r1. subst r0 r1. unfold fast_peak, corr_fast, fast_logwin. cbn [fst snd].
  rewrite (crop_win_translate fy fx f fy' fx' vy vx c py px) by assumption. apply eval_peak_translate.
Qed.

(* ---- intensity offset: x - min + 1 is unchanged when a constant is added to every pixel ---- *)
Lemma fold_min_shift k l : forall d, fold_left Z.min (map (fun x => x + k) l) (d + k) = fold_left Z.min l d + k.
Proof.
  induction l as [|a l IH]; intros d; cbn [map fold_left]; [reflexivity|].
  replace (Z.min (d + k) (a + k)) with (Z.min d a + k) by lia. apply IH.
Qed.

Lemma concat_map_map {A B} (g : A -> B) (l : list (list A)) : concat (map (map g) l) = map g (concat l).
Proof. induction l as [|a l IH]; cbn; [reflexivity|]. rewrite map_app, IH. reflexivity. Qed.

Lemma min2_shift k l : hd [] l <> [] -> min2 (map (map (fun x => x + k)) l) = min2 l + k.
Proof.
  intros Hne. unfold min2, list_min. rewrite concat_map_map.
  destruct l as [|r l]; [cbn in Hne; congruence|]. destruct r as [|a r]; [cbn in Hne; congruence|].
  cbn [map hd]. apply fold_min_shift.
Qed.

Theorem prelog_offset_invariant one k l : hd [] l <> [] ->
  prelog_s one (map (map (fun x => x + k)) l) = prelog_s one l.
Proof.
  intros Hne. unfold prelog_s. rewrite min2_shift by assumption. rewrite map_map.
  apply map_ext. intros r. rewrite map_map. apply map_ext. intros x. lia.
Qed.

(* ---- dtype: with promotion the argument of the logarithm is the exact one for every dtype ---- *)
Theorem prelog_promoted_exact d l : prelog_code true d l = prelog_exact l.
Proof. unfold prelog_code, prelog_exact. destruct d; reflexivity. Qed.

Lemma prelog_unpromoted_wraps : prelog_code false (DInt 8 false) [[0; 255]] <> prelog_exact [[0; 255]].
Proof. vm_compute. congruence. Qed.

Lemma prelog_unpromoted_wraps_i16 : prelog_code false (DInt 16 true) [[-32768; 32767]] <> prelog_exact [[-32768; 32767]].
Proof. vm_compute. congruence. Qed.

Lemma prelog_s_one l : prelog_s 1 l = prelog_exact l.
Proof. reflexivity. Qed.
