(* C05: rotating / reflecting / translating all inputs rotates / reflects / translates the result.
   Over Q the rotations are the orthogonal matrices with rational entries (reflections, quarter turns, Pythagorean
   rotations such as (3/5, 4/5): dense in O(2)). *)
From Coq Require Import QArith Qround Qabs Qminmax Lqa Lia List Bool ZArith Morphisms.
From BF Require Import Model.Lattice Model.WLS Model.Match Proofs.LatticeP Proofs.WLSP Proofs.AffineP Proofs.MatchP Proofs.MatchExactP.
Import ListNotations.
Open Scope Q_scope.

Record omap := { m11 : Q; m12 : Q; m21 : Q; m22 : Q; oty : Q; otx : Q }.
Definition lin (M : omap) (v : vec) : vec := (m11 M * vy v + m12 M * vx v, m21 M * vy v + m22 M * vx v).
Definition aff (M : omap) (v : vec) : vec := (vy (lin M v) + oty M, vx (lin M v) + otx M).
Definition orthogonal (M : omap) : Prop :=
  m11 M * m11 M + m21 M * m21 M == 1 /\ m12 M * m12 M + m22 M * m22 M == 1 /\ m11 M * m12 M + m21 M * m22 M == 0.
Definition odet (M : omap) : Q := m11 M * m22 M - m12 M * m21 M.

Lemma odet_sq M : orthogonal M -> odet M * odet M == 1.
Proof.
  intros (H1 & H2 & H3). unfold odet.
  transitivity ((m11 M * m11 M + m21 M * m21 M) * (m12 M * m12 M + m22 M * m22 M) - (m11 M * m12 M + m21 M * m22 M) * (m11 M * m12 M + m21 M * m22 M)); [ring|].
  rewrite H1, H2, H3. ring.
Qed.

Lemma odet_nz M : orthogonal M -> ~ odet M == 0.
Proof. intros H E. pose proof (odet_sq M H) as S. rewrite E in S. lra. Qed.

Lemma det2_lin M a b : det2 (lin M a) (lin M b) == odet M * det2 a b.
Proof. unfold det2, lin, odet, vy, vx. cbn [fst snd]. ring. Qed.

Lemma norm2_lin M a : orthogonal M -> norm2 (lin M a) == norm2 a.
Proof.
  intros (H1 & H2 & H3). unfold norm2, lin, vy, vx. cbn [fst snd].
  transitivity (fst a * fst a * (m11 M * m11 M + m21 M * m21 M) + snd a * snd a * (m12 M * m12 M + m22 M * m22 M)
                + (2#1) * fst a * snd a * (m11 M * m12 M + m21 M * m22 M)); [ring|].
  rewrite H1, H2, H3. ring.
Qed.

Lemma lin_veq M u v : veq u v -> veq (lin M u) (lin M v).
Proof. intros [H1 H2]. unfold lin, veq, vy, vx in *. cbn [fst snd]. rewrite H1, H2. split; reflexivity. Qed.
Lemma aff_veq M u v : veq u v -> veq (aff M u) (aff M v).
Proof. intros H. destruct (lin_veq M u v H) as [H1 H2]. unfold aff, veq, vy, vx in *. cbn [fst snd]. rewrite H1, H2. split; reflexivity. Qed.

Lemma Qeq_bool_scaled x y k : ~ k == 0 -> x == k * y -> Qeq_bool x 0 = Qeq_bool y 0.
Proof.
  intros Hk E. destruct (Qeq_bool x 0) eqn:E1, (Qeq_bool y 0) eqn:E2; try reflexivity.
  - apply Qeq_bool_iff in E1. apply Qeq_bool_false in E2. exfalso. apply E2. rewrite E in E1.
    destruct (Qmult_integral _ _ E1); [contradiction|assumption].
  - apply Qeq_bool_iff in E2. apply Qeq_bool_false in E1. exfalso. apply E1. rewrite E, E2. ring.
Qed.

Lemma err2_norm_comp a a' b b' ij ij' : norm2 a == norm2 a' -> norm2 b == norm2 b' -> veq ij ij' -> err2 a b ij == err2 a' b' ij'.
Proof.
  intros Ha Hb [H1 H2]. unfold err2. rewrite Ha, Hb.
  rewrite (round_he_proper _ _ H1), (round_he_proper _ _ H2), H1, H2. reflexivity.
Qed.

(* one point: the index found and the accept/reject decision are invariant *)
Theorem match_point_orthogonal tol2 M zero a b p : orthogonal M ->
  match_point tol2 (aff M zero) (lin M a) (lin M b) (aff M p) = match_point tol2 zero a b p.
Proof.
  intros HO. pose proof (odet_nz M HO) as Hk. unfold match_point, get_index.
  rewrite (Qeq_bool_scaled _ _ _ Hk (det2_lin M a b)).
  destruct (Qeq_bool (det2 a b) 0) eqn:E; [reflexivity|]. apply Qeq_bool_false in E.
  set (i' := ((vy (aff M p) - vy (aff M zero)) * vx (lin M b) - (vx (aff M p) - vx (aff M zero)) * vy (lin M b)) / det2 (lin M a) (lin M b)).
  set (j' := (vy (lin M a) * (vx (aff M p) - vx (aff M zero)) - vx (lin M a) * (vy (aff M p) - vy (aff M zero))) / det2 (lin M a) (lin M b)).
  set (i := ((vy p - vy zero) * vx b - (vx p - vx zero) * vy b) / det2 a b).
  set (j := (vy a * (vx p - vx zero) - vx a * (vy p - vy zero)) / det2 a b).
  assert (V1 : i' == i).
  { unfold i', i. rewrite (det2_lin M a b).
    assert (N : (vy (aff M p) - vy (aff M zero)) * vx (lin M b) - (vx (aff M p) - vx (aff M zero)) * vy (lin M b)
                == odet M * ((vy p - vy zero) * vx b - (vx p - vx zero) * vy b))
      by (unfold aff, lin, odet, vy, vx; cbn [fst snd]; ring).
    rewrite N. field. split; assumption. }
  assert (V2 : j' == j).
  { unfold j', j. rewrite (det2_lin M a b).
    assert (N : vy (lin M a) * (vx (aff M p) - vx (aff M zero)) - vx (lin M a) * (vy (aff M p) - vy (aff M zero))
                == odet M * (vy a * (vx p - vx zero) - vx a * (vy p - vy zero)))
      by (unfold aff, lin, odet, vy, vx; cbn [fst snd]; ring).
    rewrite N. field. split; assumption. }
  assert (V : veq (vred (i', j')) (vred (i, j))).
  { eapply veq_trans; [apply vred_veq|]. eapply veq_trans; [|split; symmetry; apply (vred_veq (i, j))]. split; assumption. }
  cbv zeta.
  rewrite (Qlt_bool_comp _ _ tol2 (err2_norm_comp _ _ _ _ _ _ (norm2_lin M a HO) (norm2_lin M b HO) V)).
  destruct V as [W1 W2]. rewrite (round_he_proper _ _ W1), (round_he_proper _ _ W2). reflexivity.
Qed.

Definition tpeak (M : omap) (k : peak) : peak := {| k_w := k_w k; k_p := aff M (k_p k) |}.

Theorem match_all_orthogonal tol2 M zero a b pts : orthogonal M -> forall sel,
  match_all tol2 (aff M zero) (lin M a) (lin M b) sel (map (tpeak M) pts) = match_all tol2 zero a b sel pts.
Proof.
  intros HO sel. unfold match_all. rewrite (Qeq_bool_scaled _ _ _ (odet_nz M HO) (det2_lin M a b)).
  destruct (Qeq_bool (det2 a b) 0); [reflexivity|]. f_equal.
  revert sel. induction pts as [|k l IH]; intros sel; [destruct sel; reflexivity|].
  destruct sel as [|s sel]; [reflexivity|]. cbn [map combine fst snd]. f_equal; [|apply IH].
  destruct s; [|reflexivity]. unfold tpeak at 1. cbn [k_p]. rewrite (match_point_orthogonal tol2 M zero a b (k_p k) HO). reflexivity.
Qed.

(* the selector only looks at the weights *)
Lemma sel_tpeak M mw pts : map (fun k => Qle_bool mw (k_w k)) (map (tpeak M) pts) = map (fun k => Qle_bool mw (k_w k)) pts.
Proof. rewrite map_map. reflexivity. Qed.

(* the points handed to the fit: same weights and indices, transformed positions *)
Definition tpt (M : omap) (q : pt) : pt :=
  {| pw := pw q; pi := pi q; pj := pj q; py := m11 M * py q + m12 M * px q + oty M; px := m21 M * py q + m22 M * px q + otx M |}.

Lemma fit_points_tpeak M m pts : fit_points m (map (tpeak M) pts) = map (tpt M) (fit_points m pts).
Proof.
  unfold fit_points. revert m. induction pts as [|k l IH]; intros m; [destruct m; reflexivity|].
  destruct m as [|o m]; [reflexivity|]. cbn [map combine flat_map fst snd]. rewrite IH, map_app. f_equal.
  destruct o as [[i j]|]; reflexivity.
Qed.

Definition to_row2 (q : pt) : row2 := {| w2 := pw q; i2 := pi q; j2 := pj q; p2a := py q; p2b := px q |}.

Lemma rows_as_row2 l : rows_y l = ra (map to_row2 l) /\ rows_x l = rb (map to_row2 l).
Proof. unfold rows_y, rows_x, ra, rb. rewrite !map_map. split; reflexivity. Qed.

Lemma rows_tpt M l : rows_y (map (tpt M) l) = rc (m11 M) (m12 M) (oty M) (map to_row2 l) /\
                     rows_x (map (tpt M) l) = rc (m21 M) (m22 M) (otx M) (map to_row2 l).
Proof. unfold rows_y, rows_x, rc. rewrite !map_map. split; reflexivity. Qed.

(* singularity of the normal equations depends on weights and indices only *)
Lemma ndet_rc al be ga l : ndet (sums_of (rc al be ga l)) == ndet (sums_of (ra l)) /\ ndet (sums_of (rb l)) == ndet (sums_of (ra l)).
Proof.
  pose proof (sums_lin al be ga l) as ES. cbv zeta in ES.
  destruct ES as (b1 & b2 & b3 & b4 & b5 & b6 & c1 & c2 & c3 & c4 & c5 & c6 & _).
  unfold ndet, det3. rewrite c1, c2, c3, c4, c5, c6, b1, b2, b3, b4, b5, b6. split; reflexivity.
Qed.

Lemma solve3_none s : solve3 s = None <-> ndet s == 0.
Proof.
  unfold solve3. destruct (Qeq_bool (ndet s) 0) eqn:E.
  - apply Qeq_bool_iff in E. split; [intros _; exact E|reflexivity].
  - apply Qeq_bool_neq in E. split; [discriminate|intros C; contradiction].
Qed.

Lemma wls3_tpt M l :
  match wls3 l with
  | None => wls3 (map (tpt M) l) = None
  | Some (z, a, b) => exists z' a' b', wls3 (map (tpt M) l) = Some (z', a', b') /\ veq z' (aff M z) /\ veq a' (lin M a) /\ veq b' (lin M b)
  end.
Proof.
  unfold wls3. destruct (rows_as_row2 l) as [Ey Ex]. destruct (rows_tpt M l) as [Ty Tx]. rewrite Ey, Ex, Ty, Tx.
  set (l2 := map to_row2 l).
  destruct (ndet_rc (m11 M) (m12 M) (oty M) l2) as [Ny Nb]. destruct (ndet_rc (m21 M) (m22 M) (otx M) l2) as [Nx _].
  destruct (wls_col (ra l2)) as [[[zy ay] by_]|] eqn:Ea.
  - destruct (wls_col (rb l2)) as [[[zx ax] bx]|] eqn:Eb.
    + destruct (response_linear (m11 M) (m12 M) (oty M) l2 _ _ _ _ _ _ Ea Eb) as (u0 & u1 & u2 & Eu & U0 & U1 & U2).
      destruct (response_linear (m21 M) (m22 M) (otx M) l2 _ _ _ _ _ _ Ea Eb) as (v0 & v1 & v2 & Ev & V0 & V1 & V2).
      rewrite Eu, Ev. exists (u0, v0), (u1, v1), (u2, v2). split; [reflexivity|].
      unfold veq, aff, lin, vy, vx. cbn [fst snd]. repeat split; assumption.
    + unfold wls_col in Eb. apply solve3_none in Eb. rewrite Nb in Eb.
      assert (E1 : wls_col (rc (m11 M) (m12 M) (oty M) l2) = None) by (apply solve3_none; rewrite Ny; exact Eb).
      rewrite E1. reflexivity.
  - unfold wls_col in Ea. apply solve3_none in Ea.
    assert (E1 : wls_col (rc (m11 M) (m12 M) (oty M) l2) = None) by (apply solve3_none; rewrite Ny; exact Ea).
    rewrite E1. reflexivity.
Qed.

(* results related by the map: same validity / reason, same selection and indices, lattice transformed *)
Definition fm_rel (M : omap) (r r' : fm_result) : Prop :=
  match r, r' with
  | Invalid c, Invalid c' => c = c'
  | Valid m z a b, Valid m' z' a' b' => m' = m /\ veq z' (aff M z) /\ veq a' (lin M a) /\ veq b' (lin M b)
  | _, _ => False
  end.

Lemma vred_lin M v v' : veq v' (lin M v) -> veq (vred v') (lin M (vred v)).
Proof.
  intros H. eapply veq_trans; [apply vred_veq|]. eapply veq_trans; [exact H|]. apply lin_veq. destruct (vred_veq v) as [A B]. split; symmetry; assumption.
Qed.
Lemma vred_aff M v v' : veq v' (aff M v) -> veq (vred v') (aff M (vred v)).
Proof.
  intros H. eapply veq_trans; [apply vred_veq|]. eapply veq_trans; [exact H|]. apply aff_veq. destruct (vred_veq v) as [A B]. split; symmetry; assumption.
Qed.

Theorem fastmatch_orthogonal tol2 mw mm M zero a b pts : orthogonal M ->
  fm_rel M (fastmatch tol2 mw mm zero a b pts) (fastmatch tol2 mw mm (aff M zero) (lin M a) (lin M b) (map (tpeak M) pts)).
Proof.
  intros HO. unfold fastmatch. rewrite sel_tpeak. set (sel := map (fun k => Qle_bool mw (k_w k)) pts).
  rewrite (match_all_orthogonal tol2 M zero a b pts HO sel).
  destruct (match_all tol2 zero a b sel pts) as [m1|]; [|reflexivity].
  destruct (count_some m1 <? mm)%Z; [reflexivity|].
  rewrite fit_points_tpeak. pose proof (wls3_tpt M (fit_points m1 pts)) as W1.
  destruct (wls3 (fit_points m1 pts)) as [[[z1 a1] b1]|]; [|rewrite W1; reflexivity].
  destruct W1 as (z1' & a1' & b1' & E1 & Vz & Va & Vb). rewrite E1. cbv zeta.
  rewrite (match_all_comp tol2 (vred z1') (aff M (vred z1)) (vred a1') (lin M (vred a1)) (vred b1') (lin M (vred b1)) sel (map (tpeak M) pts)
             (vred_aff M z1 z1' Vz) (vred_lin M a1 a1' Va) (vred_lin M b1 b1' Vb)).
  rewrite (match_all_orthogonal tol2 M (vred z1) (vred a1) (vred b1) pts HO sel).
  destruct (match_all tol2 (vred z1) (vred a1) (vred b1) sel pts) as [m2|]; [|reflexivity].
  destruct (count_some m2 <? mm)%Z; [reflexivity|].
  rewrite fit_points_tpeak. pose proof (wls3_tpt M (fit_points m2 pts)) as W2.
  destruct (wls3 (fit_points m2 pts)) as [[[z2 a2] b2]|]; [|rewrite W2; reflexivity].
  destruct W2 as (z2' & a2' & b2' & E2 & Vz2 & Va2 & Vb2). rewrite E2. cbn [fm_rel]. split; [reflexivity|]. split; [exact Vz2|]. split; [exact Va2|exact Vb2].
Qed.

(* non-vacuity: a rational rotation by atan(4/3) with a translation is orthogonal; so is a reflection *)
Example pythagorean_rotation_is_orthogonal : orthogonal {| m11 := 3#5; m12 := -(4#5); m21 := 4#5; m22 := 3#5; oty := 7; otx := -(2#3) |}.
Proof. unfold orthogonal. cbn. repeat split; reflexivity. Qed.
Example axis_swap_is_orthogonal : orthogonal {| m11 := 0; m12 := 1; m21 := 1; m22 := 0; oty := 0; otx := 0 |}.
Proof. unfold orthogonal. cbn. repeat split; reflexivity. Qed.
