(* Weak peaks (elevation < min_weight, or NaN) have no influence whatsoever on the fast match:
   not on the selection, not on the indices, not on the fitted lattice, not on validity. *)
From Coq Require Import QArith Qabs Qminmax Lqa Lia List Bool ZArith.
From BF Require Import Model.Lattice Model.WLS Model.Match Proofs.LatticeP Proofs.MatchP.
Import ListNotations.
Open Scope Q_scope.

Definition selw (mw : Q) (k : peak) : bool := Qle_bool mw (k_w k).

(* same position; same weight, or both weak *)
Definition weak_eq (mw : Q) (p p' : peak) : Prop :=
  k_p p = k_p p' /\ (k_w p = k_w p' \/ (selw mw p = false /\ selw mw p' = false)).

Lemma sel_weak_eq mw pts pts' : Forall2 (weak_eq mw) pts pts' -> map (selw mw) pts = map (selw mw) pts'.
Proof.
  induction 1 as [|p p' l l' [_ Hw] _ IH]; [reflexivity|]. cbn [map]. f_equal; [|exact IH].
  destruct Hw as [Hw|[H1 H2]]; [unfold selw; rewrite Hw; reflexivity|rewrite H1, H2; reflexivity].
Qed.

Lemma match_all_weak_eq mw tol2 z a b pts pts' : Forall2 (weak_eq mw) pts pts' ->
  forall sel, match_all tol2 z a b sel pts = match_all tol2 z a b sel pts'.
Proof.
  intros H sel. unfold match_all. destruct (Qeq_bool (det2 a b) 0); [reflexivity|]. f_equal.
  revert sel. induction H as [|p p' l l' [Hp _] _ IH]; intros sel; [reflexivity|].
  destruct sel as [|s sel]; [reflexivity|]. cbn [combine map fst snd]. rewrite Hp. f_equal. apply IH.
Qed.

(* entries of a match are None wherever the selector is false *)
Lemma match_all_selected mw tol2 z a b pts m : match_all tol2 z a b (map (selw mw) pts) pts = Some m ->
  Forall2 (fun o p => o <> None -> selw mw p = true) m pts.
Proof.
  unfold match_all. destruct (Qeq_bool (det2 a b) 0); [discriminate|]. intros H. injection H as <-.
  induction pts as [|p l IH]; [constructor|]. cbn [map combine fst snd]. constructor; [|exact IH].
  destruct (selw mw p); [reflexivity|intros C; contradiction C; reflexivity].
Qed.

Lemma fit_points_weak_eq mw pts pts' : Forall2 (weak_eq mw) pts pts' ->
  forall m, Forall2 (fun o p => o <> None -> selw mw p = true) m pts -> fit_points m pts = fit_points m pts'.
Proof.
  unfold fit_points. induction 1 as [|p p' l l' [Hp Hw] _ IH]; intros m Hm.
  - destruct m; reflexivity.
  - inversion Hm as [|o q m' l0 Ho Hm' E1 E2]; subst. cbn [combine flat_map fst snd]. f_equal; [|apply IH; exact Hm'].
    destruct o as [[i j]|]; [|reflexivity].
    destruct Hw as [Hw|[H1 _]]; [rewrite Hw, Hp; reflexivity|].
    rewrite Ho in H1; [discriminate|discriminate].
Qed.

Theorem fastmatch_ignores_weak_weights tol2 mw mm zero a b pts pts' : Forall2 (weak_eq mw) pts pts' ->
  fastmatch tol2 mw mm zero a b pts = fastmatch tol2 mw mm zero a b pts'.
Proof.
  intros H. unfold fastmatch. fold (selw mw). rewrite <- (sel_weak_eq mw pts pts' H).
  rewrite <- (match_all_weak_eq mw tol2 zero a b pts pts' H).
  destruct (match_all tol2 zero a b (map (selw mw) pts) pts) as [m1|] eqn:E1; [|reflexivity].
  rewrite <- (fit_points_weak_eq mw pts pts' H m1 (match_all_selected mw tol2 zero a b pts m1 E1)).
  destruct (count_some m1 <? mm)%Z; [reflexivity|].
  destruct (wls3 (fit_points m1 pts)) as [[[z1 a1] b1]|]; [|reflexivity]. cbv zeta.
  rewrite <- (match_all_weak_eq mw tol2 (vred z1) (vred a1) (vred b1) pts pts' H).
  destruct (match_all tol2 (vred z1) (vred a1) (vred b1) (map (selw mw) pts) pts) as [m2|] eqn:E2; [|reflexivity].
  rewrite <- (fit_points_weak_eq mw pts pts' H m2 (match_all_selected mw tol2 _ _ _ pts m2 E2)).
  reflexivity.
Qed.

(* NaN elevations: the result is the one obtained with ANY weight below min_weight in place of each NaN,
   in particular a NaN peak is never selected and never enters the fit *)
Definition felev_as (mw : Q) (w : Q) (e : felev) : Q := match e with EVal q => q | ENaN => w end.

Theorem fastmatch_f_nan_is_weak tol2 mw mm zero a b (pts : list (felev * vec)) (w : Q) : w < mw ->
  fastmatch_f tol2 mw mm zero a b pts =
  fastmatch tol2 mw mm zero a b (map (fun ep : felev * vec => {| k_w := felev_as mw w (fst ep); k_p := snd ep |}) pts).
Proof.
  intros Hw. unfold fastmatch_f. apply fastmatch_ignores_weak_weights.
  induction pts as [|[e p] l IH]; [constructor|]. cbn [map]. constructor; [|exact IH].
  split; [reflexivity|]. destruct e as [|q]; [|left; reflexivity]. right. unfold selw. cbn.
  split; apply not_true_is_false; intros C; apply Qle_bool_iff in C; lra.
Qed.

Theorem fastmatch_f_nan_never_selected tol2 mw mm zero a b pts m z2 a2 b2 :
  fastmatch_f tol2 mw mm zero a b pts = Valid m z2 a2 b2 ->
  forall k o p, nth_error m k = Some (Some o) -> nth_error pts k = Some p -> exists q, fst p = EVal q /\ mw <= q.
Proof.
  unfold fastmatch_f. intros H k o [e p] Hm Hp.
  destruct (fastmatch_valid_spec _ _ _ _ _ _ _ _ _ _ _ H) as (_ & _ & _ & Hsel).
  specialize (Hsel k o {| k_w := felev_weight mw e; k_p := p |} Hm).
  rewrite nth_error_map, Hp in Hsel. specialize (Hsel eq_refl). cbn in Hsel.
  destruct e as [|q]; cbn in *; [lra|exists q; split; [reflexivity|exact Hsel]].
Qed.
