From Coq Require Import ZArith List Bool Lia.
From BF Require Import Base.Util Model.Crop.
Import ListNotations.
Open Scope Z_scope.

Ltac destr_ifs := repeat match goal with |- context [if ?b then _ else _] => destruct b eqn:? end.

(* per-pixel back-end: equals the zero-padded window, never reads out of bounds,
   for every frame shape (also empty), crop size, buffer shape, peak and pixel *)
Lemma crop_px_spec fy fx f c py px y x :
  crop_px_at fy fx f c py px y x = Some (pad0 fy fx f (py - c + y) (px - c + x)).
Proof.
  unfold crop_px_at, pad0, rd, frame_coord, inb.
  replace (y + py - c) with (py - c + y) by lia. replace (x + px - c) with (px - c + x) by lia.
  destr_ifs; try reflexivity; exfalso; lia.
Qed.

Lemma lens_agree f c h p : 0 <= f -> 0 <= h -> tgt_len f c h p = src_len f c h p.
Proof.
  intros Hf Hh. unfold tgt_len, src_len, s_cut, s_skip, s_origin, s_end, frame_coord, slice_len, slice_hi, slice_lo, adj.
  destr_ifs; lia.
Qed.

Lemma assigned_maps f c h p j : 0 <= f -> 0 <= h ->
  tgt_lo c h p <= j < tgt_lo c h p + tgt_len f c h p ->
  src_lo f c p + (j - tgt_lo c h p) = p - c + j /\ 0 <= p - c + j < f /\ 0 <= j < h.
Proof.
  intros Hf Hh. unfold tgt_lo, tgt_len, src_lo, s_cut, s_skip, s_origin, s_end, frame_coord, slice_len, slice_hi, slice_lo, adj.
  destr_ifs; lia.
Qed.

Lemma inframe_assigned f c h p j : 0 <= f -> 0 <= h -> 0 <= j < h -> 0 <= p - c + j < f ->
  tgt_lo c h p <= j < tgt_lo c h p + tgt_len f c h p.
Proof.
  intros Hf Hh. unfold tgt_lo, tgt_len, s_cut, s_skip, s_origin, s_end, frame_coord, slice_len, slice_hi, slice_lo, adj.
  destr_ifs; lia.
Qed.

(* slicing back-end (with the zeroing statement): no shape error, no out-of-bounds read,
   equal to the zero-padded window whatever the buffer held before *)
Lemma crop_slice_spec fy fx f c h w py px old y x :
  0 <= fy -> 0 <= fx -> 0 <= h -> 0 <= w -> 0 <= y < h -> 0 <= x < w ->
  crop_slice_at true fy fx f c h w py px old y x = WVal (Some (pad0 fy fx f (py - c + y) (px - c + x))).
Proof.
  intros Hfy Hfx Hh Hw Hy Hx. unfold crop_slice_at.
  rewrite (lens_agree fy c h py), (lens_agree fx c w px) by assumption.
  rewrite !Z.eqb_refl. cbn [andb].
  destruct ((tgt_lo c h py <=? y) && (y <? tgt_lo c h py + src_len fy c h py) &&
            (tgt_lo c w px <=? x) && (x <? tgt_lo c w px + src_len fx c w px)) eqn:E.
  - rewrite !andb_true_iff, !Z.leb_le, !Z.ltb_lt in E. destruct E as [[[E1 E2] E3] E4].
    rewrite <- (lens_agree fy c h py) in E2 by assumption.
    rewrite <- (lens_agree fx c w px) in E4 by assumption.
    destruct (assigned_maps fy c h py y Hfy Hh (conj E1 E2)) as (-> & Hyy & _).
    destruct (assigned_maps fx c w px x Hfx Hw (conj E3 E4)) as (-> & Hxx & _).
    unfold rd, pad0. apply inb_true in Hyy, Hxx. rewrite Hyy, Hxx. reflexivity.
  - f_equal. f_equal. unfold pad0.
    destruct (inb fy (py - c + y)) eqn:Iy; [|reflexivity].
    destruct (inb fx (px - c + x)) eqn:Ix; [|reflexivity].
    exfalso. apply inb_true in Iy, Ix.
    pose proof (inframe_assigned fy c h py y Hfy Hh Hy Iy) as Ay.
    pose proof (inframe_assigned fx c w px x Hfx Hw Hx Ix) as Ax.
    rewrite (lens_agree fy c h py) in Ay by assumption.
    rewrite (lens_agree fx c w px) in Ax by assumption.
    rewrite !andb_false_iff, !Z.leb_gt, !Z.ltb_ge in E. lia.
Qed.

(* the same function WITHOUT the zeroing statement keeps stale data: the defect that was fixed *)
Lemma crop_slice_stale_without_zeroing :
  exists fy fx f c h w py px old y x,
    0 <= y < h /\ 0 <= x < w /\
    crop_slice_at false fy fx f c h w py px old y x <> WVal (Some (pad0 fy fx f (py - c + y) (px - c + x))).
Proof.
  exists 6, 7, (fun _ _ => 1), 2, 4, 4, 0, 0, (fun _ _ => 77), 0, 0.
  split; [lia|]. split; [lia|]. vm_compute. discriminate.
Qed.

Lemma crop_backends_agree fy fx f c h w py px old y x :
  0 <= fy -> 0 <= fx -> 0 <= h -> 0 <= w -> 0 <= y < h -> 0 <= x < w ->
  crop_slice_at true fy fx f c h w py px old y x = WVal (crop_px_at fy fx f c py px y x).
Proof. intros. rewrite crop_slice_spec, crop_px_spec by assumption. reflexivity. Qed.

(* the writes stay inside the buffer: every index the slice assignment touches is in [0,h)x[0,w) *)
Lemma crop_slice_writes_in_bounds f c h p j : 0 <= f -> 0 <= h ->
  tgt_lo c h p <= j < tgt_lo c h p + tgt_len f c h p -> 0 <= j < h.
Proof. intros Hf Hh H. apply (assigned_maps f c h p j Hf Hh H). Qed.

(* windows entirely outside the frame are all zero *)
Lemma crop_outside_zero fy fx f c py px y x : 0 <= y -> 0 <= x ->
  (py - c >= fy \/ px - c >= fx \/ py - c + y < 0 \/ px - c + x < 0) ->
  crop_px_at fy fx f c py px y x = Some 0.
Proof.
  intros Hy Hx H. rewrite crop_px_spec. f_equal. unfold pad0, inb. destr_ifs; try reflexivity; exfalso; lia.
Qed.
