(* C01: a flat disk on a uniform background is located exactly.
   - xcorr of (background + amplitude * indicator) = background * (mask sum) + amplitude * (mask summed over the displaced disk);
   - bathtub / sign lemmas: no displaced copy of the disk collects more mask weight than the centred one;
   - a point-symmetric neighbourhood has its centre of mass exactly on its centre. *)
From Coq Require Import ZArith List Bool Lia Permutation.
From BF Require Import Base.Util Model.Corr Model.Eval Proofs.CorrP Proofs.EvalP.
Import ListNotations.
Open Scope Z_scope.

(* ---------- decomposition ---------- *)
Theorem xcorr_of_disk N M (ind m : img) b A i k :
  xcorr N M (fun y x => b + A * ind y x) m i k =
  b * Zsum N (fun t => Zsum M (fun u => m t u)) + A * xcorr N M ind m i k.
Proof.
  unfold xcorr, Zsum. rewrite <- !sumZ_map_scale, <- sumZ_map_add. apply sumZ_map_ext. intros t _.
  rewrite <- !sumZ_map_scale, <- sumZ_map_add. apply sumZ_map_ext. intros u _. lia.
Qed.

(* ---------- bathtub principle over finite pixel sets (duplicate-free lists) ---------- *)
Section Bathtub.
Context {P : Type} (Peq : forall a b : P, {a = b} + {a <> b}).

Definition msum (m : P -> Z) (S : list P) : Z := sumZ (map m S).
Definition memb (x : P) (S : list P) : bool := if in_dec Peq x S then true else false.

Lemma memb_true x S : memb x S = true <-> In x S.
Proof. unfold memb. destruct (in_dec Peq x S); split; intros; try assumption; try reflexivity; try discriminate; contradiction. Qed.

Lemma msum_filter_split (f : P -> Z) (p : P -> bool) S :
  msum f S = msum f (filter p S) + msum f (filter (fun x => negb (p x)) S).
Proof.
  unfold msum. induction S as [|x S IH]; cbn [filter map]; [reflexivity|].
  change (sumZ (f x :: map f S)) with (f x + sumZ (map f S)). rewrite IH.
  destruct (p x); cbn [negb map]; change (sumZ (?a :: ?l)) with (a + sumZ l); lia.
Qed.

Lemma msum_nonneg (f : P -> Z) S : (forall x, In x S -> 0 <= f x) -> 0 <= msum f S.
Proof. intros H. unfold msum. apply sumZ_nonneg. intros z Hz. apply in_map_iff in Hz. destruct Hz as (x & <- & Hx). apply H, Hx. Qed.

Lemma msum_nonpos (f : P -> Z) S : (forall x, In x S -> f x <= 0) -> msum f S <= 0.
Proof.
  intros H. unfold msum. induction S as [|x S IH]; [cbn; lia|]. cbn [map]. change (sumZ (?a :: ?l)) with (a + sumZ l).
  assert (f x <= 0) by (apply H; left; reflexivity).
  assert (sumZ (map f S) <= 0) by (apply IH; intros; apply H; right; assumption). lia.
Qed.

Lemma msum_perm (f : P -> Z) S T : Permutation S T -> msum f S = msum f T.
Proof. intros H. unfold msum. apply sumZ_perm, Permutation_map, H. Qed.

Lemma msum_const c S : msum (fun _ => c) S = c * Z.of_nat (length S).
Proof. unfold msum. induction S as [|x S IH]; [cbn; lia|]. cbn [map length]. change (sumZ (?a :: ?l)) with (a + sumZ l). rewrite IH. lia. Qed.

Lemma msum_sub (f : P -> Z) c S : msum (fun x => f x - c) S = msum f S - c * Z.of_nat (length S).
Proof. unfold msum. induction S as [|x S IH]; [cbn; lia|]. cbn [map length]. change (sumZ (?a :: ?l)) with (a + sumZ l). rewrite IH. lia. Qed.

Lemma inter_perm S D : NoDup S -> NoDup D ->
  Permutation (filter (fun x => memb x D) S) (filter (fun x => memb x S) D).
Proof.
  intros HS HD. apply NoDup_Permutation; try (apply NoDup_filter; assumption).
  intros x. rewrite !filter_In, !memb_true. tauto.
Qed.

(* the weight a set S of |D| pixels collects is at most the weight of D, if the mask on D is >= tau >= the mask off D *)
Theorem bathtub (m : P -> Z) (tau : Z) (D S : list P) : NoDup D -> NoDup S -> length S = length D ->
  (forall x, In x D -> tau <= m x) -> (forall x, ~ In x D -> m x <= tau) ->
  msum m S <= msum m D.
Proof.
  intros HD HS HL Hin Hout.
  assert (G : msum (fun x => m x - tau) S <= msum (fun x => m x - tau) D).
  { rewrite (msum_filter_split _ (fun x => memb x D) S), (msum_filter_split _ (fun x => memb x S) D).
    rewrite (msum_perm _ _ _ (inter_perm S D HS HD)).
    assert (msum (fun x => m x - tau) (filter (fun x => negb (memb x D)) S) <= 0).
    { apply msum_nonpos. intros x Hx. apply filter_In in Hx. destruct Hx as [_ Hx]. apply negb_true_iff in Hx.
      assert (~ In x D) by (intros Hc; apply memb_true in Hc; congruence). specialize (Hout x H). lia. }
    assert (0 <= msum (fun x => m x - tau) (filter (fun x => negb (memb x S)) D)).
    { apply msum_nonneg. intros x Hx. apply filter_In in Hx. destruct Hx as [Hx _]. specialize (Hin x Hx). lia. }
    lia. }
  rewrite !msum_sub, HL in G. lia.
Qed.

(* sign version (no cardinality needed): mask >= 0 on D and <= 0 off D *)
Theorem sign_lemma (m : P -> Z) (D S : list P) : NoDup D -> NoDup S ->
  (forall x, In x D -> 0 <= m x) -> (forall x, ~ In x D -> m x <= 0) -> msum m S <= msum m D.
Proof.
  intros HD HS Hin Hout.
  rewrite (msum_filter_split m (fun x => memb x D) S), (msum_filter_split m (fun x => memb x S) D).
  rewrite (msum_perm _ _ _ (inter_perm S D HS HD)).
  assert (msum m (filter (fun x => negb (memb x D)) S) <= 0).
  { apply msum_nonpos. intros x Hx. apply filter_In in Hx. destruct Hx as [_ Hx]. apply negb_true_iff in Hx.
    apply Hout. intros Hc. apply memb_true in Hc. congruence. }
  assert (0 <= msum m (filter (fun x => negb (memb x S)) D)).
  { apply msum_nonneg. intros x Hx. apply filter_In in Hx. destruct Hx as [Hx _]. apply Hin, Hx. }
  lia.
Qed.
End Bathtub.

(* ---------- a point-symmetric neighbourhood has its centre of mass on its centre ---------- *)
Lemma Zsum_reflect n (f : Z -> Z) : 0 <= n -> Zsum (n + 1) f = Zsum (n + 1) (fun t => f (n - t)).
Proof.
  intros Hn. symmetry. apply (Zsum_reindex (n + 1) (fun t => n - t) f); intros; lia.
Qed.

Theorem symmetric_com_is_centre r (v : Z -> Z -> Z) : 0 <= r ->
  (forall dy dx, 0 <= dy <= 2 * r -> 0 <= dx <= 2 * r -> v dy dx = v (2 * r - dy) (2 * r - dx)) ->
  let n := 2 * r + 1 in
  2 * Zsum n (fun dy => Zsum n (fun dx => dy * v dy dx)) = 2 * r * Zsum n (fun dy => Zsum n (fun dx => v dy dx)) /\
  2 * Zsum n (fun dy => Zsum n (fun dx => dx * v dy dx)) = 2 * r * Zsum n (fun dy => Zsum n (fun dx => v dy dx)).
Proof.
  intros Hr Hs. cbv zeta.
  assert (R : forall g : Z -> Z -> Z,
    Zsum (2 * r + 1) (fun dy => Zsum (2 * r + 1) (fun dx => g dy dx)) =
    Zsum (2 * r + 1) (fun dy => Zsum (2 * r + 1) (fun dx => g (2 * r - dy) (2 * r - dx)))).
  { intros g. rewrite (Zsum_reflect (2 * r) (fun dy => Zsum (2 * r + 1) (fun dx => g dy dx))) by lia.
    apply Zsum_ext. intros dy _. apply (Zsum_reflect (2 * r) (fun dx => g (2 * r - dy) dx)). lia. }
  split.
  - rewrite (R (fun dy dx => dy * v dy dx)) at 1.
    replace (2 * Zsum (2 * r + 1) (fun dy => Zsum (2 * r + 1) (fun dx => (2 * r - dy) * v (2 * r - dy) (2 * r - dx))))
      with (Zsum (2 * r + 1) (fun dy => Zsum (2 * r + 1) (fun dx => (2 * r - dy) * v (2 * r - dy) (2 * r - dx)))
            + Zsum (2 * r + 1) (fun dy => Zsum (2 * r + 1) (fun dx => dy * v dy dx))) by (rewrite (R (fun dy dx => dy * v dy dx)); lia).
    unfold Zsum. rewrite <- sumZ_map_add, <- sumZ_map_scale. apply sumZ_map_ext. intros dy Hy. apply in_zseq in Hy.
    rewrite <- sumZ_map_add, <- sumZ_map_scale. apply sumZ_map_ext. intros dx Hx. apply in_zseq in Hx.
    rewrite <- (Hs dy dx) by lia. lia.
  - rewrite (R (fun dy dx => dx * v dy dx)) at 1.
    replace (2 * Zsum (2 * r + 1) (fun dy => Zsum (2 * r + 1) (fun dx => (2 * r - dx) * v (2 * r - dy) (2 * r - dx))))
      with (Zsum (2 * r + 1) (fun dy => Zsum (2 * r + 1) (fun dx => (2 * r - dx) * v (2 * r - dy) (2 * r - dx)))
            + Zsum (2 * r + 1) (fun dy => Zsum (2 * r + 1) (fun dx => dx * v dy dx))) by (rewrite (R (fun dy dx => dx * v dy dx)); lia).
    unfold Zsum. rewrite <- sumZ_map_add, <- sumZ_map_scale. apply sumZ_map_ext. intros dy Hy. apply in_zseq in Hy.
    rewrite <- sumZ_map_add, <- sumZ_map_scale. apply sumZ_map_ext. intros dx Hx. apply in_zseq in Hx.
    rewrite <- (Hs dy dx) by lia. lia.
Qed.

(* applied to refine_com: if the correlation map is point symmetric about (y, x) on the refinement neighbourhood, the
   refined position equals the centre exactly: sy = r * s and sx = r * s, i.e. y + sy/s - r = y *)
Theorem refine_com_symmetric H W c y x : 1 <= clip_r H W y x ->
  (forall dy dx, - clip_r H W y x <= dy <= clip_r H W y x -> - clip_r H W y x <= dx <= clip_r H W y x -> c (y + dy) (x + dx) = c (y - dy) (x - dx)) ->
  let m := refine_com H W c y x in com_sy m = com_r m * com_s m /\ com_sx m = com_r m * com_s m.
Proof.
  intros Hr Hs. cbv zeta. unfold refine_com.
  destruct (clip_r H W y x <=? 0) eqn:E; [apply Z.leb_le in E; lia|]. cbn [com_sy com_sx com_s com_r].
  set (r := clip_r H W y x) in *. clearbody r.
  set (mm := cut_min c y x r). clearbody mm.
  pose proof (symmetric_com_is_centre r (fun dy dx => c (y - r + dy) (x - r + dx) - mm) ltac:(lia)) as S.
  cbv zeta in S. cbv beta in S.
  assert (Hv : forall dy dx, 0 <= dy <= 2 * r -> 0 <= dx <= 2 * r ->
     c (y - r + dy) (x - r + dx) - mm = c (y - r + (2 * r - dy)) (x - r + (2 * r - dx)) - mm).
  { intros dy dx Hy Hx. f_equal. replace (y - r + dy) with (y + (dy - r)) by lia. replace (x - r + dx) with (x + (dx - r)) by lia.
    rewrite Hs by lia. f_equal; lia. }
  specialize (S Hv). lia.
Qed.

(* ---------- the map of point-symmetric data with a centro-symmetric mask is point symmetric about the same point ---------- *)
Lemma refl_index N q s h t : 0 < N -> (q - s + (2 * h - t) mod N - h) mod N = (q - (s + t - h)) mod N.
Proof.
  intros HN. replace (q - s + (2 * h - t) mod N - h) with ((2 * h - t) mod N + (q - s - h)) by lia.
  rewrite Zplus_mod_idemp_l. f_equal. lia.
Qed.

Theorem xcorr_point_symmetric N M (d m : img) qy qx : 1 <= N -> 1 <= M -> csym N M m ->
  (forall a b, d ((qy + a) mod N) ((qx + b) mod M) = d ((qy - a) mod N) ((qx - b) mod M)) ->
  forall s u, xcorr N M d m (qy + s) (qx + u) = xcorr N M d m (qy - s) (qx - u).
Proof.
  intros HN HM Hm Hd s u. unfold xcorr. symmetry.
  rewrite <- (Zsum_reindex N (fun t => (2 * (N / 2) - t) mod N)
     (fun t => Zsum M (fun u0 => m t u0 * d ((qy - s + t - N / 2) mod N) ((qx - u + u0 - M / 2) mod M)))).
  2: { intros x _. apply refl_range. lia. }
  2: { intros x y Hx Hy. apply refl_inj; lia. }
  apply Zsum_ext. intros t Ht.
  rewrite <- (Zsum_reindex M (fun u0 => (2 * (M / 2) - u0) mod M)
     (fun u0 => m ((2 * (N / 2) - t) mod N) u0 * d ((qy - s + (2 * (N / 2) - t) mod N - N / 2) mod N) ((qx - u + u0 - M / 2) mod M))).
  2: { intros x _. apply refl_range. lia. }
  2: { intros x y Hx Hy. apply refl_inj; lia. }
  apply Zsum_ext. intros u0 Hu0.
  rewrite <- (Hm t u0 Ht Hu0). f_equal.
  rewrite (refl_index N qy s (N / 2) t) by lia. rewrite (refl_index M qx u (M / 2) u0) by lia.
  rewrite <- Hd. f_equal; f_equal; lia.
Qed.
