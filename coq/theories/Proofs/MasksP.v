From Coq Require Import Morphisms QArith Qminmax Qabs Lqa List ZArith Lia Bool.
From BF Require Import Model.Masks.
Import ListNotations.
Open Scope Q_scope.

Lemma clip01_cases x : (x <= 0 /\ clip01 x == 0) \/ (0 <= x <= 1 /\ clip01 x == x) \/ (1 <= x /\ clip01 x == 1).
Proof.
  unfold clip01.
  destruct (Qlt_le_dec x 0) as [H|H].
  - left. split; [lra|]. rewrite Q.min_r by lra. rewrite Q.max_l by lra. reflexivity.
  - destruct (Qlt_le_dec x 1) as [H1|H1].
    + right; left. split; [lra|]. rewrite Q.min_r by lra. rewrite Q.max_r by lra. reflexivity.
    + right; right. split; [lra|]. rewrite Q.min_l by lra. rewrite Q.max_r by lra. reflexivity.
Qed.

#[global] Instance clip01_proper : Proper (Qeq ==> Qeq) clip01.
Proof. intros x y H. unfold clip01. rewrite H. reflexivity. Qed.

#[global] Instance bin_proper : Proper (Qeq ==> Qeq ==> Qeq ==> Qeq) bin.
Proof. intros w w' Hw c c' Hc r r' Hr. unfold bin. rewrite Hw, Hc, Hr. reflexivity. Qed.

Lemma clip01_range x : 0 <= clip01 x <= 1.
Proof. destruct (clip01_cases x) as [[H E]|[[H E]|[H E]]]; rewrite E; lra. Qed.

Lemma Qabs_cases x : (0 <= x /\ Qabs x == x) \/ (x <= 0 /\ Qabs x == - x).
Proof. destruct (Qlt_le_dec x 0); [right|left]; split; try lra; [apply Qabs_neg|apply Qabs_pos]; lra. Qed.

(* a bin of width >= 1 is the difference of two unit ramps at its edges e and e + w *)
Lemma bin_trapezoid w e r : 1 <= w ->
  bin w (e + w*(1#2)) r == clip01 (r - e + (1#2)) - clip01 (r - (e + w) + (1#2)).
Proof.
  intros Hw. unfold bin.
  destruct (Qabs_cases (r - (e + w*(1#2)))) as [[Ha Ea]|[Ha Ea]]; rewrite Ea; clear Ea;
  destruct (clip01_cases (w*(1#2) + (1#2) - (r - (e + w*(1#2))))) as [[H1 E1]|[[H1 E1]|[H1 E1]]];
  destruct (clip01_cases (w*(1#2) + (1#2) - - (r - (e + w*(1#2))))) as [[H1' E1']|[[H1' E1']|[H1' E1']]];
  destruct (clip01_cases (r - e + (1#2))) as [[H2 E2]|[[H2 E2]|[H2 E2]]];
  destruct (clip01_cases (r - (e + w) + (1#2))) as [[H3 E3]|[[H3 E3]|[H3 E3]]];
  rewrite ?E1, ?E1', E2, E3; clear E1 E1' E2 E3; lra.
Qed.

Lemma bins_telescope n : forall w e r, 1 <= w ->
  sumQ (bins n w e r) == clip01 (r - e + (1#2)) - clip01 (r - (e + inject_Z (Z.of_nat n) * w) + (1#2)).
Proof.
  induction n as [|n IH]; intros w e r Hw.
  - cbn [bins sumQ Z.of_nat]. assert (E : e + inject_Z 0 * w == e) by (unfold inject_Z; ring).
    rewrite E. ring.
  - cbn [bins sumQ]. rewrite IH by assumption. rewrite bin_trapezoid by assumption.
    assert (E : e + w + inject_Z (Z.of_nat n) * w == e + inject_Z (Z.of_nat (S n)) * w).
    { rewrite Nat2Z.inj_succ, <- Z.add_1_r, inject_Z_plus. unfold inject_Z at 3. ring. }
    rewrite E. ring.
Qed.

(* the bins sum to exactly 1 wherever the radius is at least 1/2 inside [inner edge, outer edge] *)
Theorem partition_of_unity n w ri r : 1 <= w ->
  ri + (1#2) <= r -> r <= ri + inject_Z (Z.of_nat n) * w - (1#2) ->
  sumQ (bins n w ri r) == 1.
Proof.
  intros Hw Hlo Hhi. rewrite bins_telescope by assumption.
  destruct (clip01_cases (r - ri + (1#2))) as [[H1 E1]|[[H1 E1]|[H1 E1]]];
  destruct (clip01_cases (r - (ri + inject_Z (Z.of_nat n) * w) + (1#2))) as [[H2 E2]|[[H2 E2]|[H2 E2]]];
  rewrite E1, E2; lra.
Qed.

(* ... to exactly 0 at least 1/2 outside ... *)
Theorem zero_outside n w ri r : 1 <= w ->
  (r <= ri - (1#2) \/ ri + inject_Z (Z.of_nat n) * w + (1#2) <= r) ->
  sumQ (bins n w ri r) == 0.
Proof.
  intros Hw Hout. rewrite bins_telescope by assumption.
  assert (0 <= inject_Z (Z.of_nat n) * w).
  { apply Qmult_le_0_compat; [|lra]. replace 0 with (inject_Z 0) by reflexivity. rewrite <- Zle_Qle. lia. }
  destruct (clip01_cases (r - ri + (1#2))) as [[H1 E1]|[[H1 E1]|[H1 E1]]];
  destruct (clip01_cases (r - (ri + inject_Z (Z.of_nat n) * w) + (1#2))) as [[H2 E2]|[[H2 E2]|[H2 E2]]];
  rewrite E1, E2; lra.
Qed.

(* ... and never exceed 1, nowhere *)
Theorem sum_in_01 n w ri r : 1 <= w -> 0 <= sumQ (bins n w ri r) <= 1.
Proof.
  intros Hw. rewrite bins_telescope by assumption.
  assert (0 <= inject_Z (Z.of_nat n) * w).
  { apply Qmult_le_0_compat; [|lra]. replace 0 with (inject_Z 0) by reflexivity. rewrite <- Zle_Qle. lia. }
  destruct (clip01_cases (r - ri + (1#2))) as [[H1 E1]|[[H1 E1]|[H1 E1]]];
  destruct (clip01_cases (r - (ri + inject_Z (Z.of_nat n) * w) + (1#2))) as [[H2 E2]|[[H2 E2]|[H2 E2]]];
  rewrite E1, E2; lra.
Qed.

Theorem each_bin_in_01 w c r : 0 <= bin w c r <= 1.
Proof. unfold bin. apply clip01_range. Qed.

Lemma bins_each_in_01 n : forall w e r v, In v (bins n w e r) -> 0 <= v <= 1.
Proof.
  induction n as [|n IH]; intros w e r v Hin; cbn [bins] in Hin; [destruct Hin|].
  destruct Hin as [<-|Hin]; [apply each_bin_in_01|eapply IH; exact Hin].
Qed.

(* antialiased ring + inner disk = outer disk (un-patched bins) *)
Theorem ring_plus_disk ri w r : 1 <= ri -> 1 <= w ->
  bin w (ri + w*(1#2)) r + bin ri (0 + ri*(1#2)) r == bin (ri + w) (0 + (ri + w)*(1#2)) r.
Proof.
  intros H1 H2. assert (H3 : 1 <= ri + w) by lra.
  rewrite (bin_trapezoid w ri r H2), (bin_trapezoid ri 0 r H1), (bin_trapezoid (ri + w) 0 r H3).
  assert (E : 0 + (ri + w) == ri + w) by ring. assert (E2 : 0 + ri == ri) by ring.
  rewrite E, E2. ring.
Qed.

(* the centre patch: at a patched pixel (r < 1/2, inner radius ri in [0, 1/2), width >= 1) every bin but the first is 0,
   so the patched stack sums to 1 - ri: exactly 1 for ri = 0 *)
Lemma later_bins_zero_near_centre n : forall w e r, 1 <= w -> 0 <= r -> r < (1#2) -> 1 <= e ->
  sumQ (bins n w e r) == 0.
Proof.
  intros w e r Hw Hr0 Hr He. apply zero_outside; [assumption|]. left. lra.
Qed.

Theorem patched_sum n radius ri r : (0 < n)%nat -> 0 <= ri -> ri < (1#2) -> 0 <= r -> r < (1#2) ->
  1 <= (radius - ri) / inject_Z (Z.of_nat n) ->
  sumQ (radial_bins_px n radius ri true r) == 1 - ri.
Proof.
  intros Hn Hri0 Hri Hr0 Hr Hw. unfold radial_bins_px.
  set (w := (radius - ri) / inject_Z (Z.of_nat n)) in *.
  destruct n as [|n]; [lia|]. cbn [bins].
  assert (Ep : patch_applies ri true r = true).
  { unfold patch_applies, Qltb. cbn [andb]. apply andb_true_iff. split; apply negb_true_iff; apply not_true_is_false;
    intros Hc; apply Qle_bool_iff in Hc; lra. }
  rewrite Ep. cbn [sumQ]. rewrite later_bins_zero_near_centre; [ring|assumption|assumption|assumption|lra].
Qed.

(* without the patch condition nothing changes *)
Lemma unpatched n radius ri r : (0 < n)%nat -> patch_applies ri false r = false /\
  radial_bins_px n radius ri false r = bins n ((radius - ri) / inject_Z (Z.of_nat n)) ri r.
Proof.
  intros Hn. split; [reflexivity|]. unfold radial_bins_px. destruct n as [|n]; [lia|]. cbn [bins]. reflexivity.
Qed.

(* the patch is only ever applied at a pixel whose radius is < 1/2 (the condition the repaired code checks) *)
Theorem patch_sound ri b r : patch_applies ri b r = true -> r < (1#2) /\ ri < (1#2).
Proof.
  unfold patch_applies, Qltb. rewrite !andb_true_iff, !negb_true_iff. intros [[_ H1] H2].
  split; apply Qnot_le_lt; intros Hc; apply Qle_bool_iff in Hc; congruence.
Qed.

(* legacy (defect F6): patching a pixel at r >= 1/2 that the second bin already covers makes the sum exceed 1 *)
Lemma legacy_patch_exceeds_one : exists r, (1#2) <= r /\ ~ ((1 - 0) + bin 1 (1 + 1*(1#2)) r <= 1).
Proof. exists (7#10). split; [lra|]. unfold bin, clip01, Qabs, Qmax, Qmin, Qle. vm_compute. intros H. apply H. reflexivity. Qed.

(* normalisation: every bin with non-zero sum sums to 1 afterwards *)
Lemma sumQ_map_div l s : ~ s == 0 -> sumQ (map (fun v => v / s) l) == sumQ l / s.
Proof. intros Hs. induction l as [|a l IH]; cbn [map sumQ]; [field; assumption|]. rewrite IH. field. assumption. Qed.

Theorem normalised_sums_to_one l : ~ sumQ l == 0 -> sumQ (normalise l) == 1.
Proof. intros Hs. unfold normalise. rewrite sumQ_map_div by assumption. field. assumption. Qed.

(* ---- radial gradient (with background ring): bounded by 1, zero beyond the outer radius ---- *)
Lemma Qltb_true a b : Qltb a b = true <-> a < b.
Proof.
  unfold Qltb. rewrite negb_true_iff. split.
  - intros H. apply Qnot_le_lt. intros Hc. apply Qle_bool_iff in Hc. congruence.
  - intros H. apply not_true_is_false. intros Hc. apply Qle_bool_iff in Hc. lra.
Qed.
Lemma Qltb_false a b : Qltb a b = false <-> b <= a.
Proof.
  unfold Qltb. rewrite negb_false_iff. apply Qle_bool_iff.
Qed.

Theorem rgbs_le_1 r r0 ro delta : 0 <= r -> 0 < delta -> delta * (1#2) < r0 -> rgbs r r0 ro delta <= 1.
Proof.
  intros Hr Hd Hr0. unfold rgbs.
  destruct (Qltb r (r0 - delta * (1#2))) eqn:E1.
  - apply Qltb_true in E1. apply Qle_shift_div_r; lra.
  - apply Qltb_false in E1. destruct (Qltb r (r0 + delta * (1#2))) eqn:E2.
    + apply Qltb_true in E2. apply Qle_shift_div_r; lra.
    + destruct (Qle_bool r ro); lra.
Qed.

Theorem rgbs_ge_m1 r r0 ro delta : 0 <= r -> 0 < delta -> delta * (1#2) < r0 -> -(1) <= rgbs r r0 ro delta.
Proof.
  intros Hr Hd Hr0. unfold rgbs.
  destruct (Qltb r (r0 - delta * (1#2))) eqn:E1.
  - apply Qltb_true in E1. apply Qle_shift_div_l; lra.
  - apply Qltb_false in E1. destruct (Qltb r (r0 + delta * (1#2))) eqn:E2.
    + apply Qltb_true in E2. apply Qle_shift_div_l; lra.
    + destruct (Qle_bool r ro); lra.
Qed.

Theorem rgbs_zero_outside r r0 ro delta : 0 <= delta -> r0 + delta * (1#2) <= r -> ro < r -> rgbs r r0 ro delta == 0.
Proof.
  intros Hd H1 H2. unfold rgbs.
  assert (Qltb r (r0 - delta * (1#2)) = false) as -> by (apply Qltb_false; lra).
  assert (Qltb r (r0 + delta * (1#2)) = false) as -> by (apply Qltb_false; lra).
  assert (Qle_bool r ro = false) as -> by (apply not_true_is_false; intros Hc; apply Qle_bool_iff in Hc; lra).
  reflexivity.
Qed.

(* ---- background subtraction: balanced and bounded ---- *)
Fixpoint sum2 (f : Q * Q -> Q) (l : list (Q * Q)) : Q := match l with [] => 0 | p :: t => f p + sum2 f t end.

Lemma sum2_bgsub px a b : ~ b == 0 ->
  sum2 (fun p => fst p - snd p * a / b) px == sum2 fst px - sum2 snd px * a / b.
Proof.
  intros Hb. induction px as [|p t IH]; cbn [sum2].
  - field. assumption.
  - rewrite IH. field. assumption.
Qed.

Lemma bgsub_px_nz m1 m2 s1 s2 : ~ s2 == 0 -> bgsub_px m1 m2 s1 s2 = m1 - m2 * s1 / s2.
Proof.
  intros H. unfold bgsub_px. destruct (Qeq_bool s2 0) eqn:E; [|reflexivity]. apply Qeq_bool_iff in E. contradiction.
Qed.

Theorem bgsub_balanced (px : list (Q * Q)) :
  let s1 := sum2 fst px in let s2 := sum2 snd px in ~ s2 == 0 ->
  sum2 (fun p => bgsub_px (fst p) (snd p) s1 s2) px == 0.
Proof.
  cbv zeta. intros Hs2.
  assert (E : forall l, sum2 (fun p => bgsub_px (fst p) (snd p) (sum2 fst px) (sum2 snd px)) l
                        == sum2 (fun p => fst p - snd p * sum2 fst px / sum2 snd px) l).
  { induction l as [|p t IH]; cbn [sum2]; [reflexivity|]. rewrite IH, (bgsub_px_nz _ _ _ _ Hs2). reflexivity. }
  rewrite E, sum2_bgsub by assumption. field. assumption.
Qed.

(* the ring lies entirely outside the requested array: no NaN, the mask is the disk itself *)
Theorem bgsub_empty_ring m1 m2 s1 s2 : s2 == 0 -> bgsub_px m1 m2 s1 s2 = m1.
Proof. intros H. unfold bgsub_px. apply Qeq_bool_iff in H. rewrite H. reflexivity. Qed.

Theorem bgsub_le_1 m1 m2 s1 s2 : m1 <= 1 -> 0 <= m2 -> 0 <= s1 -> 0 <= s2 -> bgsub_px m1 m2 s1 s2 <= 1.
Proof.
  intros H1 H2 H3 H4. unfold bgsub_px. destruct (Qeq_bool s2 0) eqn:E; [exact H1|].
  assert (Hs : 0 < s2). { assert (E' : ~ s2 == 0) by (intros C; apply Qeq_bool_iff in C; congruence). apply Qle_lt_or_eq in H4. destruct H4 as [L|L]; [exact L|]. exfalso. apply E'. symmetry. exact L. }
  assert (0 <= m2 * s1 / s2).
  { apply Qle_shift_div_l; [assumption|]. rewrite Qmult_0_l. apply Qmult_le_0_compat; assumption. }
  lra.
Qed.
