(* C14, axis swap: argmax (under a unique maximum) and the centre of mass commute with transposition. *)
From Coq Require Import ZArith List Bool Lia.
From BF Require Import Base.Util Model.Corr Model.Eval Proofs.CorrP Proofs.EvalP.
Import ListNotations.
Open Scope Z_scope.

(* with a unique maximum the first-maximum rule is swap symmetric (with ties it is not: row-major order prefers rows) *)
Theorem argmax_transpose_unique H W c : 1 <= H -> 1 <= W ->
  (forall y' x', 0 <= y' < H -> 0 <= x' < W ->
     c y' x' = c (fst (argmax2 H W c)) (snd (argmax2 H W c)) -> (y', x') = argmax2 H W c) ->
  argmax2 W H (transp c) = (snd (argmax2 H W c), fst (argmax2 H W c)).
Proof.
  intros HH HW Huniq.
  pose proof (argmax2_spec H W c HH HW) as S1. pose proof (argmax2_spec W H (transp c) HW HH) as S2.
  destruct (argmax2 H W c) as [y0 x0] eqn:E1. destruct (argmax2 W H (transp c)) as [a b] eqn:E2.
  cbn [fst snd] in *. destruct S1 as ((Hy0 & Hx0) & M1 & _). destruct S2 as ((Ha & Hb) & M2 & _).
  unfold transp in M2.
  assert (c b a = c y0 x0).
  { apply Z.le_antisymm; [apply M1; assumption|]. specialize (M2 x0 y0 Hx0 Hy0). exact M2. }
  specialize (Huniq b a Hb Ha H0). injection Huniq as -> ->. reflexivity.
Qed.

Lemma clip_r_transpose H W y x : clip_r W H x y = clip_r H W y x.
Proof. unfold clip_r. lia. Qed.

Lemma fold_min_in l : forall d, fold_left Z.min l d = d \/ In (fold_left Z.min l d) l.
Proof.
  induction l as [|a l IH]; intros d; cbn [fold_left]; [left; reflexivity|].
  destruct (IH (Z.min d a)) as [E|E].
  - rewrite E. destruct (Z.min_spec d a) as [[_ ->]|[_ ->]]; [left; reflexivity|right; left; reflexivity].
  - right. right. exact E.
Qed.

Lemma cut_min_attained c y x r : 0 <= r ->
  exists dy dx, 0 <= dy <= 2 * r /\ 0 <= dx <= 2 * r /\ cut_min c y x r = c (y - r + dy) (x - r + dx).
Proof.
  intros Hr. unfold cut_min.
  destruct (fold_min_in (flat_map (fun dy => map (fun dx => c (y - r + dy) (x - r + dx)) (zseq (2 * r + 1))) (zseq (2 * r + 1))) (c (y - r) (x - r))) as [E|E].
  - exists 0, 0. rewrite E, !Z.add_0_r. repeat split; lia.
  - apply in_flat_map in E. destruct E as (dy & Hdy & E). apply in_map_iff in E. destruct E as (dx & E & Hdx).
    apply in_zseq in Hdy, Hdx. exists dy, dx. repeat split; lia.
Qed.

Lemma cut_min_transpose c y x r : 0 <= r -> cut_min (transp c) x y r = cut_min c y x r.
Proof.
  intros Hr. apply Z.le_antisymm.
  - destruct (cut_min_attained c y x r Hr) as (dy & dx & Hy & Hx & ->).
    pose proof (cut_min_le (transp c) x y r dx dy Hx Hy) as H. exact H.
  - destruct (cut_min_attained (transp c) x y r Hr) as (dx & dy & Hx & Hy & ->).
    change (transp c (x - r + dx) (y - r + dy)) with (c (y - r + dy) (x - r + dx)).
    apply cut_min_le; assumption.
Qed.

(* the centre of mass of the transposed map at the swapped centre is the swapped centre of mass *)
Theorem refine_com_transpose H W c y x :
  let m := refine_com H W c y x in let mt := refine_com W H (transp c) x y in
  com_r mt = com_r m /\ com_sy mt = com_sx m /\ com_sx mt = com_sy m /\ com_s mt = com_s m.
Proof.
  cbv zeta. unfold refine_com. rewrite clip_r_transpose.
  destruct (clip_r H W y x <=? 0) eqn:E; cbn [com_r com_sy com_sx com_s]; [repeat split; reflexivity|].
  apply Z.leb_gt in E. set (r := clip_r H W y x) in *. clearbody r.
  rewrite (cut_min_transpose c y x r) by lia. unfold transp.
  repeat split.
  - rewrite Zsum_swap. reflexivity.
  - rewrite Zsum_swap. reflexivity.
  - rewrite Zsum_swap. reflexivity.
Qed.
