From Coq Require Import ZArith List Bool Lia QArith Qround Qabs Lqa.
From BF Require Import Model.FullMatch.
Import ListNotations.
Open Scope Z_scope.

(* pointwise view of selectors *)
Definition at_ (s : sel) (i : nat) : bool := nth i s false.

Lemma at_bdiff a b i : length a = length b -> at_ (bdiff a b) i = at_ a i && negb (at_ b i).
Proof.
  unfold at_, bdiff. revert b i. induction a as [|x a IH]; intros [|y b] i HL; try discriminate.
  - destruct i; reflexivity.
  - destruct i as [|i]; cbn; [reflexivity|]. apply IH. injection HL as HL. exact HL.
Qed.

Lemma at_bor a b i : length a = length b -> at_ (bor a b) i = at_ a i || at_ b i.
Proof.
  unfold at_, bor. revert b i. induction a as [|x a IH]; intros [|y b] i HL; try discriminate.
  - destruct i; reflexivity.
  - destruct i as [|i]; cbn; [reflexivity|]. apply IH. injection HL as HL. exact HL.
Qed.

Lemma len_bdiff a b : length a = length b -> length (bdiff a b) = length a.
Proof. intros H. unfold bdiff. rewrite map_length, combine_length, <- H. apply Nat.min_id. Qed.
Lemma len_bor a b : length a = length b -> length (bor a b) = length a.
Proof. intros H. unfold bor. rewrite map_length, combine_length, <- H. apply Nat.min_id. Qed.

(* Invariant of the loop, for a point i that is not a zero point:
   i is in the working set  <->  it passed the weight filter and is in none of the matches so far;
   and every match so far is a list of the right length.  Hypothesis on the oracle: its answers have the right length. *)
Definition ans_ok (n : nat) (ans : answers) : Prop := forall m, In (Some m) ans -> length m = n.

Definition in_some (ms : list sel) (i : nat) : bool := existsb (fun m => at_ m i) ms.

Lemma in_some_app ms m i : in_some (ms ++ [m]) i = in_some ms i || at_ m i.
Proof. unfold in_some. rewrite existsb_app. cbn. rewrite orb_false_r. reflexivity. Qed.

Lemma loop_inv fuel mm zs : forall ws methods ans matches calls filt i,
  length ws = length zs -> ans_ok (length zs) ans -> at_ zs i = false ->
  at_ ws i = at_ filt i && negb (in_some matches i) ->
  let '(ms, nsel, _, _) := loop fuel mm zs ws methods ans matches calls in
  at_ nsel i = at_ filt i && negb (in_some ms i) /\ length nsel = length zs.
Proof.
  induction fuel as [|fuel IH]; intros ws methods ans matches calls filt i HL Hans Hz Hinv; cbn [loop].
  - split; assumption.
  - destruct ans as [|[m|] rest].
    + split; assumption.
    + assert (Hm : length m = length zs) by (apply Hans; left; reflexivity).
      assert (Hrest : ans_ok (length zs) rest) by (intros m' Hm'; apply Hans; right; exact Hm').
      assert (HL2 : length ws = length m) by congruence.
      destruct (count (bdiff ws m) >=? mm).
      * apply IH; try assumption.
        -- rewrite len_bor; rewrite len_bdiff by assumption; [exact HL|exact HL].
        -- rewrite at_bor by (rewrite len_bdiff by assumption; exact HL).
           rewrite at_bdiff by assumption. rewrite Hz, orb_false_r, Hinv, in_some_app.
           destruct (at_ filt i), (in_some matches i), (at_ m i); reflexivity.
      * split; [|rewrite len_bdiff by assumption; exact HL].
        rewrite at_bdiff by assumption. rewrite Hinv, in_some_app.
        destruct (at_ filt i), (in_some matches i), (at_ m i); reflexivity.
    + assert (Hrest : ans_ok (length zs) rest) by (intros m' Hm'; apply Hans; right; exact Hm').
      destruct methods as [|[|m']].
      * split; assumption.
      * split; assumption.
      * apply IH; assumption.
Qed.

(* every peak that passed the weight filter and is not a zero point is EITHER unmatched OR in one of the matches, never both
   and never neither *)
Theorem partition_of_strong_peaks mm filt zs wc ans i :
  length filt = length zs -> ans_ok (length zs) ans -> at_ zs i = false ->
  let o := full_match mm filt zs wc ans in
  at_ (o_unmatched o) i = at_ filt i && negb (in_some (o_matches o) i).
Proof.
  intros HL Hans Hz. unfold full_match.
  pose proof (loop_inv (S (length ans)) mm zs filt (if wc then 2%nat else 1%nat) ans [] 0 filt i HL Hans Hz) as H.
  assert (H0 : at_ filt i = at_ filt i && negb (in_some [] i)) by (cbn; rewrite andb_true_r; reflexivity).
  specialize (H H0).
  destruct (loop (S (length ans)) mm zs filt (if wc then 2%nat else 1%nat) ans [] 0) as [[[ms nsel] calls] ok].
  destruct H as [H HLn]. cbn [o_unmatched o_matches].
  destruct ms as [|m0 ms']; [exact H|].
  rewrite at_bdiff by exact HLn. rewrite Hz, andb_true_r. exact H.
Qed.

(* each accepted match takes its non-zero peaks out of every later working set: matches do not share non-zero peaks.
   (stated through the invariant: a peak in the working set is in none of the earlier matches) *)

(* the zero point is never reported as unmatched once a match was found *)
Theorem zero_not_unmatched mm filt zs wc ans i :
  length filt = length zs -> ans_ok (length zs) ans -> at_ zs i = true ->
  let o := full_match mm filt zs wc ans in
  o_matches o <> [] -> at_ (o_unmatched o) i = false.
Proof.
  intros HL Hans Hz. unfold full_match.
  destruct (loop (S (length ans)) mm zs filt (if wc then 2%nat else 1%nat) ans [] 0) as [[[ms nsel] calls] ok] eqn:E.
  cbn [o_unmatched o_matches]. intros Hne. destruct ms as [|m0 ms']; [congruence|].
  unfold at_, bdiff.
  assert (G : forall (a b : sel) k, nth k b false = true -> nth k (map (fun p : bool * bool => fst p && negb (snd p)) (combine a b)) false = false).
  { induction a as [|x a IH]; intros [|y b] k Hk; try (destruct k; reflexivity).
    destruct k as [|k]; cbn in *; [rewrite Hk; apply andb_false_r|apply IH; exact Hk]. }
  apply G. exact Hz.
Qed.

(* the weak set is exactly the complement of the weight filter *)
Theorem weak_is_complement mm filt zs wc ans : o_weak (full_match mm filt zs wc ans) = bnot filt.
Proof. unfold full_match. destruct (loop _ _ _ _ _ _ _ _) as [[[ms nsel] calls] ok]. reflexivity. Qed.

(* ---- angle_check: symmetric in its arguments and invariant under adding multiples of pi to one angle ---- *)
Open Scope Q_scope.

Lemma angle_check_sym PI limit p1 p2 : angle_check PI limit p1 p2 = angle_check PI limit p2 p1.
Proof.
  unfold angle_check.
  assert (E : Qabs (p1 - p2) == Qabs (p2 - p1)).
  { setoid_replace (p1 - p2) with (- (p2 - p1)) by ring. apply Qabs_opp. }
  assert (F : qmod (Qabs (p1 - p2)) PI == qmod (Qabs (p2 - p1)) PI).
  { unfold qmod. assert (G : Qabs (p1 - p2) / PI == Qabs (p2 - p1) / PI) by (rewrite E; reflexivity).
    rewrite (Qfloor_comp _ _ G), E. reflexivity. }
  unfold Qltb. rewrite (Qleb_comp _ _ F limit limit (Qeq_refl _)).
  rewrite (Qleb_comp (PI - limit) (PI - limit) (Qeq_refl _) _ _ F). reflexivity.
Qed.

Lemma qmod_range x p : 0 < p -> 0 <= qmod x p /\ qmod x p < p.
Proof.
  intros Hp. unfold qmod. pose proof (Qfloor_le (x / p)) as H1. pose proof (Qlt_floor (x / p)) as H2.
  rewrite inject_Z_plus in H2. change (inject_Z 1) with 1 in H2.
  set (f := inject_Z (Qfloor (x / p))) in *. clearbody f.
  assert (E : x == p * (x / p)) by (field; lra).
  split.
  - assert (p * f <= p * (x / p)) by (apply Qmult_le_l; assumption). lra.
  - assert (p * (x / p) < p * (f + 1)) by (apply Qmult_lt_l; assumption). lra.
Qed.

(* the accepted angles are bounded away from parallel and antiparallel by the limit *)
Theorem angle_check_spec PI limit p1 p2 : 0 < PI -> angle_check PI limit p1 p2 = true ->
  let d := qmod (Qabs (p1 - p2)) PI in limit < d /\ d < PI - limit /\ 0 <= d /\ d < PI.
Proof.
  intros HP H. cbv zeta. unfold angle_check in H. apply andb_true_iff in H. destruct H as [H1 H2].
  unfold Qltb in H1, H2. rewrite negb_true_iff in H1, H2.
  pose proof (qmod_range (Qabs (p1 - p2)) PI HP) as [R1 R2].
  repeat split; try assumption; apply Qnot_le_lt; intros Hc; apply Qle_bool_iff in Hc; congruence.
Qed.
