From Coq Require Import QArith Qabs Qminmax Lqa Lia List Bool ZArith.
From BF Require Import Model.Lattice Model.WLS Model.Match Model.Tumble Proofs.LatticeP Proofs.MatchP.
Import ListNotations.
Open Scope Q_scope.

Lemma check_true mm mind2 maxd2 s2 m a b : check mm mind2 maxd2 s2 m a b = true ->
  (mm <= count_some m)%Z /\ (mind2 <= norm2 a <= maxd2) /\ (mind2 <= norm2 b <= maxd2) /\ s2 * (norm2 a * norm2 b) < det2 a b * det2 a b.
Proof.
  unfold check, len_ok, sep_ok. rewrite !andb_true_iff. intros [[Hc [[A1 A2] [B1 B2]]] Hs].
  apply Z.leb_le in Hc. apply Qle_bool_iff in A1, A2, B1, B2. apply Qlt_bool_true in Hs. repeat split; assumption.
Qed.

(* every match returned by _tumble: at least min_match matched peaks, both lattice vectors within the length limits,
   separated by more than the minimum angle, and its lattice is the weighted least-squares fit of exactly its own peaks *)
Theorem tumble_spec tol2 mm mind2 maxd2 s2 sel pts t0 m z a b :
  tumble tol2 mm mind2 maxd2 s2 sel pts t0 = Some (m, z, a, b) ->
  (mm <= count_some m)%Z /\ (mind2 <= norm2 a <= maxd2) /\ (mind2 <= norm2 b <= maxd2) /\
  s2 * (norm2 a * norm2 b) < det2 a b * det2 a b /\
  exists z' a' b', wls3 (fit_points m pts) = Some (z', a', b') /\ z = vred z' /\ a = vred a' /\ b = vred b'.
Proof.
  destruct t0 as [[[m0 z0] a0] b0]. unfold tumble, tumble_steps. cbn [tsteps_run tstep_run].
  destruct (check mm mind2 maxd2 s2 m0 a0 b0); cbn [tsteps_run tstep_run]; [|discriminate].
  destruct (wls3 (fit_points m0 pts)) as [[[z1 a1] b1]|]; cbn [tsteps_run tstep_run]; [|discriminate].
  destruct (check mm mind2 maxd2 s2 m0 (vred a1) (vred b1)); cbn [tsteps_run tstep_run]; [|discriminate].
  destruct (match_all tol2 (vred z1) (vred a1) (vred b1) sel pts) as [m1|]; cbn [tsteps_run tstep_run]; [|discriminate].
  destruct (check mm mind2 maxd2 s2 m1 (vred a1) (vred b1)); cbn [tsteps_run tstep_run]; [|discriminate].
  destruct (wls3 (fit_points m1 pts)) as [[[z2 a2] b2]|] eqn:W; cbn [tsteps_run tstep_run]; [|discriminate].
  destruct (check mm mind2 maxd2 s2 m1 (vred a2) (vred b2)) eqn:C; cbn [tsteps_run tstep_run]; [|discriminate].
  intros H. injection H as <- <- <- <-.
  destruct (check_true _ _ _ _ _ _ _ C) as (H1 & H2 & H3 & H4).
  repeat split; try tauto. exists z2, a2, b2. repeat split. exact W.
Qed.

(* a returned lattice is never degenerate (for a non-negative angle parameter) *)
Theorem tumble_lattice_nondegenerate tol2 mm mind2 maxd2 s2 sel pts t0 m z a b : 0 <= s2 -> 0 <= mind2 ->
  tumble tol2 mm mind2 maxd2 s2 sel pts t0 = Some (m, z, a, b) -> ~ det2 a b == 0.
Proof.
  intros Hs Hm H. destruct (tumble_spec _ _ _ _ _ _ _ _ _ _ _ _ H) as (_ & [A1 _] & [B1 _] & S & _).
  intros E. rewrite E in S. assert (0 <= norm2 a * norm2 b) by (apply Qmult_le_0_compat; lra).
  assert (0 <= s2 * (norm2 a * norm2 b)) by (apply Qmult_le_0_compat; assumption). lra.
Qed.

(* the matched entries of the returned match come from the second matching pass over the working set: only selected peaks *)
Theorem tumble_match_within_working_set tol2 mm mind2 maxd2 s2 sel pts t0 m z a b :
  tumble tol2 mm mind2 maxd2 s2 sel pts t0 = Some (m, z, a, b) ->
  exists z1 a1 b1, match_all tol2 z1 a1 b1 sel pts = Some m.
Proof.
  destruct t0 as [[[m0 z0] a0] b0]. unfold tumble, tumble_steps. cbn [tsteps_run tstep_run].
  destruct (check mm mind2 maxd2 s2 m0 a0 b0); cbn [tsteps_run tstep_run]; [|discriminate].
  destruct (wls3 (fit_points m0 pts)) as [[[z1 a1] b1]|]; cbn [tsteps_run tstep_run]; [|discriminate].
  destruct (check mm mind2 maxd2 s2 m0 (vred a1) (vred b1)); cbn [tsteps_run tstep_run]; [|discriminate].
  destruct (match_all tol2 (vred z1) (vred a1) (vred b1) sel pts) as [m1|] eqn:M; cbn [tsteps_run tstep_run]; [|discriminate].
  destruct (check mm mind2 maxd2 s2 m1 (vred a1) (vred b1)); cbn [tsteps_run tstep_run]; [|discriminate].
  destruct (wls3 (fit_points m1 pts)) as [[[z2 a2] b2]|]; cbn [tsteps_run tstep_run]; [|discriminate].
  destruct (check mm mind2 maxd2 s2 m1 (vred a2) (vred b2)); cbn [tsteps_run tstep_run]; [|discriminate].
  intros H. injection H as <- <- <- <-. exists (vred z1), (vred a1), (vred b1). exact M.
Qed.

(* the separation test is symmetric in the two vectors *)
Lemma sep_ok_sym s2 a b : sep_ok s2 a b = sep_ok s2 b a.
Proof.
  unfold sep_ok. assert (E1 : s2 * (norm2 a * norm2 b) == s2 * (norm2 b * norm2 a)) by ring.
  assert (E2 : det2 a b * det2 a b == det2 b a * det2 b a) by (unfold det2; ring).
  rewrite (Qlt_bool_comp _ _ _ E1). unfold Qlt_bool. rewrite (Qleb_comp _ _ E2 _ _ (Qeq_refl _)). reflexivity.
Qed.
