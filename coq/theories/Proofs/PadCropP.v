From Coq Require Import ZArith List Bool Lia.
From BF Require Import Base.Util Model.PadCrop Model.Corr.
Import ListNotations.
Open Scope Z_scope.
Ltac Zify.zify_post_hook ::= Z.to_euclidean_division_equations.
Ltac destr_ifs := repeat match goal with |- context [if ?b then _ else _] => destruct b eqn:? end.

(* padding/cropping maps source pixel s//2 onto target pixel t//2 and preserves the values on the overlap, zero elsewhere:
   for all sizes s, t >= 1, i.e. all four parity combinations, padding and cropping alike *)
Theorem padcrop_is_centred s t j : 1 <= s -> 1 <= t -> 0 <= j < t ->
  padcrop_src s t j = aligned_src s t j.
Proof.
  intros Hs Ht Hj. unfold padcrop_src, pc_src, pc_before, aligned_src, inb.
  destr_ifs; try reflexivity; try (f_equal; lia); exfalso; lia.
Qed.

Theorem padcrop_centre_pixel s t : 1 <= s -> 1 <= t -> padcrop_src s t (t / 2) = Some (s / 2).
Proof.
  intros Hs Ht. rewrite padcrop_is_centred by lia. unfold aligned_src.
  replace (t / 2 + s / 2 - t / 2) with (s / 2) by lia.
  assert (E : inb s (s / 2) = true) by (apply inb_true; lia). rewrite E. reflexivity.
Qed.

Theorem padcrop_amounts s t : 1 <= s -> 1 <= t ->
  0 <= pc_before s t /\ 0 <= pc_after s t /\ pc_len s t = t.
Proof. intros Hs Ht. unfold pc_len, pc_after, pc_extra, pc_before. destr_ifs; lia. Qed.

(* every source index the crop reads is in bounds *)
Theorem padcrop_reads_in_bounds s t j i : 1 <= s -> 1 <= t -> 0 <= j < t -> padcrop_src s t j = Some i -> 0 <= i < s.
Proof.
  intros Hs Ht Hj H. rewrite padcrop_is_centred in H by lia. unfold aligned_src in H.
  destruct (inb s (j + s / 2 - t / 2)) eqn:E; [|discriminate]. injection H as <-. apply inb_true. exact E.
Qed.

(* the rule used before the fix was off by one for odd->even padding and even->odd cropping (defect F4) ... *)
Lemma padcrop_legacy_refuted : exists s t, 1 <= s /\ 1 <= t /\ padcrop_src_legacy s t (t / 2) <> Some (s / 2).
Proof. exists 3, 4. split; [lia|]. split; [lia|]. vm_compute. congruence. Qed.
Lemma padcrop_legacy_refuted_crop : padcrop_src_legacy 4 3 (3 / 2) <> Some (4 / 2).
Proof. vm_compute. congruence. Qed.
(* ... and right in the two other parity classes *)
Lemma padcrop_legacy_partial s t j : 1 <= s -> 1 <= t -> 0 <= j < t ->
  (s mod 2 = t mod 2 \/ (s <= t /\ s mod 2 = 0) \/ (t <= s /\ t mod 2 = 0)) ->
  padcrop_src_legacy s t j = aligned_src s t j.
Proof.
  intros Hs Ht Hj Hm. unfold padcrop_src_legacy, pc_src, pc_before_legacy, pc_extra, aligned_src, inb.
  destr_ifs; try reflexivity; try (f_equal; lia); exfalso; lia.
Qed.

(* radial masks are cyclically point symmetric about pixel (N/2, M/2) for every N, M >= 1 (both parities): this is
   the hypothesis under which the FFT product equals the cross-correlation (C03) *)
Lemma mirror_sq N t : 1 <= N -> 0 <= t < N ->
  ((2 * (N / 2) - t) mod N - N / 2) * ((2 * (N / 2) - t) mod N - N / 2) = (t - N / 2) * (t - N / 2).
Proof.
  intros HN Ht.
  assert (Hh : N = 2 * (N / 2) \/ N = 2 * (N / 2) + 1) by lia.
  set (h := N / 2) in *. clearbody h.
  pose proof (Z.div_mod (2 * h - t) N ltac:(lia)) as Hdm.
  pose proof (Z.mod_pos_bound (2 * h - t) N ltac:(lia)) as Hb.
  set (m := (2 * h - t) mod N) in *. set (q := (2 * h - t) / N) in *. clearbody m q.
  assert (Hq : q = -1 \/ q = 0 \/ q = 1) by nia.
  destruct Hq as [-> | [-> | ->]]; destruct Hh as [Hh | Hh]; nia.
Qed.

Theorem radial_mask_csym N M (G : Z -> Z) : 1 <= N -> 1 <= M ->
  csym N M (fun t u => G ((t - N / 2) * (t - N / 2) + (u - M / 2) * (u - M / 2))).
Proof.
  intros HN HM t u Ht Hu. cbv beta. f_equal.
  rewrite (mirror_sq N t HN Ht), (mirror_sq M u HM Hu). reflexivity.
Qed.

(* default radial map of RadialGradientBackgroundSubtraction (r = p/q > 0): centred on a pixel, and wide enough
   that the outer radius fits on both sides of it *)
Theorem rmap_pixel_centred p q : 0 < q -> 0 <= p ->
  let size := rmap_size p q in let c := rmap_centre p q in
  0 <= c < size /\ p <= q * c /\ p <= q * (size - 1 - c).
Proof. intros Hq Hp. cbv zeta. unfold rmap_centre, rmap_size. nia. Qed.

(* crop size is the ceiling of search *)
Theorem crop_size_is_ceiling p q : 0 < q -> let c := crop_size p q in q * (c - 1) < p <= q * c.
Proof. intros Hq. cbv zeta. unfold crop_size. nia. Qed.

Theorem guards_sound radius router search :
  (guard_circular radius search = true -> radius <= search) /\
  (guard_bgsub radius router search = true -> radius < router <= search).
Proof.
  unfold guard_circular, guard_bgsub. split.
  - rewrite negb_true_iff, Z.ltb_ge. lia.
  - rewrite andb_true_iff, !negb_true_iff, Z.leb_gt, Z.ltb_ge. lia.
Qed.
