(* C05 end to end on exact data: if every peak with elevation >= min_weight lies exactly on the lattice the match is started
   from, fastmatch is valid, selects exactly those peaks with their true integer indices, and returns that lattice. *)
From Coq Require Import QArith Qround Qabs Qminmax Lqa Lia List Bool ZArith Morphisms.
From BF Require Import Model.Lattice Model.WLS Model.Match Proofs.LatticeP Proofs.WLSP Proofs.AffineP Proofs.MatchP.
Import ListNotations.
Open Scope Q_scope.

Lemma Qeq_bool_comp x x' y : x == x' -> Qeq_bool x y = Qeq_bool x' y.
Proof.
  intros H. destruct (Qeq_bool x y) eqn:E1, (Qeq_bool x' y) eqn:E2; try reflexivity.
  - apply Qeq_bool_iff in E1. apply Qeq_bool_false in E2. exfalso. apply E2. rewrite <- H. exact E1.
  - apply Qeq_bool_iff in E2. apply Qeq_bool_false in E1. exfalso. apply E1. rewrite H. exact E2.
Qed.

Lemma norm2_comp a a' : veq a a' -> norm2 a == norm2 a'.
Proof. intros [H1 H2]. unfold norm2, vy, vx. rewrite H1, H2. reflexivity. Qed.

Lemma det2_comp a a' b b' : veq a a' -> veq b b' -> det2 a b == det2 a' b'.
Proof. intros [H1 H2] [H3 H4]. unfold det2, vy, vx. rewrite H1, H2, H3, H4. reflexivity. Qed.

Lemma err2_comp a a' b b' ij ij' : veq a a' -> veq b b' -> veq ij ij' -> err2 a b ij == err2 a' b' ij'.
Proof.
  intros Ha Hb [H1 H2]. unfold err2. rewrite (norm2_comp a a' Ha), (norm2_comp b b' Hb).
  rewrite (round_he_proper _ _ H1), (round_he_proper _ _ H2), H1, H2. reflexivity.
Qed.

(* the matching step only depends on the lattice up to == *)
Lemma match_point_comp tol2 z z' a a' b b' p : veq z z' -> veq a a' -> veq b b' ->
  match_point tol2 z a b p = match_point tol2 z' a' b' p.
Proof.
  intros Hz Ha Hb. unfold match_point, get_index.
  rewrite (Qeq_bool_comp _ _ 0 (det2_comp a a' b b' Ha Hb)).
  destruct (Qeq_bool (det2 a' b') 0) eqn:E; [reflexivity|]. apply Qeq_bool_false in E.
  assert (E' : ~ det2 a b == 0) by (rewrite (det2_comp a a' b b' Ha Hb); exact E).
  destruct Hz as [Z1 Z2]. destruct Ha as [A1 A2]. destruct Hb as [B1 B2]. unfold vy, vx in *.
  set (i1 := ((fst p - fst z) * snd b - (snd p - snd z) * fst b) / det2 a b).
  set (j1 := (fst a * (snd p - snd z) - snd a * (fst p - fst z)) / det2 a b).
  set (i2 := ((fst p - fst z') * snd b' - (snd p - snd z') * fst b') / det2 a' b').
  set (j2 := (fst a' * (snd p - snd z') - snd a' * (fst p - fst z')) / det2 a' b').
  assert (D : det2 a b == det2 a' b') by (unfold det2, vy, vx; rewrite A1, A2, B1, B2; reflexivity).
  assert (V1 : i1 == i2) by (unfold i1, i2; rewrite D, Z1, Z2, B1, B2; reflexivity).
  assert (V2 : j1 == j2) by (unfold j1, j2; rewrite D, Z1, Z2, A1, A2; reflexivity).
  assert (V : veq (vred (i1, j1)) (vred (i2, j2))).
  { eapply veq_trans; [apply vred_veq|]. eapply veq_trans; [|split; symmetry; apply (vred_veq (i2, j2))]. split; assumption. }
  cbv zeta.
  rewrite (Qlt_bool_comp _ _ tol2 (err2_comp a a' b b' _ _ (conj A1 A2) (conj B1 B2) V)).
  destruct V as [W1 W2]. rewrite (round_he_proper _ _ W1), (round_he_proper _ _ W2). reflexivity.
Qed.

Lemma match_all_comp tol2 z z' a a' b b' sel pts : veq z z' -> veq a a' -> veq b b' ->
  match_all tol2 z a b sel pts = match_all tol2 z' a' b' sel pts.
Proof.
  intros Hz Ha Hb. unfold match_all. rewrite (Qeq_bool_comp _ _ 0 (det2_comp a a' b b' Ha Hb)).
  destruct (Qeq_bool (det2 a' b') 0); [reflexivity|]. f_equal. apply map_ext. intros [s k]. cbn [fst snd].
  destruct s; [|reflexivity]. rewrite (match_point_comp tol2 z z' a a' b b' (k_p k) Hz Ha Hb). reflexivity.
Qed.

(* every strong peak sits exactly on a lattice position with known integer indices *)
Definition on_lattice (zero a b : vec) (mw : Q) (idx : peak -> Z * Z) (pts : list peak) : Prop :=
  forall k, In k pts -> Qle_bool mw (k_w k) = true -> k_p k = calc_coord zero a b (inject_Z (fst (idx k)), inject_Z (snd (idx k))).

Definition expected (mw : Q) (idx : peak -> Z * Z) (pts : list peak) : list (option (Z * Z)) :=
  map (fun k => if Qle_bool mw (k_w k) then Some (idx k) else None) pts.

Lemma match_all_exact tol2 mw zero a b idx pts : ~ det2 a b == 0 -> 0 < tol2 -> on_lattice zero a b mw idx pts ->
  match_all tol2 zero a b (map (fun k => Qle_bool mw (k_w k)) pts) pts = Some (expected mw idx pts).
Proof.
  intros Hd Ht Hon. unfold match_all. destruct (Qeq_bool (det2 a b) 0) eqn:E; [apply Qeq_bool_iff in E; contradiction|].
  f_equal. unfold expected. clear E.
  induction pts as [|k pts IH]; [reflexivity|]. cbn [map combine fst snd]. f_equal.
  - destruct (Qle_bool mw (k_w k)) eqn:Ew; [|reflexivity].
    rewrite (Hon k (or_introl eq_refl) Ew). destruct (idx k) as [i j]. cbn [fst snd].
    rewrite exact_lattice_point_matched by assumption. reflexivity.
  - apply IH. intros k' Hk'. apply Hon. right. exact Hk'.
Qed.

Lemma fit_points_exact zero a b mw idx pts : on_lattice zero a b mw idx pts ->
  (forall r, In r (rows_y (fit_points (expected mw idx pts) pts)) -> rp r == vy zero + ri r * vy a + rj r * vy b) /\
  (forall r, In r (rows_x (fit_points (expected mw idx pts) pts)) -> rp r == vx zero + ri r * vx a + rj r * vx b).
Proof.
  intros Hon. unfold expected.
  induction pts as [|k pts IH]; [split; intros r []|].
  assert (Hon' : on_lattice zero a b mw idx pts) by (intros k' Hk'; apply Hon; right; exact Hk').
  specialize (IH Hon'). destruct IH as [IHy IHx].
  cbn [map combine fit_points flat_map fst snd]. destruct (Qle_bool mw (k_w k)) eqn:Ew.
  - destruct (idx k) as [i j] eqn:Ei. cbn [app rows_y rows_x map].
    pose proof (Hon k (or_introl eq_refl) Ew) as Hp. rewrite Ei in Hp. cbn [fst snd] in Hp.
    split; intros r [<-|Hr]; cbn [rp ri rj w py px pi pj].
    + rewrite Hp. unfold calc_coord, vy, vx. cbn [fst snd]. ring.
    + apply IHy, Hr.
    + rewrite Hp. unfold calc_coord, vy, vx. cbn [fst snd]. ring.
    + apply IHx, Hr.
  - cbn [app]. split; assumption.
Qed.

Lemma count_expected mw idx pts : count_some (expected mw idx pts) = Z.of_nat (length (filter (fun k => Qle_bool mw (k_w k)) pts)).
Proof.
  unfold count_some, expected. f_equal. induction pts as [|k pts IH]; [reflexivity|]. cbn [map filter].
  destruct (Qle_bool mw (k_w k)); cbn [length]; rewrite IH; reflexivity.
Qed.

Theorem fastmatch_exact_lattice tol2 mw mm zero a b idx pts z1 a1 b1 :
  ~ det2 a b == 0 -> 0 < tol2 -> on_lattice zero a b mw idx pts ->
  (mm <= Z.of_nat (length (filter (fun k => Qle_bool mw (k_w k)) pts)))%Z ->
  wls3 (fit_points (expected mw idx pts) pts) = Some (z1, a1, b1) ->      (* the index set has rank 3 *)
  fastmatch tol2 mw mm zero a b pts = Valid (expected mw idx pts) z1 a1 b1 /\
  veq z1 zero /\ veq a1 a /\ veq b1 b.
Proof.
  intros Hd Ht Hon Hcnt Hfit.
  (* the fit of exact data is the lattice itself *)
  assert (Hrec : veq z1 zero /\ veq a1 a /\ veq b1 b).
  { unfold wls3 in Hfit.
    destruct (wls_col (rows_y (fit_points (expected mw idx pts) pts))) as [[[zy ay] by_]|] eqn:Ey; [|discriminate].
    destruct (wls_col (rows_x (fit_points (expected mw idx pts) pts))) as [[[zx ax] bx]|] eqn:Ex; [|discriminate].
    injection Hfit as <- <- <-.
    destruct (fit_points_exact zero a b mw idx pts Hon) as [Fy Fx].
    destruct (exact_data_recovered _ _ _ _ _ _ _ Fy Ey) as (Y0 & Y1 & Y2).
    destruct (exact_data_recovered _ _ _ _ _ _ _ Fx Ex) as (X0 & X1 & X2).
    unfold veq, vy, vx in *. cbn [fst snd]. repeat split; symmetry; assumption. }
  split; [|exact Hrec]. destruct Hrec as (Hz & Ha & Hb).
  unfold fastmatch. rewrite (match_all_exact tol2 mw zero a b idx pts Hd Ht Hon).
  rewrite count_expected. destruct (Z.ltb_spec (Z.of_nat (length (filter (fun k => Qle_bool mw (k_w k)) pts))) mm) as [Hlt|_]; [lia|].
  rewrite Hfit. cbv zeta.
  (* second round: the reduced fitted lattice is == the true one, so the same peaks match with the same indices *)
  assert (Hz' : veq (vred z1) zero) by (eapply veq_trans; [apply vred_veq|exact Hz]).
  assert (Ha' : veq (vred a1) a) by (eapply veq_trans; [apply vred_veq|exact Ha]).
  assert (Hb' : veq (vred b1) b) by (eapply veq_trans; [apply vred_veq|exact Hb]).
  rewrite (match_all_comp tol2 (vred z1) zero (vred a1) a (vred b1) b _ pts Hz' Ha' Hb').
  rewrite (match_all_exact tol2 mw zero a b idx pts Hd Ht Hon).
  rewrite count_expected. destruct (Z.ltb_spec (Z.of_nat (length (filter (fun k => Qle_bool mw (k_w k)) pts))) mm) as [Hlt|_]; [lia|].
  rewrite Hfit. reflexivity.
Qed.
