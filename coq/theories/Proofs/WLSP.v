From Coq Require Import QArith Lqa List Bool ZArith Morphisms.
From BF Require Import Model.Lattice Model.WLS Proofs.LatticeP.
Import ListNotations.
Open Scope Q_scope.

Definition lin (d0 d1 d2 : Q) (r : row) : Q := d0 + ri r * d1 + rj r * d2.

Lemma sumf_ext f g l : (forall r, f r == g r) -> sumf f l == sumf g l.
Proof. intros H. induction l as [|r t IH]; cbn [sumf]; [reflexivity|]. rewrite !Qred_correct, H, IH. reflexivity. Qed.

Lemma sumf_add f g l : sumf (fun r => f r + g r) l == sumf f l + sumf g l.
Proof. induction l as [|r t IH]; cbn [sumf]; [ring|]. rewrite !Qred_correct, IH. ring. Qed.

Lemma sumf_scale k f l : sumf (fun r => k * f r) l == k * sumf f l.
Proof. induction l as [|r t IH]; cbn [sumf]; [ring|]. rewrite !Qred_correct, IH. ring. Qed.

Lemma sumf_nonneg f l : (forall r, In r l -> 0 <= f r) -> 0 <= sumf f l.
Proof.
  induction l as [|r t IH]; intros H; cbn [sumf]; [lra|]. rewrite Qred_correct.
  assert (0 <= f r) by (apply H; left; reflexivity).
  assert (0 <= sumf f t) by (apply IH; intros; apply H; right; assumption). lra.
Qed.

Lemma cost_expand l : forall x0 x1 x2 d0 d1 d2,
  cost (x0 + d0) (x1 + d1) (x2 + d2) l ==
  cost x0 x1 x2 l
  + (2#1) * (d0 * sumf (fun r => w r * res x0 x1 x2 r) l
          + d1 * sumf (fun r => w r * res x0 x1 x2 r * ri r) l
          + d2 * sumf (fun r => w r * res x0 x1 x2 r * rj r) l)
  + sumf (fun r => w r * (lin d0 d1 d2 r * lin d0 d1 d2 r)) l.
Proof.
  induction l as [|r t IH]; intros; unfold cost in *; cbn [sumf].
  - ring.
  - rewrite !Qred_correct, IH. unfold res, lin. ring.
Qed.

(* a solution of the weighted normal equations (non-negative weights) minimises the weighted cost, for any number of points *)
Theorem normal_eq_optimal l x0 x1 x2 :
  (forall r, In r l -> 0 <= w r) ->
  sumf (fun r => w r * res x0 x1 x2 r) l == 0 ->
  sumf (fun r => w r * res x0 x1 x2 r * ri r) l == 0 ->
  sumf (fun r => w r * res x0 x1 x2 r * rj r) l == 0 ->
  forall y0 y1 y2, cost x0 x1 x2 l <= cost y0 y1 y2 l.
Proof.
  intros Hw E0 E1 E2 y0 y1 y2.
  assert (cost y0 y1 y2 l == cost (x0 + (y0 - x0)) (x1 + (y1 - x1)) (x2 + (y2 - x2)) l) as ->.
  { unfold cost. apply sumf_ext. intros r. unfold res. ring. }
  rewrite cost_expand, E0, E1, E2.
  assert (0 <= sumf (fun r => w r * (lin (y0-x0) (y1-x1) (y2-x2) r * lin (y0-x0) (y1-x1) (y2-x2) r)) l).
  { apply sumf_nonneg. intros r Hr. specialize (Hw r Hr).
    assert (0 <= lin (y0-x0) (y1-x1) (y2-x2) r * lin (y0-x0) (y1-x1) (y2-x2) r) by nra. nra. }
  lra.
Qed.

(* the gradient sums expressed through the moment sums *)
Lemma grad0 l x0 x1 x2 : let s := sums_of l in
  sumf (fun r => w r * res x0 x1 x2 r) l == x0 * S1 s + x1 * Si s + x2 * Sj s - T1 s.
Proof.
  cbv zeta. unfold sums_of. cbn [S1 Si Sj T1]. induction l as [|r t IH]; cbn [sumf]; [ring|]. rewrite !Qred_correct, IH. unfold res. ring.
Qed.
Lemma grad1 l x0 x1 x2 : let s := sums_of l in
  sumf (fun r => w r * res x0 x1 x2 r * ri r) l == x0 * Si s + x1 * Sii s + x2 * Sij s - Ti s.
Proof.
  cbv zeta. unfold sums_of. cbn [Si Sii Sij Ti]. induction l as [|r t IH]; cbn [sumf]; [ring|]. rewrite !Qred_correct, IH. unfold res. ring.
Qed.
Lemma grad2 l x0 x1 x2 : let s := sums_of l in
  sumf (fun r => w r * res x0 x1 x2 r * rj r) l == x0 * Sj s + x1 * Sij s + x2 * Sjj s - Tj s.
Proof.
  cbv zeta. unfold sums_of. cbn [Sj Sij Sjj Tj]. induction l as [|r t IH]; cbn [sumf]; [ring|]. rewrite !Qred_correct, IH. unfold res. ring.
Qed.

Lemma Qeq_bool_neq a b : Qeq_bool a b = false -> ~ a == b.
Proof. intros H E. apply Qeq_bool_iff in E. congruence. Qed.

(* Cramer's rule solves the normal equations *)
Theorem solve3_normal_eq s x0 x1 x2 : solve3 s = Some (x0, x1, x2) ->
  x0 * S1 s + x1 * Si s + x2 * Sj s - T1 s == 0 /\
  x0 * Si s + x1 * Sii s + x2 * Sij s - Ti s == 0 /\
  x0 * Sj s + x1 * Sij s + x2 * Sjj s - Tj s == 0.
Proof.
  unfold solve3. destruct (Qeq_bool (ndet s) 0) eqn:E; [discriminate|]. apply Qeq_bool_neq in E.
  intros H. injection H as <- <- <-. unfold ndet, det3 in *. repeat split; field; exact E.
Qed.

(* ... hence the fit is the weighted least-squares optimum *)
Theorem wls_col_optimal l x0 x1 x2 : (forall r, In r l -> 0 <= w r) -> wls_col l = Some (x0, x1, x2) ->
  forall y0 y1 y2, cost x0 x1 x2 l <= cost y0 y1 y2 l.
Proof.
  intros Hw H. apply solve3_normal_eq in H. destruct H as (H0 & H1 & H2).
  apply normal_eq_optimal; [assumption| | |].
  - rewrite grad0. exact H0.
  - rewrite grad1. exact H1.
  - rewrite grad2. exact H2.
Qed.

(* uniqueness: any solution of the normal equations is the Cramer solution (determinant non-zero) *)
Theorem solve3_unique s x0 x1 x2 y0 y1 y2 : solve3 s = Some (x0, x1, x2) ->
  y0 * S1 s + y1 * Si s + y2 * Sj s - T1 s == 0 ->
  y0 * Si s + y1 * Sii s + y2 * Sij s - Ti s == 0 ->
  y0 * Sj s + y1 * Sij s + y2 * Sjj s - Tj s == 0 ->
  y0 == x0 /\ y1 == x1 /\ y2 == x2.
Proof.
  unfold solve3. destruct (Qeq_bool (ndet s) 0) eqn:E; [discriminate|]. apply Qeq_bool_neq in E.
  intros H H0 H1 H2. injection H as <- <- <-.
  assert (E0 : T1 s == y0 * S1 s + y1 * Si s + y2 * Sj s) by lra.
  assert (E1 : Ti s == y0 * Si s + y1 * Sii s + y2 * Sij s) by lra.
  assert (E2 : Tj s == y0 * Sj s + y1 * Sij s + y2 * Sjj s) by lra.
  unfold ndet, det3 in *. rewrite E0, E1, E2. repeat split; field; exact E.
Qed.

(* rescaling all weights by k <> 0 changes nothing *)
Definition scale_w (k : Q) (l : list row) : list row := map (fun r => {| w := k * w r; ri := ri r; rj := rj r; rp := rp r |}) l.

Lemma sums_scale k l : let s := sums_of l in let s' := sums_of (scale_w k l) in
  S1 s' == k * S1 s /\ Si s' == k * Si s /\ Sj s' == k * Sj s /\ Sii s' == k * Sii s /\ Sij s' == k * Sij s /\
  Sjj s' == k * Sjj s /\ T1 s' == k * T1 s /\ Ti s' == k * Ti s /\ Tj s' == k * Tj s.
Proof.
  cbv zeta. unfold sums_of. cbn [S1 Si Sj Sii Sij Sjj T1 Ti Tj].
  repeat split; (induction l as [|r t IH]; cbn [scale_w map sumf w ri rj rp]; [ring|]; fold (scale_w k t); rewrite !Qred_correct, IH; ring).
Qed.

Definition seq3 (a b : Q * Q * Q) : Prop :=
  match a, b with (a0, a1, a2), (b0, b1, b2) => a0 == b0 /\ a1 == b1 /\ a2 == b2 end.

Lemma scaled_zero k e : ~ k == 0 -> k * e == 0 -> e == 0.
Proof. intros Hk H. apply Qmult_integral in H. destruct H; [contradiction|assumption]. Qed.

Theorem weight_scale_invariant k l x : ~ k == 0 -> wls_col l = Some x ->
  exists y, wls_col (scale_w k l) = Some y /\ seq3 y x.
Proof.
  intros Hk H. destruct x as [[x0 x1] x2]. unfold wls_col in *.
  pose proof (sums_scale k l) as ES. cbv zeta in ES.
  set (s := sums_of l) in *. set (s' := sums_of (scale_w k l)) in *. clearbody s s'.
  destruct ES as (e1 & e2 & e3 & e4 & e5 & e6 & e7 & e8 & e9).
  assert (Hd : ndet s' == k * k * k * ndet s).
  { unfold ndet, det3. rewrite e1, e2, e3, e4, e5, e6. ring. }
  assert (Hnz : ~ ndet s == 0).
  { unfold solve3 in H. destruct (Qeq_bool (ndet s) 0) eqn:E; [discriminate|]. apply Qeq_bool_neq in E. exact E. }
  assert (Hnz' : ~ ndet s' == 0).
  { rewrite Hd. intros Hc. apply Hnz. apply (scaled_zero k); [assumption|]. apply (scaled_zero k); [assumption|].
    apply (scaled_zero k); [assumption|]. rewrite <- Hc. ring. }
  destruct (solve3 s') as [[[y0 y1] y2]|] eqn:Es'.
  - exists (y0, y1, y2). split; [reflexivity|]. cbn [seq3].
    apply solve3_normal_eq in Es'. destruct Es' as (M0 & M1 & M2).
    rewrite e1, e2, e3, e7 in M0. rewrite e2, e4, e5, e8 in M1. rewrite e3, e5, e6, e9 in M2.
    apply (solve3_unique s x0 x1 x2 y0 y1 y2 H); apply (scaled_zero k); try assumption.
    + rewrite <- M0. ring.
    + rewrite <- M1. ring.
    + rewrite <- M2. ring.
  - exfalso. unfold solve3 in Es'. destruct (Qeq_bool (ndet s') 0) eqn:E; [|discriminate].
    apply Qeq_bool_iff in E. contradiction.
Qed.
