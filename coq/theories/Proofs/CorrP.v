From Coq Require Import ZArith List Bool Lia.
From BF Require Import Base.Util Model.Corr.
Import ListNotations.
Open Scope Z_scope.

Lemma refl_range N a t : 0 < N -> 0 <= (a - t) mod N < N.
Proof. intros. apply Z.mod_pos_bound. assumption. Qed.

Lemma mod_eq_diff N x y : 0 < N -> 0 <= x < N -> 0 <= y < N -> (x - y) mod N = 0 -> x = y.
Proof.
  intros HN Hx Hy Hd. apply Z.mod_divide in Hd; [|lia]. destruct Hd as [k Hk].
  assert (k <= -1 \/ k = 0 \/ 1 <= k) as [?|[?|?]] by lia; nia.
Qed.

Lemma refl_inj N a x y : 0 < N -> 0 <= x < N -> 0 <= y < N ->
  (a - x) mod N = (a - y) mod N -> x = y.
Proof.
  intros HN Hx Hy E. symmetry. apply (mod_eq_diff N); try assumption.
  replace (y - x) with ((a - x) - (a - y)) by lia.
  rewrite Zminus_mod, E, Z.sub_diag. apply Z.mod_0_l. lia.
Qed.

Lemma shift_refl N i h t : 0 < N ->
  (i + (2 * h - t) mod N - h) mod N = (i + h - t) mod N.
Proof.
  intros HN. replace (i + (2 * h - t) mod N - h) with ((2 * h - t) mod N + (i - h)) by lia.
  rewrite Zplus_mod_idemp_l. f_equal. lia.
Qed.

(* for a mask that is point symmetric about (N/2, M/2) the cyclic convolution the FFT computes IS the
   cross-correlation, for even and odd sizes alike *)
Theorem cconv_is_xcorr N M d m i k : 1 <= N -> 1 <= M -> csym N M m ->
  cconv N M d m i k = xcorr N M d m i k.
Proof.
  intros HN HM Hs. unfold xcorr, cconv.
  rewrite <- (Zsum_reindex N (fun t => (2 * (N / 2) - t) mod N)
     (fun t => Zsum M (fun u => m t u * d ((i + t - N / 2) mod N) ((k + u - M / 2) mod M)))).
  2: { intros x _. apply refl_range. lia. }
  2: { intros x y Hx Hy. apply refl_inj; lia. }
  apply Zsum_ext. intros t Ht.
  rewrite <- (Zsum_reindex M (fun u => (2 * (M / 2) - u) mod M)
     (fun u => m ((2 * (N / 2) - t) mod N) u * d ((i + (2 * (N / 2) - t) mod N - N / 2) mod N) ((k + u - M / 2) mod M))).
  2: { intros x _. apply refl_range. lia. }
  2: { intros x y Hx Hy. apply refl_inj; lia. }
  apply Zsum_ext. intros u Hu.
  rewrite <- (Hs t u Ht Hu). rewrite !shift_refl by lia. reflexivity.
Qed.

Lemma csymb_sound N M m : csymb N M m = true -> csym N M m.
Proof.
  unfold csymb, csym. intros H t u Ht Hu.
  rewrite forallb_forall in H. specialize (H t (proj2 (in_zseq N t) Ht)).
  rewrite forallb_forall in H. specialize (H u (proj2 (in_zseq M u) Hu)).
  apply Z.eqb_eq in H. exact H.
Qed.

(* cyclic translation of the data translates the map (full-frame method) *)
Definition roll (N M vy vx : Z) (d : img) : img := fun y x => d ((y - vy) mod N) ((x - vx) mod M).

Lemma roll_idx N a v : 0 < N -> (a mod N - v) mod N = (a - v) mod N.
Proof. intros. rewrite Zminus_mod_idemp_l. reflexivity. Qed.

Theorem cconv_roll N M d m vy vx i k : 1 <= N -> 1 <= M ->
  cconv N M (roll N M vy vx d) m i k = cconv N M d m ((i - vy) mod N) ((k - vx) mod M).
Proof.
  intros HN HM. unfold cconv, roll. apply Zsum_ext. intros t _. apply Zsum_ext. intros u _.
  f_equal. rewrite !roll_idx by lia.
  f_equal.
  - rewrite <- (Zminus_mod_idemp_l ((i - vy) mod N + N / 2) t).
    rewrite Zplus_mod_idemp_l. rewrite Zminus_mod_idemp_l. f_equal. lia.
  - rewrite <- (Zminus_mod_idemp_l ((k - vx) mod M + M / 2) u).
    rewrite Zplus_mod_idemp_l. rewrite Zminus_mod_idemp_l. f_equal. lia.
Qed.

(* transposing data and mask transposes the map *)
Lemma sumZ_cons x l : sumZ (x :: l) = x + sumZ l.
Proof. reflexivity. Qed.

Lemma sumZ_swap (f : Z -> Z -> Z) l2 : forall l1,
  sumZ (map (fun t => sumZ (map (fun u => f t u) l2)) l1) = sumZ (map (fun u => sumZ (map (fun t => f t u) l1)) l2).
Proof.
  induction l1 as [|a l1 IH].
  - cbn [map]. change (sumZ []) with 0. symmetry. apply sumZ_map_const0.
  - cbn [map]. rewrite sumZ_cons, IH. rewrite <- sumZ_map_add. apply sumZ_map_ext. intros u _.
    rewrite sumZ_cons. reflexivity.
Qed.

Lemma Zsum_swap N M (f : Z -> Z -> Z) :
  Zsum N (fun t => Zsum M (fun u => f t u)) = Zsum M (fun u => Zsum N (fun t => f t u)).
Proof. unfold Zsum. apply sumZ_swap. Qed.

Definition transp (f : img) : img := fun y x => f x y.

Theorem cconv_transpose N M d m i k :
  cconv M N (transp d) (transp m) k i = cconv N M d m i k.
Proof. unfold cconv, transp. rewrite Zsum_swap. reflexivity. Qed.

(* scaling data or mask scales the map: argmax, centre of mass and elevation are invariant (see EvalP) *)
Lemma cconv_scale N M d m s i k :
  cconv N M (fun y x => s * d y x) m i k = s * cconv N M d m i k.
Proof.
  unfold cconv, Zsum. rewrite <- sumZ_map_scale. apply sumZ_map_ext. intros t _.
  rewrite <- sumZ_map_scale. apply sumZ_map_ext. intros u _. lia.
Qed.

(* a constant added to the data adds (constant * mask sum): zero for a zero-sum mask *)
Lemma cconv_offset N M d m b i k :
  cconv N M (fun y x => d y x + b) m i k =
  cconv N M d m i k + b * Zsum N (fun t => Zsum M (fun u => m t u)).
Proof.
  unfold cconv, Zsum. rewrite <- sumZ_map_scale, <- sumZ_map_add. apply sumZ_map_ext. intros t _.
  rewrite <- sumZ_map_scale, <- sumZ_map_add. apply sumZ_map_ext. intros u _. lia.
Qed.

(* get_correlation: with the frame's own shape and ifftshift the zero displacement lands on n/2 for every n;
   fftshift agrees with ifftshift only for even n (defect F8, repaired) *)
Lemma ifftshift_centre n : 1 <= n -> ifftshift_src n (n / 2) = (2 * (n / 2)) mod n /\ ifftshift_src n 0 = (n / 2) mod n.
Proof. intros. unfold ifftshift_src. split; f_equal; lia. Qed.

Lemma fftshift_eq_ifftshift_even n i : 1 <= n -> Z.even n = true -> fftshift_src n i = ifftshift_src n i.
Proof.
  intros Hn He. unfold fftshift_src, ifftshift_src. apply Z.even_spec in He. destruct He as [k ->].
  replace (2 * k / 2) with k by (rewrite Z.mul_comm, Z.div_mul; lia).
  replace (i + k) with (i - k + 1 * (2 * k)) by lia. rewrite Z_mod_plus_full. reflexivity.
Qed.

Lemma fftshift_ne_ifftshift_odd : exists n i, 1 <= n /\ 0 <= i < n /\ fftshift_src n i <> ifftshift_src n i.
Proof. exists 41, 0. split; [lia|]. split; [lia|]. vm_compute. congruence. Qed.

Lemma irfft_default_len_odd_wrong : exists m, 1 <= m /\ irfft_default_len m <> m.
Proof. exists 41. split; [lia|]. vm_compute. congruence. Qed.

Lemma irfft_default_len_even m : 0 <= m -> Z.even m = true -> irfft_default_len m = m.
Proof.
  intros Hm He. unfold irfft_default_len. apply Z.even_spec in He. destruct He as [k ->].
  replace (2 * k / 2) with k by (rewrite Z.mul_comm, Z.div_mul; lia). lia.
Qed.
