From Coq Require Import ZArith List Bool Lia QArith.
From BF Require Import Base.Util Model.Crop Model.Corr Model.Eval Model.Prelog Model.Blocks Model.Pipeline Model.Stamp Model.Match Model.UDF
  Proofs.CropP Proofs.BlocksP Proofs.PipelineP Proofs.StampP Proofs.CorrP.
Import ListNotations.
Open Scope Z_scope.

(* ================= frame UDFs: any partitioning, any order ================= *)
Definition dummy : peak_result := {| r_cy := 0; r_cx := 0; r_height := 0; r_com := Build_com 0 0 0 0 |}.

(* the stand-alone result for frame i: entry k *)
Definition pure_frame one lg c mask (frames : Z -> fin) (i k : Z) : peak_result :=
  let fi := frames i in
  if inb (u_n fi) k then fast_peak one lg (u_fy fi) (u_fx fi) (u_f fi) c mask (u_peaks fi k) else dummy.

Definition wf_frames (frames : Z -> fin) : Prop := forall i, 0 <= u_fy (frames i) /\ 0 <= u_fx (frames i) /\ 0 <= u_n (frames i).

Definition Rinv one lg c mask frames (seen : list Z) (res : Z -> option (Z -> peak_result)) : Prop :=
  (forall i, In i seen -> exists o, res i = Some o /\ forall k, o k = pure_frame one lg c mask frames i k) /\
  (forall i, ~ In i seen -> res i = None).

Lemma run_partition_inv b one lg c mask bc frames : 0 <= c -> wf_frames frames -> forall part st res seen,
  Rinv one lg c mask frames seen res ->
  Rinv one lg c mask frames (seen ++ part) (snd (run_partition b one lg c mask bc frames part st res)).
Proof.
  intros Hc Hwf. unfold run_partition.
  induction part as [|i part IH]; intros st res seen Hinv; cbn [fold_left].
  - rewrite app_nil_r. exact Hinv.
  - replace (seen ++ i :: part) with ((seen ++ [i]) ++ part) by (rewrite <- app_assoc; reflexivity).
    apply IH. cbn [fst snd]. destruct Hinv as [H1 H2]. split.
    + intros j Hj. destruct (j =? i) eqn:E.
      * apply Z.eqb_eq in E. subst j. eexists. split; [reflexivity|]. intros k.
        destruct (Hwf i) as (Hy & Hx & Hn).
        rewrite run_call_outs by assumption. unfold pure_frame. cbn [outs]. reflexivity.
      * apply Z.eqb_neq in E. apply in_app_or in Hj. destruct Hj as [Hj|[Hj|[]]]; [apply H1, Hj|congruence].
    + intros j Hj. destruct (j =? i) eqn:E.
      * apply Z.eqb_eq in E. subst j. exfalso. apply Hj. apply in_or_app. right. left. reflexivity.
      * apply H2. intros Hc'. apply Hj. apply in_or_app. left. exact Hc'.
Qed.

Lemma run_dataset_inv b one lg c mask bc frames fresh : 0 <= c -> wf_frames frames -> forall parts n res seen,
  Rinv one lg c mask frames seen res ->
  Rinv one lg c mask frames (seen ++ concat parts)
    (snd (fold_left (fun acc part => (S (fst acc), snd (run_partition b one lg c mask bc frames part (fresh (fst acc)) (snd acc)))) parts (n, res))).
Proof.
  intros Hc Hwf. induction parts as [|p parts IH]; intros n res seen Hinv; cbn [fold_left concat].
  - rewrite app_nil_r. exact Hinv.
  - rewrite app_assoc. apply IH. cbn [fst snd]. apply run_partition_inv; assumption.
Qed.

(* For ANY grouping of the frames into partitions (any sizes, any order, single-frame partitions), any buffer count and either
   cropping back-end: the result stored for frame i is the stand-alone result for frame i; frames not scheduled stay empty *)
Theorem udf_any_schedule b one lg c mask bc frames parts fresh : 0 <= c -> wf_frames frames ->
  (forall i, In i (concat parts) -> exists o, run_dataset b one lg c mask bc frames parts fresh i = Some o /\
                                             forall k, o k = pure_frame one lg c mask frames i k) /\
  (forall i, ~ In i (concat parts) -> run_dataset b one lg c mask bc frames parts fresh i = None).
Proof.
  intros Hc Hwf. unfold run_dataset.
  pose proof (run_dataset_inv b one lg c mask bc frames fresh Hc Hwf parts O (fun _ => None) []) as H.
  cbn [app] in H. apply H. split; [intros i []|reflexivity].
Qed.

(* the two roundings differ: round(peak) + round(shift) is what is specified, not round(peak + shift) *)
Lemma shifted_peak_not_round_of_sum :
  fst (shifted_peak ((15#1), (0#1))%Q ((1#2), (0#1))%Q) <> round_he ((15#1) + (1#2))%Q.
Proof. vm_compute. congruence. Qed.

(* ================= SparseCorrelationUDF ================= *)
Inductive chain_from : Z -> list Z -> Prop :=
  | cf_nil a : chain_from a []
  | cf_cons a b t : a <= b -> chain_from b t -> chain_from a (b :: t).
Definition chain (cuts : list Z) : Prop := match cuts with [] => False | a :: rest => chain_from a rest end.

Lemma chain_from_last a rest : chain_from a rest -> a <= last rest a.
Proof.
  induction 1 as [a|a b t Hab Hc IH]; [cbn; lia|].
  destruct t as [|c t]; [cbn; lia|]. change (last (b :: c :: t) a) with (last (c :: t) a).
  replace (last (c :: t) a) with (last (c :: t) b); [lia|]. clear. revert c. induction t as [|d t IH]; intros c; [reflexivity|].
  change (last (c :: d :: t) b) with (last (d :: t) b). change (last (c :: d :: t) a) with (last (d :: t) a). apply IH.
Qed.

Lemma last_cons_default {A} (x : A) l d d' : last (x :: l) d = last (x :: l) d'.
Proof. revert x. induction l as [|y l IH]; intros x; [reflexivity|]. change (last (x :: y :: l) d) with (last (y :: l) d). change (last (x :: y :: l) d') with (last (y :: l) d'). apply IH. Qed.

Lemma sum_bands_from (g : Z -> Z) a rest : chain_from a rest ->
  sumZ (map (fun rb => sumZ (map g (zrange (fst rb) (snd rb)))) (bands_from a rest)) = sumZ (map g (zrange a (last rest a))).
Proof.
  induction 1 as [a|a b t Hab Hc IH].
  - cbn. rewrite zrange_empty by lia. reflexivity.
  - cbn [bands_from map]. change (sumZ (?x :: ?l)) with (x + sumZ l). cbn [fst snd]. rewrite IH.
    pose proof (chain_from_last b t Hc) as Hl.
    assert (E : last (b :: t) a = last t b).
    { destruct t as [|c t]; [reflexivity|]. change (last (b :: c :: t) a) with (last (c :: t) a). apply last_cons_default. }
    rewrite E. rewrite (zrange_split a b (last t b)) by lia. rewrite map_app, sumZ_app. reflexivity.
Qed.

Lemma sum_bands (g : Z -> Z) cuts : chain cuts ->
  sumZ (map (fun rb => sumZ (map g (zrange (fst rb) (snd rb)))) (bands cuts)) = sumZ (map g (zrange (hd 0 cuts) (last cuts 0))).
Proof.
  destruct cuts as [|a rest]; [intros []|]. cbn [chain bands hd]. intros Hc. rewrite (sum_bands_from g a rest Hc).
  destruct rest as [|b t]; [reflexivity|]. change (last (a :: b :: t) 0) with (last (b :: t) 0).
  rewrite (last_cons_default b t a 0). reflexivity.
Qed.

Lemma sumZ_map_flat_map {A B} (f : B -> Z) (g : A -> list B) l : sumZ (map f (flat_map g l)) = sumZ (map (fun a => sumZ (map f (g a))) l).
Proof. induction l as [|a l IH]; cbn [flat_map map]; [reflexivity|]. rewrite map_app, sumZ_app, IH. reflexivity. Qed.

Lemma sumZ_swap_gen {A B} (f : A -> B -> Z) (l2 : list B) : forall l1 : list A,
  sumZ (map (fun t => sumZ (map (fun u => f t u) l2)) l1) = sumZ (map (fun u => sumZ (map (fun t => f t u) l1)) l2).
Proof.
  induction l1 as [|a l1 IH].
  - cbn [map]. change (sumZ []) with 0. symmetry. apply sumZ_map_const0.
  - cbn [map]. change (sumZ (?x :: ?l)) with (x + sumZ l). rewrite IH. rewrite <- sumZ_map_add. apply sumZ_map_ext. intros u _.
    reflexivity.
Qed.

Definition mk_tile (rb cb : Z * Z) : tile := {| t_y0 := fst rb; t_x0 := fst cb; t_h := snd rb - fst rb; t_w := snd cb - fst cb |}.

Lemma row_band_sum ccuts W (g : Z -> Z -> Z) rb : chain ccuts -> hd 0 ccuts = 0 -> last ccuts 0 = W ->
  sumZ (map (fun tl => sum_tile tl g) (map (mk_tile rb) (bands ccuts))) =
  sumZ (map (fun y => sumZ (map (fun x => g y x) (zrange 0 W))) (zrange (fst rb) (snd rb))).
Proof.
  intros Hcc Hc0 HcW. rewrite map_map.
  transitivity (sumZ (map (fun cb : Z * Z => sumZ (map (fun y => sumZ (map (fun x => g y x) (zrange (fst cb) (snd cb)))) (zrange (fst rb) (snd rb)))) (bands ccuts))).
  - apply sumZ_map_ext. intros cb _. unfold sum_tile, mk_tile. cbn [t_y0 t_x0 t_h t_w].
    replace (fst rb + (snd rb - fst rb)) with (snd rb) by lia. replace (fst cb + (snd cb - fst cb)) with (snd cb) by lia. reflexivity.
  - rewrite (sumZ_swap_gen (fun (cb : Z * Z) y => sumZ (map (fun x => g y x) (zrange (fst cb) (snd cb))))).
    apply sumZ_map_ext. intros y _. rewrite (sum_bands (fun x => g y x) ccuts Hcc), Hc0, HcW. reflexivity.
Qed.

(* summing a per-pixel quantity tile by tile over a grid of row bands x column bands gives the sum over the whole plane *)
Theorem tiles_sum rcuts ccuts H W (g : Z -> Z -> Z) : chain rcuts -> chain ccuts ->
  hd 0 rcuts = 0 -> last rcuts 0 = H -> hd 0 ccuts = 0 -> last ccuts 0 = W ->
  sumZ (map (fun tl => sum_tile tl g) (grid_tiles rcuts ccuts)) = sum_plane H W g.
Proof.
  intros Hr Hcc Hr0 HrH Hc0 HcW. unfold grid_tiles. rewrite sumZ_map_flat_map.
  transitivity (sumZ (map (fun rb : Z * Z => sumZ (map (fun y => sumZ (map (fun x => g y x) (zrange 0 W))) (zrange (fst rb) (snd rb)))) (bands rcuts))).
  - apply sumZ_map_ext. intros rb _. apply (row_band_sum ccuts W g rb Hcc Hc0 HcW).
  - rewrite (sum_bands (fun y => sumZ (map (fun x => g y x) (zrange 0 W))) rcuts Hr), Hr0, HrH.
    unfold sum_plane, Zsum. rewrite !zrange_0. reflexivity.
Qed.

(* the dot product of a stamped mask with the data is the direct correlation of the data with the template at that offset,
   pixels outside the frame counting as zero *)
Lemma Zsum_shift_clip H th oy (F : Z -> Z -> Z) :
  Zsum H (fun y => if inb th (y - oy) then F (y - oy) y else 0) = Zsum th (fun ty => if inb H (oy + ty) then F ty (oy + ty) else 0).
Proof.
  transitivity (Zsum H (fun y => Zsum th (fun ty => if ty =? y - oy then F ty y else 0))).
  - apply Zsum_ext. intros y _. rewrite (Zsum_pick th (y - oy) (fun ty => F ty y)). reflexivity.
  - rewrite Zsum_swap. apply Zsum_ext. intros ty _.
    transitivity (Zsum H (fun y => if y =? oy + ty then F ty y else 0)).
    + apply Zsum_ext. intros y _. destruct (ty =? y - oy) eqn:E1; destruct (y =? oy + ty) eqn:E2; try reflexivity;
        [apply Z.eqb_eq in E1; apply Z.eqb_neq in E2; lia|apply Z.eqb_neq in E1; apply Z.eqb_eq in E2; lia].
    + rewrite (Zsum_pick H (oy + ty) (fun y => F ty y)). reflexivity.
Qed.

Lemma sumZ_all_zero {A} (f : A -> Z) l : (forall x, In x l -> f x = 0) -> sumZ (map f l) = 0.
Proof. intros H. rewrite (sumZ_map_ext f (fun _ => 0) l H). apply sumZ_map_const0. Qed.

Theorem sparse_is_direct_correlation th tw t oy ox H W v :
  sum_plane H W (fun y x => stamp th tw t oy ox H W y x * v y x) = direct_corr th tw t oy ox H W v.
Proof.
  unfold sum_plane, direct_corr, stamp, pad0.
  transitivity (Zsum H (fun y => if inb th (y - oy) then
      (fun ty y' => Zsum tw (fun tx => if inb W (ox + tx) then t ty tx * v y' (ox + tx) else 0)) (y - oy) y else 0)).
  - apply Zsum_ext. intros y Hy. assert (Ey : inb H y = true) by (apply inb_true; exact Hy). rewrite Ey. cbn [andb].
    destruct (inb th (y - oy)) eqn:E.
    + rewrite <- (Zsum_shift_clip W tw ox (fun tx x => t (y - oy) tx * v y x)).
      apply Zsum_ext. intros x Hx. assert (Ex : inb W x = true) by (apply inb_true; exact Hx). rewrite Ex. cbn [andb].
      destruct (inb tw (x - ox)); cbv iota; [reflexivity|lia].
    + unfold Zsum. apply sumZ_all_zero. intros x _.
      destruct (inb W x), (inb tw (x - ox)); cbn [andb]; cbv iota; lia.
  - rewrite (Zsum_shift_clip H th oy (fun ty y' => Zsum tw (fun tx => if inb W (ox + tx) then t ty tx * v y' (ox + tx) else 0))).
    apply Zsum_ext. intros ty _. destruct (inb H (oy + ty)) eqn:E; cbn [andb].
    + apply Zsum_ext. intros tx _. destruct (inb W (ox + tx)); cbv iota; lia.
    + unfold Zsum. symmetry. apply sumZ_all_zero. intros tx _. cbv iota. lia.
Qed.

(* for ANY per-pixel value v that does not depend on the tile: independent of the tiling and equal to the direct correlation *)
Theorem sparse_tiles_direct rcuts ccuts th tw t oy ox H W v : chain rcuts -> chain ccuts ->
  hd 0 rcuts = 0 -> last rcuts 0 = H -> hd 0 ccuts = 0 -> last ccuts 0 = W ->
  sparse_corr_tiles (grid_tiles rcuts ccuts) th tw t oy ox H W v = direct_corr th tw t oy ox H W v.
Proof.
  intros. unfold sparse_corr_tiles. rewrite (tiles_sum rcuts ccuts H W) by assumption. apply sparse_is_direct_correlation.
Qed.

(* the code log-scales per tile.  PARTIAL: if all tiles have the same minimum m the result is the direct correlation of the
   frame log-scaled with that minimum, whatever the tiling ... *)
Theorem sparse_code_partial lg one rcuts ccuts th tw t oy ox H W stack f m : chain rcuts -> chain ccuts ->
  hd 0 rcuts = 0 -> last rcuts 0 = H -> hd 0 ccuts = 0 -> last ccuts 0 = W ->
  (forall tl, In tl (grid_tiles rcuts ccuts) -> tile_min tl stack = m) ->
  sparse_corr_code lg one (grid_tiles rcuts ccuts) th tw t oy ox H W stack f = direct_corr th tw t oy ox H W (fun y x => lg (f y x - m + one)).
Proof.
  intros Hr Hc H1 H2 H3 H4 Hm. rewrite <- (sparse_tiles_direct rcuts ccuts) by assumption.
  unfold sparse_corr_code, sparse_corr_tiles. apply sumZ_map_ext. intros tl Htl. rewrite (Hm tl Htl). reflexivity.
Qed.

(* ... REFUTED in general (known finding F9): two tilings of the same frame give different results *)
Theorem sparse_tiling_dependent_refuted : exists lg one tiles1 tiles2 th tw t oy ox H W f,
  sparse_corr_code lg one tiles1 th tw t oy ox H W [f] f <> sparse_corr_code lg one tiles2 th tw t oy ox H W [f] f.
Proof.
  exists Z.log2, 1, (grid_tiles [0; 2] [0; 2]), (grid_tiles [0; 1; 2] [0; 2]), 1, 1, (fun _ _ => 1), 1, 1, 2, 2,
         (fun y x => 16 * y + 8 * x).
  vm_compute. congruence.
Qed.

(* ================= IntegrationUDF ================= *)
Theorem integration_spec fy fx f c mask py px :
  integrate fy fx f c mask py px = Zsum (2 * c) (fun y => Zsum (2 * c) (fun x => pad0 fy fx f (py - c + y) (px - c + x) * mask y x)).
Proof.
  unfold integrate. apply Zsum_ext. intros y _. apply Zsum_ext. intros x _. rewrite crop_px_spec. reflexivity.
Qed.
