From Coq Require Import QArith Lqa List Bool ZArith Morphisms.
From BF Require Import Model.Lattice Model.WLS Proofs.LatticeP Proofs.WLSP.
Import ListNotations.
Open Scope Q_scope.

(* exact data: if every response is exactly  m0 + i m1 + j m2  then the fit returns (m0, m1, m2) *)
Lemma sumf_zero f l : (forall r, In r l -> f r == 0) -> sumf f l == 0.
Proof.
  induction l as [|r t IH]; intros H; cbn [sumf]; [reflexivity|]. rewrite Qred_correct.
  rewrite (H r (or_introl eq_refl)), IH; [ring|]. intros r' Hr'. apply H. right. exact Hr'.
Qed.

Theorem exact_data_recovered l m0 m1 m2 x0 x1 x2 :
  (forall r, In r l -> rp r == m0 + ri r * m1 + rj r * m2) ->
  wls_col l = Some (x0, x1, x2) -> m0 == x0 /\ m1 == x1 /\ m2 == x2.
Proof.
  intros Hex H. unfold wls_col in H. apply (solve3_unique (sums_of l) x0 x1 x2 m0 m1 m2 H).
  - rewrite <- (grad0 l m0 m1 m2). apply sumf_zero. intros r Hr. unfold res. rewrite (Hex r Hr). ring.
  - rewrite <- (grad1 l m0 m1 m2). apply sumf_zero. intros r Hr. unfold res. rewrite (Hex r Hr). ring.
  - rewrite <- (grad2 l m0 m1 m2). apply sumf_zero. intros r Hr. unfold res. rewrite (Hex r Hr). ring.
Qed.

(* linear response: same weights and regressors, response' = al * p + be * p2 + ga  =>  solution' = al * x + be * x2 + (ga,0,0) *)
Record row2 := { w2 : Q; i2 : Q; j2 : Q; p2a : Q; p2b : Q }.
Definition ra (l : list row2) : list row := map (fun q => Build_row (w2 q) (i2 q) (j2 q) (p2a q)) l.
Definition rb (l : list row2) : list row := map (fun q => Build_row (w2 q) (i2 q) (j2 q) (p2b q)) l.
Definition rc (al be ga : Q) (l : list row2) : list row :=
  map (fun q => Build_row (w2 q) (i2 q) (j2 q) (al * p2a q + be * p2b q + ga)) l.

Lemma sums_lin al be ga l : let sa := sums_of (ra l) in let sb := sums_of (rb l) in let sc := sums_of (rc al be ga l) in
  S1 sb == S1 sa /\ Si sb == Si sa /\ Sj sb == Sj sa /\ Sii sb == Sii sa /\ Sij sb == Sij sa /\ Sjj sb == Sjj sa /\
  S1 sc == S1 sa /\ Si sc == Si sa /\ Sj sc == Sj sa /\ Sii sc == Sii sa /\ Sij sc == Sij sa /\ Sjj sc == Sjj sa /\
  T1 sc == al * T1 sa + be * T1 sb + ga * S1 sa /\
  Ti sc == al * Ti sa + be * Ti sb + ga * Si sa /\
  Tj sc == al * Tj sa + be * Tj sb + ga * Sj sa.
Proof.
  cbv zeta. unfold sums_of, ra, rb, rc. cbn [S1 Si Sj Sii Sij Sjj T1 Ti Tj].
  repeat split; (induction l as [|q t IH]; cbn [map sumf w ri rj rp]; [ring|]; rewrite !Qred_correct, IH; ring).
Qed.

Theorem response_linear al be ga l x0 x1 x2 y0 y1 y2 :
  wls_col (ra l) = Some (x0, x1, x2) -> wls_col (rb l) = Some (y0, y1, y2) ->
  exists z0 z1 z2, wls_col (rc al be ga l) = Some (z0, z1, z2) /\
    z0 == al * x0 + be * y0 + ga /\ z1 == al * x1 + be * y1 /\ z2 == al * x2 + be * y2.
Proof.
  intros Ha Hb. unfold wls_col in *.
  pose proof (sums_lin al be ga l) as ES. cbv zeta in ES.
  set (sa := sums_of (ra l)) in *. set (sb := sums_of (rb l)) in *. set (sc := sums_of (rc al be ga l)) in *. clearbody sa sb sc.
  destruct ES as (b1 & b2 & b3 & b4 & b5 & b6 & c1 & c2 & c3 & c4 & c5 & c6 & t1 & t2 & t3).
  pose proof (solve3_normal_eq _ _ _ _ Ha) as (A0 & A1 & A2).
  pose proof (solve3_normal_eq _ _ _ _ Hb) as (B0 & B1 & B2).
  rewrite b1, b2, b3 in B0. rewrite b2, b4, b5 in B1. rewrite b3, b5, b6 in B2.
  assert (Hnz : ~ ndet sa == 0).
  { unfold solve3 in Ha. destruct (Qeq_bool (ndet sa) 0) eqn:E; [discriminate|]. apply Qeq_bool_neq in E. exact E. }
  assert (Hd : ndet sc == ndet sa) by (unfold ndet, det3; rewrite c1, c2, c3, c4, c5, c6; ring).
  destruct (solve3 sc) as [[[z0 z1] z2]|] eqn:Ec.
  - exists z0, z1, z2. split; [reflexivity|].
    assert (U := solve3_unique sc z0 z1 z2 (al * x0 + be * y0 + ga) (al * x1 + be * y1) (al * x2 + be * y2) Ec).
    assert (G : al * x0 + be * y0 + ga == z0 /\ al * x1 + be * y1 == z1 /\ al * x2 + be * y2 == z2).
    { apply U; rewrite ?c1, ?c2, ?c3, ?c4, ?c5, ?c6, ?t1, ?t2, ?t3.
      - transitivity (al * (x0 * S1 sa + x1 * Si sa + x2 * Sj sa - T1 sa) + be * (y0 * S1 sa + y1 * Si sa + y2 * Sj sa - T1 sb)); [ring|].
        rewrite A0, B0. ring.
      - transitivity (al * (x0 * Si sa + x1 * Sii sa + x2 * Sij sa - Ti sa) + be * (y0 * Si sa + y1 * Sii sa + y2 * Sij sa - Ti sb)); [ring|].
        rewrite A1, B1. ring.
      - transitivity (al * (x0 * Sj sa + x1 * Sij sa + x2 * Sjj sa - Tj sa) + be * (y0 * Sj sa + y1 * Sij sa + y2 * Sjj sa - Tj sb)); [ring|].
        rewrite A2, B2. ring. }
    destruct G as (G0 & G1 & G2). rewrite G0, G1, G2. repeat split; reflexivity.
  - exfalso. unfold solve3 in Ec. destruct (Qeq_bool (ndet sc) 0) eqn:E; [|discriminate].
    apply Qeq_bool_iff in E. rewrite Hd in E. contradiction.
Qed.

(* find_center: the centre is a fixed point of the transformation (last column (0,0,1)) *)
Theorem find_center_fixed m11 m12 m21 m22 m31 m32 c :
  find_center ((m11, m12, 0), (m21, m22, 0), (m31, m32, 1)) = Some c ->
  veq (do_transformation ((m11, m12, 0), (m21, m22, 0), (m31, m32, 1)) (0, 0) c) c.
Proof.
  unfold find_center. destruct (Qeq_bool _ 0) eqn:E; [discriminate|]. apply Qeq_bool_neq in E.
  intros H. injection H as <-. unfold veq, do_transformation, vy, vx. cbn [fst snd]. split; field; exact E.
Qed.
