From Coq Require Import ZArith List Bool Lia.
From BF Require Import Base.Util Model.Eval.
Import ListNotations.
Open Scope Z_scope.
Ltac Zify.zify_post_hook ::= Z.to_euclidean_division_equations.

(* ---------- argmax: first maximum in row-major order ---------- *)
Definition amax (v : Z -> Z) (l : list Z) (b0 : Z) : Z :=
  fold_left (fun best i => if v best <? v i then i else best) l b0.

Lemma amax_snoc v l b0 n : amax v (l ++ [n]) b0 = (if v (amax v l b0) <? v n then n else amax v l b0).
Proof. unfold amax. rewrite fold_left_app. reflexivity. Qed.

Lemma amax_spec_nat v (k : nat) :
  let b := amax v (zseq (Z.of_nat (S k))) 0 in
  0 <= b < Z.of_nat (S k) /\
  (forall j, 0 <= j < Z.of_nat (S k) -> v j <= v b) /\
  (forall j, 0 <= j < b -> v j < v b).
Proof.
  induction k as [|k IH].
  - change (zseq (Z.of_nat 1)) with [0]. unfold amax. cbn [fold_left]. rewrite Z.ltb_irrefl. cbv zeta.
    split; [lia|]. split; intros j Hj; [replace j with 0 by lia|]; lia.
  - replace (Z.of_nat (S (S k))) with (Z.of_nat (S k) + 1) by lia.
    rewrite zseq_succ by lia. cbv zeta. rewrite amax_snoc.
    cbv zeta in IH. destruct IH as (Hb & Hmax & Hfirst).
    set (b := amax v (zseq (Z.of_nat (S k))) 0) in *. clearbody b.
    destruct (v b <? v (Z.of_nat (S k))) eqn:E.
    + apply Z.ltb_lt in E. split; [lia|]. split.
      * intros j Hj. destruct (Z.eq_dec j (Z.of_nat (S k))) as [->|Hne]; [lia|].
        specialize (Hmax j). lia.
      * intros j Hj. specialize (Hmax j). lia.
    + apply Z.ltb_ge in E. split; [lia|]. split.
      * intros j Hj. destruct (Z.eq_dec j (Z.of_nat (S k))) as [->|Hne]; [lia|].
        apply Hmax. lia.
      * exact Hfirst.
Qed.

Lemma amax_spec v n : 1 <= n ->
  let b := amax v (zseq n) 0 in
  0 <= b < n /\ (forall j, 0 <= j < n -> v j <= v b) /\ (forall j, 0 <= j < b -> v j < v b).
Proof.
  intros Hn. pose proof (amax_spec_nat v (Z.to_nat (n - 1))) as H.
  replace (Z.of_nat (S (Z.to_nat (n - 1)))) with n in H by lia. exact H.
Qed.

Definition flatv (W : Z) (c : cmap) (i : Z) : Z := c (i / W) (i mod W).

Lemma flat_div_range H W b : 1 <= W -> 0 <= b < H * W -> 0 <= b / W < H /\ 0 <= b mod W < W.
Proof.
  intros HW Hb. split; [split|apply Z.mod_pos_bound; lia].
  - apply Z.div_pos; lia.
  - apply Z.div_lt_upper_bound; [lia|]. rewrite Z.mul_comm. lia.
Qed.

Lemma flat_idx y x W : 0 <= x < W -> (y * W + x) / W = y /\ (y * W + x) mod W = x.
Proof.
  intros Hx. split; symmetry.
  - apply Z.div_unique with x; lia.
  - apply Z.mod_unique with y; lia.
Qed.

Lemma flat_mono y x y' x' W : 0 <= x < W -> 0 <= x' < W -> 0 <= y -> 0 <= y' ->
  (y' * W + x' < y * W + x <-> (y' < y \/ (y' = y /\ x' < x))).
Proof. intros. nia. Qed.

Lemma argmax_flat_amax H W c : argmax_flat H W c = amax (flatv W c) (zseq (H * W)) 0.
Proof. reflexivity. Qed.

(* the reported centre is inside the map, attains the maximum of the map, and is the first such pixel *)
Theorem argmax2_spec H W c : 1 <= H -> 1 <= W ->
  let '(y, x) := argmax2 H W c in
  (0 <= y < H /\ 0 <= x < W) /\
  (forall y' x', 0 <= y' < H -> 0 <= x' < W -> c y' x' <= c y x) /\
  (forall y' x', 0 <= y' < H -> 0 <= x' < W -> y' * W + x' < y * W + x -> c y' x' < c y x).
Proof.
  intros HH HW. unfold argmax2, unravel. rewrite argmax_flat_amax.
  assert (Hn : 1 <= H * W) by nia.
  destruct (amax_spec (flatv W c) (H * W) Hn) as (Hb & Hmax & Hfirst).
  set (b := amax (flatv W c) (zseq (H * W)) 0) in *. clearbody b.
  pose proof (flat_div_range H W b HW Hb) as Hrng.
  split; [exact Hrng|]. split.
  - intros y' x' Hy Hx. specialize (Hmax (y' * W + x')). unfold flatv in Hmax.
    destruct (flat_idx y' x' W Hx) as [E1 E2]. rewrite E1, E2 in Hmax. apply Hmax. nia.
  - intros y' x' Hy Hx Hlt. specialize (Hfirst (y' * W + x')). unfold flatv in Hfirst.
    destruct (flat_idx y' x' W Hx) as [E1 E2]. rewrite E1, E2 in Hfirst. apply Hfirst.
    split; [nia|]. rewrite (Z.div_mod b W) by lia. rewrite (Z.mul_comm W). exact Hlt.
Qed.

(* ---------- refine_center ---------- *)
Lemma clip_r_bounds H W y x : clip_r H W y x <= 2 /\ clip_r H W y x <= y /\ clip_r H W y x <= x /\
  clip_r H W y x <= H - y - 1 /\ clip_r H W y x <= W - x - 1.
Proof. unfold clip_r. lia. Qed.

(* every pixel refine_center / center_of_mass reads lies inside the map *)
Theorem refine_reads_in_bounds H W y x dy dx : let r := clip_r H W y x in
  1 <= r -> 0 <= dy <= 2 * r -> 0 <= dx <= 2 * r ->
  0 <= y - r + dy < H /\ 0 <= x - r + dx < W.
Proof. cbv zeta. pose proof (clip_r_bounds H W y x). lia. Qed.

Lemma fold_min_le l : forall d, fold_left Z.min l d <= d /\ (forall z, In z l -> fold_left Z.min l d <= z).
Proof.
  induction l as [|a l IH]; intros d; cbn [fold_left]; [split; [lia|intros z []]|].
  destruct (IH (Z.min d a)) as [H1 H2]. split; [lia|]. intros z [<-|Hz]; [lia|apply H2, Hz].
Qed.

Lemma cut_min_le c y x r dy dx : 0 <= dy <= 2 * r -> 0 <= dx <= 2 * r ->
  cut_min c y x r <= c (y - r + dy) (x - r + dx).
Proof.
  intros Hy Hx. unfold cut_min. apply fold_min_le. apply in_flat_map. exists dy.
  split; [apply in_zseq; lia|]. apply in_map_iff. exists dx. split; [reflexivity|apply in_zseq; lia].
Qed.

Lemma Zsum_nonneg n f : (forall i, 0 <= i < n -> 0 <= f i) -> 0 <= Zsum n f.
Proof. intros H. unfold Zsum. apply sumZ_nonneg. intros z Hz. apply in_map_iff in Hz. destruct Hz as (i & <- & Hi). apply H, in_zseq, Hi. Qed.

Lemma Zsum_le n f g : (forall i, 0 <= i < n -> f i <= g i) -> Zsum n f <= Zsum n g.
Proof. intros H. unfold Zsum. apply sumZ_map_le. intros i Hi. apply H, in_zseq, Hi. Qed.

Lemma Zsum_scale n k f : Zsum n (fun i => k * f i) = k * Zsum n f.
Proof. unfold Zsum. apply sumZ_map_scale. Qed.

Lemma Zsum_ge_term n f j : (forall i, 0 <= i < n -> 0 <= f i) -> 0 <= j < n -> f j <= Zsum n f.
Proof.
  intros Hnn Hj. unfold Zsum.
  assert (G : forall l, (forall i, In i l -> 0 <= f i) -> In j l -> f j <= sumZ (map f l)).
  { induction l as [|a l IH]; intros Hl Hin; [destruct Hin|].
    cbn [map]. change (sumZ (f a :: map f l)) with (f a + sumZ (map f l)).
    assert (0 <= sumZ (map f l)).
    { apply sumZ_nonneg. intros z Hz. apply in_map_iff in Hz. destruct Hz as (i & <- & Hi). apply Hl. right. exact Hi. }
    destruct Hin as [->|Hin]; [lia|].
    assert (0 <= f a) by (apply Hl; left; reflexivity).
    assert (f j <= sumZ (map f l)) by (apply IH; [intros; apply Hl; right; assumption|assumption]). lia. }
  apply G; [intros i Hi; apply Hnn, in_zseq, Hi|apply in_zseq, Hj].
Qed.

(* centre of mass of non-negative weights lies inside the cut-out: |refined - centre| <= r <= 2 on both axes *)
Theorem refine_com_bounds H W c y x :
  let m := refine_com H W c y x in
  0 <= com_sy m <= 2 * com_r m * com_s m /\ 0 <= com_sx m <= 2 * com_r m * com_s m /\ com_r m <= 2 /\ 0 <= com_s m.
Proof.
  cbv zeta. unfold refine_com. pose proof (clip_r_bounds H W y x) as Hr.
  destruct (clip_r H W y x <=? 0) eqn:E; cbn [com_sy com_sx com_s com_r]; [lia|].
  apply Z.leb_gt in E. set (r := clip_r H W y x) in *. clearbody r.
  set (m := cut_min c y x r).
  assert (Hv : forall dy dx, 0 <= dy < 2 * r + 1 -> 0 <= dx < 2 * r + 1 -> 0 <= c (y - r + dy) (x - r + dx) - m).
  { intros dy dx Hy Hx. unfold m. pose proof (cut_min_le c y x r dy dx). lia. }
  clearbody m.
  assert (Hs : 0 <= Zsum (2 * r + 1) (fun dy => Zsum (2 * r + 1) (fun dx => c (y - r + dy) (x - r + dx) - m))).
  { apply Zsum_nonneg. intros dy Hy. apply Zsum_nonneg. intros dx Hx. apply Hv; assumption. }
  split; [split|split; [split|split; [lia|exact Hs]]].
  - apply Zsum_nonneg. intros dy Hy. apply Zsum_nonneg. intros dx Hx. specialize (Hv dy dx Hy Hx). nia.
  - rewrite <- Zsum_scale. apply Zsum_le. intros dy Hy. rewrite <- Zsum_scale. apply Zsum_le. intros dx Hx.
    specialize (Hv dy dx Hy Hx). nia.
  - apply Zsum_nonneg. intros dy Hy. apply Zsum_nonneg. intros dx Hx. specialize (Hv dy dx Hy Hx). nia.
  - rewrite <- Zsum_scale. apply Zsum_le. intros dy Hy. rewrite <- Zsum_scale. apply Zsum_le. intros dx Hx.
    specialize (Hv dy dx Hy Hx). nia.
Qed.

(* no division by zero: if the centre is the FIRST maximum of the map and r >= 1, the pixel one row up is strictly
   smaller, so the minimum-subtracted cut-out has positive total *)
Theorem refine_com_den_pos H W c : 1 <= H -> 1 <= W ->
  let '(y, x) := argmax2 H W c in
  1 <= clip_r H W y x -> 0 < com_s (refine_com H W c y x).
Proof.
  intros HH HW. pose proof (argmax2_spec H W c HH HW) as Hs.
  destruct (argmax2 H W c) as [y x]. destruct Hs as (Hin & Hmax & Hfirst). intros Hr.
  unfold refine_com. pose proof (clip_r_bounds H W y x) as Hb.
  destruct (clip_r H W y x <=? 0) eqn:E; [apply Z.leb_le in E; lia|].
  cbn [com_s]. set (r := clip_r H W y x) in *. clearbody r.
  set (m := cut_min c y x r).
  assert (Hv : forall dy dx, 0 <= dy < 2 * r + 1 -> 0 <= dx < 2 * r + 1 -> 0 <= c (y - r + dy) (x - r + dx) - m).
  { intros dy dx Hy Hx. unfold m. pose proof (cut_min_le c y x r dy dx). lia. }
  assert (Hc : 0 < c (y - r + r) (x - r + r) - m).
  { unfold m. pose proof (cut_min_le c y x r (r - 1) r) as Hm.
    replace (y - r + (r - 1)) with (y - 1) in Hm by lia. replace (x - r + r) with x in * by lia.
    replace (y - r + r) with y by lia.
    assert (c (y - 1) x < c y x) by (apply Hfirst; nia). lia. }
  clearbody m.
  assert (c (y - r + r) (x - r + r) - m <= Zsum (2 * r + 1) (fun dy => Zsum (2 * r + 1) (fun dx => c (y - r + dy) (x - r + dx) - m))).
  { apply Z.le_trans with (Zsum (2 * r + 1) (fun dx => c (y - r + r) (x - r + dx) - m)).
    - apply (Zsum_ge_term (2 * r + 1) (fun dx => c (y - r + r) (x - r + dx) - m)); [intros; apply Hv; lia|lia].
    - apply (Zsum_ge_term (2 * r + 1) (fun dy => Zsum (2 * r + 1) (fun dx => c (y - r + dy) (x - r + dx) - m))); [|lia].
      intros dy Hy. apply Zsum_nonneg. intros dx Hx. apply Hv; assumption. }
  lia.
Qed.

(* ---------- peak_elevation ---------- *)
Definition qual (W ry rx D i : Z) : Z :=
  let y := i / W in let x := i mod W in (y * D - ry) * (y * D - ry) + (x * D - rx) * (x * D - rx).

Definition estep (W : Z) (c : cmap) (ry rx D height : Z) (best : option (Z * Z)) (i : Z) : option (Z * Z) :=
  let y := i / W in let x := i mod W in
  let q := (y * D - ry) * (y * D - ry) + (x * D - rx) * (x * D - rx) in
  if 4 * q >=? 9 * D * D then
    let a := height - c y x in
    match best with
    | None => Some (a, q)
    | Some (a0, q0) => if slope_lt a q a0 q0 then Some (a, q) else best
    end
  else best.

Lemma elevation_fold H W c ry rx D height : elevation H W c ry rx D height = fold_left (estep W c ry rx D height) (zseq (H * W)) None.
Proof. reflexivity. Qed.

Lemma slope_lt_trans a p b q c r : 0 <= a -> 0 <= b -> 0 <= c -> 0 < p -> 0 < q -> 0 < r ->
  slope_lt a p b q = true -> slope_lt b q c r = true -> slope_lt a p c r = true.
Proof.
  unfold slope_lt. intros Ha Hb Hc Hp Hq Hr.
  destruct (a <? 0) eqn:Ea; [apply Z.ltb_lt in Ea; lia|].
  destruct (b <? 0) eqn:Eb; [apply Z.ltb_lt in Eb; lia|].
  destruct (c <? 0) eqn:Ec; [apply Z.ltb_lt in Ec; lia|].
  rewrite !Z.ltb_lt. intros H1 H2.
  assert (a * a * q * r < b * b * p * r) by nia.
  assert (b * b * r * p < c * c * q * p) by nia.
  assert (q * (a * a * r) < q * (c * c * p)) by nia.
  nia.
Qed.

(* invariant of the running minimum *)
Definition einv (W : Z) (c : cmap) (ry rx D height : Z) (seen : list Z) (best : option (Z * Z)) : Prop :=
  match best with
  | None => forall i, In i seen -> 4 * qual W ry rx D i < 9 * D * D
  | Some (a, q) =>
      (exists i, In i seen /\ a = height - flatv W c i /\ q = qual W ry rx D i /\ 9 * D * D <= 4 * q) /\
      (forall i, In i seen -> 9 * D * D <= 4 * qual W ry rx D i ->
                 slope_lt (height - flatv W c i) (qual W ry rx D i) a q = false)
  end.

Lemma slope_lt_irrefl a q : slope_lt a q a q = false.
Proof. unfold slope_lt. destruct (a <? 0); apply Z.ltb_irrefl. Qed.

Lemma estep_inv W c ry rx D height seen best i : 0 < D ->
  (forall j, In j (i :: seen) -> 0 <= height - flatv W c j) ->
  einv W c ry rx D height seen best ->
  einv W c ry rx D height (seen ++ [i]) (estep W c ry rx D height best i).
Proof.
  intros HD Hpos Hinv. unfold estep. fold (qual W ry rx D i). fold (flatv W c i).
  destruct (4 * qual W ry rx D i >=? 9 * D * D) eqn:Eq.
  - assert (Hq : 9 * D * D <= 4 * qual W ry rx D i) by (apply Z.geb_le in Eq; lia).
    destruct best as [[a0 q0]|].
    + destruct Hinv as ((i0 & Hi0 & Ea0 & Eq0 & Hq0) & Hmin).
      destruct (slope_lt (height - flatv W c i) (qual W ry rx D i) a0 q0) eqn:El.
      * split.
        -- exists i. split; [apply in_or_app; right; left; reflexivity|]. repeat split; try reflexivity. exact Hq.
        -- intros j Hj Hqj. apply in_app_or in Hj. destruct Hj as [Hj|[<-|[]]]; [|apply slope_lt_irrefl].
           destruct (slope_lt (height - flatv W c j) (qual W ry rx D j) (height - flatv W c i) (qual W ry rx D i)) eqn:Ej; [|reflexivity].
           exfalso. specialize (Hmin j Hj Hqj).
           assert (slope_lt (height - flatv W c j) (qual W ry rx D j) a0 q0 = true).
           { apply slope_lt_trans with (b := height - flatv W c i) (q := qual W ry rx D i); try assumption.
             - apply Hpos. right. exact Hj.
             - apply Hpos. left. reflexivity.
             - subst a0. apply Hpos. right. exact Hi0.
             - nia. - nia. - nia. }
           congruence.
      * split.
        -- exists i0. split; [apply in_or_app; left; exact Hi0|]. repeat split; assumption.
        -- intros j Hj Hqj. apply in_app_or in Hj. destruct Hj as [Hj|[<-|[]]]; [apply Hmin; assumption|exact El].
    + split.
      * exists i. split; [apply in_or_app; right; left; reflexivity|]. repeat split; try reflexivity. exact Hq.
      * intros j Hj Hqj. apply in_app_or in Hj. destruct Hj as [Hj|[<-|[]]]; [|apply slope_lt_irrefl].
        specialize (Hinv j Hj). lia.
  - assert (Hq : 4 * qual W ry rx D i < 9 * D * D) by (rewrite Z.geb_leb in Eq; apply Z.leb_gt in Eq; lia).
    destruct best as [[a0 q0]|].
    + destruct Hinv as ((i0 & Hi0 & Ea0 & Eq0 & Hq0) & Hmin). split.
      * exists i0. split; [apply in_or_app; left; exact Hi0|]. repeat split; assumption.
      * intros j Hj Hqj. apply in_app_or in Hj. destruct Hj as [Hj|[<-|[]]]; [apply Hmin; assumption|lia].
    + intros j Hj. apply in_app_or in Hj. destruct Hj as [Hj|[<-|[]]]; [apply Hinv, Hj|exact Hq].
Qed.

Lemma efold_inv W c ry rx D height : 0 < D -> forall l seen best,
  (forall j, In j (seen ++ l) -> 0 <= height - flatv W c j) ->
  einv W c ry rx D height seen best ->
  einv W c ry rx D height (seen ++ l) (fold_left (estep W c ry rx D height) l best).
Proof.
  intros HD. induction l as [|i l IH]; intros seen best Hpos Hinv; cbn [fold_left].
  - rewrite app_nil_r. exact Hinv.
  - replace (seen ++ i :: l) with ((seen ++ [i]) ++ l) by (rewrite <- app_assoc; reflexivity).
    apply IH.
    + intros j Hj. apply Hpos. rewrite <- app_assoc in Hj. exact Hj.
    + apply estep_inv; [exact HD| |exact Hinv].
      intros j Hj. apply Hpos. destruct Hj as [<-|Hj]; apply in_or_app; [right; left; reflexivity|left; exact Hj].
Qed.

(* the elevation is attained at a map pixel at distance >= 1.5 from the refined position and no such pixel has a
   smaller slope; None (-> inf in the code) iff there is no such pixel *)
Theorem elevation_spec H W c ry rx D height : 0 < D ->
  (forall i, 0 <= i < H * W -> flatv W c i <= height) ->
  match elevation H W c ry rx D height with
  | None => forall i, 0 <= i < H * W -> 4 * qual W ry rx D i < 9 * D * D
  | Some (a, q) =>
      0 <= a /\
      (exists i, 0 <= i < H * W /\ a = height - flatv W c i /\ q = qual W ry rx D i /\ 9 * D * D <= 4 * q) /\
      (forall i, 0 <= i < H * W -> 9 * D * D <= 4 * qual W ry rx D i ->
                 slope_lt (height - flatv W c i) (qual W ry rx D i) a q = false)
  end.
Proof.
  intros HD Hmax. rewrite elevation_fold.
  pose proof (efold_inv W c ry rx D height HD (zseq (H * W)) [] None) as Hf. cbn [app] in Hf.
  assert (Hpos : forall j, In j (zseq (H * W)) -> 0 <= height - flatv W c j).
  { intros j Hj. apply in_zseq in Hj. specialize (Hmax j Hj). lia. }
  specialize (Hf Hpos). assert (H0 : einv W c ry rx D height [] None) by (intros i []). specialize (Hf H0).
  destruct (fold_left _ _ None) as [[a q]|]; cbn [einv] in Hf.
  - destruct Hf as ((i & Hi & Ea & Eq & Hq) & Hmin). split; [subst a; apply Hpos, Hi|]. split.
    + exists i. split; [apply in_zseq, Hi|]. repeat split; assumption.
    + intros j Hj. apply Hmin. apply in_zseq, Hj.
  - intros i Hi. apply Hf. apply in_zseq, Hi.
Qed.

(* on maps of at least 4x4 pixels some pixel is at distance >= 1.5 from any position inside the map, so the
   running minimum leaves +inf: the elevation is finite *)
Theorem elevation_finite H W c ry rx D height : 0 < D -> 4 <= H -> 4 <= W ->
  (forall i, 0 <= i < H * W -> flatv W c i <= height) ->
  0 <= ry <= (H - 1) * D -> 0 <= rx <= (W - 1) * D ->
  elevation H W c ry rx D height <> None.
Proof.
  intros HD HH HW Hmax Hry Hrx Hnone.
  pose proof (elevation_spec H W c ry rx D height HD Hmax) as Hs. rewrite Hnone in Hs.
  (* the corner farthest from the position in y *)
  destruct (Z_le_gt_dec (2 * ry) ((H - 1) * D)) as [Hlow|Hhigh].
  - specialize (Hs ((H - 1) * W + 0)). unfold qual in Hs.
    destruct (flat_idx (H - 1) 0 W) as [E1 E2]; [lia|]. rewrite E1, E2 in Hs.
    assert (0 <= (H - 1) * W + 0 < H * W) by nia. specialize (Hs H0).
    assert (3 * D <= 2 * ((H - 1) * D - ry)) by nia. nia.
  - specialize (Hs 0). unfold qual in Hs.
    rewrite Z.div_0_l, Z.mod_0_l in Hs by lia.
    assert (0 <= 0 < H * W) by nia. specialize (Hs H0).
    assert (3 * D <= 2 * ry) by nia. nia.
Qed.

(* ---------- positions in the frame ---------- *)
Theorem centre_in_window c p H W cm : 1 <= H -> 1 <= W ->
  let '(y, x) := argmax2 H W cm in
  p - c <= shift y p c <= p - c + H - 1 /\ forall px, px - c <= shift x px c <= px - c + W - 1.
Proof.
  intros HH HW. pose proof (argmax2_spec H W cm HH HW) as Hs. destruct (argmax2 H W cm) as [y x].
  destruct Hs as ((Hy & Hx) & _). unfold shift. split; [lia|intros; lia].
Qed.

Lemma shift_unshift r p c : unshift (shift r p c) p c = r.
Proof. unfold shift, unshift. lia. Qed.

(* integer output buffers: a signed buffer of [bits] bits stores every centre in its range unchanged; an unsigned one
   does not (defect F2: process_frames_full used uint16) *)
Theorem store_signed_exact bits v : 1 <= bits -> - 2 ^ (bits - 1) <= v < 2 ^ (bits - 1) -> store_int bits true v = v.
Proof.
  intros Hb Hv. unfold store_int.
  assert (E : 2 ^ bits = 2 * 2 ^ (bits - 1)) by (replace bits with (bits - 1 + 1) at 1 by lia; rewrite Z.pow_add_r by lia; lia).
  assert (0 < 2 ^ (bits - 1)) by (apply Z.pow_pos_nonneg; lia).
  rewrite E. set (h := 2 ^ (bits - 1)) in *. clearbody h.
  replace (2 * h / 2) with h by (rewrite Z.mul_comm, Z.div_mul; lia).
  destruct (Z_lt_le_dec v 0) as [Hneg|Hpos].
  - assert (Em : v mod (2 * h) = v + 2 * h) by (symmetry; apply Z.mod_unique with (-1); lia).
    rewrite Em. destruct (v + 2 * h >=? h) eqn:Eg; [lia|].
    rewrite Z.geb_leb in Eg. apply Z.leb_gt in Eg. lia.
  - assert (Em : v mod (2 * h) = v) by (apply Z.mod_small; lia).
    rewrite Em. destruct (v >=? h) eqn:Eg; [|reflexivity].
    apply Z.geb_le in Eg. lia.
Qed.

Lemma store_unsigned_wraps : store_int 16 false (-13) = 65523.
Proof. vm_compute. reflexivity. Qed.
