From Coq Require Import QArith Qround Qabs Qminmax Lqa Lia List Bool ZArith.
From BF Require Import Model.Lattice Model.WLS Model.Match Proofs.LatticeP Proofs.WLSP.
Import ListNotations.
Open Scope Q_scope.

(* rounding an integer gives that integer *)
Lemma round_he_int z : round_he (inject_Z z) = z.
Proof.
  unfold round_he. rewrite Qfloor_Z.
  assert (E : inject_Z z - inject_Z z == 0) by ring.
  assert (C : Qcompare (inject_Z z - inject_Z z) (1#2) = Lt).
  { rewrite E. reflexivity. }
  rewrite C. reflexivity.
Qed.

#[global] Instance round_he_proper : Morphisms.Proper (Qeq ==> eq) round_he.
Proof.
  intros x y H. unfold round_he. rewrite (Qfloor_comp x y H).
  assert (E : x - inject_Z (Qfloor y) == y - inject_Z (Qfloor y)) by (rewrite H; reflexivity).
  rewrite (Qcompare_comp _ _ E (1#2) (1#2) (Qeq_refl _)). reflexivity.
Qed.

Lemma Qlt_bool_true x y : Qlt_bool x y = true <-> x < y.
Proof.
  unfold Qlt_bool. rewrite negb_true_iff. split.
  - intros H. apply Qnot_le_lt. intros Hc. apply Qle_bool_iff in Hc. congruence.
  - intros H. apply not_true_is_false. intros Hc. apply Qle_bool_iff in Hc. lra.
Qed.

(* an index that is exactly an integer pair has error 0 *)
Lemma err2_integer a b i j : err2 a b (inject_Z i, inject_Z j) == 0.
Proof.
  unfold err2. cbn [fst snd]. rewrite !round_he_int.
  assert (E1 : Qabs (inject_Z i - inject_Z i) == 0) by (setoid_replace (inject_Z i - inject_Z i) with 0 by ring; reflexivity).
  assert (E2 : Qabs (inject_Z j - inject_Z j) == 0) by (setoid_replace (inject_Z j - inject_Z j) with 0 by ring; reflexivity).
  rewrite E1, E2. unfold Qdiv. ring.
Qed.

#[global] Instance err2_proper a b : Morphisms.Proper (veq ==> Qeq) (err2 a b).
Proof.
  intros [i j] [i' j'] [H1 H2]. cbn [fst snd] in *. unfold err2. cbn [fst snd].
  rewrite (round_he_proper i i' H1), (round_he_proper j j' H2), H1, H2. reflexivity.
Qed.

Lemma vred_veq v : veq (vred v) v.
Proof. unfold veq, vred. cbn [fst snd]. split; apply Qred_correct. Qed.

Lemma veq_trans u v w : veq u v -> veq v w -> veq u w.
Proof. intros [A B] [C D]. split; [rewrite A; exact C|rewrite B; exact D]. Qed.

(* a peak exactly on the lattice (integer indices i, j) is matched with exactly these indices, for any positive tolerance *)
Theorem exact_lattice_point_matched tol2 zero a b i j : ~ det2 a b == 0 -> 0 < tol2 ->
  match_point tol2 zero a b (calc_coord zero a b (inject_Z i, inject_Z j)) = Some (Some (i, j)).
Proof.
  intros Hd Ht. unfold match_point.
  destruct (indices_of_coords zero a b (inject_Z i, inject_Z j) Hd) as (r0 & Hr & Hv0). rewrite Hr. cbv zeta.
  assert (Hv : veq (vred r0) (inject_Z i, inject_Z j)) by (eapply veq_trans; [apply vred_veq|exact Hv0]).
  set (r := vred r0) in *. clearbody r.
  assert (E : err2 a b r == 0) by (rewrite (err2_proper a b r _ Hv); apply err2_integer).
  assert (L : Qlt_bool (err2 a b r) tol2 = true) by (apply Qlt_bool_true; rewrite E; exact Ht).
  rewrite L. destruct Hv as [H1 H2]. cbn [fst snd] in *.
  rewrite (round_he_proper _ _ H1), (round_he_proper _ _ H2), !round_he_int. reflexivity.
Qed.

(* a peak whose index is exactly half way between lattice rows (i = n + 1/2) is rejected whenever
   tolerance^2 <= |a|^2 / (4 max(1, |i|)) *)
Lemma round_he_half n : Qabs (inject_Z n + (1#2) - inject_Z (round_he (inject_Z n + (1#2)))) == (1#2).
Proof.
  unfold round_he.
  assert (F : Qfloor (inject_Z n + (1#2)) = n).
  { pose proof (Qfloor_le (inject_Z n + (1#2))) as H1. pose proof (Qlt_floor (inject_Z n + (1#2))) as H2.
    set (f := Qfloor (inject_Z n + (1#2))) in *. clearbody f.
    rewrite inject_Z_plus in H2. change (inject_Z 1) with 1 in H2.
    assert (A : (f <= n)%Z).
    { apply Z.lt_succ_r. rewrite Zlt_Qlt. rewrite <- Z.add_1_r, inject_Z_plus. change (inject_Z 1) with 1. lra. }
    assert (B : (n <= f)%Z).
    { apply Z.lt_succ_r. rewrite Zlt_Qlt. rewrite <- Z.add_1_r, inject_Z_plus. change (inject_Z 1) with 1. lra. }
    lia. }
  rewrite F.
  assert (C : Qcompare (inject_Z n + (1#2) - inject_Z n) (1#2) = Eq).
  { apply Qeq_alt. ring. }
  rewrite C. destruct (Z.even n).
  - setoid_replace (inject_Z n + (1#2) - inject_Z n) with (1#2) by ring. reflexivity.
  - rewrite inject_Z_plus. setoid_replace (inject_Z n + (1#2) - (inject_Z n + inject_Z 1)) with (-(1#2)) by (unfold inject_Z at 3; ring). reflexivity.
Qed.

Theorem half_cell_rejected tol2 a b n jq : 0 < norm2 a -> 0 <= norm2 b ->
  tol2 <= norm2 a / ((4#1) * Qmax 1 (Qabs (inject_Z n + (1#2)))) ->
  Qlt_bool (err2 a b (inject_Z n + (1#2), jq)) tol2 = false.
Proof.
  intros Ha Hb Ht. apply not_true_is_false. intros Hc. apply Qlt_bool_true in Hc.
  unfold err2 in Hc. cbn [fst snd] in Hc. rewrite round_he_half in Hc.
  set (M := Qmax 1 (Qabs (inject_Z n + (1#2)))) in *.
  assert (HM : 1 <= M) by (unfold M; apply Q.le_max_l).
  set (dj := Qabs (jq - inject_Z (round_he jq))) in *.
  set (Mj := Qmax 1 (Qabs jq)) in *.
  assert (HMj : 1 <= Mj) by (unfold Mj; apply Q.le_max_l).
  assert (Hdj : 0 <= dj * dj * norm2 b / Mj).
  { apply Qle_shift_div_l; [lra|]. rewrite Qmult_0_l.
    apply Qmult_le_0_compat; [|assumption]. assert (0 <= dj) by apply Qabs_nonneg. nra. }
  assert (E : (1#2) * (1#2) * norm2 a / M == norm2 a / ((4#1) * M)) by (field; lra).
  rewrite E in Hc. lra.
Qed.

(* weak peaks are never selected; a valid result has at least min_match matched peaks, all of them with
   elevation >= min_weight, as many indices as selected peaks, and its lattice is the weighted fit of exactly those peaks *)
Lemma count_some_mout (m : list (option (Z * Z))) : (0 <= count_some m)%Z.
Proof. unfold count_some. lia. Qed.

Lemma nth_error_combine_map {A} (f : A -> bool) (l : list A) : forall k s q,
  nth_error (combine (map f l) l) k = Some (s, q) -> nth_error l k = Some q /\ s = f q.
Proof.
  induction l as [|x l IH]; intros k s q H; [destruct k; discriminate|].
  destruct k as [|k]; cbn in H |- *.
  - injection H as <- <-. split; reflexivity.
  - apply IH. exact H.
Qed.

Theorem fastmatch_valid_spec tol2 mw mm zero a b pts m z2 a2 b2 :
  fastmatch tol2 mw mm zero a b pts = Valid m z2 a2 b2 ->
  (mm <= count_some m)%Z /\ wls3 (fit_points m pts) = Some (z2, a2, b2) /\ length m = length pts /\
  (forall k o p, nth_error m k = Some (Some o) -> nth_error pts k = Some p -> mw <= k_w p).
Proof.
  unfold fastmatch. set (sel := map (fun k => Qle_bool mw (k_w k)) pts).
  destruct (match_all tol2 zero a b sel pts) as [m1|] eqn:E1; [|discriminate].
  destruct (count_some m1 <? mm)%Z eqn:C1; [discriminate|].
  destruct (wls3 (fit_points m1 pts)) as [[[z1 a1] b1]|] eqn:W1; [|discriminate].
  cbv zeta. destruct (match_all tol2 (vred z1) (vred a1) (vred b1) sel pts) as [m2|] eqn:E2; [|discriminate].
  destruct (count_some m2 <? mm)%Z eqn:C2; [discriminate|].
  destruct (wls3 (fit_points m2 pts)) as [[[z2' a2'] b2']|] eqn:W2; [|discriminate].
  intros H. injection H as <- <- <- <-.
  split; [apply Z.ltb_ge in C2; exact C2|]. split; [exact W2|].
  unfold match_all in E2. destruct (Qeq_bool (det2 (vred a1) (vred b1)) 0); [discriminate|]. injection E2 as <-.
  assert (Hlen : length (combine sel pts) = length pts).
  { rewrite combine_length. unfold sel. rewrite map_length. apply Nat.min_id. }
  split; [rewrite map_length; exact Hlen|].
  intros k o p Hk Hp.
  rewrite nth_error_map in Hk. destruct (nth_error (combine sel pts) k) as [[s q]|] eqn:Ec; [|discriminate].
  cbn [option_map fst snd] in Hk.
  destruct s; [|discriminate].
  destruct (nth_error_combine_map (fun k0 => Qle_bool mw (k_w k0)) pts k true q Ec) as [Hq Hs].
  rewrite Hp in Hq. injection Hq as <-. apply Qle_bool_iff. symmetry. exact Hs.
Qed.

(* parallel or zero start vectors: invalid result, never an exception *)
Theorem degenerate_start_invalid tol2 mw mm zero a b pts : det2 a b == 0 -> fastmatch tol2 mw mm zero a b pts = Invalid 1.
Proof.
  intros H. unfold fastmatch, match_all. apply Qeq_bool_iff in H. rewrite H. reflexivity.
Qed.

(* translation covariance of the matching step: translating the start zero point and the peak by the same vector
   changes nothing (indices depend on p - zero only) *)
Lemma Qlt_bool_comp x x' y : x == x' -> Qlt_bool x y = Qlt_bool x' y.
Proof. intros H. unfold Qlt_bool. rewrite (Qleb_comp y y (Qeq_refl y) x x' H). reflexivity. Qed.

Theorem match_point_translate tol2 zero a b p t :
  match_point tol2 (vy zero + vy t, vx zero + vx t) a b (vy p + vy t, vx p + vx t) = match_point tol2 zero a b p.
Proof.
  unfold match_point, get_index. destruct (Qeq_bool (det2 a b) 0) eqn:E; [reflexivity|].
  apply Qeq_bool_false in E. unfold vy, vx in *. cbn [fst snd].
  set (ij' := ((fst p + fst t - (fst zero + fst t)) * snd b - (snd p + snd t - (snd zero + snd t)) * fst b) / det2 a b).
  set (jj' := (fst a * (snd p + snd t - (snd zero + snd t)) - snd a * (fst p + fst t - (fst zero + fst t))) / det2 a b).
  set (ij := ((fst p - fst zero) * snd b - (snd p - snd zero) * fst b) / det2 a b).
  set (jj := (fst a * (snd p - snd zero) - snd a * (fst p - fst zero)) / det2 a b).
  assert (V1 : ij' == ij) by (unfold ij', ij; field; exact E).
  assert (V2 : jj' == jj) by (unfold jj', jj; field; exact E).
  assert (V : veq (vred (ij', jj')) (vred (ij, jj))).
  { eapply veq_trans; [apply vred_veq|]. eapply veq_trans; [|split; symmetry; apply (vred_veq (ij, jj))]. split; assumption. }
  cbv zeta. rewrite (Qlt_bool_comp _ _ tol2 (err2_proper a b _ _ V)).
  destruct V as [W1 W2]. rewrite (round_he_proper _ _ W1), (round_he_proper _ _ W2). reflexivity.
Qed.
