From Coq Require Import ZArith List Bool Lia.
From BF Require Import Base.Util Model.Stamp.
Import ListNotations.
Open Scope Z_scope.

Lemma sumZ_flat_map {A} (f : A -> list Z) l : sumZ (flat_map f l) = sumZ (map (fun a => sumZ (f a)) l).
Proof. induction l as [|a l IH]; cbn [flat_map map]; [reflexivity|]. rewrite sumZ_app, IH. reflexivity. Qed.

Lemma map_flat_map {A B C} (g : B -> C) (f : A -> list B) l : map g (flat_map f l) = flat_map (fun a => map g (f a)) l.
Proof. induction l as [|a l IH]; cbn [flat_map]; [reflexivity|]. rewrite map_app, IH. reflexivity. Qed.

(* a sum over [0,n) of an indicator of one index picks that term *)
Lemma Zsum_pick n a (f : Z -> Z) : Zsum n (fun t => if t =? a then f t else 0) = if inb n a then f a else 0.
Proof.
  unfold Zsum. destruct (Z_le_gt_dec n 0) as [Hn|Hn].
  - rewrite zseq_nonpos by assumption. cbn. destruct (inb n a) eqn:E; [apply inb_true in E; lia|reflexivity].
  - replace n with (Z.of_nat (Z.to_nat n)) by lia. generalize (Z.to_nat n) as k. clear Hn n.
    induction k as [|k IH].
    + cbn. destruct (inb 0 a) eqn:E; [apply inb_true in E; lia|reflexivity].
    + replace (Z.of_nat (S k)) with (Z.of_nat k + 1) by lia. rewrite zseq_succ by lia.
      rewrite map_app, sumZ_app, IH. cbn [map sumZ fold_right].
      unfold inb. destruct (Z.of_nat k =? a) eqn:E.
      * apply Z.eqb_eq in E. subst a.
        replace (0 <=? Z.of_nat k) with true by (symmetry; apply Z.leb_le; lia).
        rewrite Z.ltb_irrefl. replace (Z.of_nat k <? Z.of_nat k + 1) with true by (symmetry; apply Z.ltb_lt; lia).
        cbn [andb]. lia.
      * apply Z.eqb_neq in E. destruct (0 <=? a) eqn:E0; cbn [andb]; [|lia].
        destruct (a <? Z.of_nat k) eqn:E1.
        -- replace (a <? Z.of_nat k + 1) with true by (symmetry; apply Z.ltb_lt; apply Z.ltb_lt in E1; lia). lia.
        -- replace (a <? Z.of_nat k + 1) with false by (symmetry; apply Z.ltb_ge; apply Z.ltb_ge in E1; lia). lia.
Qed.

Ltac brk := repeat match goal with
  | |- context [Z.leb ?a ?b] => destruct (Z.leb_spec a b)
  | |- context [Z.ltb ?a ?b] => destruct (Z.ltb_spec a b)
  | |- context [Z.eqb ?a ?b] => destruct (Z.eqb_spec a b)
  end.

(* densifying one placement gives the clipped stamp on its own layer and nothing on the others *)
Lemma place_dense th tw t H W l oy ox l' y x :
  todense (place th tw t H W l oy ox) l' y x = if l =? l' then stamp th tw t oy ox H W y x else 0.
Proof.
  unfold todense, place. rewrite map_flat_map, sumZ_flat_map.
  erewrite map_ext.
  2:{ intros ty. rewrite map_flat_map, sumZ_flat_map. reflexivity. }
  (* inner sum over tx *)
  assert (Inner : forall ty,
    sumZ (map (fun tx => sumZ (map (fun e => if (e_layer e =? l') && (e_y e =? y) && (e_x e =? x) then e_val e else 0)
        (if (0 <=? ty + oy) && (ty + oy <? H) && (0 <=? tx + ox) && (tx + ox <? W)
         then [{| e_layer := l; e_y := ty + oy; e_x := tx + ox; e_val := t ty tx |}] else []))) (zseq tw))
    = if (l =? l') && (ty + oy =? y) && inb H y && inb W x && inb tw (x - ox) then t ty (x - ox) else 0).
  { intros ty.
    transitivity (Zsum tw (fun tx => if tx =? x - ox then
        (if (l =? l') && (ty + oy =? y) && inb H y && inb W x then t ty tx else 0) else 0)).
    - unfold Zsum. apply sumZ_map_ext. intros tx _. unfold inb.
      brk; cbn [andb map sumZ fold_right e_layer e_y e_x e_val]; brk; cbn [andb]; try lia; try (exfalso; lia).
    - rewrite Zsum_pick. destruct (inb tw (x - ox)); [|rewrite andb_false_r; reflexivity].
      rewrite andb_true_r. reflexivity. }
  erewrite map_ext; [|intros ty; apply Inner].
  transitivity (Zsum th (fun ty => if ty =? y - oy then
      (if (l =? l') && inb H y && inb W x && inb tw (x - ox) then t ty (x - ox) else 0) else 0)).
  - unfold Zsum. apply sumZ_map_ext. intros ty _.
    destruct (ty =? y - oy) eqn:Ey.
    + apply Z.eqb_eq in Ey. subst ty. replace (y - oy + oy =? y) with true by (symmetry; apply Z.eqb_eq; lia).
      rewrite andb_true_r. reflexivity.
    + apply Z.eqb_neq in Ey. replace (ty + oy =? y) with false by (symmetry; apply Z.eqb_neq; lia).
      rewrite andb_false_r. reflexivity.
  - rewrite Zsum_pick. unfold stamp.
    destruct (l =? l'); cbn [andb]; [|destruct (inb th (y - oy)); reflexivity].
    destruct (inb th (y - oy)); [|rewrite !andb_false_r; reflexivity].
    destruct (inb H y); cbn [andb]; [|reflexivity].
    destruct (inb W x); cbn [andb]; [|reflexivity].
    destruct (inb tw (x - ox)); reflexivity.
Qed.

Lemma todense_app es1 es2 l y x : todense (es1 ++ es2) l y x = todense es1 l y x + todense es2 l y x.
Proof. unfold todense. rewrite map_app, sumZ_app. reflexivity. Qed.

(* every layer of the stack is the sum of the clipped stamps placed on that layer: independent of the other layers
   and of the order of the placements *)
Theorem stack_layer_spec th tw t H W placements l y x :
  todense (coo_entries th tw t H W placements) l y x =
  sumZ (map (fun p => match p with (l', oy, ox) => if l' =? l then stamp th tw t oy ox H W y x else 0 end) placements).
Proof.
  induction placements as [|[[l' oy] ox] ps IH]; cbn [coo_entries flat_map map]; [reflexivity|].
  fold (coo_entries th tw t H W ps). rewrite todense_app, place_dense, IH. reflexivity.
Qed.

Theorem stamp_outside_is_empty th tw t oy ox H W y x :
  (oy + th <= 0 \/ H <= oy \/ ox + tw <= 0 \/ W <= ox) -> stamp th tw t oy ox H W y x = 0.
Proof.
  intros Hout. unfold stamp. destruct (inb H y && inb W x && inb th (y - oy) && inb tw (x - ox)) eqn:E; [|reflexivity].
  rewrite !andb_true_iff in E. destruct E as [[[E1 E2] E3] E4]. apply inb_true in E1, E2, E3, E4. lia.
Qed.

Theorem stamp_zero_off_image th tw t oy ox H W y x : ~ (0 <= y < H /\ 0 <= x < W) -> stamp th tw t oy ox H W y x = 0.
Proof.
  intros Hn. unfold stamp. destruct (inb H y) eqn:E1; cbn [andb]; [|reflexivity].
  destruct (inb W x) eqn:E2; cbn [andb]; [|reflexivity]. apply inb_true in E1, E2. tauto.
Qed.

(* feature_vector: template of (2c+1)^2 pixels placed at offset peak - c puts its centre pixel (c, c) on the peak *)
Theorem feature_vector_centre c t py px H W : 0 <= c -> 0 <= py < H -> 0 <= px < W ->
  stamp (2 * c + 1) (2 * c + 1) t (py - c) (px - c) H W py px = t c c.
Proof.
  intros Hc Hy Hx. unfold stamp.
  assert (inb H py = true) as -> by (apply inb_true; lia). assert (inb W px = true) as -> by (apply inb_true; lia).
  replace (py - (py - c)) with c by lia. replace (px - (px - c)) with c by lia.
  assert (inb (2 * c + 1) c = true) as -> by (apply inb_true; lia). reflexivity.
Qed.

Lemma sq_le_bound a b : 0 <= b -> a * a <= b * b -> - b <= a <= b.
Proof. intros Hb H. destruct (Z_le_gt_dec 0 a); nia. Qed.

(* sparse_circular_multi_stack: the bounding box 2*ceil(R)+1 cuts nothing off: the stamped template is the dense disk *)
Theorem circular_stack_is_dense_disk p q c cy cx H W y x : 0 < q -> 0 <= p -> p <= q * c ->
  stamp (2 * c + 1) (2 * c + 1) (disk_tmpl p q c) (cy - c) (cx - c) H W y x = disk_dense p q cy cx H W y x.
Proof.
  intros Hq Hp Hc. unfold stamp, disk_dense, disk_tmpl.
  destruct (inb H y) eqn:E1; cbn [andb]; [|reflexivity].
  destruct (inb W x) eqn:E2; cbn [andb]; [|reflexivity].
  replace (y - (cy - c) - c) with (y - cy) by lia. replace (x - (cx - c) - c) with (x - cx) by lia.
  destruct (q * q * ((y - cy) * (y - cy) + (x - cx) * (x - cx)) <=? p * p) eqn:Ed.
  - apply Z.leb_le in Ed.
    set (dy := y - cy) in *. set (dx := x - cx) in *.
    assert (0 <= q * q * (dx * dx)) by (apply Z.mul_nonneg_nonneg; nia).
    assert (0 <= q * q * (dy * dy)) by (apply Z.mul_nonneg_nonneg; nia).
    assert (Hpc : p * p <= (q * c) * (q * c)) by nia.
    assert (Hy : - c <= dy <= c).
    { assert (Hs : (q * dy) * (q * dy) <= (q * c) * (q * c)) by nia.
      pose proof (sq_le_bound (q * dy) (q * c) ltac:(nia) Hs). nia. }
    assert (Hx : - c <= dx <= c).
    { assert (Hs : (q * dx) * (q * dx) <= (q * c) * (q * c)) by nia.
      pose proof (sq_le_bound (q * dx) (q * c) ltac:(nia) Hs). nia. }
    subst dy dx.
    assert (inb (2 * c + 1) (y - (cy - c)) = true) as -> by (apply inb_true; lia).
    assert (inb (2 * c + 1) (x - (cx - c)) = true) as -> by (apply inb_true; lia). reflexivity.
  - destruct (inb (2 * c + 1) (y - (cy - c)) && inb (2 * c + 1) (x - (cx - c))); reflexivity.
Qed.
