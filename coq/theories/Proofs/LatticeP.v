From Coq Require Import QArith Lqa Lia List Bool ZArith Permutation Arith.
From BF Require Import Model.Lattice.
Import ListNotations.
Open Scope Q_scope.

Definition veq (u v : vec) : Prop := fst u == fst v /\ snd u == snd v.

Lemma Qeq_bool_false a b : Qeq_bool a b = false -> ~ a == b.
Proof. intros H E. apply Qeq_bool_iff in E. congruence. Qed.

(* solving indices from coordinates and computing coordinates from indices are mutually inverse for non-parallel a, b *)
Theorem indices_of_coords zero a b ij : ~ det2 a b == 0 ->
  exists r, get_index zero a b (calc_coord zero a b ij) = Some r /\ veq r ij.
Proof.
  intros Hd. unfold get_index. destruct (Qeq_bool (det2 a b) 0) eqn:E.
  - apply Qeq_bool_iff in E. contradiction.
  - eexists. split; [reflexivity|]. unfold veq, calc_coord, det2, vy, vx in *. cbn [fst snd]. split; field; exact Hd.
Qed.

Theorem coords_of_indices zero a b p r : get_index zero a b p = Some r -> veq (calc_coord zero a b r) p.
Proof.
  unfold get_index. destruct (Qeq_bool (det2 a b) 0) eqn:E; [discriminate|].
  apply Qeq_bool_false in E. intros H. injection H as <-.
  unfold veq, calc_coord, det2, vy, vx in *. cbn [fst snd]. split; field; exact E.
Qed.

Theorem parallel_vectors_rejected zero a b p : det2 a b == 0 -> get_index zero a b p = None.
Proof. intros H. unfold get_index. apply Qeq_bool_iff in H. rewrite H. reflexivity. Qed.

Lemma within_frame_spec r fy fx p :
  within_frame r fy fx p = true <-> (r <= vy p /\ r <= vx p /\ vy p < fy - r /\ vx p < fx - r).
Proof.
  unfold within_frame. rewrite !andb_true_iff, !negb_true_iff. rewrite !Qle_bool_iff.
  split.
  - intros [[[H1 H2] H3] H4]. repeat split; try assumption; apply Qnot_le_lt; intros Hc; apply Qle_bool_iff in Hc; congruence.
  - intros (H1 & H2 & H3 & H4). repeat split; try assumption; apply not_true_is_false; intros Hc; apply Qle_bool_iff in Hc; lra.
Qed.

(* frame_peaks returns exactly the (index, coordinate) pairs whose coordinate keeps the margin, each coordinate being
   zero + i a + j b of its own index, in the order of the index list *)
Theorem frame_peaks_spec fy fx zero a b r indices ij p :
  In (ij, p) (frame_peaks fy fx zero a b r indices) <->
  (In ij indices /\ p = calc_coord zero a b ij /\ r <= vy p /\ r <= vx p /\ vy p < fy - r /\ vx p < fx - r).
Proof.
  unfold frame_peaks. rewrite filter_In, in_map_iff. cbn [snd]. rewrite within_frame_spec. split.
  - intros [(ij' & E & Hin) Hw]. injection E as <- <-. tauto.
  - intros (Hin & -> & Hw). split; [exists ij; split; [reflexivity|assumption]|exact Hw].
Qed.

Theorem frame_peaks_order fy fx zero a b r indices :
  map fst (frame_peaks fy fx zero a b r indices) =
  filter (fun ij => within_frame r fy fx (calc_coord zero a b ij)) indices.
Proof.
  unfold frame_peaks. induction indices as [|ij l IH]; cbn [map filter snd]; [reflexivity|].
  destruct (within_frame r fy fx (calc_coord zero a b ij)); cbn [map fst]; rewrite IH; reflexivity.
Qed.

(* dropping the zero order removes exactly the index (0, 0) *)
Theorem drop_zero_spec indices ij :
  In ij (drop_zero indices) <-> (In ij indices /\ ~ (fst ij == 0 /\ snd ij == 0)).
Proof.
  unfold drop_zero, is_zero_index. rewrite filter_In, negb_true_iff, andb_false_iff. split.
  - intros [Hin Hz]. split; [assumption|]. intros [E1 E2]. apply Qeq_bool_iff in E1, E2. destruct Hz; congruence.
  - intros [Hin Hz]. split; [assumption|].
    destruct (Qeq_bool (fst ij) 0) eqn:E1; [|left; reflexivity].
    destruct (Qeq_bool (snd ij) 0) eqn:E2; [|right; reflexivity].
    exfalso. apply Hz. split; apply Qeq_bool_iff; assumption.
Qed.

(* the mgrid layout lists every (row l, column k) entry exactly once: its length is n * m *)
Lemma col_length {A} (d : A) rows k : length (col d rows k) = length rows.
Proof. unfold col. apply map_length. Qed.

Theorem regularize_mgrid_length I J : length I = length J ->
  length (regularize_mgrid I J) = (length (hd [] I) * length I)%nat.
Proof.
  intros HL. unfold regularize_mgrid. set (m := length (hd [] I)). clearbody m.
  assert (G : forall s, length (flat_map (fun k => combine (col 0 I k) (col 0 J k)) (seq s m)) = (m * length I)%nat).
  { induction m as [|m IH]; intros s; cbn [seq flat_map]; [reflexivity|].
    rewrite app_length, IH, combine_length, !col_length, <- HL, Nat.min_id. cbn. reflexivity. }
  apply G.
Qed.

Theorem regularize_mgrid_entry I J l k : length I = length J -> (k < length (hd [] I))%nat -> (l < length I)%nat ->
  nth (k * length I + l) (regularize_mgrid I J) (0, 0) = (nth k (nth l I []) 0, nth k (nth l J []) 0).
Proof.
  intros HL Hk Hl. unfold regularize_mgrid.
  assert (G : forall m s kk, (kk < m)%nat ->
     nth (kk * length I + l) (flat_map (fun k => combine (col 0 I k) (col 0 J k)) (seq s m)) (0, 0)
     = (nth (s + kk) (nth l I []) 0, nth (s + kk) (nth l J []) 0)).
  { clear Hk. induction m as [|m IH]; intros s kk Hkk; [inversion Hkk|]. cbn [seq flat_map].
    destruct kk as [|kk].
    - cbn [Nat.mul Nat.add]. rewrite app_nth1 by (rewrite combine_length, !col_length, <- HL, Nat.min_id; exact Hl).
      rewrite combine_nth by (rewrite !col_length; exact HL). unfold col.
      rewrite Nat.add_0_r.
      rewrite (nth_indep _ 0 (nth s [] 0)) by (rewrite map_length; exact Hl).
      rewrite (map_nth (fun r => nth s r 0) I [] l).
      rewrite (nth_indep (map _ J) 0 (nth s [] 0)) by (rewrite map_length, <- HL; exact Hl).
      rewrite (map_nth (fun r => nth s r 0) J [] l). reflexivity.
    - rewrite app_nth2 by (rewrite combine_length, !col_length, <- HL, Nat.min_id; cbn; lia).
      rewrite combine_length, !col_length, <- HL, Nat.min_id.
      replace (S kk * length I + l - length I)%nat with (kk * length I + l)%nat by (cbn; lia).
      rewrite IH by lia. replace (S s + kk)%nat with (s + S kk)%nat by lia. reflexivity. }
  apply (G (length (hd [] I)) 0%nat k Hk).
Qed.
