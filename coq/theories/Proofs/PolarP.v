(* proofs for Model/Polar.v (C17, polar/cartesian round trip) *)
From Coq Require Import Reals Lra Psatz.
From BF Require Import Model.Polar.
Local Open Scope R_scope.

Lemma norm2_make_cartesian r phi : norm2 (make_cartesian (r, phi)) = Rabs r.
Proof.
  unfold norm2, make_cartesian; cbn [fst snd].
  replace (sin phi * r * (sin phi * r) + cos phi * r * (cos phi * r))
    with ((Rsqr (sin phi) + Rsqr (cos phi)) * Rsqr r) by (unfold Rsqr; ring).
  rewrite sin2_cos2, Rmult_1_l. apply sqrt_Rsqr_abs.
Qed.

(* polar -> cartesian -> polar: the radius is recovered for r >= 0, and phi itself is an admissible angle *)
Lemma polar_roundtrip_l r phi : 0 <= r ->
  norm2 (make_cartesian (r, phi)) = r /\ is_arctan2 (make_cartesian (r, phi)) phi.
Proof.
  intros Hr. assert (Hn : norm2 (make_cartesian (r, phi)) = r)
    by (rewrite norm2_make_cartesian; apply Rabs_right; lra).
  split; [exact Hn|]. unfold is_arctan2. rewrite Hn. unfold make_cartesian; cbn [fst snd]. split; ring.
Qed.

(* cartesian -> polar -> cartesian: any admissible angle reproduces the vector, the zero vector included *)
Lemma cartesian_roundtrip_l y x a : is_arctan2 (y, x) a ->
  make_cartesian (norm2 (y, x), a) = (y, x).
Proof.
  intros [Hc Hs]. unfold make_cartesian; cbn [fst snd] in *. rewrite Hc, Hs. reflexivity.
Qed.

(* non-vacuity: an admissible angle exists for every non-zero vector direction given by an angle *)
Example is_arctan2_exists r phi : 0 <= r -> exists a, is_arctan2 (make_cartesian (r, phi)) a.
Proof. intros Hr; exists phi; apply (polar_roundtrip_l r phi Hr). Qed.

(* two admissible angles of a non-zero vector have the same sine and cosine (so differ by a multiple of 2 pi) *)
Lemma arctan2_unique_direction_l c a b : norm2 c <> 0 -> is_arctan2 c a -> is_arctan2 c b ->
  cos a = cos b /\ sin a = sin b.
Proof.
  intros Hn [Hca Hsa] [Hcb Hsb]. split.
  - apply (Rmult_eq_reg_r (norm2 c)); [congruence|exact Hn].
  - apply (Rmult_eq_reg_r (norm2 c)); [congruence|exact Hn].
Qed.


(* make_polar_vectors (fullmatch.py) sorts by x so that every difference vector has x >= 0: its angle then has a
   non-negative cosine, i.e. lies in [-pi/2, pi/2] modulo 2 pi *)
Lemma nonneg_x_nonneg_cos_l y x a : is_arctan2 (y, x) a -> 0 < norm2 (y, x) -> 0 <= x -> 0 <= cos a.
Proof.
  intros [Hc _] Hn Hx. cbn [snd] in Hc. destruct (Rle_or_lt 0 (cos a)) as [H|H]; [exact H|].
  exfalso. nra.
Qed.
