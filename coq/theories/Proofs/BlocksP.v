From Coq Require Import ZArith List Bool Lia.
From BF Require Import Base.Util Model.Blocks.
Import ListNotations.
Open Scope Z_scope.
Ltac Zify.zify_post_hook ::= Z.to_euclidean_division_equations.

Lemma block_count_nonneg n bc : 0 <= n -> 1 <= bc -> 0 <= block_count n bc.
Proof. unfold block_count. intros. nia. Qed.

Lemma block_count_zero bc : 1 <= bc -> block_count 0 bc = 0.
Proof. unfold block_count. intros. nia. Qed.

Lemma last_block_reaches_n n bc : 1 <= n -> 1 <= bc -> blk_stop n bc (block_count n bc - 1) = n.
Proof. unfold blk_stop, block_count. intros. nia. Qed.

Lemma blocks_sizes n bc b : 1 <= n -> 1 <= bc -> 0 <= b < block_count n bc ->
  1 <= blk_stop n bc b - blk_start bc b <= bc.
Proof. unfold blk_stop, blk_start, block_count. intros. nia. Qed.

Lemma blocks_contiguous n bc b : 1 <= bc -> 0 <= b -> b + 1 < block_count n bc ->
  blk_stop n bc b = blk_start bc (b + 1).
Proof. unfold blk_stop, blk_start, block_count. intros. nia. Qed.

Lemma blocks_in_range n bc b : 0 <= n -> 1 <= bc -> 0 <= b < block_count n bc ->
  0 <= blk_start bc b /\ blk_stop n bc b <= n.
Proof. unfold blk_stop, blk_start, block_count. intros. nia. Qed.

(* the block that contains index i *)
Lemma block_of_index n bc i : 1 <= bc -> 0 <= i < n ->
  0 <= i / bc < block_count n bc /\ blk_start bc (i / bc) <= i < blk_stop n bc (i / bc).
Proof. unfold blk_stop, blk_start, block_count. intros. nia. Qed.

Lemma block_unique n bc i b : 1 <= bc -> 0 <= b ->
  blk_start bc b <= i < blk_stop n bc b -> b = i / bc.
Proof. unfold blk_stop, blk_start. intros. nia. Qed.

(* every index in [0,n) is covered by exactly one block; nothing outside [0,n) is covered *)
Lemma blocks_cover n bc i : 0 <= n -> 1 <= bc ->
  (0 <= i < n <-> exists b, 0 <= b < block_count n bc /\ blk_start bc b <= i < blk_stop n bc b).
Proof.
  intros Hn Hbc. split.
  - intros Hi. exists (i / bc). apply block_of_index; assumption.
  - intros (b & Hb & Hi). pose proof (blocks_in_range n bc b Hn Hbc Hb). lia.
Qed.

Lemma slot_in_buffer n bc i : 1 <= bc -> 0 <= i < n -> 0 <= slot_of bc i < bc.
Proof. unfold slot_of, blk_start. intros. nia. Qed.

(* fold over a list of blocks: an index is either written by one of the blocks or keeps its old value *)
Lemma fold_write_blocks {A} (f : Z -> A) n bc (bs : list Z) : forall out i,
  fold_left (fun out b => write_block f out (blk_start bc b) (blk_stop n bc b)) bs out i =
  if existsb (fun b => (blk_start bc b <=? i) && (i <? blk_stop n bc b)) bs then f i else out i.
Proof.
  induction bs as [|b bs IH]; intros out i; cbn [fold_left existsb]; [reflexivity|].
  rewrite IH. unfold write_block.
  destruct ((blk_start bc b <=? i) && (i <? blk_stop n bc b)); cbn [orb];
  destruct (existsb _ bs); reflexivity.
Qed.

Theorem process_blocks_spec {A} (f : Z -> A) n bc out0 i : 0 <= n -> 1 <= bc ->
  process_blocks f n bc out0 i = if inb n i then f i else out0 i.
Proof.
  intros Hn Hbc. unfold process_blocks. rewrite fold_write_blocks.
  destruct (inb n i) eqn:E.
  - apply inb_true in E. destruct (block_of_index n bc i Hbc E) as [Hb Hi].
    replace (existsb _ _) with true; [reflexivity|]. symmetry. apply existsb_exists.
    exists (i / bc). split; [apply in_zseq; exact Hb|]. apply andb_true_iff. split; [apply Z.leb_le|apply Z.ltb_lt]; lia.
  - replace (existsb _ _) with false; [reflexivity|]. symmetry. apply not_true_is_false. intros Hex.
    apply existsb_exists in Hex. destruct Hex as (b & Hb & Hi). apply in_zseq in Hb.
    apply andb_true_iff in Hi. destruct Hi as [H1 H2]. apply Z.leb_le in H1. apply Z.ltb_lt in H2.
    pose proof (blocks_in_range n bc b Hn Hbc Hb). apply inb_false in E. lia.
Qed.

(* consequently the result does not depend on the buffer count nor (inside [0,n)) on the old outputs *)
Corollary process_blocks_indep {A} (f : Z -> A) n bc1 bc2 o1 o2 i : 0 <= n -> 1 <= bc1 -> 1 <= bc2 -> 0 <= i < n ->
  process_blocks f n bc1 o1 i = process_blocks f n bc2 o2 i.
Proof.
  intros Hn H1 H2 Hi. rewrite !process_blocks_spec by assumption.
  apply inb_true in Hi. rewrite Hi. reflexivity.
Qed.

Theorem buf_count_bounds c n itemsize limit : 1 <= n -> 1 <= itemsize -> 1 <= c -> 0 <= limit ->
  1 <= buf_count c n itemsize limit <= n /\
  (full_size c itemsize <= limit -> buf_count c n itemsize limit * full_size c itemsize <= limit).
Proof.
  intros Hn Hi Hc Hl. unfold buf_count, full_size.
  assert (Hfs : 1 <= 2 * c * (2 * c) * itemsize) by nia.
  set (fs := 2 * c * (2 * c) * itemsize) in *. clearbody fs.
  split; [lia|]. intros Hfit.
  assert (1 <= limit / fs) by (apply Z.div_le_lower_bound; lia).
  assert (limit / fs * fs <= limit) by (rewrite Z.mul_comm; apply Z.mul_div_le; lia).
  nia.
Qed.
