From Coq Require Import QArith Qround Qabs Qminmax List Bool ZArith Lia Lqa.
From BF Require Import Model.Lattice Model.WLS Model.Match Model.Masks Model.BinDefaults Proofs.MasksP.
Open Scope Q_scope.

Lemma round_he_inject z : round_he (inject_Z z) = z.
Proof.
  unfold round_he. rewrite Qfloor_Z.
  assert (E : inject_Z z - inject_Z z == 0) by ring.
  rewrite (Qcompare_comp _ _ E (1#2) (1#2) (Qeq_refl _)). reflexivity.
Qed.

Lemma default_n_bins_inner_0 R : default_n_bins R 0 = R.
Proof.
  unfold default_n_bins, round_he.
  assert (E0 : inject_Z R - 0 == inject_Z R) by ring.
  rewrite (Qfloor_comp _ _ E0), Qfloor_Z.
  assert (E : inject_Z R - 0 - inject_Z R == 0) by ring.
  rewrite (Qcompare_comp _ _ E (1#2) (1#2) (Qeq_refl _)). reflexivity.
Qed.

(* the all-default layout (integer covering radius R >= 1, inner radius 0): R bins of width exactly 1 *)
Theorem default_layout_width_one R : (1 <= R)%Z -> (inject_Z R - 0) / inject_Z (default_n_bins R 0) == 1.
Proof. intros HR. rewrite default_n_bins_inner_0. assert (H : ~ inject_Z R == 0) by (unfold Qeq; simpl; lia). field. exact H. Qed.

Theorem default_layout_partition R r : (1 <= R)%Z -> (1#2) <= r -> r <= inject_Z R - (1#2) ->
  sumQ (bins (Z.to_nat (default_n_bins R 0)) 1 0 r) == 1.
Proof.
  intros HR H1 H2. rewrite default_n_bins_inner_0. apply partition_of_unity; [lra | lra |].
  rewrite Z2Nat.id by lia. lra.
Qed.

(* a fractional inner radius can make the default bins narrower than a pixel (outside the property's premise "bin width >= 1"):
   radius 10, inner radius 2/5 -> 10 bins of width 24/25 *)
Example default_layout_fractional_inner_narrow : default_n_bins 10 (2#5) = 10%Z /\ (inject_Z 10 - (2#5)) / inject_Z 10 < 1.
Proof. split; [vm_compute; reflexivity | unfold Qlt; simpl; lia]. Qed.
