(* Composite statements at the level of the properties: kernels + pipeline put together. *)
From Coq Require Import ZArith List Bool Lia QArith.
From BF Require Import Base.Util Model.Crop Model.Corr Model.Eval Model.Prelog Model.Blocks Model.Pipeline Model.Lattice Model.WLS
  Proofs.CropP Proofs.BlocksP Proofs.CorrP Proofs.EvalP Proofs.PipelineP Proofs.WLSP.
Import ListNotations.
Open Scope Z_scope.

(* C03: for a centro-symmetric mask the reported height is the maximum over the search window of the circular
   cross-correlation of the log-scaled crop with the centred mask, and the reported centre attains it *)
Theorem fast_height_is_window_maximum_of_xcorr one lg fy fx f c mask py px : 1 <= c -> csym (2 * c) (2 * c) mask ->
  let L := Corr.of_list2 (fast_logwin one lg fy fx f c py px) in
  let r := fast_peak one lg fy fx f c mask (py, px) in
  (forall y x, 0 <= y < 2 * c -> 0 <= x < 2 * c -> xcorr (2 * c) (2 * c) L mask y x <= r_height r) /\
  (exists y x, 0 <= y < 2 * c /\ 0 <= x < 2 * c /\ r_height r = xcorr (2 * c) (2 * c) L mask y x /\
               r_cy r = y + py - c /\ r_cx r = x + px - c).
Proof.
  intros Hc Hs. cbv zeta. unfold fast_peak, eval_peak, corr_fast. cbn [fst snd].
  set (L := Corr.of_list2 (fast_logwin one lg fy fx f c py px)).
  pose proof (argmax2_spec (2 * c) (2 * c) (cconv (2 * c) (2 * c) L mask) ltac:(lia) ltac:(lia)) as Ha.
  destruct (argmax2 (2 * c) (2 * c) (cconv (2 * c) (2 * c) L mask)) as [y x].
  destruct Ha as ((Hy & Hx) & Hmax & _). cbn [r_height r_cy r_cx]. split.
  - intros y' x' Hy' Hx'. rewrite <- (cconv_is_xcorr (2 * c) (2 * c) L mask y' x') by (try lia; exact Hs). apply Hmax; assumption.
  - exists y, x. repeat split; try lia. apply cconv_is_xcorr; try lia. exact Hs.
Qed.

(* the same for the full-frame method on peaks whose window lies inside the frame (outside, the map is zero padded) *)
Theorem full_height_is_window_maximum_of_xcorr one lg fy fx f c mask py px : 1 <= c -> 1 <= fy -> 1 <= fx -> csym fy fx mask ->
  0 <= py - c -> py + c <= fy -> 0 <= px - c -> px + c <= fx ->
  let L := Corr.of_list2 (full_logframe one lg fy fx f) in
  let r := full_peak one lg fy fx f c mask (py, px) in
  (forall y x, 0 <= y < 2 * c -> 0 <= x < 2 * c -> xcorr fy fx L mask (py - c + y) (px - c + x) <= r_height r) /\
  (exists y x, 0 <= y < 2 * c /\ 0 <= x < 2 * c /\ r_height r = xcorr fy fx L mask (py - c + y) (px - c + x) /\
               r_cy r = y + py - c /\ r_cx r = x + px - c).
Proof.
  intros Hc Hfy Hfx Hs H1 H2 H3 H4. cbv zeta. unfold full_peak, eval_peak, corr_full. cbn [fst snd].
  set (L := Corr.of_list2 (full_logframe one lg fy fx f)).
  set (cm := fun y x => unopt (crop_px_at fy fx (cconv fy fx L mask) c py px y x)).
  assert (E : forall y x, 0 <= y < 2 * c -> 0 <= x < 2 * c -> cm y x = xcorr fy fx L mask (py - c + y) (px - c + x)).
  { intros y x Hy Hx. unfold cm. rewrite crop_px_spec. cbn [unopt]. unfold pad0.
    assert (inb fy (py - c + y) = true) as -> by (apply inb_true; lia).
    assert (inb fx (px - c + x) = true) as -> by (apply inb_true; lia). cbn [andb].
    apply cconv_is_xcorr; try lia. exact Hs. }
  pose proof (argmax2_spec (2 * c) (2 * c) cm ltac:(lia) ltac:(lia)) as Ha.
  destruct (argmax2 (2 * c) (2 * c) cm) as [y x]. destruct Ha as ((Hy & Hx) & Hmax & _). cbn [r_height r_cy r_cx]. split.
  - intros y' x' Hy' Hx'. rewrite <- E by assumption. apply Hmax; assumption.
  - exists y, x. repeat split; try lia. apply E; assumption.
Qed.

(* C08: reordering the peak list reorders the results: entry i of the run on the permuted list is entry (sigma i) of the
   run on the original list, for any map sigma of [0,n) into [0,n) (permutations, duplications) and any two buffer counts *)
Theorem fast_results_follow_the_peak_list one lg fy fx f c mask peaks (sigma : Z -> Z) n bc1 bc2 o1 o2 i :
  0 <= n -> 1 <= bc1 -> 1 <= bc2 -> 0 <= i < n -> 0 <= sigma i < n ->
  process_frame_fast_model one lg fy fx f c mask (fun k => peaks (sigma k)) n bc1 o1 i =
  process_frame_fast_model one lg fy fx f c mask peaks n bc2 o2 (sigma i).
Proof.
  intros Hn H1 H2 Hi Hs. rewrite !process_frame_fast_per_peak by assumption.
  assert (inb n i = true) as -> by (apply inb_true; assumption).
  assert (inb n (sigma i) = true) as -> by (apply inb_true; assumption). reflexivity.
Qed.

Theorem full_results_follow_the_peak_list one lg fy fx f c mask peaks (sigma : Z -> Z) n bc1 bc2 o1 o2 i :
  0 <= n -> 1 <= bc1 -> 1 <= bc2 -> 0 <= i < n -> 0 <= sigma i < n ->
  process_frame_full_model one lg fy fx f c mask (fun k => peaks (sigma k)) n bc1 o1 i =
  process_frame_full_model one lg fy fx f c mask peaks n bc2 o2 (sigma i).
Proof.
  intros Hn H1 H2 Hi Hs. rewrite !process_frame_full_per_peak by assumption.
  assert (inb n i = true) as -> by (apply inb_true; assumption).
  assert (inb n (sigma i) = true) as -> by (apply inb_true; assumption). reflexivity.
Qed.

(* C06: the two-dimensional statement: the fitted (zero, a, b) minimise the weighted sum of squared DISTANCES *)
Open Scope Q_scope.
Definition cost2 (zero a b : vec) (l : list pt) : Q :=
  cost (vy zero) (vy a) (vy b) (rows_y l) + cost (vx zero) (vx a) (vx b) (rows_x l).

Theorem wls3_minimises_weighted_squared_distances l zero a b : (forall q, In q l -> 0 <= pw q) ->
  wls3 l = Some (zero, a, b) -> forall zero' a' b', cost2 zero a b l <= cost2 zero' a' b' l.
Proof.
  intros Hw H zero' a' b'. unfold wls3 in H.
  destruct (wls_col (rows_y l)) as [[[zy ay] by_]|] eqn:Ey; [|discriminate].
  destruct (wls_col (rows_x l)) as [[[zx ax] bx]|] eqn:Ex; [|discriminate].
  injection H as <- <- <-. unfold cost2, vy, vx. cbn [fst snd].
  assert (Wy : forall r, In r (rows_y l) -> 0 <= w r).
  { intros r Hr. unfold rows_y in Hr. apply in_map_iff in Hr. destruct Hr as (q & <- & Hq). cbn [w]. apply Hw, Hq. }
  assert (Wx : forall r, In r (rows_x l) -> 0 <= w r).
  { intros r Hr. unfold rows_x in Hr. apply in_map_iff in Hr. destruct Hr as (q & <- & Hq). cbn [w]. apply Hw, Hq. }
  pose proof (wls_col_optimal _ _ _ _ Wy Ey (fst zero') (fst a') (fst b')) as Hy.
  pose proof (wls_col_optimal _ _ _ _ Wx Ex (snd zero') (snd a') (snd b')) as Hx.
  apply Qplus_le_compat; assumption.
Qed.
