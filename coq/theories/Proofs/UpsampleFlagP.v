From Coq Require Import ZArith Lia Bool.
From BF Require Import Model.Upsample Model.UpsampleFlag Proofs.UpsampleP.
Open Scope Z_scope.

Lemma us_runs_ge f : us_runs f = true -> 1 <= f.
Proof. unfold us_runs. intros H. apply Z.ltb_lt in H. lia. Qed.
Lemma us_flag_true_runs k : us_runs (us_factor true k) = true.
Proof. reflexivity. Qed.
Lemma us_flag_int_runs k : us_runs (us_factor false k) = (1 <? k).
Proof. reflexivity. Qed.
(* whenever the step runs, the refined position is within 0.75 + 0.5/f px of the integer centre *)
Theorem us_bound_when_runs is_true k j : us_runs (us_factor is_true k) = true -> 0 <= j < us_region (us_factor is_true k) ->
  4 * Z.abs (us_delta (us_factor is_true k) j) <= 3 * us_factor is_true k + 2.
Proof. intros Hr Hj. apply upsample_bound; [apply us_runs_ge; exact Hr | exact Hj]. Qed.
(* for the flag True that is 0.775 px: 4 * 20 * |refined - centre| <= 62 *)
Theorem us_flag_true_bound k j : 0 <= j < us_region (us_factor true k) -> 4 * Z.abs (us_delta (us_factor true k) j) <= 62.
Proof. intros Hj. pose proof (us_bound_when_runs true k j (us_flag_true_runs k) Hj) as H. change (us_factor true k) with 20 in *. lia. Qed.
