From Coq Require Import ZArith Bool Lia.
From BF Require Import Model.Dtype.
Open Scope Z_scope.

Lemma pow_le a b : 0 <= a <= b -> 2 ^ a <= 2 ^ b.
Proof. intros H. apply Z.pow_le_mono_r; lia. Qed.

(* every pixel value of an 8/16/32-bit integer frame, and every argument x - min + 1 of the logarithm, is exactly representable in the
   buffer dtype np.result_type(d, float32) *)
Theorem promotion_holds_values d bits sg v : d = NInt bits sg -> (bits = 8 \/ bits = 16 \/ bits = 32) -> in_range d v ->
  exact_in (result_type_f32 d) v.
Proof.
  intros -> Hb Hr. unfold exact_in, result_type_f32, in_range in *.
  destruct Hb as [-> | [-> | ->]]; destruct sg; cbn in *; lia.
Qed.

Theorem promotion_holds_log_arguments d bits sg v m : d = NInt bits sg -> (bits = 8 \/ bits = 16 \/ bits = 32) -> in_range d v -> in_range d m -> m <= v ->
  exact_in (result_type_f32 d) (v - m + 1).
Proof.
  intros -> Hb Hv Hm Hle. unfold exact_in, result_type_f32, in_range in *.
  destruct Hb as [-> | [-> | ->]]; destruct sg; cbn in *; lia.
Qed.

(* a float32 buffer does NOT hold every 32-bit integer value: promotion of 32-bit integers to float64 is needed *)
Theorem float32_cannot_hold_int32 : in_range (NInt 32 true) (2 ^ 24 + 1) /\ ~ exact_in (NFloat 32) (2 ^ 24 + 1).
Proof. unfold in_range, exact_in. cbn. split; lia. Qed.

(* a signed integer buffer of at least 16 bits stores every coordinate of magnitude < 2^15 (peak +- crop size) as it is *)
Theorem signed_buffer_holds_coordinates d v : is_signed_int d 16 = true -> - 2 ^ 15 <= v < 2 ^ 15 -> in_range d v.
Proof.
  destruct d as [bits [|]|]; cbn; try discriminate. intros H Hv. apply Z.leb_le in H.
  assert (2 ^ 15 <= 2 ^ (bits - 1)) by (apply pow_le; lia). lia.
Qed.
