(* Polar <-> cartesian conversion (base/utils.py make_cartesian / make_polar) over Coq's real numbers.
   arctan2 is not defined: it enters through its characterising relation (cos a * |v| = x, sin a * |v| = y), which is
   what numpy documents, so the theorems hold for whatever branch the implementation picks.  sin, cos, sqrt are the
   standard library's; this is the only model file that uses the axiomatised reals. *)
From Coq Require Import Reals.
Local Open Scope R_scope.

(* make_cartesian: (r, phi) |-> (y, x) = (sin phi * r, cos phi * r) *)
Definition make_cartesian (p : R * R) : R * R := (sin (snd p) * fst p, cos (snd p) * fst p).
(* the radius part of make_polar: np.linalg.norm over (y, x) *)
Definition norm2 (c : R * R) : R := sqrt (fst c * fst c + snd c * snd c).
(* the angle part, as a relation: a is an arctan2(y, x) *)
Definition is_arctan2 (c : R * R) (a : R) : Prop :=
  cos a * norm2 c = snd c /\ sin a * norm2 c = fst c.
