(* Model of process_frame_fast / process_frame_full (base/correlation.py): crop -> log scale -> FFT correlation ->
   evaluate, per peak, inside the block loop.  The logarithm is a parameter [lg] (applied to the exact argument
   x - min + 1 computed by the model); the FFT product is the cyclic convolution [cconv]. *)
From Coq Require Import ZArith List Bool.
From BF Require Import Base.Util Model.Crop Model.Corr Model.Eval Model.Prelog Model.Blocks.
Import ListNotations.
Open Scope Z_scope.

Definition unopt (o : option Z) : Z := match o with Some v => v | None => 0 end.

(* prelog with the unit expressed at the scale of the data (data = value * one) *)
Definition prelog_s (one : Z) (l : list (list Z)) : list (list Z) :=
  let m := min2 l in map (map (fun x => x - m + one)) l.

(* the crop buffer slot after cropping peak (py,px): h = w = 2c *)
Definition crop_win (fy fx : Z) (f : frame) (c py px : Z) : list (list Z) :=
  Corr.tabulate (2 * c) (2 * c) (fun y x => unopt (crop_px_at fy fx f c py px y x)).

(* log_scale_cropbufs_inplace on one slot *)
Definition fast_logwin (one : Z) (lg : Z -> Z) (fy fx : Z) (f : frame) (c py px : Z) : list (list Z) :=
  map (map lg) (prelog_s one (crop_win fy fx f c py px)).

Definition corr_fast (one : Z) (lg : Z -> Z) (fy fx : Z) (f : frame) (c : Z) (mask : img) (py px : Z) : cmap :=
  cconv (2 * c) (2 * c) (Corr.of_list2 (fast_logwin one lg fy fx f c py px)) mask.

(* full-frame method: log_scale of the whole frame, one correlation map of the frame's shape, then the map is
   cropped like a frame (zero outside) *)
Definition full_logframe (one : Z) (lg : Z -> Z) (fy fx : Z) (f : frame) : list (list Z) :=
  map (map lg) (prelog_s one (Corr.tabulate fy fx f)).

Definition corr_full (one : Z) (lg : Z -> Z) (fy fx : Z) (f : frame) (c : Z) (mask : img) (py px : Z) : cmap :=
  let cm := cconv fy fx (Corr.of_list2 (full_logframe one lg fy fx f)) mask in
  fun y x => unopt (crop_px_at fy fx cm c py px y x).

(* evaluate_correlations for one peak: centre and refined position in frame coordinates, height *)
Record peak_result := { r_cy : Z; r_cx : Z; r_height : Z; r_com : com }.

Definition eval_peak (c : Z) (corr : cmap) (py px : Z) : peak_result :=
  let '(y, x) := argmax2 (2 * c) (2 * c) corr in
  {| r_cy := shift y py c; r_cx := shift x px c; r_height := corr y x;
     r_com := refine_com (2 * c) (2 * c) corr y x |}.

Definition fast_peak one lg fy fx f c mask (p : Z * Z) : peak_result :=
  eval_peak c (corr_fast one lg fy fx f c mask (fst p) (snd p)) (fst p) (snd p).
Definition full_peak one lg fy fx f c mask (p : Z * Z) : peak_result :=
  eval_peak c (corr_full one lg fy fx f c mask (fst p) (snd p)) (fst p) (snd p).

(* the block loops *)
Definition process_frame_fast_model one lg fy fx f c mask (peaks : Z -> Z * Z) (n bc : Z) (out0 : Z -> peak_result) :=
  process_blocks (fun i => fast_peak one lg fy fx f c mask (peaks i)) n bc out0.
Definition process_frame_full_model one lg fy fx f c mask (peaks : Z -> Z * Z) (n bc : Z) (out0 : Z -> peak_result) :=
  process_blocks (fun i => full_peak one lg fy fx f c mask (peaks i)) n bc out0.

(* ---- state threaded through calls: the crop buffer (slot, y, x) and the frame buffer ---- *)
Inductive backend := BPx | BSlice.

Definition crop_into (b : backend) (fy fx : Z) (f : frame) (c py px : Z) (old : Z -> Z -> Z) : Z -> Z -> Z :=
  match b with
  | BPx => fun y x => unopt (crop_px_at fy fx f c py px y x)
  | BSlice => fun y x => match crop_slice_at true fy fx f c (2 * c) (2 * c) py px old y x with
                         | WVal (Some v) => v
                         | _ => -1
                         end
  end.

(* one peak processed through buffer slot contents [old]; the slot is overwritten by the crop, log-scaled in place,
   correlated and evaluated *)
Definition fast_peak_via_slot (b : backend) one lg fy fx f c mask (p : Z * Z) (old : Z -> Z -> Z) : peak_result * (Z -> Z -> Z) :=
  let w := crop_into b fy fx f c (fst p) (snd p) old in
  let wl := map (map lg) (prelog_s one (Corr.tabulate (2 * c) (2 * c) w)) in
  (eval_peak c (cconv (2 * c) (2 * c) (Corr.of_list2 wl) mask) (fst p) (snd p), Corr.of_list2 wl).

(* ---- call histories: state = contents of the crop buffer slots and of the output arrays ---- *)
Record fstate := { slots : Z -> Z -> Z -> Z; outs : Z -> peak_result }.

Definition step_peak b one lg fy fx f c mask (peaks : Z -> Z * Z) (bc : Z) (st : fstate) (i : Z) : fstate :=
  let j := slot_of bc i in
  let rw := fast_peak_via_slot b one lg fy fx f c mask (peaks i) (slots st j) in
  {| slots := fun k => if k =? j then snd rw else slots st k;
     outs := fun k => if k =? i then fst rw else outs st k |}.

Definition run_call b one lg fy fx f c mask peaks n bc (st : fstate) : fstate :=
  fold_left (step_peak b one lg fy fx f c mask peaks bc) (zseq n) st.

(* a history is a list of calls *)
Record call := { k_fy : Z; k_fx : Z; k_f : frame; k_peaks : Z -> Z * Z; k_n : Z; k_bc : Z; k_backend : backend }.
Definition do_call one lg c mask (st : fstate) (k : call) : fstate :=
  run_call (k_backend k) one lg (k_fy k) (k_fx k) (k_f k) c mask (k_peaks k) (k_n k) (k_bc k) st.

(* table-driven logarithm for the correspondence runs: the harness supplies log values for every argument *)
Definition lookup (t : list (Z * Z)) (k : Z) : Z :=
  match find (fun p => fst p =? k) t with Some p => snd p | None => -777777777 end.
Definition all_in (t : list (Z * Z)) (args : list (list Z)) : bool :=
  forallb (forallb (fun k => existsb (fun p => fst p =? k) t)) args.

(* what one correspondence case prints: argmax and maximum of the map; value, centre of mass and elevation evaluated
   at the implementation's centre (icy, icx) (window coordinates), the elevation at the model's own centre of mass *)
Definition report (c : Z) (corr : cmap) (icy icx : Z) :=
  let N := 2 * c in
  let tab := Corr.tabulate N N corr in
  let cm := Corr.of_list2 tab in
  let '(y, x) := argmax2 N N cm in
  let m := refine_com N N cm icy icx in
  let deg := (com_r m <=? 0) || (com_s m <=? 0) in
  let D := if deg then 1 else com_s m in
  let ry := if deg then icy else icy * com_s m + com_sy m - com_r m * com_s m in
  let rx := if deg then icx else icx * com_s m + com_sx m - com_r m * com_s m in
  ((y, x), cm y x, cm icy icx, (com_r m, com_sy m, com_sx m, com_s m), elevation N N cm ry rx D (cm icy icx)).
