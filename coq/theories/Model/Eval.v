(* Model of evaluate_correlations and its kernels (base/correlation.py):
   unravel_index(argmax), refine_center / center_of_mass, peak_elevation, _shift.
   A correlation map is a function Z -> Z -> Z with shape (H, W); values are integers (the harness
   scales the float map by a power of two; all quantities below are invariant under that scaling). *)
From Coq Require Import ZArith List Bool.
From BF Require Import Base.Util.
Import ListNotations.
Open Scope Z_scope.

Definition cmap := Z -> Z -> Z.

(* np.argmax on the flattened map: first maximum in row-major order; unravel_index *)
Definition argmax_flat (H W : Z) (c : cmap) : Z :=
  fold_left (fun best i => if c (best / W) (best mod W) <? c (i / W) (i mod W) then i else best)
            (zseq (H * W)) 0.
Definition unravel (W idx : Z) : Z * Z := (idx / W, idx mod W).
Definition argmax2 (H W : Z) (c : cmap) : Z * Z := unravel W (argmax_flat H W c).

(* refine_center: r = min(2, y, x, H-y-1, W-x-1); r <= 0 -> centre itself.  *)
Definition clip_r (H W y x : Z) : Z :=
  Z.min 2 (Z.min y (Z.min x (Z.min (H - y - 1) (W - x - 1)))).

Definition cut_min (c : cmap) (y x r : Z) : Z :=
  fold_left Z.min (flat_map (fun dy => map (fun dx => c (y - r + dy) (x - r + dx)) (zseq (2 * r + 1))) (zseq (2 * r + 1)))
            (c (y - r) (x - r)).

(* centre of mass of (cutout - min): numerators and denominator
   (sum_y = sum over the cut-out of dy * v, dy = 0..2r) ; refined = y + sum_y/s - r *)
Record com := { com_r : Z; com_sy : Z; com_sx : Z; com_s : Z }.

Definition refine_com (H W : Z) (c : cmap) (y x : Z) : com :=
  let r := clip_r H W y x in
  if r <=? 0 then {| com_r := r; com_sy := 0; com_sx := 0; com_s := 0 |}
  else
    let m := cut_min c y x r in
    let v dy dx := c (y - r + dy) (x - r + dx) - m in
    let n := 2 * r + 1 in
    {| com_r := r;
       com_sy := Zsum n (fun dy => Zsum n (fun dx => dy * v dy dx));
       com_sx := Zsum n (fun dy => Zsum n (fun dx => dx * v dy dx));
       com_s := Zsum n (fun dy => Zsum n (fun dx => v dy dx)) |}.

(* peak_elevation: min over pixels with dist >= 1.5 of (height - value)/dist, floored at 0.
   The refined position is (ry/D, rx/D) (D > 0: common denominator).  We keep the minimising pixel as
   the exact pair (a, q) = (height - value, D^2 * dist^2); slope = D*a/sqrt q.  a >= 0 for all pixels when
   height is the maximum, then  a1/sqrt q1 < a2/sqrt q2  <->  a1^2 q2 < a2^2 q1 ; negative a (possible
   only if height is not the maximum) are compared by sign first. *)
Definition slope_lt (a1 q1 a2 q2 : Z) : bool :=
  if a1 <? 0 then
    if a2 <? 0 then (a2 * a2 * q1 <? a1 * a1 * q2) else true
  else
    if a2 <? 0 then false else (a1 * a1 * q2 <? a2 * a2 * q1).

Definition elevation (H W : Z) (c : cmap) (ry rx D : Z) (height : Z) : option (Z * Z) :=
  fold_left (fun best i =>
      let y := i / W in let x := i mod W in
      let q := (y * D - ry) * (y * D - ry) + (x * D - rx) * (x * D - rx) in
      if 4 * q >=? 9 * D * D then
        let a := height - c y x in
        match best with
        | None => Some (a, q)
        | Some (a0, q0) => if slope_lt a q a0 q0 then Some (a, q) else best
        end
      else best)
    (zseq (H * W)) None.

(* _shift: position in the frame = position in the window + peak - crop_size *)
Definition shift (rel peak c : Z) : Z := rel + peak - c.
Definition unshift (pos peak c : Z) : Z := pos - peak + c.

(* storing a centre into an integer output array of the given width/signedness (numpy wraps silently) *)
Definition store_int (bits : Z) (signed : bool) (v : Z) : Z :=
  let m := 2 ^ bits in
  let w := v mod m in
  if signed then (if w >=? m / 2 then w - m else w) else w.
