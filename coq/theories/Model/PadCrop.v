(* Model of common/patterns.py: UserTemplate.get_mask (pad or crop each axis to the requested size), the default radial
   map of RadialGradientBackgroundSubtraction, get_crop_size and the constructor guards. *)
From Coq Require Import ZArith List Bool QArith Qround.
From BF Require Import Base.Util.
Import ListNotations.
Open Scope Z_scope.

(* per axis: source length s, target length t.
     extra  = |t - s| ;  before = |t // 2 - s // 2| ;  after = extra - before
   np.pad(result, (before, after)) for t > s ; skimage.util.crop(result, (before, after)) for t < s *)
Definition pc_extra (s t : Z) : Z := Z.abs (t - s).
Definition pc_before (s t : Z) : Z := Z.abs (t / 2 - s / 2).
Definition pc_after (s t : Z) : Z := pc_extra s t - pc_before s t.
(* as it was before the fix: before = extra // 2 (the odd pixel went to the end of the axis) *)
Definition pc_before_legacy (s t : Z) : Z := pc_extra s t / 2.

(* index of the source element that ends up at target index j (None: zero padding) *)
Definition pc_src (before : Z) (s t j : Z) : option Z :=
  if t >? s then (if (before <=? j) && (j <? before + s) then Some (j - before) else None)
  else if t <? s then Some (j + before)
  else Some j.

Definition padcrop_src (s t j : Z) : option Z := pc_src (pc_before s t) s t j.
Definition padcrop_src_legacy (s t j : Z) : option Z := pc_src (pc_before_legacy s t) s t j.

(* length of the result along the axis: pad: before + s + after ; crop: s - before - after *)
Definition pc_len (s t : Z) : Z :=
  if t >? s then pc_before s t + s + pc_after s t else if t <? s then s - pc_before s t - pc_after s t else s.

(* the specification: source extended by zero, aligned so that source pixel s/2 sits on target pixel t/2 *)
Definition aligned_src (s t j : Z) : option Z :=
  let i := j + s / 2 - t / 2 in if inb s i then Some i else None.

(* default radial map of RadialGradientBackgroundSubtraction: r = max(radius, radius_outer) = p/q ;
   size = ceil(2 r + 2) ; centre = size // 2 (since the fix; before: r + 1) *)
Definition rmap_size (p q : Z) : Z := - ((- (2 * p + 2 * q)) / q).
Definition rmap_centre (p q : Z) : Z := rmap_size p q / 2.

(* get_crop_size = int(ceil(search)), search = p/q *)
Definition crop_size (p q : Z) : Z := - ((- p) / q).

(* constructor guards (True = accepted); arguments are rationals given as numerators over a common denominator d > 0 *)
Definition guard_circular (radius search : Z) : bool := negb (search <? radius).
Definition guard_bgsub (radius router search : Z) : bool := negb (router <=? radius) && negb (search <? router).
