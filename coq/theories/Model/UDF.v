(* Model of the UDF layer (udf/correlation.py, udf/integration.py) on top of the stand-alone functions:
   - frame UDFs: a dataset is processed partition by partition; every partition gets its own task data (crop buffers), every
     frame writes into its own slot of the result buffers;
   - the peaks handed to the stand-alone function are round(peaks) + round(zero_shift) (np.round: half to even);
   - SparseCorrelationUDF: corr[f, m] += sum over the pixels of each tile of mask_m * log_scale(tile), the masks being the
     template stamped at (peak + offset - crop_size); log_scale is applied PER TILE (minimum over the tile's pixels and over the
     frames stacked in the tile). *)
From Coq Require Import ZArith List Bool QArith.
From BF Require Import Base.Util Model.Crop Model.Corr Model.Eval Model.Prelog Model.Blocks Model.Pipeline Model.Stamp Model.Match.
Import ListNotations.
Open Scope Z_scope.

(* ---- frame UDFs ---- *)
(* per-frame input: the frame and the peak list for that frame (already shifted) *)
Record fin := { u_fy : Z; u_fx : Z; u_f : frame; u_peaks : Z -> Z * Z; u_n : Z }.

(* processing the frames of one partition in order, on the partition's own buffer state; result slot i of the dataset
   buffers receives the outputs of frame i *)
Definition run_partition (b : backend) one lg c mask bc (frames : Z -> fin) (part : list Z)
    (st : fstate) (res : Z -> option (Z -> peak_result)) : fstate * (Z -> option (Z -> peak_result)) :=
  fold_left (fun acc i =>
      let fi := frames i in
      let st' := run_call b one lg (u_fy fi) (u_fx fi) (u_f fi) c mask (u_peaks fi) (u_n fi) bc
                          {| slots := slots (fst acc); outs := fun _ => {| r_cy := 0; r_cx := 0; r_height := 0; r_com := Build_com 0 0 0 0 |} |} in
      (st', fun k => if k =? i then Some (outs st') else snd acc k))
    part (st, res).

(* every partition starts from freshly allocated task data; [fresh p] is that state (arbitrary: zeros in the code) *)
Definition run_dataset (b : backend) one lg c mask bc (frames : Z -> fin) (parts : list (list Z)) (fresh : nat -> fstate)
    : Z -> option (Z -> peak_result) :=
  snd (fold_left (fun acc part => (S (fst acc), snd (run_partition b one lg c mask bc frames part (fresh (fst acc)) (snd acc))))
                 parts (O, fun _ => None)).

(* the peaks a frame is processed with *)
Definition shifted_peak (p zs : Q * Q) : Z * Z :=
  ((round_he (fst p) + round_he (fst zs))%Z, (round_he (snd p) + round_he (snd zs))%Z).

(* ---- SparseCorrelationUDF ---- *)
(* one tile = rows [y0, y0+h) x columns [x0, x0+w) of the signal plane *)
Record tile := { t_y0 : Z; t_x0 : Z; t_h : Z; t_w : Z }.

Definition sum_tile (tl : tile) (g : Z -> Z -> Z) : Z :=
  sumZ (map (fun y => sumZ (map (fun x => g y x) (zrange (t_x0 tl) (t_x0 tl + t_w tl)))) (zrange (t_y0 tl) (t_y0 tl + t_h tl))).

Definition sum_plane (H W : Z) (g : Z -> Z -> Z) : Z := Zsum H (fun y => Zsum W (fun x => g y x)).

(* row bands cut at r_0 = 0 <= r_1 <= ... <= r_k = H, columns cut at c_0 = 0 <= ... <= c_l = W *)
Fixpoint bands_from (a : Z) (rest : list Z) : list (Z * Z) :=
  match rest with [] => [] | b :: t => (a, b) :: bands_from b t end.
Definition bands (cuts : list Z) : list (Z * Z) := match cuts with [] => [] | a :: rest => bands_from a rest end.
Definition grid_tiles (rcuts ccuts : list Z) : list tile :=
  flat_map (fun rb : Z * Z => map (fun cb : Z * Z => {| t_y0 := fst rb; t_x0 := fst cb; t_h := snd rb - fst rb; t_w := snd cb - fst cb |}) (bands ccuts)) (bands rcuts).

(* mask m = template (th x tw) stamped at offset (oy, ox); value v per pixel: contribution of all tiles *)
Definition sparse_corr_tiles (tiles : list tile) (th tw : Z) (t : tmpl) (oy ox H W : Z) (v : Z -> Z -> Z) : Z :=
  sumZ (map (fun tl => sum_tile tl (fun y x => stamp th tw t oy ox H W y x * v y x)) tiles).

(* direct evaluation of the correlation of v with the template at that offset (zero outside the frame) *)
Definition direct_corr (th tw : Z) (t : tmpl) (oy ox H W : Z) (v : Z -> Z -> Z) : Z :=
  Zsum th (fun ty => Zsum tw (fun tx => t ty tx * pad0 H W v (oy + ty) (ox + tx))).

(* per-tile log scaling: log_scale is applied to the whole tile block (tile pixels x the frames stacked in the tile), so the
   value of a pixel depends on the minimum over that block; [stack] = all frames of the block (the current one included) *)
Definition tile_vals (tl : tile) (f : Z -> Z -> Z) : list Z :=
  flat_map (fun y => map (fun x => f y x) (zrange (t_x0 tl) (t_x0 tl + t_w tl))) (zrange (t_y0 tl) (t_y0 tl + t_h tl)).
Definition tile_min (tl : tile) (stack : list (Z -> Z -> Z)) : Z :=
  list_min (match stack with f :: _ => f (t_y0 tl) (t_x0 tl) | [] => 0 end) (flat_map (tile_vals tl) stack).

Definition sparse_corr_code (lg : Z -> Z) (one : Z) (tiles : list tile) (th tw : Z) (t : tmpl) (oy ox H W : Z)
    (stack : list (Z -> Z -> Z)) (f : Z -> Z -> Z) : Z :=
  sumZ (map (fun tl => let m := tile_min tl stack in
                       sum_tile tl (fun y x => stamp th tw t oy ox H W y x * lg (f y x - m + one))) tiles).

(* ---- IntegrationUDF: sum(crop_bufs * pattern) ---- *)
Definition integrate (fy fx : Z) (f : frame) (c : Z) (mask : Z -> Z -> Z) (py px : Z) : Z :=
  Zsum (2 * c) (fun y => Zsum (2 * c) (fun x => unopt (crop_px_at fy fx f c py px y x) * mask y x)).
