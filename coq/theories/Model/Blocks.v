(* Model of the block loop of process_frame_fast / process_frame_full and of get_buf_count
   (base/correlation.py).  Python // and % are Z.div and Z.modulo (both floor). *)
From Coq Require Import ZArith List Bool.
From BF Require Import Base.Util.
Import ListNotations.
Open Scope Z_scope.

(* block_count = (len(peaks) - 1) // buf_count + 1 ;  start = block * buf_count ;
   stop = min((block + 1) * buf_count, len(peaks)) *)
Definition block_count (n bc : Z) : Z := (n - 1) / bc + 1.
Definition blk_start (bc b : Z) : Z := b * bc.
Definition blk_stop (n bc b : Z) : Z := Z.min ((b + 1) * bc) n.
Definition blocks (n bc : Z) : list (Z * Z) :=
  map (fun b => (blk_start bc b, blk_stop n bc b)) (zseq (block_count n bc)).

(* get_buf_count: min(max(1, limit // ((2*crop_size)**2 * itemsize)), n_peaks) *)
Definition full_size (c itemsize : Z) : Z := (2 * c) * (2 * c) * itemsize.
Definition buf_count (c n itemsize limit : Z) : Z :=
  Z.min (Z.max 1 (limit / full_size c itemsize)) n.

(* The loop: every block evaluates its peaks (slot j of the temporary buffer holds peak start+j)
   and writes out[start:stop].  [f i] is the result for peak number i. Output arrays are
   functions index -> value, initially [out0] (arbitrary previous contents). *)
Definition write_block {A} (f : Z -> A) (out : Z -> A) (start stop : Z) : Z -> A :=
  fun i => if (start <=? i) && (i <? stop) then f i else out i.

Definition process_blocks {A} (f : Z -> A) (n bc : Z) (out0 : Z -> A) : Z -> A :=
  fold_left (fun out b => write_block f out (blk_start bc b) (blk_stop n bc b))
            (zseq (block_count n bc)) out0.

(* buffer slot used for peak i *)
Definition slot_of (bc i : Z) : Z := i - blk_start bc (i / bc).
