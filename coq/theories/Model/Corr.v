(* Model of the FFT correlation of base/correlation.py:
     corr = ifftshift(irfft2(rfft2(mask) * rfft2(data), s=shape))
   By the convolution theorem irfft2(F m . F d) is the cyclic convolution of m and d; ifftshift
   rotates by N/2.  [cconv] is therefore what the code computes (FFT itself is trusted, see DESIGN 4);
   [xcorr] is what the documentation promises (cross-correlation with the mask centred on N/2). *)
From Coq Require Import ZArith List Bool.
From BF Require Import Base.Util.
Import ListNotations.
Open Scope Z_scope.

Definition img := Z -> Z -> Z.

Definition cconv (N M : Z) (d m : img) (i k : Z) : Z :=
  Zsum N (fun t => Zsum M (fun u => m t u * d ((i + N / 2 - t) mod N) ((k + M / 2 - u) mod M))).

Definition xcorr (N M : Z) (d m : img) (i k : Z) : Z :=
  Zsum N (fun t => Zsum M (fun u => m t u * d ((i + t - N / 2) mod N) ((k + u - M / 2) mod M))).

(* point symmetry of the mask about pixel (N/2, M/2), cyclically *)
Definition csym (N M : Z) (m : img) : Prop :=
  forall t u, 0 <= t < N -> 0 <= u < M ->
    m t u = m ((2 * (N / 2) - t) mod N) ((2 * (M / 2) - u) mod M).

Definition csymb (N M : Z) (m : img) : bool :=
  forallb (fun t => forallb (fun u => m t u =? m ((2 * (N / 2) - t) mod N) ((2 * (M / 2) - u) mod M)) (zseq M)) (zseq N).

(* index model of common/correlation.py:get_correlation: which cyclic-convolution entry ends up at
   output position i, for output length n.   [legacy]: fftshift(irfft2(spec)) as written before the fix
   (the last axis had length 2*(M/2+1-1)); current: ifftshift(irfft2(spec, s=shape)). *)
Definition ifftshift_src (n i : Z) : Z := (i + n / 2) mod n.
Definition fftshift_src (n i : Z) : Z := (i - n / 2) mod n.
Definition irfft_default_len (m : Z) : Z := 2 * (m / 2 + 1 - 1).

(* list-level helpers for evaluation *)
Definition of_list2 (l : list (list Z)) : img :=
  fun y x => nth (Z.to_nat x) (nth (Z.to_nat y) l []) 0.
Definition tabulate (H W : Z) (f : img) : list (list Z) :=
  map (fun y => map (fun x => f y x) (zseq W)) (zseq H).
