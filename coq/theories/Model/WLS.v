(* Model of the lattice fits of common/gridmatching.py: Match.weighted_optimize / optimize (np.linalg.lstsq on
   sqrt(w)-scaled rows = weighted normal equations), Match.error, get_transformation, do_transformation, find_center.
   Exact rational arithmetic; a singular system is None (LinAlgError / rank deficiency). *)
From Coq Require Import QArith List Bool ZArith.
From BF Require Import Model.Lattice.
Import ListNotations.
Open Scope Q_scope.

(* one observation: weight, regressors (i, j) (the intercept regressor is 1), response p *)
Record row := { w : Q; ri : Q; rj : Q; rp : Q }.

(* Qred keeps the running sum in lowest terms (numerically the identity: Qred q == q); without it the unreduced
   denominators of dyadic inputs multiply up and the model cannot be evaluated *)
Fixpoint sumf (f : row -> Q) (l : list row) : Q := match l with [] => 0 | r :: t => Qred (f r + sumf f t) end.

(* 3x3 determinant and Cramer's rule *)
Definition det3 (a11 a12 a13 a21 a22 a23 a31 a32 a33 : Q) : Q :=
  a11 * (a22 * a33 - a23 * a32) - a12 * (a21 * a33 - a23 * a31) + a13 * (a21 * a32 - a22 * a31).

Record sums := { S1 : Q; Si : Q; Sj : Q; Sii : Q; Sij : Q; Sjj : Q; T1 : Q; Ti : Q; Tj : Q }.
Definition sums_of (l : list row) : sums :=
  {| S1 := sumf (fun r => w r) l; Si := sumf (fun r => w r * ri r) l; Sj := sumf (fun r => w r * rj r) l;
     Sii := sumf (fun r => w r * ri r * ri r) l; Sij := sumf (fun r => w r * ri r * rj r) l; Sjj := sumf (fun r => w r * rj r * rj r) l;
     T1 := sumf (fun r => w r * rp r) l; Ti := sumf (fun r => w r * ri r * rp r) l; Tj := sumf (fun r => w r * rj r * rp r) l |}.

Definition ndet (s : sums) : Q := det3 (S1 s) (Si s) (Sj s) (Si s) (Sii s) (Sij s) (Sj s) (Sij s) (Sjj s).

(* solution (x0, x1, x2) of the weighted normal equations for the model  p ~ x0 + i x1 + j x2 *)
Definition solve3 (s : sums) : option (Q * Q * Q) :=
  let d := ndet s in
  if Qeq_bool d 0 then None
  else Some (det3 (T1 s) (Si s) (Sj s) (Ti s) (Sii s) (Sij s) (Tj s) (Sij s) (Sjj s) / d,
             det3 (S1 s) (T1 s) (Sj s) (Si s) (Ti s) (Sij s) (Sj s) (Tj s) (Sjj s) / d,
             det3 (S1 s) (Si s) (T1 s) (Si s) (Sii s) (Ti s) (Sj s) (Sij s) (Tj s) / d).

Definition wls_col (l : list row) : option (Q * Q * Q) := solve3 (sums_of l).

Definition res (x0 x1 x2 : Q) (r : row) : Q := x0 + ri r * x1 + rj r * x2 - rp r.
Definition cost (x0 x1 x2 : Q) (l : list row) : Q := sumf (fun r => w r * (res x0 x1 x2 r * res x0 x1 x2 r)) l.

(* a lattice fit: points with index (i, j), position (py, px) and weight; both coordinates are fitted separately *)
Record pt := { pw : Q; pi : Q; pj : Q; py : Q; px : Q }.
Definition rows_y (l : list pt) : list row := map (fun q => {| w := pw q; ri := pi q; rj := pj q; rp := py q |}) l.
Definition rows_x (l : list pt) : list row := map (fun q => {| w := pw q; ri := pi q; rj := pj q; rp := px q |}) l.

(* (zero, a, b) *)
Definition wls3 (l : list pt) : option (vec * vec * vec) :=
  match wls_col (rows_y l), wls_col (rows_x l) with
  | Some (zy, ay, by_), Some (zx, ax, bx) => Some ((zy, zx), (ay, ax), (by_, bx))
  | _, _ => None
  end.

(* Match.optimize: the same with unit weights *)
Definition unit_weights (l : list pt) : list pt := map (fun q => {| pw := 1; pi := pi q; pj := pj q; py := py q; px := px q |}) l.

(* squared residual distance of one point from the fitted lattice (the harness takes the square root) *)
Definition resid2 (zero a b : vec) (q : pt) : Q :=
  let c := calc_coord zero a b (pi q, pj q) in
  (py q - vy c) * (py q - vy c) + (px q - vx c) * (px q - vx c).

(* get_transformation(ref, peaks, center, weighs): lstsq([ref - c, 1] * W, [peaks - c, 1] * W): for each output column a
   weighted fit with weights W^2, regressors (ref_y - c_y, ref_x - c_x) and an intercept.  Returned as the 3x3 matrix
   rows (coefficient of ref_y, coefficient of ref_x, intercept), columns (out_y, out_x, 1). *)
Record pair := { tw : Q; ry : Q; rx : Q; ty : Q; tx : Q }.
Definition trows (c : vec) (sel : pair -> Q) (l : list pair) : list row :=
  map (fun q => {| w := tw q * tw q; ri := ry q - vy c; rj := rx q - vx c; rp := sel q |}) l.

Definition mat3 := ((Q * Q * Q) * (Q * Q * Q) * (Q * Q * Q))%type.

Definition get_transformation (c : vec) (l : list pair) : option mat3 :=
  match wls_col (trows c (fun q => ty q - vy c) l), wls_col (trows c (fun q => tx q - vx c) l), wls_col (trows c (fun _ => 1) l) with
  | Some (y0, y1, y2), Some (x0, x1, x2), Some (o0, o1, o2) => Some ((y1, x1, o1), (y2, x2, o2), (y0, x0, o0))
  | _, _, _ => None
  end.

(* do_transformation(matrix, peaks, center): ([p - c, 1] @ matrix)[:, 0:2] + c *)
Definition do_transformation (m : mat3) (c : vec) (p : vec) : vec :=
  match m with ((m11, m12, _), (m21, m22, _), (m31, m32, _)) =>
    let dy := vy p - vy c in let dx := vx p - vx c in
    (dy * m11 + dx * m21 + m31 + vy c, dy * m12 + dx * m22 + m32 + vx c)
  end.

(* find_center(matrix): solve((matrix - diag(1,1,0)).T, (0,0,1))[0:2] -- for a matrix with last column (0,0,1) this is
   the solution of  c (L - I) = - t ; 2x2 Cramer *)
Definition find_center (m : mat3) : option vec :=
  match m with ((m11, m12, _), (m21, m22, _), (m31, m32, _)) =>
    let a := m11 - 1 in let b := m21 in let c := m12 in let d := m22 - 1 in
    let dt := a * d - b * c in
    if Qeq_bool dt 0 then None
    else Some (((- m31) * d - b * (- m32)) / dt, (a * (- m32) - (- m31) * c) / dt)
  end.

Definition t3red (t : Q * Q * Q) : Q * Q * Q := match t with (a, b, c) => (Qred a, Qred b, Qred c) end.
Definition m3red (m : mat3) : mat3 := match m with (r1, r2, r3) => (t3red r1, t3red r2, t3red r3) end.
Definition q3zero : Q * Q * Q := (0, 0, 0).
Definition q3out (t : Q * Q * Q) := match t with (a, b, c) => (qpair a, qpair b, qpair c) end.

Definition q3l (t : Q * Q * Q) : list (list Z) := match t with (a, b, c) => [ql a; ql b; ql c] end.
Definition m3l (m : mat3) : list (list (list Z)) := match m with (r1, r2, r3) => [q3l r1; q3l r2; q3l r3] end.
