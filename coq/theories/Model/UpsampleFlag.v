(* The `upsample` parameter of process_frame_fast / process_frame_full (base/correlation.py): the flag True stands for the factor 20,
   an integer for itself; the DFT upsampling step runs for factors > 1 (False = 0 and 1 switch it off). *)
From Coq Require Import ZArith Bool.
Open Scope Z_scope.
Definition us_factor (is_true : bool) (k : Z) : Z := if is_true then 20 else k.
Definition us_runs (f : Z) : bool := 1 <? f.
