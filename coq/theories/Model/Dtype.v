(* numpy dtypes as far as the library depends on them: np.result_type(d, np.float32) chooses the buffer dtype for frame data
   of dtype d; integer result buffers store peak coordinates. *)
From Coq Require Import ZArith Bool Lia.
Open Scope Z_scope.

Inductive ndt := NInt (bits : Z) (signed : bool) | NFloat (bits : Z).

(* np.result_type(d, np.float32): a float type that can hold the integer type "safely": float32 for <= 16 bit integers,
   float64 for 32 and 64 bit integers (NumPy's promotion table); float types promote among themselves *)
Definition result_type_f32 (d : ndt) : ndt :=
  match d with
  | NInt bits _ => if bits <=? 16 then NFloat 32 else NFloat 64
  | NFloat bits => if bits <=? 32 then NFloat 32 else NFloat 64
  end.

(* integers up to 2^mantissa in absolute value are exactly representable *)
Definition mantissa (d : ndt) : Z := match d with NFloat 32 => 24 | NFloat 64 => 53 | NFloat _ => 0 | NInt _ _ => 0 end.
Definition exact_in (d : ndt) (v : Z) : Prop := Z.abs v <= 2 ^ mantissa d.

Definition in_range (d : ndt) (v : Z) : Prop :=
  match d with
  | NInt bits true => - 2 ^ (bits - 1) <= v < 2 ^ (bits - 1)
  | NInt bits false => 0 <= v < 2 ^ bits
  | NFloat _ => True
  end.

Definition is_signed_int (d : ndt) (minbits : Z) : bool := match d with NInt bits true => minbits <=? bits | _ => false end.
