(* Model of base/masks.py: sparse_template_multi_stack / sparse_circular_multi_stack and common/patterns.py:
   feature_vector.  sparse.COO = list of (coords, value); duplicates add up when densified. *)
From Coq Require Import ZArith List Bool.
From BF Require Import Base.Util.
Import ListNotations.
Open Scope Z_scope.

Definition tmpl := Z -> Z -> Z.

(* the specification: template copied with its top-left corner at (oy, ox), clipped at the image border *)
Definition stamp (th tw : Z) (t : tmpl) (oy ox H W : Z) (y x : Z) : Z :=
  if inb H y && inb W x && inb th (y - oy) && inb tw (x - ox) then t (y - oy) (x - ox) else 0.

Record entry := { e_layer : Z; e_y : Z; e_x : Z; e_val : Z }.

(* one placement: coord = template coordinate + offset, kept if inside the image (the `selector`) *)
Definition place (th tw : Z) (t : tmpl) (H W : Z) (l oy ox : Z) : list entry :=
  flat_map (fun ty => flat_map (fun tx =>
      let y := ty + oy in let x := tx + ox in
      if (0 <=? y) && (y <? H) && (0 <=? x) && (x <? W) then [{| e_layer := l; e_y := y; e_x := x; e_val := t ty tx |}] else [])
    (zseq tw)) (zseq th).

Definition coo_entries (th tw : Z) (t : tmpl) (H W : Z) (placements : list (Z * Z * Z)) : list entry :=
  flat_map (fun p => match p with (l, oy, ox) => place th tw t H W l oy ox end) placements.

Definition todense (es : list entry) (l y x : Z) : Z :=
  sumZ (map (fun e => if (e_layer e =? l) && (e_y e =? y) && (e_x e =? x) then e_val e else 0) es).

(* number of layers = max(mask_index) + 1 *)
Definition n_layers (placements : list (Z * Z * Z)) : Z :=
  fold_left Z.max (map (fun p => match p with (l, _, _) => l end) placements) 0 + 1.

(* sharp disk of radius R = p/q centred on (c, c) in a box of side 2c+1 (c = ceil R) *)
Definition disk_tmpl (p q c : Z) : tmpl :=
  fun ty tx => if q * q * ((ty - c) * (ty - c) + (tx - c) * (tx - c)) <=? p * p then 1 else 0.
Definition disk_dense (p q cy cx H W y x : Z) : Z :=
  if inb H y && inb W x && (q * q * ((y - cy) * (y - cy) + (x - cx) * (x - cx)) <=? p * p) then 1 else 0.

Definition of_list2 (l : list (list Z)) : tmpl :=
  fun y x => nth (Z.to_nat x) (nth (Z.to_nat y) l []) 0.
Definition dense_layer (es : list entry) (H W l : Z) : list (list Z) :=
  map (fun y => map (fun x => todense es l y x) (zseq W)) (zseq H).
