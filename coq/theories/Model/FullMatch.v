(* Model of the bookkeeping of common/fullmatch.py: FullMatcher.full_match (the while loop over working sets), with the
   lattice search itself (_find_best_vector_match: candidates, clustering, figure of merit) abstracted as an oracle that is
   consulted once per iteration; size_filter and angle_check over Q with pi a parameter. *)
From Coq Require Import ZArith List Bool QArith Qround Qabs.
Import ListNotations.
Open Scope Z_scope.

Definition sel := list bool.

Definition band (a b : sel) : sel := map (fun p : bool * bool => fst p && snd p) (combine a b).
Definition bor (a b : sel) : sel := map (fun p : bool * bool => fst p || snd p) (combine a b).
Definition bdiff (a b : sel) : sel := map (fun p : bool * bool => fst p && negb (snd p)) (combine a b).
Definition bnot (a : sel) : sel := map negb a.
Definition count (a : sel) : Z := Z.of_nat (length (filter (fun b => b) a)).

(* the oracle's answers, one per call of _find_best_vector_match in call order: None = no match found with the current
   candidate method, Some m = selector of the best match (a subset of the working set it was given) *)
Definition answers := list (option sel).

Record fm_out := { o_matches : list sel; o_unmatched : sel; o_weak : sel; o_calls : Z; o_ok : bool }.

(* one run of the loop; [methods] = number of candidate methods left (2 with a candidate list, else 1) *)
Fixpoint loop (fuel : nat) (min_match : Z) (zero_sel : sel) (ws : sel) (methods : nat) (ans : answers) (matches : list sel) (calls : Z)
  : list sel * sel * Z * bool :=
  match fuel with
  | O => (matches, ws, calls, false)
  | S fuel' =>
    match ans with
    | [] => (matches, ws, calls, false)            (* the oracle was consulted more often than recorded *)
    | None :: rest =>
        match methods with
        | S (S m') => loop fuel' min_match zero_sel ws (S m') rest matches (calls + 1)
        | _ => (matches, ws, calls + 1, true)      (* no method left: new_selector = copy of the working set *)
        end
    | Some m :: rest =>
        let new_selector := bdiff ws m in
        if count new_selector >=? min_match
        then loop fuel' min_match zero_sel (bor new_selector zero_sel) methods rest (matches ++ [m]) (calls + 1)
        else (matches ++ [m], new_selector, calls + 1, true)
    end
  end.

Definition full_match (min_match : Z) (filt zero_sel : sel) (with_candidates : bool) (ans : answers) : fm_out :=
  let '(matches, new_selector, calls, ok) :=
      loop (S (length ans)) min_match zero_sel filt (if with_candidates then 2%nat else 1%nat) ans [] 0 in
  {| o_matches := matches;
     o_unmatched := match matches with [] => new_selector | _ => bdiff new_selector zero_sel end;
     o_weak := bnot filt; o_calls := calls; o_ok := ok |}.

(* ---- size_filter / angle_check ---- *)
Open Scope Q_scope.
Definition qmod (x p : Q) : Q := x - p * inject_Z (Qfloor (x / p)).
Definition Qltb (a b : Q) : bool := negb (Qle_bool b a).
(* diff = |phi1 - phi2| % pi ; (diff > limit) and (diff < pi - limit) *)
Definition angle_check (PI limit phi1 phi2 : Q) : bool :=
  let d := qmod (Qabs (phi1 - phi2)) PI in Qltb limit d && Qltb d (PI - limit).
Definition size_ok (min_delta max_delta len : Q) : bool := Qle_bool min_delta len && Qle_bool len max_delta.
