(* Model of base/utils.py (calc_coords, within_frame, frame_peaks, regularize_indices) and
   common/gridmatching.py (get_indices, Match.calc_coords) over Q.  Vectors are (y, x). *)
From Coq Require Import QArith List Bool ZArith.
Import ListNotations.
Open Scope Q_scope.

Definition vec := (Q * Q)%type.
Definition vy (v : vec) : Q := fst v.
Definition vx (v : vec) : Q := snd v.

(* zero + dot(indices, (a, b)) *)
Definition calc_coord (zero a b : vec) (ij : vec) : vec :=
  (vy zero + fst ij * vy a + snd ij * vy b, vx zero + fst ij * vx a + snd ij * vx b).

(* np.linalg.solve(array((a, b)).T, (p - zero).T): Cramer; None for a singular matrix (LinAlgError) *)
Definition det2 (a b : vec) : Q := vy a * vx b - vx a * vy b.
Definition get_index (zero a b p : vec) : option vec :=
  let d := det2 a b in
  if Qeq_bool d 0 then None
  else let ty := vy p - vy zero in let tx := vx p - vx zero in
       Some ((ty * vx b - tx * vy b) / d, (vy a * tx - vx a * ty) / d).

(* (peaks >= (r, r)) * (peaks < (fy - r, fx - r)), all over the last axis *)
Definition within_frame (r fy fx : Q) (p : vec) : bool :=
  Qle_bool r (vy p) && Qle_bool r (vx p) && negb (Qle_bool (fy - r) (vy p)) && negb (Qle_bool (fx - r) (vx p)).

Definition frame_peaks (fy fx : Q) (zero a b : vec) (r : Q) (indices : list vec) : list (vec * vec) :=
  filter (fun ip => within_frame r fy fx (snd ip)) (map (fun ij => (ij, calc_coord zero a b ij)) indices).

(* regularize_indices for mgrid-style input of shape (2, n, m): np.concatenate(indices.T) lists, for each column k of
   the (n, m) arrays and each row l, the pair (I[l][k], J[l][k]) *)
Definition col {A} (d : A) (rows : list (list A)) (k : nat) : list A := map (fun r => nth k r d) rows.
Definition regularize_mgrid (I J : list (list Q)) : list vec :=
  let m := length (hd [] I) in
  flat_map (fun k => combine (col 0 I k) (col 0 J k)) (seq 0 m).

(* Match.calc_coords(drop_zero=True): nz = any(indices != 0, axis=1) *)
Definition is_zero_index (ij : vec) : bool := Qeq_bool (fst ij) 0 && Qeq_bool (snd ij) 0.
Definition drop_zero (indices : list vec) : list vec := filter (fun ij => negb (is_zero_index ij)) indices.

Definition vzero : vec := (0, 0).
(* lowest terms (for evaluation only: Qred q == q) *)
Definition vred (v : vec) : vec := (Qred (fst v), Qred (snd v)).
Definition qpair (q : Q) : Z * Z := let r := Qred q in (Qnum r, Zpos (Qden r)).
Definition vout (v : vec) := (qpair (fst v), qpair (snd v)).

(* list-shaped printing (tuples print ambiguously: Coq shows left-nested pairs flat) *)
Definition ql (q : Q) : list Z := let r := Qred q in [Qnum r; Zpos (Qden r)].
Definition vl (v : vec) : list (list Z) := [ql (fst v); ql (snd v)].
