(* Model of base/masks.py: antialiased radial bins (radial_bins, circular, ring), background_subtraction,
   radial_gradient(_background_subtraction), as functions of the per-pixel radius r (a rational: the theorems hold for
   every radius value, hence for the float radii the code computes with sqrt).  Q only; no reals. *)
From Coq Require Import QArith Qminmax Qabs List ZArith.
Import ListNotations.
Open Scope Q_scope.

Definition clip01 (x : Q) : Q := Qmax 0 (Qmin 1 x).

(* vals = maximum(0, minimum(1, width/2 + 0.5 - |r - r0|)) *)
Definition bin (w c r : Q) : Q := clip01 (w * (1#2) + (1#2) - Qabs (r - c)).

(* n bins of width w starting at inner edge e: centres e + w/2, e + w + w/2, ... *)
Fixpoint bins (n : nat) (w e r : Q) : list Q :=
  match n with O => [] | S k => bin w (e + w * (1#2)) r :: bins k w (e + w) r end.

Fixpoint sumQ (l : list Q) : Q := match l with [] => 0 | x :: t => x + sumQ t end.

Definition Qltb (a b : Q) : bool := negb (Qle_bool b a).

(* the centre patch: applied to bin 0 at the pixel nearest to the centre, if radius_inner < 1/2, the pixel is
   inside the image and (since the fix) its radius is < 1/2 *)
Definition patch_applies (ri : Q) (is_nearest_px : bool) (r : Q) : bool :=
  is_nearest_px && Qltb ri (1#2) && Qltb r (1#2).

Definition radial_bins_px (n : nat) (radius ri : Q) (is_nearest_px : bool) (r : Q) : list Q :=
  let w := (radius - ri) / inject_Z (Z.of_nat n) in
  match bins n w ri r with
  | [] => []
  | v0 :: rest => (if patch_applies ri is_nearest_px r then 1 - ri else v0) :: rest
  end.

(* circular(antialiased) = radial_bins(n_bins=1)[0] ; ring(antialiased) = radial_bins(radius_inner, n_bins=1)[0] *)
Definition disk_aa (radius : Q) (is_nearest_px : bool) (r : Q) : Q :=
  hd 0 (radial_bins_px 1 radius 0 is_nearest_px r).
Definition ring_aa (radius ri : Q) (is_nearest_px : bool) (r : Q) : Q :=
  hd 0 (radial_bins_px 1 radius ri is_nearest_px r).

(* radial_gradient_background_subtraction(r, r0, r_outer, delta) *)
Definition rgbs (r r0 ro delta : Q) : Q :=
  if Qltb r (r0 - delta * (1#2)) then r / r0
  else if Qltb r (r0 + delta * (1#2)) then (r0 - r) / (delta * (1#2))
  else if Qle_bool r ro then -(1) else 0.

(* background_subtraction: mask_1 - mask_2 * sum_1 / sum_2 *)
(* s2 = 0: the ring lies entirely outside the requested array (then every m2 is 0): the disk itself *)
Definition bgsub_px (m1 m2 s1 s2 : Q) : Q := if Qeq_bool s2 0 then m1 else m1 - m2 * s1 / s2.

(* with normalize=True each bin is divided by its sum (if not close to 0) *)
Definition normalise (l : list Q) : list Q := let s := sumQ l in map (fun v => v / s) l.

(* printing helper: reduced numerator/denominator *)
Definition qout (q : Q) : Z * Z := let r := Qred q in (Qnum r, Zpos (Qden r)).
