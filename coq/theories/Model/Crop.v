(* Model of base/correlation.py: crop_disks_from_frame (per-pixel, numba)
   and crop_disks_from_frame_slicing (numpy slice assignment).
   A frame is a function Z -> Z -> Z together with its shape (fy, fx); every read the
   code performs goes through [rd], which returns None for an out-of-bounds index, so
   "never reads out of bounds" is a theorem about the model and not an assumption. *)
From Coq Require Import ZArith List Bool.
From BF Require Import Base.Util.
Import ListNotations.
Open Scope Z_scope.

Definition frame := Z -> Z -> Z.

Definition rd (fy fx : Z) (f : frame) (y x : Z) : option Z :=
  if inb fy y && inb fx x then Some (f y x) else None.

(* the specification: the frame extended by zero *)
Definition pad0 (fy fx : Z) (f : frame) (y x : Z) : Z :=
  if inb fy y && inb fx x then f y x else 0.

(* ---- crop_disks_from_frame: value written to out_crop_bufs[i, y, x] ---- *)
Definition frame_coord (c p k : Z) : Z := k + p - c.

Definition crop_px_at (fy fx : Z) (f : frame) (c py px y x : Z) : option Z :=
  let yy := frame_coord c py y in
  let y_outside := (yy <? 0) || (yy >=? fy) in
  let xx := frame_coord c px x in
  let x_outside := (xx <? 0) || (xx >=? fx) in
  if y_outside || x_outside then Some 0 else rd fy fx f yy xx.

(* ---- CPython slice normalisation (PySlice_AdjustIndices, step 1) ---- *)
Definition adj (i : option Z) (dflt len : Z) : Z :=
  match i with
  | None => dflt
  | Some v => if v <? 0 then Z.max 0 (v + len) else Z.min v len
  end.
Definition slice_lo (start : option Z) (len : Z) : Z := adj start 0 len.
Definition slice_hi (stop : option Z) (len : Z) : Z := adj stop len len.
Definition slice_len (start stop : option Z) (len : Z) : Z :=
  Z.max 0 (slice_hi stop len - slice_lo start len).

(* ---- crop_disks_from_frame_slicing, index arithmetic per axis ----
   h = out_crop_bufs.shape[axis+1], f = frame.shape[axis], p = peak[axis] *)
Definition s_origin (c p : Z) : Z := frame_coord c p 0.
Definition s_end (c h p : Z) : Z := frame_coord c p h.
Definition s_skip (c p : Z) : Z := Z.max (- s_origin c p) 0.
Definition s_cut (f c h p : Z) : option Z :=
  let v := f - s_end c h p in if v >=? 0 then None else Some v.
Definition tgt_lo (c h p : Z) : Z := slice_lo (Some (s_skip c p)) h.
Definition tgt_len (f c h p : Z) : Z := slice_len (Some (s_skip c p)) (s_cut f c h p) h.
Definition src_lo (f c p : Z) : Z := slice_lo (Some (Z.max (s_origin c p) 0)) f.
Definition src_len (f c h p : Z) : Z :=
  slice_len (Some (Z.max (s_origin c p) 0)) (Some (Z.max (s_end c h p) 0)) f.

Inductive wr := WErr (* numpy would raise: shapes do not match *) | WVal (v : option Z).

(* value of out_crop_bufs[i, y, x] after the call, for a buffer that held [old y x] before.
   [zero_first] = the statement  out_crop_bufs[i] = 0  is present (it is, since the fix). *)
Definition crop_slice_at (zero_first : bool) (fy fx : Z) (f : frame) (c h w py px : Z)
    (old : Z -> Z -> Z) (y x : Z) : wr :=
  if (tgt_len fy c h py =? src_len fy c h py) && (tgt_len fx c w px =? src_len fx c w px) then
    let ty := tgt_lo c h py in let tx := tgt_lo c w px in
    if (ty <=? y) && (y <? ty + tgt_len fy c h py) && (tx <=? x) && (x <? tx + tgt_len fx c w px)
    then WVal (rd fy fx f (src_lo fy c py + (y - ty)) (src_lo fx c px + (x - tx)))
    else WVal (Some (if zero_first then 0 else old y x))
  else WErr.

(* list-level versions used by the correspondence check *)
Definition of_list2 (l : list (list Z)) : frame :=
  fun y x => nth (Z.to_nat x) (nth (Z.to_nat y) l []) 0.

Definition crop_px_win fy fx f c h w py px : list (list (option Z)) :=
  map (fun y => map (fun x => crop_px_at fy fx f c py px y x) (zseq w)) (zseq h).

Definition crop_slice_win zf fy fx f c h w py px old : list (list wr) :=
  map (fun y => map (fun x => crop_slice_at zf fy fx f c h w py px old y x) (zseq w)) (zseq h).

(* compact encodings for printing: -1 = out-of-bounds read, -2 = shape error *)
Definition enc_o (v : option Z) : Z * Z := match v with Some z => (0, z) | None => (-1, 0) end.
Definition enc_w (v : wr) : Z * Z := match v with WErr => (-2, 0) | WVal o => enc_o o end.
