(* Model of common/gridmatching.py: Matcher._match_all and Matcher.fastmatch over Q.
   errors = || |indices - around(indices)| * (|a|, |b|) / sqrt(max(1, |indices|)) ||  <  tolerance
   is decided on squares:  di^2 |a|^2 / max(1,|i|) + dj^2 |b|^2 / max(1,|j|) < tolerance^2   (no square roots). *)
From Coq Require Import QArith Qround Qabs Qminmax List Bool ZArith.
From BF Require Import Model.Lattice Model.WLS.
Import ListNotations.
Open Scope Q_scope.

(* np.around: round half to even *)
Definition round_he (q : Q) : Z :=
  let f := Qfloor q in
  let fr := q - inject_Z f in
  match Qcompare fr (1#2) with
  | Lt => f
  | Gt => (f + 1)%Z
  | Eq => if Z.even f then f else (f + 1)%Z
  end.

Definition norm2 (v : vec) : Q := vy v * vy v + vx v * vx v.

Definition err2 (a b : vec) (ij : vec) : Q :=
  let ri := inject_Z (round_he (fst ij)) in let rj := inject_Z (round_he (snd ij)) in
  let di := Qabs (fst ij - ri) in let dj := Qabs (snd ij - rj) in
  di * di * norm2 a / Qmax 1 (Qabs (fst ij)) + dj * dj * norm2 b / Qmax 1 (Qabs (snd ij)).

Definition Qlt_bool (x y : Q) : bool := negb (Qle_bool y x).

(* one point: matched integer index, or None; outer None = singular lattice (LinAlgError) *)
Definition match_point (tol2 : Q) (zero a b : vec) (p : vec) : option (option (Z * Z)) :=
  match get_index zero a b p with
  | None => None
  | Some ij0 => let ij := vred ij0 in   (* lowest terms, numerically the identity *)
               Some (if Qlt_bool (err2 a b ij) tol2 then Some (round_he (fst ij), round_he (snd ij)) else @None (Z * Z))
  end.

(* a peak: elevation (weight) and refined position *)
Record peak := { k_w : Q; k_p : vec }.

(* _match_all over the pre-selected points; result per point: Some index if matched *)
Definition match_all (tol2 : Q) (zero a b : vec) (sel : list bool) (pts : list peak) : option (list (option (Z * Z))) :=
  if Qeq_bool (det2 a b) 0 then None
  else Some (map (fun sp : bool * peak => if fst sp then
                              match match_point tol2 zero a b (k_p (snd sp)) with Some r => r | None => None end
                            else None) (combine sel pts)).

Definition count_some {A} (l : list (option A)) : Z := Z.of_nat (length (filter (fun o => match o with Some _ => true | None => false end) l)).

Definition fit_points (m : list (option (Z * Z))) (pts : list peak) : list pt :=
  flat_map (fun mp : option (Z * Z) * peak => match fst mp with
                      | Some (i, j) => [{| pw := k_w (snd mp); pi := inject_Z i; pj := inject_Z j; py := vy (k_p (snd mp)); px := vx (k_p (snd mp)) |}]
                      | None => [] end) (combine m pts).

(* Invalid carries the reason: 1 singular start lattice, 2 fewer than min_match in round 1, 3 round-1 fit singular
   (rank-deficient index set), 4 fitted lattice singular, 5 fewer than min_match in round 2, 6 round-2 fit singular *)
Inductive fm_result :=
  | Invalid (reason : Z)
  | Valid (matched : list (option (Z * Z))) (zero a b : vec).

Definition fastmatch (tol2 min_weight : Q) (min_match : Z) (zero a b : vec) (pts : list peak) : fm_result :=
  let sel := map (fun k => Qle_bool min_weight (k_w k)) pts in
  match match_all tol2 zero a b sel pts with
  | None => Invalid 1
  | Some m1 =>
    if (count_some m1 <? min_match)%Z then Invalid 2 else
    match wls3 (fit_points m1 pts) with
    | None => Invalid 3
    | Some (z1', a1', b1') =>
      (* lowest terms (Qred q == q): keeps the second round evaluable *)
      let z1 := vred z1' in let a1 := vred a1' in let b1 := vred b1' in
      match match_all tol2 z1 a1 b1 sel pts with
      | None => Invalid 4
      | Some m2 =>
        if (count_some m2 <? min_match)%Z then Invalid 5 else
        match wls3 (fit_points m2 pts) with
        | None => Invalid 6
        | Some (z2, a2, b2) => Valid m2 z2 a2 b2
        end
      end
    end
  end.

(* float64 elevations: a NaN compares false with everything, so `elevation >= min_weight` drops it like a weak peak.
   fastmatch_f is fastmatch on elevations that may be NaN; the weight substituted for a NaN is irrelevant
   (Proofs/WeakP.v: fastmatch_ignores_weak_weights) as long as it is below min_weight. *)
Inductive felev := ENaN | EVal (q : Q).
Definition felev_weight (min_weight : Q) (e : felev) : Q := match e with EVal q => q | ENaN => min_weight - 1 end.
Definition fastmatch_f (tol2 min_weight : Q) (min_match : Z) (zero a b : vec) (pts : list (felev * vec)) : fm_result :=
  fastmatch tol2 min_weight min_match zero a b
    (map (fun ep : felev * vec => {| k_w := felev_weight min_weight (fst ep); k_p := snd ep |}) pts).

(* printing *)
Definition mout (m : list (option (Z * Z))) : list (list Z) :=
  map (fun o => match o with Some (i, j) => [1%Z; i; j] | None => [0%Z; 0%Z; 0%Z] end) m.
