(* Model of FullMatcher.check / _tumble / the per-pair body of _do_match (common/fullmatch.py) over Q, on top of the
   matching and fitting models (Match.match_all, WLS.wls3).
   Lengths are compared on squares; the angle criterion  (|phi_a - phi_b| mod pi) in (limit, pi - limit)  is modelled by its
   algebraic equivalent  sin^2(angle(a, b)) > sin^2(limit)  <->  det(a, b)^2 > sin^2(limit) |a|^2 |b|^2   (0 <= limit <= pi/2;
   arctan2 itself is not modelled: trusted trigonometric identity, s2 = sin^2(limit) is a parameter). *)
From Coq Require Import QArith Qabs Qminmax List Bool ZArith.
From BF Require Import Model.Lattice Model.WLS Model.Match.
Import ListNotations.
Open Scope Q_scope.

Definition len_ok (mind2 maxd2 : Q) (v : vec) : bool := Qle_bool mind2 (norm2 v) && Qle_bool (norm2 v) maxd2.
Definition sep_ok (s2 : Q) (a b : vec) : bool := Qlt_bool (s2 * (norm2 a * norm2 b)) (det2 a b * det2 a b).

(* FullMatcher.check(match) *)
Definition check (mm : Z) (mind2 maxd2 s2 : Q) (m : list (option (Z * Z))) (a b : vec) : bool :=
  (mm <=? count_some m)%Z && (len_ok mind2 maxd2 a && len_ok mind2 maxd2 b) && sep_ok s2 a b.

Definition tmatch := (list (option (Z * Z)) * vec * vec * vec)%type.

(* the steps _tumble is made of; a failed check or a singular fit ends it with None *)
Inductive tstep := TCheck | TOptimize | TMatchAll.

Definition tstep_run (tol2 : Q) (mm : Z) (mind2 maxd2 s2 : Q) (sel : list bool) (pts : list peak) (s : tstep) (t : tmatch) : option tmatch :=
  let '(m, z, a, b) := t in
  match s with
  | TCheck => if check mm mind2 maxd2 s2 m a b then Some t else None
  | TOptimize => match wls3 (fit_points m pts) with
                 | Some (z', a', b') => Some (m, vred z', vred a', vred b')
                 | None => None
                 end
  | TMatchAll => match match_all tol2 z a b sel pts with Some m' => Some (m', z, a, b) | None => None end
  end.

Fixpoint tsteps_run tol2 mm mind2 maxd2 s2 sel pts (l : list tstep) (t : tmatch) : option tmatch :=
  match l with
  | [] => Some t
  | s :: r => match tstep_run tol2 mm mind2 maxd2 s2 sel pts s t with
              | Some t' => tsteps_run tol2 mm mind2 maxd2 s2 sel pts r t'
              | None => None
              end
  end.

(* _tumble(point_selection, match): check, optimise, check, re-match, check, optimise, check *)
Definition tumble_steps : list tstep := [TCheck; TOptimize; TCheck; TMatchAll; TCheck; TOptimize; TCheck].
Definition tumble tol2 mm mind2 maxd2 s2 sel pts (t : tmatch) : option tmatch :=
  tsteps_run tol2 mm mind2 maxd2 s2 sel pts tumble_steps t.

(* body of _do_match for one pair of candidate vectors (already converted to cartesian, shorter one first) *)
Definition do_pair tol2 mm mind2 maxd2 s2 sel pts (zero a b : vec) : option tmatch :=
  match match_all tol2 zero a b sel pts with
  | Some m0 => tumble tol2 mm mind2 maxd2 s2 sel pts (m0, zero, a, b)
  | None => None
  end.
