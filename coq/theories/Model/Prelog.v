(* Model of the argument of the logarithm in log_scale / log_scale_cropbufs_inplace:
     log(x - min + 1)
   The logarithm itself is applied by the harness (float64); the model decides, exactly, what it is applied to,
   including the wrap-around that integer arithmetic in the array's own dtype would produce. *)
From Coq Require Import ZArith List Bool.
From BF Require Import Base.Util.
Import ListNotations.
Open Scope Z_scope.

Definition list_min (d : Z) (l : list Z) : Z := fold_left Z.min l d.
Definition min2 (l : list (list Z)) : Z := list_min (hd 0 (hd [] l)) (concat l).

(* what the documentation defines *)
Definition prelog_exact (l : list (list Z)) : list (list Z) :=
  let m := min2 l in map (map (fun x => x - m + 1)) l.

(* integer dtype of [bits] bits; arithmetic wraps modulo 2^bits *)
Definition wrap (bits : Z) (signed : bool) (v : Z) : Z :=
  let m := 2 ^ bits in
  let w := v mod m in
  if signed then (if w >=? m / 2 then w - m else w) else w.

Inductive dt := DInt (bits : Z) (signed : bool) | DFloat.

(* [promote] = the subtraction is carried out after promotion to a floating dtype (code since the fix);
   without promotion an integer array subtracts and adds in its own dtype *)
Definition prelog_code (promote : bool) (d : dt) (l : list (list Z)) : list (list Z) :=
  let m := min2 l in
  match d with
  | DFloat => map (map (fun x => x - m + 1)) l
  | DInt bits sg =>
      if promote then map (map (fun x => x - m + 1)) l
      else map (map (fun x => wrap bits sg (wrap bits sg (x - m) + 1))) l
  end.

Definition in_range (d : dt) (x : Z) : bool :=
  match d with
  | DFloat => true
  | DInt bits true => (- 2 ^ (bits - 1) <=? x) && (x <? 2 ^ (bits - 1))
  | DInt bits false => (0 <=? x) && (x <? 2 ^ bits)
  end.
