(* Index skeleton of refine_center_upsampling (base/correlation.py); the upsampled DFT itself is not modelled.
     upsampled_region_size = ceil(1.5 * u) ; dftshift = fix(region / 2) ;
     shift_us = round(shift * u) ; sample_region_offset = dftshift - shift_us ;
     refined = position + (argmax_index - dftshift) / u        (per axis) *)
From Coq Require Import ZArith.
Open Scope Z_scope.

Definition us_region (u : Z) : Z := (3 * u + 1) / 2.          (* ceil(3u/2) *)
Definition us_dftshift (u : Z) : Z := us_region u / 2.        (* fix(region/2), region >= 0 *)
Definition us_offset (u shift_us : Z) : Z := us_dftshift u - shift_us.
(* numerator of (refined - position) * u for argmax index j *)
Definition us_delta (u j : Z) : Z := j - us_dftshift u.
(* evaluate_upsampling: corr_center = ceil(shape / 2) *)
Definition us_corr_center (n : Z) : Z := (n + 1) / 2.
