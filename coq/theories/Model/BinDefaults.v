(* Default layout of masks.radial_bins (base/masks.py): radius=None -> bounding_radius(...) = int(ceil(sqrt(dy^2 + dx^2))) + 1, an integer;
   n_bins=None -> int(np.round(radius - radius_inner)) (round half to even). *)
From Coq Require Import QArith Qround ZArith.
From BF Require Import Model.Lattice Model.WLS Model.Match.
Open Scope Q_scope.

Definition bounding_radius_of_ceil_sqrt (k : Z) : Z := (k + 1)%Z.
Definition default_n_bins (radius_int : Z) (radius_inner : Q) : Z := round_he (inject_Z radius_int - radius_inner).
