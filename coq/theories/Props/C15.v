(* C15 - Frame dtype does not matter. *)
From Coq Require Import ZArith List.
From BF Require Import Base.Util Model.Prelog Model.Pipeline Proofs.PipelineP.
Import ListNotations.
Open Scope Z_scope.

(* with the promotion to a floating dtype before subtracting (code since the fix), the argument of the logarithm is
   x - min + 1 exactly, for every integer dtype (any width, signed or not) and for floats: no wrap-around *)
Theorem C15_promoted_log_argument_exact : forall d l, prelog_code true d l = prelog_exact l.
Proof. exact prelog_promoted_exact. Qed.
Print Assumptions C15_promoted_log_argument_exact.

(* history of the repaired defect F3: subtracting in the array's own integer dtype wraps for data spanning the range *)
Theorem C15_legacy_uint8_wraps_refuted : prelog_code false (DInt 8 false) [[0; 255]] <> prelog_exact [[0; 255]].
Proof. exact prelog_unpromoted_wraps. Qed.
Print Assumptions C15_legacy_uint8_wraps_refuted.

Theorem C15_legacy_int16_wraps_refuted : prelog_code false (DInt 16 true) [[-32768; 32767]] <> prelog_exact [[-32768; 32767]].
Proof. exact prelog_unpromoted_wraps_i16. Qed.
Print Assumptions C15_legacy_int16_wraps_refuted.
