(* C15 - Frame dtype does not matter. *)
From Coq Require Import ZArith List.
From BF Require Import Base.Util Model.Prelog Model.Pipeline Model.Dtype Proofs.PipelineP Proofs.DtypeP.
Import ListNotations.
Open Scope Z_scope.

(* with the promotion to a floating dtype before subtracting (code since the fix), the argument of the logarithm is
   x - min + 1 exactly, for every integer dtype (any width, signed or not) and for floats: no wrap-around *)
Theorem C15_promoted_log_argument_exact : forall d l, prelog_code true d l = prelog_exact l.
Proof. exact prelog_promoted_exact. Qed.
Print Assumptions C15_promoted_log_argument_exact.

(* history of the repaired defect F3: subtracting in the array's own integer dtype wraps for data spanning the range *)
Theorem C15_legacy_uint8_wraps_refuted : prelog_code false (DInt 8 false) [[0; 255]] <> prelog_exact [[0; 255]].
Proof. exact prelog_unpromoted_wraps. Qed.
Print Assumptions C15_legacy_uint8_wraps_refuted.

Theorem C15_legacy_int16_wraps_refuted : prelog_code false (DInt 16 true) [[-32768; 32767]] <> prelog_exact [[-32768; 32767]].
Proof. exact prelog_unpromoted_wraps_i16. Qed.
Print Assumptions C15_legacy_int16_wraps_refuted.

(* the buffer dtype np.result_type(d, float32) (float32 for 8/16-bit, float64 for 32-bit integer frames) represents every pixel
   value and every argument x - min + 1 of the logarithm exactly: nothing is lost before the logarithm is taken *)
Theorem C15_promoted_buffer_holds_every_value : forall d bits sg v, d = NInt bits sg -> (bits = 8 \/ bits = 16 \/ bits = 32) ->
  in_range d v -> exact_in (result_type_f32 d) v.
Proof. exact promotion_holds_values. Qed.
Print Assumptions C15_promoted_buffer_holds_every_value.

Theorem C15_promoted_buffer_holds_log_arguments : forall d bits sg v m, d = NInt bits sg -> (bits = 8 \/ bits = 16 \/ bits = 32) ->
  in_range d v -> in_range d m -> m <= v -> exact_in (result_type_f32 d) (v - m + 1).
Proof. exact promotion_holds_log_arguments. Qed.
Print Assumptions C15_promoted_buffer_holds_log_arguments.

(* and float32 buffers for 32-bit integer frames would not do *)
Theorem C15_float32_cannot_hold_int32 : in_range (NInt 32 true) (2 ^ 24 + 1) /\ ~ exact_in (NFloat 32) (2 ^ 24 + 1).
Proof. exact float32_cannot_hold_int32. Qed.
Print Assumptions C15_float32_cannot_hold_int32.
