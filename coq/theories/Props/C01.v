(* C01 - Pixel-centred matched disk is located exactly, for every pattern and shape. *)
From Coq Require Import ZArith List Bool.
From BF Require Import Base.Util Model.Corr Model.Eval Model.PadCrop Proofs.CorrP Proofs.EvalP Proofs.PadCropP Proofs.DiskP.
Import ListNotations.
Open Scope Z_scope.

(* 1. what the FFT computes is the cross-correlation with the centred mask (every size, both parities), because ... *)
Theorem C01_fft_product_is_cross_correlation : forall N M d m i k, 1 <= N -> 1 <= M -> csym N M m ->
  cconv N M d m i k = xcorr N M d m i k.
Proof. exact cconv_is_xcorr. Qed.
Print Assumptions C01_fft_product_is_cross_correlation.

(* ... built-in (radial) masks are centro-symmetric for every shape, and user templates are padded/cropped so that their
   shape//2 pixel lands on the target's shape//2 pixel *)
Theorem C01_radial_masks_centro_symmetric : forall N M (G : Z -> Z), 1 <= N -> 1 <= M ->
  csym N M (fun t u => G ((t - N / 2) * (t - N / 2) + (u - M / 2) * (u - M / 2))).
Proof. exact radial_mask_csym. Qed.
Print Assumptions C01_radial_masks_centro_symmetric.

Theorem C01_user_template_centre_preserved : forall s t, 1 <= s -> 1 <= t -> padcrop_src s t (t / 2) = Some (s / 2).
Proof. exact padcrop_centre_pixel. Qed.
Print Assumptions C01_user_template_centre_preserved.

(* 2. for data = background + amplitude * disk the map is  background * (mask sum) + amplitude * (mask weight on the displaced disk) *)
Theorem C01_map_of_a_flat_disk : forall N M (ind m : img) b A i k,
  xcorr N M (fun y x => b + A * ind y x) m i k =
  b * Zsum N (fun t => Zsum M (fun u => m t u)) + A * xcorr N M ind m i k.
Proof. exact xcorr_of_disk. Qed.
Print Assumptions C01_map_of_a_flat_disk.

(* 3. no displaced copy S of the disk D (same number of pixels) collects more mask weight than D itself, if the mask on D is
   >= tau >= the mask off D (Circular, BackgroundSubtraction), or if the mask is >= 0 on D and <= 0 off D *)
Theorem C01_bathtub : forall (P : Type) (Peq : forall a b : P, {a = b} + {a <> b}) (m : P -> Z) tau D S,
  NoDup D -> NoDup S -> length S = length D ->
  (forall x, In x D -> tau <= m x) -> (forall x, ~ In x D -> m x <= tau) -> msum m S <= msum m D.
Proof. exact @bathtub. Qed.
Print Assumptions C01_bathtub.

Theorem C01_sign_lemma : forall (P : Type) (Peq : forall a b : P, {a = b} + {a <> b}) (m : P -> Z) D S,
  NoDup D -> NoDup S -> (forall x, In x D -> 0 <= m x) -> (forall x, ~ In x D -> m x <= 0) -> msum m S <= msum m D.
Proof. exact @sign_lemma. Qed.
Print Assumptions C01_sign_lemma.

(* 4. the map of data that is point symmetric about pixel q, with a centro-symmetric mask, is point symmetric about q ... *)
Theorem C01_map_symmetric_about_disk_centre : forall N M (d m : img) qy qx, 1 <= N -> 1 <= M -> csym N M m ->
  (forall a b, d ((qy + a) mod N) ((qx + b) mod M) = d ((qy - a) mod N) ((qx - b) mod M)) ->
  forall s u, xcorr N M d m (qy + s) (qx + u) = xcorr N M d m (qy - s) (qx - u).
Proof. exact xcorr_point_symmetric. Qed.
Print Assumptions C01_map_symmetric_about_disk_centre.

(* 5. ... and on a point-symmetric neighbourhood the centre of mass is exactly the centre: refined = centre, error 0 *)
Theorem C01_symmetric_neighbourhood_refines_to_centre : forall H W c y x, 1 <= clip_r H W y x ->
  (forall dy dx, - clip_r H W y x <= dy <= clip_r H W y x -> - clip_r H W y x <= dx <= clip_r H W y x -> c (y + dy) (x + dx) = c (y - dy) (x - dx)) ->
  let m := refine_com H W c y x in com_sy m = com_r m * com_s m /\ com_sx m = com_r m * com_s m.
Proof. exact refine_com_symmetric. Qed.
Print Assumptions C01_symmetric_neighbourhood_refines_to_centre.
