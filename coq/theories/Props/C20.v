(* C20 - Affine transformation helpers round-trip and find the fixed point. *)
From Coq Require Import QArith List.
From BF Require Import Model.Lattice Model.WLS Proofs.LatticeP Proofs.WLSP Proofs.AffineP.
Open Scope Q_scope.

(* get_transformation fits each output column by weighted least squares (weights squared) on [ref - c, 1]:
   for targets related EXACTLY by an affine map the fitted column equals the map's column, whatever centre and weights *)
Theorem C20_exact_map_recovered : forall l m0 m1 m2 x0 x1 x2,
  (forall r, In r l -> rp r == m0 + ri r * m1 + rj r * m2) ->
  wls_col l = Some (x0, x1, x2) -> m0 == x0 /\ m1 == x1 /\ m2 == x2.
Proof. exact exact_data_recovered. Qed.
Print Assumptions C20_exact_map_recovered.

(* with residuals: least-squares optimum for the (squared) weights *)
Theorem C20_fit_is_least_squares_optimum : forall l x0 x1 x2, (forall r, In r l -> 0 <= w r) ->
  wls_col l = Some (x0, x1, x2) -> forall y0 y1 y2, cost x0 x1 x2 l <= cost y0 y1 y2 l.
Proof. exact wls_col_optimal. Qed.
Print Assumptions C20_fit_is_least_squares_optimum.

(* the centre found for a transformation is its fixed point *)
Theorem C20_find_center_is_fixed_point : forall m11 m12 m21 m22 m31 m32 c,
  find_center ((m11, m12, 0), (m21, m22, 0), (m31, m32, 1)) = Some c ->
  veq (do_transformation ((m11, m12, 0), (m21, m22, 0), (m31, m32, 1)) (0, 0) c) c.
Proof. exact find_center_fixed. Qed.
Print Assumptions C20_find_center_is_fixed_point.
