(* C09 - No state leaks between calls through reused buffers and objects. *)
From Coq Require Import ZArith List.
From BF Require Import Base.Util Model.Crop Model.Corr Model.Eval Model.Blocks Model.Pipeline
  Proofs.CropP Proofs.PipelineP.
Open Scope Z_scope.

(* cropping into a used buffer slot: the slot content afterwards does not depend on what it held, for the per-pixel
   and for the slicing back-end, also when the window extends beyond the frame *)
Theorem C09_crop_overwrites_slot : forall b fy fx f c py px old y x,
  0 <= fy -> 0 <= fx -> 0 <= c -> 0 <= y < 2 * c -> 0 <= x < 2 * c ->
  crop_into b fy fx f c py px old y x = pad0 fy fx f (py - c + y) (px - c + x).
Proof. exact crop_into_spec. Qed.
Print Assumptions C09_crop_overwrites_slot.

(* the result computed through a used slot is the pure per-peak function *)
Theorem C09_peak_result_independent_of_slot : forall b one lg fy fx f c mask p old,
  0 <= fy -> 0 <= fx -> 0 <= c ->
  fst (fast_peak_via_slot b one lg fy fx f c mask p old) = fast_peak one lg fy fx f c mask p.
Proof. exact fast_peak_via_slot_indep. Qed.
Print Assumptions C09_peak_result_independent_of_slot.

(* one call on ANY state (buffer slots and output arrays with arbitrary contents): every output entry in [0,n) is
   overwritten with the pure result, entries beyond are untouched *)
Theorem C09_call_on_any_state : forall b one lg fy fx f c mask peaks n bc st i,
  0 <= fy -> 0 <= fx -> 0 <= c -> 0 <= n ->
  outs (run_call b one lg fy fx f c mask peaks n bc st) i =
  if inb n i then fast_peak one lg fy fx f c mask (peaks i) else outs st i.
Proof. exact run_call_outs. Qed.
Print Assumptions C09_call_on_any_state.

(* for all histories (any number of earlier calls with other frames, peak lists, buffer counts and back-ends): the
   last call gives what it gives on a fresh state *)
Theorem C09_any_history : forall one lg c mask (hist : list call) (k : call) st0 st_fresh i,
  0 <= k_fy k -> 0 <= k_fx k -> 0 <= c -> 0 <= k_n k -> 0 <= i < k_n k ->
  outs (do_call one lg c mask (fold_left (do_call one lg c mask) hist st0) k) i =
  outs (do_call one lg c mask st_fresh k) i.
Proof. exact last_call_of_any_history. Qed.
Print Assumptions C09_any_history.

(* back-end and buffer count do not matter either *)
Theorem C09_backend_and_buffer_count_irrelevant : forall b1 b2 one lg fy fx f c mask peaks n bc1 bc2 st1 st2 i,
  0 <= fy -> 0 <= fx -> 0 <= c -> 0 <= n -> 0 <= i < n ->
  outs (run_call b1 one lg fy fx f c mask peaks n bc1 st1) i = outs (run_call b2 one lg fy fx f c mask peaks n bc2 st2) i.
Proof. exact history_independent. Qed.
Print Assumptions C09_backend_and_buffer_count_irrelevant.

(* history of the repaired defect F1: without zeroing, the slicing back-end leaked the previous slot content *)
Theorem C09_legacy_slicing_leak_refuted :
  exists fy fx f c h w py px old y x,
    0 <= y < h /\ 0 <= x < w /\
    crop_slice_at false fy fx f c h w py px old y x <> WVal (Some (pad0 fy fx f (py - c + y) (px - c + x))).
Proof. exact crop_slice_stale_without_zeroing. Qed.
Print Assumptions C09_legacy_slicing_leak_refuted.
