(* C04 - Results stay in the search window and are well-formed for arbitrary data. *)
From Coq Require Import ZArith List.
From BF Require Import Base.Util Model.Eval Model.Upsample Model.UpsampleFlag Proofs.EvalP Proofs.UpsampleP Proofs.UpsampleFlagP.
Open Scope Z_scope.

(* the integer centre lies in [peak - crop_size, peak + crop_size - 1] on both axes, for any peak (also outside the frame) *)
Theorem C04_centre_in_window : forall c p H W cm, 1 <= H -> 1 <= W ->
  let '(y, x) := argmax2 H W cm in
  p - c <= shift y p c <= p - c + H - 1 /\ forall px, px - c <= shift x px c <= px - c + W - 1.
Proof. exact centre_in_window. Qed.
Print Assumptions C04_centre_in_window.

(* it is returned as that signed value by a signed output buffer wide enough; an unsigned one wraps (defect F2, repaired) *)
Theorem C04_signed_centre_buffer_exact : forall bits v, 1 <= bits -> - 2 ^ (bits - 1) <= v < 2 ^ (bits - 1) -> store_int bits true v = v.
Proof. exact store_signed_exact. Qed.
Print Assumptions C04_signed_centre_buffer_exact.

Theorem C04_legacy_unsigned_centre_buffer_refuted : store_int 16 false (-13) = 65523.
Proof. exact store_unsigned_wraps. Qed.
Print Assumptions C04_legacy_unsigned_centre_buffer_refuted.

(* refined position: centre of mass of non-negative weights, within r <= 2 px of the centre on both axes:
   refined - centre = sy/s - r  with  0 <= sy <= 2 r s *)
Theorem C04_refined_within_2px : forall H W c y x,
  let m := refine_com H W c y x in
  0 <= com_sy m <= 2 * com_r m * com_s m /\ 0 <= com_sx m <= 2 * com_r m * com_s m /\ com_r m <= 2 /\ 0 <= com_s m.
Proof. exact refine_com_bounds. Qed.
Print Assumptions C04_refined_within_2px.

(* no 0/0: at the first maximum the minimum-subtracted neighbourhood has positive total, whatever the data *)
Theorem C04_centre_of_mass_denominator_positive : forall H W c, 1 <= H -> 1 <= W ->
  let '(y, x) := argmax2 H W c in
  1 <= clip_r H W y x -> 0 < com_s (refine_com H W c y x).
Proof. exact refine_com_den_pos. Qed.
Print Assumptions C04_centre_of_mass_denominator_positive.

(* all reads of the refinement kernel are in bounds *)
Theorem C04_refinement_reads_in_bounds : forall H W y x dy dx, let r := clip_r H W y x in
  1 <= r -> 0 <= dy <= 2 * r -> 0 <= dx <= 2 * r ->
  0 <= y - r + dy < H /\ 0 <= x - r + dx < W.
Proof. exact refine_reads_in_bounds. Qed.
Print Assumptions C04_refinement_reads_in_bounds.

(* elevation: non-negative numerator, and finite for crop sizes >= 2 (maps of at least 4x4) *)
Theorem C04_elevation_finite : forall H W c ry rx D height, 0 < D -> 4 <= H -> 4 <= W ->
  (forall i, 0 <= i < H * W -> flatv W c i <= height) ->
  0 <= ry <= (H - 1) * D -> 0 <= rx <= (W - 1) * D ->
  elevation H W c ry rx D height <> None.
Proof. exact elevation_finite. Qed.
Print Assumptions C04_elevation_finite.

(* upsampled refinement: the refined position is position + (j - dftshift)/u for an index j of the upsampled region,
   hence within 0.75 + 0.5/u px of the integer centre, for every upsampling factor *)
Theorem C04_upsampled_within_bound : forall u j, 1 <= u -> 0 <= j < us_region u ->
  4 * Z.abs (us_delta u j) <= 3 * u + 2.
Proof. exact upsample_bound. Qed.
Print Assumptions C04_upsampled_within_bound.

Theorem C04_upsampled_region_contains_position : forall u, 1 <= u ->
  0 <= us_dftshift u < us_region u /\ us_delta u (us_dftshift u) = 0.
Proof. exact upsample_contains_position. Qed.
Print Assumptions C04_upsampled_region_contains_position.

(* the `upsample` parameter: the flag True stands for the factor 20 and always runs the DFT upsampling step; an integer k runs it iff k > 1;
   whenever the step runs the bound above applies with that factor (for True: 0.775 px) *)
Theorem C04_flag_true_runs_upsampling : forall k, us_runs (us_factor true k) = true.
Proof. exact us_flag_true_runs. Qed.
Print Assumptions C04_flag_true_runs_upsampling.

Theorem C04_integer_factor_runs_iff_gt_1 : forall k, us_runs (us_factor false k) = (1 <? k).
Proof. exact us_flag_int_runs. Qed.
Print Assumptions C04_integer_factor_runs_iff_gt_1.

Theorem C04_upsampled_within_bound_whenever_the_step_runs : forall is_true k j, us_runs (us_factor is_true k) = true ->
  0 <= j < us_region (us_factor is_true k) -> 4 * Z.abs (us_delta (us_factor is_true k) j) <= 3 * us_factor is_true k + 2.
Proof. exact us_bound_when_runs. Qed.
Print Assumptions C04_upsampled_within_bound_whenever_the_step_runs.

Theorem C04_flag_true_bound : forall k j, 0 <= j < us_region (us_factor true k) -> 4 * Z.abs (us_delta (us_factor true k) j) <= 62.
Proof. exact us_flag_true_bound. Qed.
Print Assumptions C04_flag_true_bound.

(* ---- non-vacuity: a map whose first maximum is in the interior has a refinement neighbourhood of radius 2 (1 <= clip_r is satisfiable) ---- *)
Example nv_interior_maximum :
  let c := fun y x => if andb (y =? 3) (x =? 2) then 9 else (y + x) mod 3 in
  argmax2 6 5 c = (3, 2) /\ clip_r 6 5 3 2 = 2 /\ 0 < com_s (refine_com 6 5 c 3 2).
Proof. vm_compute. repeat split; reflexivity. Qed.
