(* C13 - Cropping returns the zero-padded window around each peak (both back-ends).
   This file contains only the property theorems; proofs are in Proofs/CropP.v. *)
From Coq Require Import ZArith.
From BF Require Import Base.Util Model.Crop Proofs.CropP.
Open Scope Z_scope.

Theorem C13_per_pixel_is_zero_padded_window : forall fy fx f c py px y x,
  crop_px_at fy fx f c py px y x = Some (pad0 fy fx f (py - c + y) (px - c + x)).
Proof. exact crop_px_spec. Qed.
Print Assumptions C13_per_pixel_is_zero_padded_window.

Theorem C13_slicing_is_zero_padded_window : forall fy fx f c h w py px old y x,
  0 <= fy -> 0 <= fx -> 0 <= h -> 0 <= w -> 0 <= y < h -> 0 <= x < w ->
  crop_slice_at true fy fx f c h w py px old y x = WVal (Some (pad0 fy fx f (py - c + y) (px - c + x))).
Proof. exact crop_slice_spec. Qed.
Print Assumptions C13_slicing_is_zero_padded_window.

Theorem C13_backends_agree : forall fy fx f c h w py px old y x,
  0 <= fy -> 0 <= fx -> 0 <= h -> 0 <= w -> 0 <= y < h -> 0 <= x < w ->
  crop_slice_at true fy fx f c h w py px old y x = WVal (crop_px_at fy fx f c py px y x).
Proof. exact crop_backends_agree. Qed.
Print Assumptions C13_backends_agree.

Theorem C13_slicing_writes_in_bounds : forall f c h p j, 0 <= f -> 0 <= h ->
  tgt_lo c h p <= j < tgt_lo c h p + tgt_len f c h p -> 0 <= j < h.
Proof. exact crop_slice_writes_in_bounds. Qed.
Print Assumptions C13_slicing_writes_in_bounds.

Theorem C13_window_outside_is_zero : forall fy fx f c py px y x, 0 <= y -> 0 <= x ->
  (py - c >= fy \/ px - c >= fx \/ py - c + y < 0 \/ px - c + x < 0) ->
  crop_px_at fy fx f c py px y x = Some 0.
Proof. exact crop_outside_zero. Qed.
Print Assumptions C13_window_outside_is_zero.

(* history of the repaired defect F1: without the zeroing statement the slicing back-end kept stale data *)
Theorem C13_legacy_stale_buffer_refuted :
  exists fy fx f c h w py px old y x,
    0 <= y < h /\ 0 <= x < w /\
    crop_slice_at false fy fx f c h w py px old y x <> WVal (Some (pad0 fy fx f (py - c + y) (px - c + x))).
Proof. exact crop_slice_stale_without_zeroing. Qed.
Print Assumptions C13_legacy_stale_buffer_refuted.
