(* C03 - Outputs equal their documented definitions on a direct correlation. *)
From Coq Require Import ZArith List.
From BF Require Import Base.Util Model.Crop Model.Corr Model.Eval Model.Pipeline Proofs.CropP Proofs.CorrP Proofs.EvalP Proofs.ComposeP.
Open Scope Z_scope.

(* what the FFT pipeline computes (cyclic convolution rotated by N/2) is the circular cross-correlation with the
   mask centred on the window, for every centro-symmetric mask and every size N, M >= 1 of either parity *)
Theorem C03_fft_product_is_cross_correlation : forall N M d m i k, 1 <= N -> 1 <= M -> csym N M m ->
  cconv N M d m i k = xcorr N M d m i k.
Proof. exact cconv_is_xcorr. Qed.
Print Assumptions C03_fft_product_is_cross_correlation.

Theorem C03_symmetry_checker_sound : forall N M m, csymb N M m = true -> csym N M m.
Proof. exact csymb_sound. Qed.
Print Assumptions C03_symmetry_checker_sound.

(* height = maximum over the search window; centre = a position attaining it (the first in row-major order) *)
Theorem C03_centre_attains_window_maximum : forall H W c, 1 <= H -> 1 <= W ->
  let '(y, x) := argmax2 H W c in
  (0 <= y < H /\ 0 <= x < W) /\
  (forall y' x', 0 <= y' < H -> 0 <= x' < W -> c y' x' <= c y x) /\
  (forall y' x', 0 <= y' < H -> 0 <= x' < W -> y' * W + x' < y * W + x -> c y' x' < c y x).
Proof. exact argmax2_spec. Qed.
Print Assumptions C03_centre_attains_window_maximum.

(* the refinement neighbourhood is (2r+1)^2 with r = 2 clipped at the window border, entirely inside the map *)
Theorem C03_refinement_neighbourhood : forall H W y x dy dx, let r := clip_r H W y x in
  1 <= r -> 0 <= dy <= 2 * r -> 0 <= dx <= 2 * r ->
  0 <= y - r + dy < H /\ 0 <= x - r + dx < W.
Proof. exact refine_reads_in_bounds. Qed.
Print Assumptions C03_refinement_neighbourhood.

Theorem C03_clip_radius : forall H W y x, clip_r H W y x <= 2 /\ clip_r H W y x <= y /\ clip_r H W y x <= x /\
  clip_r H W y x <= H - y - 1 /\ clip_r H W y x <= W - x - 1.
Proof. exact clip_r_bounds. Qed.
Print Assumptions C03_clip_radius.

(* the minimum that is subtracted is the minimum of the cut-out *)
Theorem C03_cutout_minimum : forall c y x r dy dx, 0 <= dy <= 2 * r -> 0 <= dx <= 2 * r ->
  cut_min c y x r <= c (y - r + dy) (x - r + dx).
Proof. exact cut_min_le. Qed.
Print Assumptions C03_cutout_minimum.

(* elevation = smallest slope (height - value)/distance over map pixels at distance >= 1.5 from the refined position
   (ry/D, rx/D); attained; None (inf) iff no such pixel *)
Theorem C03_elevation_is_smallest_slope : forall H W c ry rx D height, 0 < D ->
  (forall i, 0 <= i < H * W -> flatv W c i <= height) ->
  match elevation H W c ry rx D height with
  | None => forall i, 0 <= i < H * W -> 4 * qual W ry rx D i < 9 * D * D
  | Some (a, q) =>
      0 <= a /\
      (exists i, 0 <= i < H * W /\ a = height - flatv W c i /\ q = qual W ry rx D i /\ 9 * D * D <= 4 * q) /\
      (forall i, 0 <= i < H * W -> 9 * D * D <= 4 * qual W ry rx D i ->
                 slope_lt (height - flatv W c i) (qual W ry rx D i) a q = false)
  end.
Proof. exact elevation_spec. Qed.
Print Assumptions C03_elevation_is_smallest_slope.

(* full-frame method: the map is cropped like a frame, zero outside (C13) *)
Theorem C03_full_map_zero_outside : forall fy fx f c py px y x,
  crop_px_at fy fx f c py px y x = Some (pad0 fy fx f (py - c + y) (px - c + x)).
Proof. exact Proofs.CropP.crop_px_spec. Qed.
Print Assumptions C03_full_map_zero_outside.

(* composed, at the level of the property: for a centro-symmetric mask the height reported for a peak is the maximum over the
   search window of the circular cross-correlation of the log-scaled crop (crop-based method) resp. frame (full-frame method,
   window inside the frame) with the centred mask, and the reported centre is a window position attaining it *)
Theorem C03_fast_height_is_window_maximum_of_cross_correlation : forall one lg fy fx f c mask py px, 1 <= c -> csym (2 * c) (2 * c) mask ->
  let L := Corr.of_list2 (fast_logwin one lg fy fx f c py px) in
  let r := fast_peak one lg fy fx f c mask (py, px) in
  (forall y x, 0 <= y < 2 * c -> 0 <= x < 2 * c -> xcorr (2 * c) (2 * c) L mask y x <= r_height r) /\
  (exists y x, 0 <= y < 2 * c /\ 0 <= x < 2 * c /\ r_height r = xcorr (2 * c) (2 * c) L mask y x /\
               r_cy r = y + py - c /\ r_cx r = x + px - c).
Proof. exact fast_height_is_window_maximum_of_xcorr. Qed.
Print Assumptions C03_fast_height_is_window_maximum_of_cross_correlation.

Theorem C03_full_height_is_window_maximum_of_cross_correlation : forall one lg fy fx f c mask py px,
  1 <= c -> 1 <= fy -> 1 <= fx -> csym fy fx mask ->
  0 <= py - c -> py + c <= fy -> 0 <= px - c -> px + c <= fx ->
  let L := Corr.of_list2 (full_logframe one lg fy fx f) in
  let r := full_peak one lg fy fx f c mask (py, px) in
  (forall y x, 0 <= y < 2 * c -> 0 <= x < 2 * c -> xcorr fy fx L mask (py - c + y) (px - c + x) <= r_height r) /\
  (exists y x, 0 <= y < 2 * c /\ 0 <= x < 2 * c /\ r_height r = xcorr fy fx L mask (py - c + y) (px - c + x) /\
               r_cy r = y + py - c /\ r_cx r = x + px - c).
Proof. exact full_height_is_window_maximum_of_xcorr. Qed.
Print Assumptions C03_full_height_is_window_maximum_of_cross_correlation.

(* ---- non-vacuity: a concrete centro-symmetric mask of even and of odd size passes the checker (hypothesis csym is satisfiable) ---- *)
Import ListNotations.
Example nv_csym_masks :
  csymb 4 4 (Corr.of_list2 [[0; 0; 0; 0]; [0; 1; 2; 1]; [0; 2; 5; 2]; [0; 1; 2; 1]]) = true /\
  csymb 3 5 (Corr.of_list2 [[1; 2; 3; 2; 1]; [4; 5; 9; 5; 4]; [1; 2; 3; 2; 1]]) = true.
Proof. split; vm_compute; reflexivity. Qed.
