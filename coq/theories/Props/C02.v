(* C02 - Sub-pixel accuracy bound for refined positions.  PARTIAL: the numeric accuracy figures (1 px, 0.5 px, 1/upsample + 0.03 px)
   are properties of float FFT/log numerics over a continuum of sub-pixel offsets and are NOT proved here; what is proved is the
   skeleton they rest on.  Level claimed in MANIFEST: other. *)
From Coq Require Import ZArith List.
From BF Require Import Base.Util Model.Eval Model.Upsample Model.Pipeline Proofs.EvalP Proofs.UpsampleP Proofs.PipelineP.
Open Scope Z_scope.

(* the centre-of-mass refined position lies within r <= 2 px of the integer centre (so an integer centre within 1 px of the
   truth bounds the refined error by 3 px at worst; the 0.5 px figure is empirical) *)
Theorem C02_partial_refined_within_neighbourhood : forall H W c y x,
  let m := refine_com H W c y x in
  0 <= com_sy m <= 2 * com_r m * com_s m /\ 0 <= com_sx m <= 2 * com_r m * com_s m /\ com_r m <= 2 /\ 0 <= com_s m.
Proof. exact refine_com_bounds. Qed.
Print Assumptions C02_partial_refined_within_neighbourhood.

(* the upsampled refinement samples a grid of spacing 1/u that contains the integer centre and covers +-(3/4 - 1/(2u)) px around it *)
Theorem C02_partial_upsampled_grid : forall u d, 1 <= u -> 4 * Z.abs d <= 3 * u - 2 -> 0 <= d + us_dftshift u < us_region u.
Proof. exact upsample_region_covers. Qed.
Print Assumptions C02_partial_upsampled_grid.

Theorem C02_partial_upsampled_within_bound : forall u j, 1 <= u -> 0 <= j < us_region u -> 4 * Z.abs (us_delta u j) <= 3 * u + 2.
Proof. exact upsample_bound. Qed.
Print Assumptions C02_partial_upsampled_within_bound.

(* translation equivariance (C14) reduces 'any position in the frame' to one unit cell of sub-pixel offsets *)
Theorem C02_partial_reduction_to_unit_cell : forall one lg fy fx f fy' fx' vy vx c mask py px, 0 <= c ->
  0 <= py - c -> py + c <= fy -> 0 <= px - c -> px + c <= fx ->
  0 <= py + vy - c -> py + vy + c <= fy' -> 0 <= px + vx - c -> px + vx + c <= fx' ->
  let r0 := fast_peak one lg fy fx f c mask (py, px) in
  let r1 := fast_peak one lg fy' fx' (translate vy vx f) c mask (py + vy, px + vx) in
  r_cy r1 = r_cy r0 + vy /\ r_cx r1 = r_cx r0 + vx /\ r_height r1 = r_height r0 /\ r_com r1 = r_com r0.
Proof. exact fast_peak_translate. Qed.
Print Assumptions C02_partial_reduction_to_unit_cell.
