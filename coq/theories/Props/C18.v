(* C18 - Antialiased radial masks form a partition of unity. *)
From Coq Require Import QArith List ZArith.
From BF Require Import Model.Masks Model.BinDefaults Proofs.MasksP Proofs.BinDefaultsP.
Open Scope Q_scope.

(* for ANY number of bins n, any width w >= 1, any inner radius ri and any radius value r (so for every centre,
   image size and pixel): the bins sum to exactly 1 at least 1/2 inside [ri, ri + n w] ... *)
Theorem C18_partition_of_unity : forall n w ri r, 1 <= w ->
  ri + (1#2) <= r -> r <= ri + inject_Z (Z.of_nat n) * w - (1#2) ->
  sumQ (bins n w ri r) == 1.
Proof. exact partition_of_unity. Qed.
Print Assumptions C18_partition_of_unity.

(* ... to exactly 0 at least 1/2 outside ... *)
Theorem C18_zero_outside : forall n w ri r, 1 <= w ->
  (r <= ri - (1#2) \/ ri + inject_Z (Z.of_nat n) * w + (1#2) <= r) ->
  sumQ (bins n w ri r) == 0.
Proof. exact zero_outside. Qed.
Print Assumptions C18_zero_outside.

(* ... never exceed 1 and are never negative, anywhere *)
Theorem C18_sum_between_0_and_1 : forall n w ri r, 1 <= w -> 0 <= sumQ (bins n w ri r) <= 1.
Proof. exact sum_in_01. Qed.
Print Assumptions C18_sum_between_0_and_1.

Theorem C18_each_bin_between_0_and_1 : forall n w e r v, In v (bins n w e r) -> 0 <= v <= 1.
Proof. exact bins_each_in_01. Qed.
Print Assumptions C18_each_bin_between_0_and_1.

(* the sum telescopes: difference of the unit ramps at the inner and outer edge *)
Theorem C18_telescope : forall n w e r, 1 <= w ->
  sumQ (bins n w e r) == clip01 (r - e + (1#2)) - clip01 (r - (e + inject_Z (Z.of_nat n) * w) + (1#2)).
Proof. exact bins_telescope. Qed.
Print Assumptions C18_telescope.

(* antialiased ring + inner disk = outer disk *)
Theorem C18_ring_plus_disk : forall ri w r, 1 <= ri -> 1 <= w ->
  bin w (ri + w*(1#2)) r + bin ri (0 + ri*(1#2)) r == bin (ri + w) (0 + (ri + w)*(1#2)) r.
Proof. exact ring_plus_disk. Qed.
Print Assumptions C18_ring_plus_disk.

(* the centre patch is applied only at a pixel with radius < 1/2, and there the patched stack sums to 1 - ri (= 1 for
   ri = 0) *)
Theorem C18_patch_only_inside_centre_pixel : forall ri b r, patch_applies ri b r = true -> r < (1#2) /\ ri < (1#2).
Proof. exact patch_sound. Qed.
Print Assumptions C18_patch_only_inside_centre_pixel.

Theorem C18_patched_pixel_sum : forall n radius ri r, (0 < n)%nat -> 0 <= ri -> ri < (1#2) -> 0 <= r -> r < (1#2) ->
  1 <= (radius - ri) / inject_Z (Z.of_nat n) ->
  sumQ (radial_bins_px n radius ri true r) == 1 - ri.
Proof. exact patched_sum. Qed.
Print Assumptions C18_patched_pixel_sum.

(* with normalisation every bin with non-zero sum sums to 1 *)
Theorem C18_normalised_bin_sums_to_one : forall l, ~ sumQ l == 0 -> sumQ (normalise l) == 1.
Proof. exact normalised_sums_to_one. Qed.
Print Assumptions C18_normalised_bin_sums_to_one.

(* history of the repaired defect F6: patching a pixel at r >= 1/2 makes the sum exceed 1 *)
Theorem C18_legacy_patch_at_half_pixel_refuted : exists r, (1#2) <= r /\ ~ ((1 - 0) + bin 1 (1 + 1*(1#2)) r <= 1).
Proof. exact legacy_patch_exceeds_one. Qed.
Print Assumptions C18_legacy_patch_at_half_pixel_refuted.

(* the all-default layout of radial_bins (radius=None: an integer covering radius R >= 1; n_bins=None: round(R - inner radius); inner radius 0)
   has R bins of width exactly 1, so it lies inside the premise "bin width >= 1" and sums to 1 at every pixel with 1/2 <= r <= R - 1/2 *)
Theorem C18_default_layout_width_one : forall R, (1 <= R)%Z -> (inject_Z R - 0) / inject_Z (default_n_bins R 0) == 1.
Proof. exact default_layout_width_one. Qed.
Print Assumptions C18_default_layout_width_one.

Theorem C18_default_layout_partition : forall R r, (1 <= R)%Z -> (1#2) <= r -> r <= inject_Z R - (1#2) ->
  sumQ (bins (Z.to_nat (default_n_bins R 0)) 1 0 r) == 1.
Proof. exact default_layout_partition. Qed.
Print Assumptions C18_default_layout_partition.
