(* C14 - Equivariant to translation and axis swap, invariant to intensity offset. *)
From Coq Require Import ZArith List.
From BF Require Import Base.Util Model.Crop Model.Corr Model.Eval Model.Prelog Model.Pipeline
  Proofs.CorrP Proofs.PipelineP Proofs.TransposeP.
Open Scope Z_scope.

(* crop-based method: translating frame content and peak by the same vector (windows inside both frames) moves the
   centre and the refined position by that vector and leaves height and centre of mass (hence elevation) unchanged;
   exact in the model *)
Theorem C14_fast_translation_equivariant : forall one lg fy fx f fy' fx' vy vx c mask py px, 0 <= c ->
  0 <= py - c -> py + c <= fy -> 0 <= px - c -> px + c <= fx ->
  0 <= py + vy - c -> py + vy + c <= fy' -> 0 <= px + vx - c -> px + vx + c <= fx' ->
  let r0 := fast_peak one lg fy fx f c mask (py, px) in
  let r1 := fast_peak one lg fy' fx' (translate vy vx f) c mask (py + vy, px + vx) in
  r_cy r1 = r_cy r0 + vy /\ r_cx r1 = r_cx r0 + vx /\ r_height r1 = r_height r0 /\ r_com r1 = r_com r0.
Proof. exact fast_peak_translate. Qed.
Print Assumptions C14_fast_translation_equivariant.

(* full-frame method: a cyclic shift of the data shifts the correlation map cyclically *)
Theorem C14_full_map_cyclic_shift : forall N M d m vy vx i k, 1 <= N -> 1 <= M ->
  cconv N M (roll N M vy vx d) m i k = cconv N M d m ((i - vy) mod N) ((k - vx) mod M).
Proof. exact cconv_roll. Qed.
Print Assumptions C14_full_map_cyclic_shift.

(* transposing data and mask transposes the map *)
Theorem C14_map_transpose : forall N M d m i k,
  cconv M N (transp d) (transp m) k i = cconv N M d m i k.
Proof. exact cconv_transpose. Qed.
Print Assumptions C14_map_transpose.

(* adding a constant to all pixels does not change the argument of the logarithm *)
Theorem C14_offset_invariant : forall one k l, hd nil l <> nil ->
  prelog_s one (map (map (fun x => x + k)) l) = prelog_s one l.
Proof. exact prelog_offset_invariant. Qed.
Print Assumptions C14_offset_invariant.

(* positions are reported relative to the peak: eval_peak commutes with translation of the anchor *)
Theorem C14_positions_follow_the_anchor : forall c corr py px vy vx,
  let r0 := eval_peak c corr py px in let r1 := eval_peak c corr (py + vy) (px + vx) in
  r_cy r1 = r_cy r0 + vy /\ r_cx r1 = r_cx r0 + vx /\ r_height r1 = r_height r0 /\ r_com r1 = r_com r0.
Proof. exact eval_peak_translate. Qed.
Print Assumptions C14_positions_follow_the_anchor.

(* axis swap of the evaluation kernels: with a unique maximum the integer centre of the transposed map is the swapped centre
   (with ties the first-maximum rule is not swap symmetric), and the centre of mass swaps its coordinates *)
Theorem C14_argmax_transposes_under_unique_maximum : forall H W c, 1 <= H -> 1 <= W ->
  (forall y' x', 0 <= y' < H -> 0 <= x' < W ->
     c y' x' = c (fst (argmax2 H W c)) (snd (argmax2 H W c)) -> (y', x') = argmax2 H W c) ->
  argmax2 W H (transp c) = (snd (argmax2 H W c), fst (argmax2 H W c)).
Proof. exact argmax_transpose_unique. Qed.
Print Assumptions C14_argmax_transposes_under_unique_maximum.

Theorem C14_centre_of_mass_transposes : forall H W c y x,
  let m := refine_com H W c y x in let mt := refine_com W H (transp c) x y in
  com_r mt = com_r m /\ com_sy mt = com_sx m /\ com_sx mt = com_sy m /\ com_s mt = com_s m.
Proof. exact refine_com_transpose. Qed.
Print Assumptions C14_centre_of_mass_transposes.
