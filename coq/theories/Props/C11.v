(* C11 - Refinement and integration UDFs equal the library functions per frame. *)
From Coq Require Import ZArith List QArith.
From BF Require Import Base.Util Model.Crop Model.Pipeline Model.Lattice Model.UDF Proofs.UDFP Proofs.LatticeP Proofs.CropP.
Import ListNotations.

Open Scope Z_scope.
(* IntegrationUDF: sum of the frame over the pattern mask centred on the peak, pixels outside the frame counting as zero *)
Theorem C11_integration_is_masked_sum_with_zero_padding : forall fy fx f c mask py px,
  integrate fy fx f c mask py px = Zsum (2 * c) (fun y => Zsum (2 * c) (fun x => pad0 fy fx f (py - c + y) (px - c + x) * mask y x)).
Proof. exact integration_spec. Qed.
Print Assumptions C11_integration_is_masked_sum_with_zero_padding.

(* refinement UDFs run on top of the correlation UDFs: per frame and independent of the partitioning (C10) *)
Theorem C11_per_frame_results_any_partitioning : forall b one lg c mask bc frames parts fresh, 0 <= c -> wf_frames frames ->
  (forall i, In i (concat parts) -> exists o, run_dataset b one lg c mask bc frames parts fresh i = Some o /\
                                             forall k, o k = pure_frame one lg c mask frames i k) /\
  (forall i, ~ In i (concat parts) -> run_dataset b one lg c mask bc frames parts fresh i = None).
Proof. exact udf_any_schedule. Qed.
Print Assumptions C11_per_frame_results_any_partitioning.

Open Scope Q_scope.
(* run_refine correlates exactly the lattice positions that keep the margin `search` from the frame border, in index order,
   and returns their indices *)
Theorem C11_refine_peaks_are_frame_peaks : forall fy fx zero a b r indices ij p,
  In (ij, p) (frame_peaks fy fx zero a b r indices) <->
  (In ij indices /\ p = calc_coord zero a b ij /\ r <= vy p /\ r <= vx p /\ vy p < fy - r /\ vx p < fx - r).
Proof. exact frame_peaks_spec. Qed.
Print Assumptions C11_refine_peaks_are_frame_peaks.

Theorem C11_refine_indices_in_order : forall fy fx zero a b r indices,
  map fst (frame_peaks fy fx zero a b r indices) = filter (fun ij => within_frame r fy fx (calc_coord zero a b ij)) indices.
Proof. exact frame_peaks_order. Qed.
Print Assumptions C11_refine_indices_in_order.
