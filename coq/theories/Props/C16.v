(* C16 - Pattern masks are centred, symmetric, bounded and balanced at every size. *)
From Coq Require Import ZArith QArith List.
From BF Require Import Base.Util Model.Corr Model.PadCrop Model.Masks Proofs.PadCropP Proofs.MasksP.

Open Scope Z_scope.

(* user templates: padding or cropping an axis from s to t pixels preserves the values on the overlap (zero elsewhere)
   and maps source pixel s//2 onto target pixel t//2 -- for ALL s, t >= 1, i.e. all four parity combinations *)
Theorem C16_user_template_pad_crop_centred : forall s t j, 1 <= s -> 1 <= t -> 0 <= j < t ->
  padcrop_src s t j = aligned_src s t j.
Proof. exact padcrop_is_centred. Qed.
Print Assumptions C16_user_template_pad_crop_centred.

Theorem C16_user_template_centre_pixel : forall s t, 1 <= s -> 1 <= t -> padcrop_src s t (t / 2) = Some (s / 2).
Proof. exact padcrop_centre_pixel. Qed.
Print Assumptions C16_user_template_centre_pixel.

(* the result has exactly the requested length, the amounts are non-negative, reads stay in bounds *)
Theorem C16_user_template_shape : forall s t, 1 <= s -> 1 <= t ->
  0 <= pc_before s t /\ 0 <= pc_after s t /\ pc_len s t = t.
Proof. exact padcrop_amounts. Qed.
Print Assumptions C16_user_template_shape.

Theorem C16_user_template_reads_in_bounds : forall s t j i, 1 <= s -> 1 <= t -> 0 <= j < t -> padcrop_src s t j = Some i -> 0 <= i < s.
Proof. exact padcrop_reads_in_bounds. Qed.
Print Assumptions C16_user_template_reads_in_bounds.

(* history of the repaired defect F4 *)
Theorem C16_legacy_pad_rule_refuted : exists s t, 1 <= s /\ 1 <= t /\ padcrop_src_legacy s t (t / 2) <> Some (s / 2).
Proof. exact padcrop_legacy_refuted. Qed.
Print Assumptions C16_legacy_pad_rule_refuted.

Theorem C16_legacy_pad_rule_partial : forall s t j, 1 <= s -> 1 <= t -> 0 <= j < t ->
  (s mod 2 = t mod 2 \/ (s <= t /\ s mod 2 = 0) \/ (t <= s /\ t mod 2 = 0)) ->
  padcrop_src_legacy s t j = aligned_src s t j.
Proof. exact padcrop_legacy_partial. Qed.
Print Assumptions C16_legacy_pad_rule_partial.

(* built-in patterns are functions of the distance from pixel shape//2: such masks are (cyclically) point symmetric
   about shape//2 for every shape N x M >= 1 x 1 of either parity *)
Theorem C16_radial_masks_point_symmetric : forall N M (G : Z -> Z), 1 <= N -> 1 <= M ->
  csym N M (fun t u => G ((t - N / 2) * (t - N / 2) + (u - M / 2) * (u - M / 2))).
Proof. exact radial_mask_csym. Qed.
Print Assumptions C16_radial_masks_point_symmetric.

(* RadialGradientBackgroundSubtraction: the default radial map is centred on a pixel and contains the outer radius *)
Theorem C16_default_radial_map_pixel_centred : forall p q, 0 < q -> 0 <= p ->
  let size := rmap_size p q in let c := rmap_centre p q in
  0 <= c < size /\ p <= q * c /\ p <= q * (size - 1 - c).
Proof. exact rmap_pixel_centred. Qed.
Print Assumptions C16_default_radial_map_pixel_centred.

(* crop size = ceil(search); constructor guards *)
Theorem C16_crop_size_is_ceiling : forall p q, 0 < q -> let c := crop_size p q in q * (c - 1) < p <= q * c.
Proof. exact crop_size_is_ceiling. Qed.
Print Assumptions C16_crop_size_is_ceiling.

Theorem C16_guards : forall radius router search,
  (guard_circular radius search = true -> radius <= search) /\
  (guard_bgsub radius router search = true -> radius < router <= search).
Proof. exact guards_sound. Qed.
Print Assumptions C16_guards.

Open Scope Q_scope.
(* values: antialiased disks/rings in [0,1] and zero at least 1/2 beyond the radius; gradient patterns in [-1,1] and
   zero beyond the outer radius; background subtraction balanced and <= 1 *)
Theorem C16_antialiased_values : forall w c r, 0 <= bin w c r <= 1.
Proof. exact each_bin_in_01. Qed.
Print Assumptions C16_antialiased_values.

Theorem C16_vanishes_beyond_radius : forall n w ri r, 1 <= w ->
  (r <= ri - (1#2) \/ ri + inject_Z (Z.of_nat n) * w + (1#2) <= r) -> sumQ (bins n w ri r) == 0.
Proof. exact zero_outside. Qed.
Print Assumptions C16_vanishes_beyond_radius.

Theorem C16_gradient_le_1 : forall r r0 ro delta, 0 <= r -> 0 < delta -> delta * (1#2) < r0 -> rgbs r r0 ro delta <= 1.
Proof. exact rgbs_le_1. Qed.
Print Assumptions C16_gradient_le_1.

Theorem C16_gradient_zero_outside : forall r r0 ro delta, 0 <= delta -> r0 + delta * (1#2) <= r -> ro < r -> rgbs r r0 ro delta == 0.
Proof. exact rgbs_zero_outside. Qed.
Print Assumptions C16_gradient_zero_outside.

Theorem C16_background_subtraction_balanced : forall (px : list (Q * Q)),
  let s1 := sum2 fst px in let s2 := sum2 snd px in ~ s2 == 0 ->
  sum2 (fun p => bgsub_px (fst p) (snd p) s1 s2) px == 0.
Proof. exact bgsub_balanced. Qed.
Print Assumptions C16_background_subtraction_balanced.

Theorem C16_background_subtraction_le_1 : forall m1 m2 s1 s2, m1 <= 1 -> 0 <= m2 -> 0 <= s1 -> 0 <= s2 -> bgsub_px m1 m2 s1 s2 <= 1.
Proof. exact bgsub_le_1. Qed.
Print Assumptions C16_background_subtraction_le_1.

(* a requested shape so small that the balancing ring lies entirely outside it: the mask is the disk (finite), not 0/0 *)
Theorem C16_background_subtraction_empty_ring : forall m1 m2 s1 s2, s2 == 0 -> bgsub_px m1 m2 s1 s2 = m1.
Proof. exact bgsub_empty_ring. Qed.
Print Assumptions C16_background_subtraction_empty_ring.
