(* C17, clause "polar/cartesian conversion round-trips", over the real numbers.
   Unlike every other Props file these theorems are NOT closed under the global context: they rest on the standard
   library's axiomatisation of the reals (ClassicalDedekindReals.sig_forall_dec, ClassicalDedekindReals.sig_not_dec,
   FunctionalExtensionality.functional_extensionality_dep).  The harness allows exactly those three for this file. *)
From Coq Require Import Reals.
From BF Require Import Model.Polar Proofs.PolarP.
Local Open Scope R_scope.

(* polar -> cartesian -> polar: the radius is recovered for r >= 0, and phi itself is an admissible angle *)
Theorem polar_roundtrip : forall r phi, 0 <= r ->
  norm2 (make_cartesian (r, phi)) = r /\ is_arctan2 (make_cartesian (r, phi)) phi.
Proof. exact polar_roundtrip_l. Qed.
Print Assumptions polar_roundtrip.

(* a negative radius comes back as its absolute value *)
Theorem polar_radius_abs : forall r phi, norm2 (make_cartesian (r, phi)) = Rabs r.
Proof. exact norm2_make_cartesian. Qed.
Print Assumptions polar_radius_abs.

(* cartesian -> polar -> cartesian: any admissible angle reproduces the vector, the zero vector included *)
Theorem cartesian_roundtrip : forall y x a, is_arctan2 (y, x) a ->
  make_cartesian (norm2 (y, x), a) = (y, x).
Proof. exact cartesian_roundtrip_l. Qed.
Print Assumptions cartesian_roundtrip.

(* two admissible angles of a non-zero vector have the same sine and cosine *)
Theorem arctan2_unique_direction : forall c a b, norm2 c <> 0 -> is_arctan2 c a -> is_arctan2 c b ->
  cos a = cos b /\ sin a = sin b.
Proof. exact arctan2_unique_direction_l. Qed.
Print Assumptions arctan2_unique_direction.

(* a non-zero vector with x >= 0 (what make_polar_vectors feeds to make_polar) gets an angle with cos >= 0 *)
Theorem nonneg_x_nonneg_cos : forall y x a, is_arctan2 (y, x) a -> 0 < norm2 (y, x) -> 0 <= x -> 0 <= cos a.
Proof. exact nonneg_x_nonneg_cos_l. Qed.
Print Assumptions nonneg_x_nonneg_cos.
