(* C12 - Full matching partitions the peaks and returns self-consistent matches. *)
From Coq Require Import ZArith List Bool QArith Qabs.
From BF Require Import Model.Lattice Model.WLS Model.Match Model.FullMatch Model.Tumble Proofs.FullMatchP Proofs.WLSP Proofs.TumbleP.
Import ListNotations.
Open Scope Z_scope.

(* whatever lattice search is plugged in (any candidate lists, any clusterer, any figure of merit; its answers only need to be
   selectors of the right length): every peak with elevation >= min_weight that is not a zero point is in the unmatched set
   XOR in some match *)
Theorem C12_strong_peaks_partitioned : forall mm filt zs wc ans i,
  length filt = length zs -> ans_ok (length zs) ans -> at_ zs i = false ->
  let o := full_match mm filt zs wc ans in
  at_ (o_unmatched o) i = at_ filt i && negb (in_some (o_matches o) i).
Proof. exact partition_of_strong_peaks. Qed.
Print Assumptions C12_strong_peaks_partitioned.

(* the zero point is never reported as unmatched once a match was found *)
Theorem C12_zero_point_not_unmatched : forall mm filt zs wc ans i,
  length filt = length zs -> ans_ok (length zs) ans -> at_ zs i = true ->
  let o := full_match mm filt zs wc ans in o_matches o <> [] -> at_ (o_unmatched o) i = false.
Proof. exact zero_not_unmatched. Qed.
Print Assumptions C12_zero_point_not_unmatched.

(* the weak set is exactly the peaks with elevation below min_weight *)
Theorem C12_weak_set_exact : forall mm filt zs wc ans, o_weak (full_match mm filt zs wc ans) = bnot filt.
Proof. exact weak_is_complement. Qed.
Print Assumptions C12_weak_set_exact.

Open Scope Q_scope.
(* accepted lattice vectors are separated by more than the limit from parallel and antiparallel; the test is symmetric *)
Theorem C12_angle_check_separates : forall PI limit p1 p2, 0 < PI -> angle_check PI limit p1 p2 = true ->
  let d := qmod (Qabs (p1 - p2)) PI in limit < d /\ d < PI - limit /\ 0 <= d /\ d < PI.
Proof. exact angle_check_spec. Qed.
Print Assumptions C12_angle_check_separates.

Theorem C12_angle_check_symmetric : forall PI limit p1 p2, angle_check PI limit p1 p2 = angle_check PI limit p2 p1.
Proof. exact angle_check_sym. Qed.
Print Assumptions C12_angle_check_symmetric.

(* the lattice of a returned match is the weighted least-squares fit of its own peaks (C06) *)
Theorem C12_match_lattice_is_weighted_fit : forall l x0 x1 x2, (forall r, In r l -> 0 <= w r) ->
  wls_col l = Some (x0, x1, x2) -> forall y0 y1 y2, cost x0 x1 x2 l <= cost y0 y1 y2 l.
Proof. exact wls_col_optimal. Qed.
Print Assumptions C12_match_lattice_is_weighted_fit.

(* every match the per-pair search (_match_all + _tumble: check, optimise, check, re-match, check, optimise, check) returns has at
   least min_match matched peaks, both lattice vectors within [min_delta, max_delta] (on squares), separated by more than the
   minimum angle (sin^2 criterion), and its lattice is the weighted least-squares fit of exactly its own peaks *)
Theorem C12_returned_match_is_self_consistent : forall tol2 mm mind2 maxd2 s2 sel pts t0 m z a b,
  tumble tol2 mm mind2 maxd2 s2 sel pts t0 = Some (m, z, a, b) ->
  (mm <= count_some m)%Z /\ (mind2 <= norm2 a <= maxd2)%Q /\ (mind2 <= norm2 b <= maxd2)%Q /\
  (s2 * (norm2 a * norm2 b) < det2 a b * det2 a b)%Q /\
  exists z' a' b', wls3 (fit_points m pts) = Some (z', a', b') /\ z = vred z' /\ a = vred a' /\ b = vred b'.
Proof. exact tumble_spec. Qed.
Print Assumptions C12_returned_match_is_self_consistent.

Theorem C12_returned_lattice_nondegenerate : forall tol2 mm mind2 maxd2 s2 sel pts t0 m z a b, (0 <= s2)%Q -> (0 <= mind2)%Q ->
  tumble tol2 mm mind2 maxd2 s2 sel pts t0 = Some (m, z, a, b) -> ~ (det2 a b == 0)%Q.
Proof. exact tumble_lattice_nondegenerate. Qed.
Print Assumptions C12_returned_lattice_nondegenerate.

Theorem C12_returned_match_within_working_set : forall tol2 mm mind2 maxd2 s2 sel pts t0 m z a b,
  tumble tol2 mm mind2 maxd2 s2 sel pts t0 = Some (m, z, a, b) -> exists z1 a1 b1, match_all tol2 z1 a1 b1 sel pts = Some m.
Proof. exact tumble_match_within_working_set. Qed.
Print Assumptions C12_returned_match_within_working_set.

Import ListNotations.
(* ---- non-vacuity: the hypotheses above are met by concrete inputs (computed inside Coq) ---- *)
Open Scope Q_scope.
Definition nv_pts : list peak :=
  [ {| k_w := 1; k_p := (10, 10) |}; {| k_w := 2; k_p := (30, 10) |}; {| k_w := 1; k_p := (10, 32) |};
    {| k_w := 3#2; k_p := (30, 32) |}; {| k_w := 1#100; k_p := (50, 10) |}; {| k_w := 1; k_p := (20, 21) |} ].
(* the per-pair search returns a match on this cloud (the weak peak is outside the working set) *)
Example nv_tumble_some :
  match do_pair (9#1) 3 (100#1) (1000#1) (1#10) [true; true; true; true; false; true] nv_pts (10, 10) (20, 0) (0, 22) with Some (m, _, _, _) => count_some m = 4%Z | None => False end.
Proof. vm_compute. reflexivity. Qed.

(* a loop run with two matches *)
Example nv_full_match_two_matches :
  let o := full_match 2%Z [true; true; true; true; true; false] [true; false; false; false; false; false] false
                      [Some [true; true; true; false; false; false]; Some [true; false; false; true; true; false]; None] in
  length (o_matches o) = 2%nat /\ o_ok o = true.
Proof. vm_compute. split; reflexivity. Qed.

