(* C17 - Lattice coordinate algebra is consistent. *)
From Coq Require Import QArith List.
From BF Require Import Model.Lattice Proofs.LatticeP.
Import ListNotations.
Open Scope Q_scope.

(* indices -> coordinates -> indices is the identity for any zero point and non-parallel a, b, integer or fractional indices *)
Theorem C17_indices_of_coords : forall zero a b ij, ~ det2 a b == 0 ->
  exists r, get_index zero a b (calc_coord zero a b ij) = Some r /\ veq r ij.
Proof. exact indices_of_coords. Qed.
Print Assumptions C17_indices_of_coords.

(* coordinates -> indices -> coordinates is the identity *)
Theorem C17_coords_of_indices : forall zero a b p r, get_index zero a b p = Some r -> veq (calc_coord zero a b r) p.
Proof. exact coords_of_indices. Qed.
Print Assumptions C17_coords_of_indices.

Theorem C17_parallel_vectors_rejected : forall zero a b p, det2 a b == 0 -> get_index zero a b p = None.
Proof. exact parallel_vectors_rejected. Qed.
Print Assumptions C17_parallel_vectors_rejected.

(* selecting peaks for a frame: exactly the pairs with r <= p < frame - r on both axes, p = zero + i a + j b *)
Theorem C17_frame_peaks_exact : forall fy fx zero a b r indices ij p,
  In (ij, p) (frame_peaks fy fx zero a b r indices) <->
  (In ij indices /\ p = calc_coord zero a b ij /\ r <= vy p /\ r <= vx p /\ vy p < fy - r /\ vx p < fx - r).
Proof. exact frame_peaks_spec. Qed.
Print Assumptions C17_frame_peaks_exact.

Theorem C17_frame_peaks_keeps_order : forall fy fx zero a b r indices,
  map fst (frame_peaks fy fx zero a b r indices) =
  filter (fun ij => within_frame r fy fx (calc_coord zero a b ij)) indices.
Proof. exact frame_peaks_order. Qed.
Print Assumptions C17_frame_peaks_keeps_order.

(* mgrid-style (2, n, m) input: every (row l, column k) entry appears exactly once, at position k*n + l *)
Theorem C17_mgrid_layout_entry : forall I J l k, length I = length J -> (k < length (hd [] I))%nat -> (l < length I)%nat ->
  nth (k * length I + l) (regularize_mgrid I J) (0, 0) = (nth k (nth l I []) 0, nth k (nth l J []) 0).
Proof. exact regularize_mgrid_entry. Qed.
Print Assumptions C17_mgrid_layout_entry.

Theorem C17_mgrid_layout_length : forall I J, length I = length J ->
  length (regularize_mgrid I J) = (length (hd [] I) * length I)%nat.
Proof. exact regularize_mgrid_length. Qed.
Print Assumptions C17_mgrid_layout_length.

(* dropping the zero order removes exactly index (0, 0) *)
Theorem C17_drop_zero_exact : forall indices ij,
  In ij (drop_zero indices) <-> (In ij indices /\ ~ (fst ij == 0 /\ snd ij == 0)).
Proof. exact drop_zero_spec. Qed.
Print Assumptions C17_drop_zero_exact.
