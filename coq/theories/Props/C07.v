(* C07 - Peak finding returns the true disk positions for every frame shape. *)
From Coq Require Import ZArith List.
From BF Require Import Base.Util Model.Corr Model.PadCrop Proofs.CorrP Proofs.PadCropP.
Open Scope Z_scope.

(* get_correlation = ifftshift(irfft2(rfft2(mask) * rfft2(frame), s=frame.shape)): the cyclic convolution rotated by n/2, which
   for the (radial, hence centro-symmetric) built-in masks is the cross-correlation with the mask centred on each pixel --
   for even, odd and non-square shapes alike *)
Theorem C07_map_is_cross_correlation : forall N M d m i k, 1 <= N -> 1 <= M -> csym N M m ->
  cconv N M d m i k = xcorr N M d m i k.
Proof. exact cconv_is_xcorr. Qed.
Print Assumptions C07_map_is_cross_correlation.

Theorem C07_builtin_masks_are_centro_symmetric : forall N M (G : Z -> Z), 1 <= N -> 1 <= M ->
  csym N M (fun t u => G ((t - N / 2) * (t - N / 2) + (u - M / 2) * (u - M / 2))).
Proof. exact radial_mask_csym. Qed.
Print Assumptions C07_builtin_masks_are_centro_symmetric.

(* with ifftshift the zero displacement (source index 0 of the cyclic convolution) sits at output index n/2 for every n *)
Theorem C07_ifftshift_origin : forall n, 1 <= n -> ifftshift_src n (n / 2) = (2 * (n / 2)) mod n /\ ifftshift_src n 0 = (n / 2) mod n.
Proof. exact ifftshift_centre. Qed.
Print Assumptions C07_ifftshift_origin.

(* history of the repaired defect F8: fftshift differs from ifftshift for odd sizes, and irfft2 without s= returns an even
   last axis (41 -> 40) *)
Theorem C07_fftshift_agrees_only_for_even_sizes : forall n i, 1 <= n -> Z.even n = true -> fftshift_src n i = ifftshift_src n i.
Proof. exact fftshift_eq_ifftshift_even. Qed.
Print Assumptions C07_fftshift_agrees_only_for_even_sizes.

Theorem C07_legacy_fftshift_refuted : exists n i, 1 <= n /\ 0 <= i < n /\ fftshift_src n i <> ifftshift_src n i.
Proof. exact fftshift_ne_ifftshift_odd. Qed.
Print Assumptions C07_legacy_fftshift_refuted.

Theorem C07_legacy_default_irfft_length_refuted : exists m, 1 <= m /\ irfft_default_len m <> m.
Proof. exact irfft_default_len_odd_wrong. Qed.
Print Assumptions C07_legacy_default_irfft_length_refuted.

(* a brighter disk gives a proportionally higher map: scaling the data scales the map *)
Theorem C07_height_proportional_to_brightness : forall N M d m s i k,
  cconv N M (fun y x => s * d y x) m i k = s * cconv N M d m i k.
Proof. exact cconv_scale. Qed.
Print Assumptions C07_height_proportional_to_brightness.
