(* C06 - Lattice fits are the weighted least-squares optimum and affine-covariant. *)
From Coq Require Import QArith List.
From BF Require Import Model.Lattice Model.WLS Proofs.WLSP Proofs.AffineP Proofs.ComposeP.
Open Scope Q_scope.

(* for any number of points, indices (integer or not), positions and non-negative weights: the returned parameters
   minimise the weighted sum of squared residuals (per coordinate; the 2-D cost is the sum of the two) *)
Theorem C06_fit_is_weighted_least_squares_optimum : forall l x0 x1 x2, (forall r, In r l -> 0 <= w r) ->
  wls_col l = Some (x0, x1, x2) -> forall y0 y1 y2, cost x0 x1 x2 l <= cost y0 y1 y2 l.
Proof. exact wls_col_optimal. Qed.
Print Assumptions C06_fit_is_weighted_least_squares_optimum.

Theorem C06_fit_solves_normal_equations : forall s x0 x1 x2, solve3 s = Some (x0, x1, x2) ->
  x0 * S1 s + x1 * Si s + x2 * Sj s - T1 s == 0 /\
  x0 * Si s + x1 * Sii s + x2 * Sij s - Ti s == 0 /\
  x0 * Sj s + x1 * Sij s + x2 * Sjj s - Tj s == 0.
Proof. exact solve3_normal_eq. Qed.
Print Assumptions C06_fit_solves_normal_equations.

(* the optimum is unique whenever the fit exists (three affinely independent indices of positive weight <=> det <> 0) *)
Theorem C06_fit_unique : forall s x0 x1 x2 y0 y1 y2, solve3 s = Some (x0, x1, x2) ->
  y0 * S1 s + y1 * Si s + y2 * Sj s - T1 s == 0 ->
  y0 * Si s + y1 * Sii s + y2 * Sij s - Ti s == 0 ->
  y0 * Sj s + y1 * Sij s + y2 * Sjj s - Tj s == 0 ->
  y0 == x0 /\ y1 == x1 /\ y2 == x2.
Proof. exact solve3_unique. Qed.
Print Assumptions C06_fit_unique.

(* rescaling all weights changes nothing *)
Theorem C06_weight_rescaling_invariant : forall k l x, ~ k == 0 -> wls_col l = Some x ->
  exists y, wls_col (scale_w k l) = Some y /\ seq3 y x.
Proof. exact weight_scale_invariant. Qed.
Print Assumptions C06_weight_rescaling_invariant.

(* affine covariance: a coordinate of the mapped positions is  al * y + be * x + ga ; the fitted parameters map the same way
   (zero by the full map, a and b by its linear part) *)
Theorem C06_affine_covariant : forall al be ga l x0 x1 x2 y0 y1 y2,
  wls_col (ra l) = Some (x0, x1, x2) -> wls_col (rb l) = Some (y0, y1, y2) ->
  exists z0 z1 z2, wls_col (rc al be ga l) = Some (z0, z1, z2) /\
    z0 == al * x0 + be * y0 + ga /\ z1 == al * x1 + be * y1 /\ z2 == al * x2 + be * y2.
Proof. exact response_linear. Qed.
Print Assumptions C06_affine_covariant.

(* positions exactly on a lattice are fitted exactly *)
Theorem C06_exact_lattice_recovered : forall l m0 m1 m2 x0 x1 x2,
  (forall r, In r l -> rp r == m0 + ri r * m1 + rj r * m2) ->
  wls_col l = Some (x0, x1, x2) -> m0 == x0 /\ m1 == x1 /\ m2 == x2.
Proof. exact exact_data_recovered. Qed.
Print Assumptions C06_exact_lattice_recovered.

(* two-dimensional form: the fitted (zero, a, b) minimise the weighted sum of squared DISTANCES between the positions and zero + i a + j b *)
Theorem C06_fit_minimises_weighted_squared_distances : forall l zero a b, (forall q, In q l -> 0 <= pw q) ->
  wls3 l = Some (zero, a, b) -> forall zero' a' b', cost2 zero a b l <= cost2 zero' a' b' l.
Proof. exact wls3_minimises_weighted_squared_distances. Qed.
Print Assumptions C06_fit_minimises_weighted_squared_distances.

Import ListNotations.
(* ---- non-vacuity: a concrete non-singular weighted fit (computed inside Coq) ---- *)
Example nv_wls_col_some :
  match wls_col [ {| w := 1; ri := 0; rj := 0; rp := 10 |}; {| w := 2; ri := 1; rj := 0; rp := 30 |};
                  {| w := 1; ri := 0; rj := 1; rp := 11 |}; {| w := 3#2; ri := 1; rj := 1; rp := 32 |} ] with
  | Some (x0, x1, x2) => 0 < x1 | None => False end.
Proof. vm_compute. reflexivity. Qed.
