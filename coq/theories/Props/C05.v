(* C05 - Fast matching keeps inliers, rejects outliers and weak peaks, never raises. *)
From Coq Require Import QArith Qabs Qminmax List ZArith.
From BF Require Import Model.Lattice Model.WLS Model.Match Proofs.LatticeP Proofs.MatchP Proofs.MatchExactP Proofs.WeakP Proofs.RotP.
Open Scope Q_scope.

(* a valid match has at least min_match selected peaks, as many indices as selected peaks (one optional index per peak),
   only peaks with elevation >= min_weight, and its lattice is the weighted least-squares fit (C06) of exactly the selected peaks *)
Theorem C05_valid_match_wellformed : forall tol2 mw mm zero a b pts m z2 a2 b2,
  fastmatch tol2 mw mm zero a b pts = Valid m z2 a2 b2 ->
  (mm <= count_some m)%Z /\ wls3 (fit_points m pts) = Some (z2, a2, b2) /\ length m = length pts /\
  (forall k o p, nth_error m k = Some (Some o) -> nth_error pts k = Some p -> mw <= k_w p).
Proof. exact fastmatch_valid_spec. Qed.
Print Assumptions C05_valid_match_wellformed.

(* a peak exactly on a lattice position is matched, with its true integer indices, for every positive tolerance *)
Theorem C05_lattice_point_matched_with_true_index : forall tol2 zero a b i j, ~ det2 a b == 0 -> 0 < tol2 ->
  match_point tol2 zero a b (calc_coord zero a b (inject_Z i, inject_Z j)) = Some (Some (i, j)).
Proof. exact exact_lattice_point_matched. Qed.
Print Assumptions C05_lattice_point_matched_with_true_index.

(* a peak half a cell away from any lattice row is rejected (tolerance^2 <= |a|^2 / (4 max(1,|i|))) *)
Theorem C05_half_cell_rejected : forall tol2 a b n jq, 0 < norm2 a -> 0 <= norm2 b ->
  tol2 <= norm2 a / ((4#1) * Qmax 1 (Qabs (inject_Z n + (1#2)))) ->
  Qlt_bool (err2 a b (inject_Z n + (1#2), jq)) tol2 = false.
Proof. exact half_cell_rejected. Qed.
Print Assumptions C05_half_cell_rejected.

(* parallel or zero start vectors give an invalid match (a value, not an exception) *)
Theorem C05_degenerate_start_invalid : forall tol2 mw mm zero a b pts, det2 a b == 0 -> fastmatch tol2 mw mm zero a b pts = Invalid 1.
Proof. exact degenerate_start_invalid. Qed.
Print Assumptions C05_degenerate_start_invalid.

(* translating all inputs translates nothing in the matching decisions *)
Theorem C05_matching_translation_invariant : forall tol2 zero a b p t,
  match_point tol2 (vy zero + vy t, vx zero + vx t) a b (vy p + vy t, vx p + vx t) = match_point tol2 zero a b p.
Proof. exact match_point_translate. Qed.
Print Assumptions C05_matching_translation_invariant.

(* end to end on exact data: if every peak with elevation >= min_weight lies exactly on the lattice the match is started from
   (integer indices idx), at least min_match of them, index set of rank 3: the match is valid, selects exactly those peaks with
   their true indices (weak peaks are not selected), and the returned lattice is that lattice *)
Theorem C05_exact_lattice_end_to_end : forall tol2 mw mm zero a b idx pts z1 a1 b1,
  ~ det2 a b == 0 -> 0 < tol2 -> on_lattice zero a b mw idx pts ->
  (mm <= Z.of_nat (length (filter (fun k => Qle_bool mw (k_w k)) pts)))%Z ->
  wls3 (fit_points (expected mw idx pts) pts) = Some (z1, a1, b1) ->
  fastmatch tol2 mw mm zero a b pts = Valid (expected mw idx pts) z1 a1 b1 /\ veq z1 zero /\ veq a1 a /\ veq b1 b.
Proof. exact fastmatch_exact_lattice. Qed.
Print Assumptions C05_exact_lattice_end_to_end.

(* the matching step depends on the lattice only up to ==, in particular not on how its rational parameters are represented *)
Theorem C05_matching_respects_lattice_equality : forall tol2 z z' a a' b b' p, veq z z' -> veq a a' -> veq b b' ->
  match_point tol2 z a b p = match_point tol2 z' a' b' p.
Proof. exact match_point_comp. Qed.
Print Assumptions C05_matching_respects_lattice_equality.

(* peaks below min_weight have no influence at all: changing their elevations (below min_weight) changes nothing in the result *)
Theorem C05_weak_peaks_have_no_influence : forall tol2 mw mm zero a b pts pts', Forall2 (weak_eq mw) pts pts' ->
  fastmatch tol2 mw mm zero a b pts = fastmatch tol2 mw mm zero a b pts'.
Proof. exact fastmatch_ignores_weak_weights. Qed.
Print Assumptions C05_weak_peaks_have_no_influence.

(* float elevations: a NaN elevation behaves as any weight below min_weight, and is never selected *)
Theorem C05_nan_elevation_is_weak : forall tol2 mw mm zero a b (pts : list (felev * vec)) (w : Q), w < mw ->
  fastmatch_f tol2 mw mm zero a b pts =
  fastmatch tol2 mw mm zero a b (map (fun ep : felev * vec => {| k_w := felev_as mw w (fst ep); k_p := snd ep |}) pts).
Proof. exact fastmatch_f_nan_is_weak. Qed.
Print Assumptions C05_nan_elevation_is_weak.

Theorem C05_nan_elevation_never_selected : forall tol2 mw mm zero a b pts m z2 a2 b2,
  fastmatch_f tol2 mw mm zero a b pts = Valid m z2 a2 b2 ->
  forall k o p, nth_error m k = Some (Some o) -> nth_error pts k = Some p -> exists q, fst p = EVal q /\ mw <= q.
Proof. exact fastmatch_f_nan_never_selected. Qed.
Print Assumptions C05_nan_elevation_never_selected.

(* rotating / reflecting / translating all inputs (start lattice and peak positions) by a rational orthogonal map rotates /
   reflects / translates the result: same validity and reason, same selection and integer indices, fitted lattice mapped *)
Theorem C05_rigid_motion_covariant : forall tol2 mw mm M zero a b pts, orthogonal M ->
  fm_rel M (fastmatch tol2 mw mm zero a b pts) (fastmatch tol2 mw mm (aff M zero) (lin M a) (lin M b) (map (tpeak M) pts)).
Proof. exact fastmatch_orthogonal. Qed.
Print Assumptions C05_rigid_motion_covariant.

Theorem C05_matching_step_rotation_invariant : forall tol2 M zero a b p, orthogonal M ->
  match_point tol2 (aff M zero) (lin M a) (lin M b) (aff M p) = match_point tol2 zero a b p.
Proof. exact match_point_orthogonal. Qed.
Print Assumptions C05_matching_step_rotation_invariant.

Import ListNotations.
(* ---- non-vacuity: the hypotheses above are met by concrete inputs (computed inside Coq) ---- *)
Open Scope Q_scope.
Definition nv_pts : list peak :=
  [ {| k_w := 1; k_p := (10, 10) |}; {| k_w := 2; k_p := (30, 10) |}; {| k_w := 1; k_p := (10, 32) |};
    {| k_w := 3#2; k_p := (30, 32) |}; {| k_w := 1#100; k_p := (50, 10) |}; {| k_w := 1; k_p := (20, 21) |} ].
(* a cloud on which fastmatch is Valid, with four matched peaks (the weak and the half-cell peak are left out) *)
Example nv_fastmatch_valid :
  match fastmatch (9#1) (1#10) 3 (10, 10) (20, 0) (0, 22) nv_pts with Valid m _ _ _ => count_some m = 4%Z | Invalid _ => False end.
Proof. vm_compute. reflexivity. Qed.

