(* C19 - Sparse mask stacks equal dense stamping with clipping. *)
From Coq Require Import ZArith List.
From BF Require Import Base.Util Model.Stamp Proofs.StampP.
Open Scope Z_scope.

(* every layer of the sparse stack, densified, is the sum of the clipped stamps placed on it: for any template, image
   size, list of placements (layer, offsetY, offsetX) in any order, with any offsets (negative, beyond the image) *)
Theorem C19_layer_is_clipped_stamp : forall th tw t H W placements l y x,
  todense (coo_entries th tw t H W placements) l y x =
  sumZ (map (fun p => match p with (l', oy, ox) => if l' =? l then stamp th tw t oy ox H W y x else 0 end) placements).
Proof. exact stack_layer_spec. Qed.
Print Assumptions C19_layer_is_clipped_stamp.

Theorem C19_single_placement : forall th tw t H W l oy ox l' y x,
  todense (place th tw t H W l oy ox) l' y x = if l =? l' then stamp th tw t oy ox H W y x else 0.
Proof. exact place_dense. Qed.
Print Assumptions C19_single_placement.

(* empty if the template lies entirely outside the image; nothing outside the image *)
Theorem C19_entirely_outside_is_empty : forall th tw t oy ox H W y x,
  (oy + th <= 0 \/ H <= oy \/ ox + tw <= 0 \/ W <= ox) -> stamp th tw t oy ox H W y x = 0.
Proof. exact stamp_outside_is_empty. Qed.
Print Assumptions C19_entirely_outside_is_empty.

(* feature_vector: the mask's centre pixel lands on the peak *)
Theorem C19_feature_vector_centre_on_peak : forall c t py px H W, 0 <= c -> 0 <= py < H -> 0 <= px < W ->
  stamp (2 * c + 1) (2 * c + 1) t (py - c) (px - c) H W py px = t c c.
Proof. exact feature_vector_centre. Qed.
Print Assumptions C19_feature_vector_centre_on_peak.

(* sparse circular stack = dense non-antialiased disk d^2 <= R^2 at the integer centre (R = p/q, box side 2c+1, c >= R) *)
Theorem C19_circular_stack_is_dense_disk : forall p q c cy cx H W y x, 0 < q -> 0 <= p -> p <= q * c ->
  stamp (2 * c + 1) (2 * c + 1) (disk_tmpl p q c) (cy - c) (cx - c) H W y x = disk_dense p q cy cx H W y x.
Proof. exact circular_stack_is_dense_disk. Qed.
Print Assumptions C19_circular_stack_is_dense_disk.
