(* C10 - Correlation UDFs equal the stand-alone result under any partitioning/tiling. *)
From Coq Require Import ZArith List QArith.
From BF Require Import Base.Util Model.Crop Model.Eval Model.Blocks Model.Pipeline Model.Stamp Model.Match Model.UDF
  Proofs.PipelineP Proofs.UDFP Proofs.BlocksP.
Open Scope Z_scope.

(* frame UDFs: for ANY grouping of the frames into partitions (sizes, order, single-frame partitions), any buffer count
   (byte limit) and either cropping back-end, the result stored for frame i is the stand-alone per-peak result of frame i *)
Theorem C10_any_partitioning : forall b one lg c mask bc frames parts fresh, 0 <= c -> wf_frames frames ->
  (forall i, In i (concat parts) -> exists o, run_dataset b one lg c mask bc frames parts fresh i = Some o /\
                                             forall k, o k = pure_frame one lg c mask frames i k) /\
  (forall i, ~ In i (concat parts) -> run_dataset b one lg c mask bc frames parts fresh i = None).
Proof. exact udf_any_schedule. Qed.
Print Assumptions C10_any_partitioning.

(* the byte limit only changes the buffer count, which is irrelevant (C08) *)
Theorem C10_limit_irrelevant : forall (A : Type) (f : Z -> A) n bc1 bc2 o1 o2 i,
  0 <= n -> 1 <= bc1 -> 1 <= bc2 -> 0 <= i < n -> process_blocks f n bc1 o1 i = process_blocks f n bc2 o2 i.
Proof. exact @process_blocks_indep. Qed.
Print Assumptions C10_limit_irrelevant.

(* peaks are round(peaks) + round(zero_shift), which is not round(peaks + zero_shift) *)
Theorem C10_rounding_of_shifted_peaks :
  fst (shifted_peak ((15#1), (0#1))%Q ((1#2), (0#1))%Q) <> round_he ((15#1) + (1#2))%Q.
Proof. exact shifted_peak_not_round_of_sum. Qed.
Print Assumptions C10_rounding_of_shifted_peaks.

(* sparse UDF: summing tile by tile over any grid of row bands x column bands equals the sum over the signal plane *)
Theorem C10_tiles_sum : forall rcuts ccuts H W (g : Z -> Z -> Z), chain rcuts -> chain ccuts ->
  hd 0 rcuts = 0 -> last rcuts 0 = H -> hd 0 ccuts = 0 -> last ccuts 0 = W ->
  sumZ (map (fun tl => sum_tile tl g) (grid_tiles rcuts ccuts)) = sum_plane H W g.
Proof. exact tiles_sum. Qed.
Print Assumptions C10_tiles_sum.

(* the dot product with a stamped mask is the direct correlation with the template at that offset (zero outside the frame) *)
Theorem C10_sparse_is_direct_correlation : forall th tw t oy ox H W v,
  sum_plane H W (fun y x => stamp th tw t oy ox H W y x * v y x) = direct_corr th tw t oy ox H W v.
Proof. exact sparse_is_direct_correlation. Qed.
Print Assumptions C10_sparse_is_direct_correlation.

(* tiling independence holds for any per-pixel value that does not depend on the tile ... *)
Theorem C10_sparse_tiling_independent_for_tile_independent_values : forall rcuts ccuts th tw t oy ox H W v, chain rcuts -> chain ccuts ->
  hd 0 rcuts = 0 -> last rcuts 0 = H -> hd 0 ccuts = 0 -> last ccuts 0 = W ->
  sparse_corr_tiles (grid_tiles rcuts ccuts) th tw t oy ox H W v = direct_corr th tw t oy ox H W v.
Proof. exact sparse_tiles_direct. Qed.
Print Assumptions C10_sparse_tiling_independent_for_tile_independent_values.

(* ... and, for the code as it is (log scaling per tile), PARTIALLY: when all tiles have the same minimum *)
Theorem C10_sparse_tiling_independent_partial : forall lg one rcuts ccuts th tw t oy ox H W stack f m, chain rcuts -> chain ccuts ->
  hd 0 rcuts = 0 -> last rcuts 0 = H -> hd 0 ccuts = 0 -> last ccuts 0 = W ->
  (forall tl, In tl (grid_tiles rcuts ccuts) -> tile_min tl stack = m) ->
  sparse_corr_code lg one (grid_tiles rcuts ccuts) th tw t oy ox H W stack f = direct_corr th tw t oy ox H W (fun y x => lg (f y x - m + one)).
Proof. exact sparse_code_partial. Qed.
Print Assumptions C10_sparse_tiling_independent_partial.

(* ... but REFUTED in general: known finding F9 (SparseCorrelationUDF.process_tile log-scales with the tile's own minimum) *)
Theorem C10_sparse_tiling_independent_refuted : exists lg one tiles1 tiles2 th tw t oy ox H W f,
  sparse_corr_code lg one tiles1 th tw t oy ox H W (cons f nil) f <> sparse_corr_code lg one tiles2 th tw t oy ox H W (cons f nil) f.
Proof. exact sparse_tiling_dependent_refuted. Qed.
Print Assumptions C10_sparse_tiling_independent_refuted.

(* ---- non-vacuity: a grid of tiles that meets the hypotheses of the tiling theorems (rows cut at 2, columns at 3 and 4) ---- *)
Import ListNotations.
Example nv_chain_grid : chain [0; 2; 5]%Z /\ chain [0; 3; 4; 6]%Z /\ hd 0%Z [0; 2; 5]%Z = 0%Z /\ last [0; 2; 5]%Z 0%Z = 5%Z /\ last [0; 3; 4; 6]%Z 0%Z = 6%Z.
Proof. repeat split; repeat constructor; vm_compute; discriminate. Qed.
