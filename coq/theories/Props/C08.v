(* C08 - Results do not depend on buffer size, peak order or other peaks. *)
From Coq Require Import ZArith List Permutation.
From BF Require Import Base.Util Model.Blocks Model.Pipeline Proofs.BlocksP Proofs.PipelineP Proofs.ComposeP.
Open Scope Z_scope.

(* the loop writes, for every number of peaks n >= 0 and every buffer count bc >= 1 (also bc > n, and the
   tail block when bc does not divide n), exactly the entries [0,n) of the outputs, entry i with the result
   of peak i: independent of bc and of what the output arrays held before *)
Theorem C08_block_loop_is_map : forall (A : Type) (f : Z -> A) n bc out0 i, 0 <= n -> 1 <= bc ->
  process_blocks f n bc out0 i = if inb n i then f i else out0 i.
Proof. exact @process_blocks_spec. Qed.
Print Assumptions C08_block_loop_is_map.

Theorem C08_independent_of_buffer_count : forall (A : Type) (f : Z -> A) n bc1 bc2 o1 o2 i,
  0 <= n -> 1 <= bc1 -> 1 <= bc2 -> 0 <= i < n ->
  process_blocks f n bc1 o1 i = process_blocks f n bc2 o2 i.
Proof. exact @process_blocks_indep. Qed.
Print Assumptions C08_independent_of_buffer_count.

Theorem C08_blocks_cover_each_index_once : forall n bc i, 0 <= n -> 1 <= bc ->
  (0 <= i < n <-> exists b, 0 <= b < block_count n bc /\ blk_start bc b <= i < blk_stop n bc b).
Proof. exact blocks_cover. Qed.
Print Assumptions C08_blocks_cover_each_index_once.

Theorem C08_block_of_index_unique : forall n bc i b, 1 <= bc -> 0 <= b ->
  blk_start bc b <= i < blk_stop n bc b -> b = i / bc.
Proof. exact block_unique. Qed.
Print Assumptions C08_block_of_index_unique.

Theorem C08_block_sizes_fit_buffer : forall n bc b, 1 <= n -> 1 <= bc -> 0 <= b < block_count n bc ->
  1 <= blk_stop n bc b - blk_start bc b <= bc.
Proof. exact blocks_sizes. Qed.
Print Assumptions C08_block_sizes_fit_buffer.

Theorem C08_buf_count_bounds : forall c n itemsize limit, 1 <= n -> 1 <= itemsize -> 1 <= c -> 0 <= limit ->
  1 <= buf_count c n itemsize limit <= n /\
  (full_size c itemsize <= limit -> buf_count c n itemsize limit * full_size c itemsize <= limit).
Proof. exact buf_count_bounds. Qed.
Print Assumptions C08_buf_count_bounds.

(* since entry i is [f (peak i)], permuting / duplicating / adding peaks permutes / duplicates / adds entries *)
Theorem C08_per_peak_results_follow_the_peak_list : forall (P R : Type) (g : P -> R) (l l' : list P),
  Permutation l l' -> Permutation (map g l) (map g l').
Proof. intros. apply Permutation_map. assumption. Qed.
Print Assumptions C08_per_peak_results_follow_the_peak_list.

Theorem C08_other_peaks_do_not_matter : forall (P R : Type) (g : P -> R) (l1 l2 : list P) (p : P),
  nth (length l1) (map g (l1 ++ p :: l2)) (g p) = g p.
Proof.
  intros. rewrite map_app. rewrite app_nth2 by (rewrite map_length; apply le_n).
  rewrite map_length, PeanoNat.Nat.sub_diag. reflexivity.
Qed.
Print Assumptions C08_other_peaks_do_not_matter.

(* the models of process_frame_fast / process_frame_full: output entry i is the per-peak function of
   (frame, pattern, peak i) only -- for every buffer count, every other content of the peak list, every previous
   content of the output arrays *)
Theorem C08_fast_per_peak : forall one lg fy fx f c mask peaks n bc out0 i, 0 <= n -> 1 <= bc ->
  process_frame_fast_model one lg fy fx f c mask peaks n bc out0 i =
  if inb n i then fast_peak one lg fy fx f c mask (peaks i) else out0 i.
Proof. exact process_frame_fast_per_peak. Qed.
Print Assumptions C08_fast_per_peak.

Theorem C08_full_per_peak : forall one lg fy fx f c mask peaks n bc out0 i, 0 <= n -> 1 <= bc ->
  process_frame_full_model one lg fy fx f c mask peaks n bc out0 i =
  if inb n i then full_peak one lg fy fx f c mask (peaks i) else out0 i.
Proof. exact process_frame_full_per_peak. Qed.
Print Assumptions C08_full_per_peak.

(* reordering / duplicating / subsetting the peak list (any map sigma of positions) and changing the buffer count reorders the
   results accordingly: entry i of the run on the rearranged list is entry sigma(i) of the run on the original list *)
Theorem C08_fast_results_follow_the_peak_list : forall one lg fy fx f c mask peaks (sigma : Z -> Z) n bc1 bc2 o1 o2 i,
  0 <= n -> 1 <= bc1 -> 1 <= bc2 -> 0 <= i < n -> 0 <= sigma i < n ->
  process_frame_fast_model one lg fy fx f c mask (fun k => peaks (sigma k)) n bc1 o1 i =
  process_frame_fast_model one lg fy fx f c mask peaks n bc2 o2 (sigma i).
Proof. exact fast_results_follow_the_peak_list. Qed.
Print Assumptions C08_fast_results_follow_the_peak_list.

Theorem C08_full_results_follow_the_peak_list : forall one lg fy fx f c mask peaks (sigma : Z -> Z) n bc1 bc2 o1 o2 i,
  0 <= n -> 1 <= bc1 -> 1 <= bc2 -> 0 <= i < n -> 0 <= sigma i < n ->
  process_frame_full_model one lg fy fx f c mask (fun k => peaks (sigma k)) n bc1 o1 i =
  process_frame_full_model one lg fy fx f c mask peaks n bc2 o2 (sigma i).
Proof. exact full_results_follow_the_peak_list. Qed.
Print Assumptions C08_full_results_follow_the_peak_list.
