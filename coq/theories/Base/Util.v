(* Base utilities: integer ranges, finite sums, permutation invariance.
   Stdlib only; no axioms. *)
From Coq Require Import ZArith List Lia Bool Permutation.
Import ListNotations.
Open Scope Z_scope.

Definition zseq (n : Z) : list Z := map Z.of_nat (seq 0 (Z.to_nat n)).
Definition zrange (a b : Z) : list Z := map (Z.add a) (zseq (b - a)).
Definition sumZ (l : list Z) : Z := fold_right Z.add 0 l.
Definition Zsum (n : Z) (f : Z -> Z) : Z := sumZ (map f (zseq n)).
Definition inb (n i : Z) : bool := (0 <=? i) && (i <? n).

Lemma inb_true n i : inb n i = true <-> 0 <= i < n.
Proof. unfold inb. rewrite andb_true_iff, Z.leb_le, Z.ltb_lt. tauto. Qed.
Lemma inb_false n i : inb n i = false <-> (i < 0 \/ n <= i).
Proof. unfold inb. rewrite andb_false_iff, Z.leb_gt, Z.ltb_ge. tauto. Qed.

Lemma in_zseq n x : In x (zseq n) <-> 0 <= x < n.
Proof.
  unfold zseq. rewrite in_map_iff. split.
  - intros (k & <- & Hk). apply in_seq in Hk. lia.
  - intros H. exists (Z.to_nat x). split; [lia|]. apply in_seq. lia.
Qed.

Lemma zseq_length n : length (zseq n) = Z.to_nat n.
Proof. unfold zseq. rewrite map_length, seq_length. reflexivity. Qed.

Lemma NoDup_zseq n : NoDup (zseq n).
Proof. unfold zseq. apply FinFun.Injective_map_NoDup; [intros a b; lia|apply seq_NoDup]. Qed.

Lemma zseq_nonpos n : n <= 0 -> zseq n = [].
Proof. intros H. unfold zseq. replace (Z.to_nat n) with 0%nat by lia. reflexivity. Qed.

Lemma zseq_succ n : 0 <= n -> zseq (n + 1) = zseq n ++ [n].
Proof.
  intros H. unfold zseq. replace (Z.to_nat (n + 1)) with (S (Z.to_nat n)) by lia.
  rewrite seq_S, map_app. cbn [map]. rewrite Nat.add_0_l, Z2Nat.id by lia. reflexivity.
Qed.

Lemma nth_zseq n i d : 0 <= i < n -> nth (Z.to_nat i) (zseq n) d = i.
Proof.
  intros H. unfold zseq.
  rewrite nth_indep with (d' := Z.of_nat 0) by (rewrite map_length, seq_length; lia).
  rewrite map_nth, seq_nth by lia. lia.
Qed.

Lemma in_zrange a b x : In x (zrange a b) <-> a <= x < b.
Proof.
  unfold zrange. rewrite in_map_iff. split.
  - intros (k & <- & Hk). apply in_zseq in Hk. lia.
  - intros H. exists (x - a). split; [lia|]. apply in_zseq. lia.
Qed.

Lemma zrange_length a b : length (zrange a b) = Z.to_nat (b - a).
Proof. unfold zrange. rewrite map_length. apply zseq_length. Qed.

Lemma seq_shift_Z k : forall s a, 0 <= a ->
  map Z.of_nat (seq (Z.to_nat a + s) k) = map (fun x => a + Z.of_nat x) (seq s k).
Proof.
  induction k as [|k IH]; intros s a Ha; [reflexivity|].
  cbn [seq map]. f_equal; [lia|]. rewrite <- IH by assumption. f_equal. f_equal. lia.
Qed.

Lemma zseq_app a b : 0 <= a -> 0 <= b -> zseq (a + b) = zseq a ++ zrange a (a + b).
Proof.
  intros Ha Hb. unfold zrange, zseq. replace (a + b - a) with b by lia.
  replace (Z.to_nat (a + b)) with (Z.to_nat a + Z.to_nat b)%nat by lia.
  rewrite seq_app, map_app. f_equal. rewrite Nat.add_0_l.
  rewrite map_map. rewrite <- (Nat.add_0_r (Z.to_nat a)). apply seq_shift_Z. exact Ha.
Qed.

Lemma zrange_split a b c : a <= b <= c -> zrange a c = zrange a b ++ zrange b c.
Proof.
  intros H. unfold zrange.
  replace (c - a) with ((b - a) + (c - b)) by lia.
  rewrite zseq_app by lia. rewrite map_app. f_equal.
  unfold zrange. rewrite map_map. replace (b - a + (c - b) - (b - a)) with (c - b) by lia.
  apply map_ext. intros x. lia.
Qed.

Lemma zrange_empty a b : b <= a -> zrange a b = [].
Proof. intros H. unfold zrange. rewrite zseq_nonpos by lia. reflexivity. Qed.

Lemma zrange_0 n : zrange 0 n = zseq n.
Proof. unfold zrange. rewrite Z.sub_0_r. rewrite <- (map_id (zseq n)) at 2. apply map_ext. intros; lia. Qed.

Lemma sumZ_app l1 l2 : sumZ (l1 ++ l2) = sumZ l1 + sumZ l2.
Proof. unfold sumZ. induction l1 as [|x l1 IH]; cbn [app fold_right]; lia. Qed.

Lemma sumZ_perm l l' : Permutation l l' -> sumZ l = sumZ l'.
Proof. unfold sumZ; induction 1; cbn [fold_right] in *; lia. Qed.

Lemma sumZ_map_ext {A} (f g : A -> Z) l : (forall x, In x l -> f x = g x) -> sumZ (map f l) = sumZ (map g l).
Proof. intros H. f_equal. apply map_ext_in. exact H. Qed.

Lemma sumZ_map_add {A} (f g : A -> Z) l : sumZ (map (fun x => f x + g x) l) = sumZ (map f l) + sumZ (map g l).
Proof. unfold sumZ. induction l as [|x l IH]; cbn [map fold_right]; lia. Qed.

Lemma sumZ_map_scale {A} k (f : A -> Z) l : sumZ (map (fun x => k * f x) l) = k * sumZ (map f l).
Proof. unfold sumZ. induction l as [|x l IH]; cbn [map fold_right]; lia. Qed.

Lemma sumZ_map_const0 {A} (l : list A) : sumZ (map (fun _ => 0) l) = 0.
Proof. unfold sumZ. induction l as [|x l IH]; cbn [map fold_right]; lia. Qed.

Lemma sumZ_nonneg l : (forall x, In x l -> 0 <= x) -> 0 <= sumZ l.
Proof.
  unfold sumZ. induction l as [|x l IH]; intros H; cbn [fold_right]; [lia|].
  assert (0 <= x) by (apply H; left; reflexivity).
  assert (0 <= fold_right Z.add 0 l) by (apply IH; intros; apply H; right; assumption). lia.
Qed.

Lemma sumZ_map_le {A} (f g : A -> Z) l : (forall x, In x l -> f x <= g x) -> sumZ (map f l) <= sumZ (map g l).
Proof.
  unfold sumZ. induction l as [|x l IH]; intros H; cbn [map fold_right]; [lia|].
  assert (f x <= g x) by (apply H; left; reflexivity).
  assert (fold_right Z.add 0 (map f l) <= fold_right Z.add 0 (map g l)) by (apply IH; intros; apply H; right; assumption). lia.
Qed.

Lemma NoDup_map_inj_in {A B} (f : A -> B) l :
  (forall x y, In x l -> In y l -> f x = f y -> x = y) -> NoDup l -> NoDup (map f l).
Proof.
  induction l as [|a l IH]; intros Hinj Hnd; cbn; [constructor|].
  inversion Hnd as [|? ? Hna Hnd']; subst. constructor.
  - intros Hin. apply in_map_iff in Hin. destruct Hin as (b & E & Hb).
    assert (b = a) by (apply Hinj; [right; assumption|left; reflexivity|assumption]). subst. contradiction.
  - apply IH; [|assumption]. intros x y Hx Hy. apply Hinj; right; assumption.
Qed.

(* a bijection of [0,n) onto itself leaves a sum over [0,n) unchanged *)
Lemma Zsum_reindex n (s : Z -> Z) (f : Z -> Z) :
  (forall x, 0 <= x < n -> 0 <= s x < n) ->
  (forall x y, 0 <= x < n -> 0 <= y < n -> s x = s y -> x = y) ->
  Zsum n (fun t => f (s t)) = Zsum n f.
Proof.
  intros Hr Hi. unfold Zsum. rewrite <- (map_map s f).
  apply sumZ_perm, Permutation_map. apply NoDup_Permutation_bis.
  - apply NoDup_map_inj_in; [|apply NoDup_zseq].
    intros x y Hx Hy. apply in_zseq in Hx, Hy. apply Hi; assumption.
  - rewrite map_length. reflexivity.
  - intros z Hz. apply in_map_iff in Hz. destruct Hz as (t & <- & Ht). apply in_zseq in Ht. apply in_zseq. apply Hr, Ht.
Qed.

Lemma Zsum_ext n f g : (forall x, 0 <= x < n -> f x = g x) -> Zsum n f = Zsum n g.
Proof. intros H. unfold Zsum. apply sumZ_map_ext. intros x Hx. apply in_zseq in Hx. apply H, Hx. Qed.
