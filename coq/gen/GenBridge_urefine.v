(* (G) the refinement mixins of udf/refinement.py as read from the current source *)
From Coq Require Import ZArith QArith List Bool.
From BFGen Require Import GenU.
Open Scope Z_scope.

(* frame k: matched on its own buffers, result stored in its own slot, fast matching started from start_zero + that frame's shift *)
Lemma bridge_refinement_per_frame k z0 zs :
  gen_refine_reads_frame k = k /\ gen_refine_writes_frame k = k /\ (gen_refine_start_zero z0 zs == z0 + zs)%Q.
Proof. repeat split; reflexivity. Qed.
