(* (G) property clauses stated directly about the kernels AS COMPILED FROM THE CURRENT SOURCE (GenK.v), for all inputs:
   obtained by composing the bridge lemmas with the theorems about the model. *)
From Coq Require Import ZArith Bool List Lia.
From BF Require Import Base.Util Model.Crop Model.Eval Proofs.CropP Proofs.EvalP.
From BFGen Require Import GenK GenBridge_k.
Open Scope Z_scope.

(* C04 / C03: evaluate_correlations on a (2c x 2c) map: the stored centre lies in [peak - c, peak + c - 1] per axis, the stored
   height is the maximum of the map, the refined position is a fraction with positive denominator within 2 px of the centre
   (before the shift to frame coordinates), and the cut-out slice never needs numpy's clamping *)
Theorem source_evaluate_correlations_wellformed c a py px : 1 <= c ->
  let '(cen, refd, height, pos, eh, ok) := gen_ec (2 * c) (2 * c) a py px c in
  (py - c <= fst cen <= py + c - 1 /\ px - c <= snd cen <= px + c - 1) /\
  (forall u v, 0 <= u < 2 * c -> 0 <= v < 2 * c -> a u v <= height) /\ eh = height /\ ok = true /\
  (0 < snd (fst pos) /\ 0 < snd (snd pos) /\
   Z.abs (fst (fst pos) - (fst cen - py + c) * snd (fst pos)) <= 2 * snd (fst pos) /\
   Z.abs (fst (snd pos) - (snd cen - px + c) * snd (snd pos)) <= 2 * snd (snd pos)).
Proof.
  intros Hc. assert (HH : 1 <= 2 * c) by lia.
  pose proof (bridge_evaluate_correlations (2 * c) (2 * c) a py px c HH HH) as B.
  pose proof (argmax2_spec (2 * c) (2 * c) a HH HH) as S.
  pose proof (refine_com_den_pos (2 * c) (2 * c) a HH HH) as D.
  destruct (argmax2 (2 * c) (2 * c) a) as [y x]. cbv zeta in B. destruct B as [B _]. rewrite B. clear B.
  destruct S as ((Hy & Hx) & Hmax & _).
  pose proof (refine_com_bounds (2 * c) (2 * c) a y x) as R. cbv zeta in R. destruct R as (Ry & Rx & Rr & Rs).
  unfold refine_com in *. fold (clip_r (2 * c) (2 * c) y x) in *. set (r := clip_r (2 * c) (2 * c) y x) in *.
  unfold shift. cbn [fst snd].
  split; [lia|]. split; [exact Hmax|]. split; [reflexivity|]. split; [reflexivity|].
  destruct (r <=? 0) eqn:Er; cbn [com_r com_sy com_sx com_s fst snd] in *; rewrite ?Er in *; cbn [fst snd].
  - repeat split; lia.
  - apply Z.leb_gt in Er. specialize (D ltac:(lia)). cbn [com_s] in D.
    set (s := Zsum _ _) in *. repeat split; try exact D; nia.
Qed.

