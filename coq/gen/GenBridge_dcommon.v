(* (G) dtype decisions of the batch entry points and of log_scale, read from the current source *)
From Coq Require Import ZArith Bool Lia.
From BF Require Import Model.Dtype Proofs.DtypeP.
From BFGen Require Import GenD.
Open Scope Z_scope.

Lemma bridge_common_buffer_dtypes d :
  gen_dt_frames_fast_crop_bufs d = result_type_f32 d /\ gen_dt_log_scale d = result_type_f32 d /\ gen_dt_frames_full_frame_buf d = NFloat 32.
Proof. repeat split. Qed.

Lemma bridge_common_centre_buffers_signed d :
  is_signed_int (gen_dt_frames_fast_centers d) 16 = true /\ is_signed_int (gen_dt_frames_full_centers d) 16 = true.
Proof. repeat split. Qed.

(* hence (Proofs/DtypeP): every pixel value of an 8/16/32-bit integer frame and every argument of the logarithm is exactly
   representable in the buffers the source allocates, and the centre buffers store coordinates of magnitude < 2^15 as they are *)
Theorem source_buffers_hold_integer_frames d bits sg v m : d = NInt bits sg -> (bits = 8 \/ bits = 16 \/ bits = 32) ->
  in_range d v -> in_range d m -> m <= v ->
  exact_in (gen_dt_frames_fast_crop_bufs d) v /\ exact_in (gen_dt_log_scale d) (v - m + 1).
Proof.
  intros E Hb Hv Hm Hle. destruct (bridge_common_buffer_dtypes d) as (E1 & E2 & _). rewrite E1, E2.
  split; [exact (promotion_holds_values d bits sg v E Hb Hv)|exact (promotion_holds_log_arguments d bits sg v m E Hb Hv Hm Hle)].
Qed.

Theorem source_centre_buffers_hold_coordinates d v : - 2 ^ 15 <= v < 2 ^ 15 ->
  in_range (gen_dt_frames_fast_centers d) v /\ in_range (gen_dt_frames_full_centers d) v.
Proof.
  intros Hv. destruct (bridge_common_centre_buffers_signed d) as [A B].
  split; apply signed_buffer_holds_coordinates; assumption.
Qed.
