(* (G) the vectorised formulas of common/gridmatching.py, evaluated symbolically for one generic row by
   harness/translate_v.py (square roots carried symbolically), equal the model *)
From Coq Require Import QArith Qround Qabs Qminmax Lqa Bool.
From BF Require Import Model.Lattice Model.WLS Model.Match Proofs.LatticeP Proofs.MatchP Proofs.MatchExactP.
From BFGen Require Import GenV.
Open Scope Q_scope.

(* weights of a row in the least-squares sum: Match.weighted_optimize scales both sides by sqrt(elevation) -> elevation;
   Match.optimize -> 1 *)
Lemma bridge_fit_weights w :
  gen_wopt_weight w = w /\ gen_opt_weight w = 1 /\ (forall i j, gen_wopt_design i j = (1, i, j)).
Proof. repeat split. Qed.
