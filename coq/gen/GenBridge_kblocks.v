(* (G) the block loops AS WRITTEN IN THE CURRENT SOURCE: every peak index is handed to evaluate_correlations (and to the
   crop function) in exactly one block, and the block's crop buffers suffice -- for all peak counts and buffer counts *)
From Coq Require Import ZArith Bool Lia.
From BF Require Import Base.Util Model.Blocks Proofs.BlocksP.
From BFGen Require Import Gen GenK GenBridge_blocks GenBridge_kcalls.
Open Scope Z_scope.

Theorem source_fast_every_peak_in_exactly_one_block n bc i : 0 <= n -> 1 <= bc ->
  (0 <= i < n <-> exists b, 0 <= b < gen_fast_block_count n bc /\
      fst (gen_fcall_evaluate_correlations_out_centers_out_centers n bc b) <= i < snd (gen_fcall_evaluate_correlations_out_centers_out_centers n bc b)) /\
  (forall b, 0 <= b -> fst (gen_fcall_crop_function_peaks_peaks n bc b) <= i < snd (gen_fcall_crop_function_peaks_peaks n bc b) -> b = i / bc).
Proof.
  intros Hn Hbc. destruct (bridge_fast_blocks n bc 0) as (Ec & _).
  split.
  - rewrite Ec. rewrite (blocks_cover n bc i Hn Hbc). split; intros [b [Hb Hi]]; exists b; (split; [exact Hb|]);
      destruct (bridge_fast_call_slices n bc b) as (_ & _ & E & _); rewrite E in *; cbn [fst snd] in *; exact Hi.
  - intros b Hb Hi. destruct (bridge_fast_call_slices n bc b) as (E & _). rewrite E in Hi. cbn [fst snd] in Hi.
    exact (block_unique n bc i b Hbc Hb Hi).
Qed.

Theorem source_full_every_peak_in_exactly_one_block n bc i : 0 <= n -> 1 <= bc ->
  (0 <= i < n <-> exists b, 0 <= b < gen_full_block_count n bc /\
      fst (gen_ucall_evaluate_correlations_out_centers_out_centers n bc b) <= i < snd (gen_ucall_evaluate_correlations_out_centers_out_centers n bc b)) /\
  (forall b, 0 <= b -> fst (gen_ucall_crop_function_peaks_peaks n bc b) <= i < snd (gen_ucall_crop_function_peaks_peaks n bc b) -> b = i / bc).
Proof.
  intros Hn Hbc. destruct (bridge_full_blocks n bc 0) as (Ec & _).
  split.
  - rewrite Ec. rewrite (blocks_cover n bc i Hn Hbc). split; intros [b [Hb Hi]]; exists b; (split; [exact Hb|]);
      destruct (bridge_full_call_slices n bc b) as (_ & _ & E & _); rewrite E in *; cbn [fst snd] in *; exact Hi.
  - intros b Hb Hi. destruct (bridge_full_call_slices n bc b) as (E & _). rewrite E in Hi. cbn [fst snd] in Hi.
    exact (block_unique n bc i b Hbc Hb Hi).
Qed.

(* the crop buffers handed to the kernels of a block are the first (stop - start) <= buffer count ones *)
Theorem source_block_fits_the_crop_buffers n bc b : 1 <= n -> 1 <= bc -> 0 <= b < gen_fast_block_count n bc ->
  fst (gen_fcall_crop_function_out_crop_bufs_crop_bufs n bc b) = 0 /\
  1 <= snd (gen_fcall_crop_function_out_crop_bufs_crop_bufs n bc b) <= bc.
Proof.
  intros Hn Hbc Hb. destruct (bridge_fast_blocks n bc 0) as (Ec & _). rewrite Ec in Hb.
  assert (E : gen_fcall_crop_function_out_crop_bufs_crop_bufs n bc b = (0, blk_stop n bc b - blk_start bc b)).
  { pose proof (bridge_fast_call_slices n bc b) as B. tauto. }
  rewrite E. cbn [fst snd]. split; [reflexivity|]. exact (blocks_sizes n bc b Hn Hbc Hb).
Qed.
