(* (G) the vectorised formulas of common/gridmatching.py, evaluated symbolically for one generic row by
   harness/translate_v.py (square roots carried symbolically), equal the model *)
From Coq Require Import QArith Qround Qabs Qminmax Lqa Bool.
From BF Require Import Model.Lattice Model.WLS Model.Match Proofs.LatticeP Proofs.MatchP Proofs.MatchExactP.
From BFGen Require Import GenV.
Open Scope Q_scope.

Lemma Qabs_sq x : Qabs x * Qabs x == x * x.
Proof. apply Qabs_case; intros _; ring. Qed.

(* Matcher._match_all, one point: squared error, rounding (half to even) and the accept decision *)
Lemma bridge_match_all_error a b i j : gen_ma_err2 a b i j == err2 a b (i, j).
Proof.
  unfold gen_ma_err2, err2, norm2. cbn [fst snd].
  set (di := i - inject_Z (round_he i)). set (dj := j - inject_Z (round_he j)).
  assert (E1 : Qabs di * Qabs di * (vy a * vy a + vx a * vx a) == di * di * (vy a * vy a + vx a * vx a)) by (rewrite <- (Qabs_sq di); ring).
  assert (E2 : Qabs dj * Qabs dj * (vy b * vy b + vx b * vx b) == dj * dj * (vy b * vy b + vx b * vx b)) by (rewrite <- (Qabs_sq dj); ring).
  rewrite E1, E2. reflexivity.
Qed.

Lemma bridge_match_all_decision tol a b i j :
  gen_ma_matched tol a b i j = Qlt_bool (err2 a b (i, j)) (tol * tol) /\
  gen_ma_rounded i j = (inject_Z (round_he i), inject_Z (round_he j)).
Proof.
  split; [|reflexivity]. unfold gen_ma_matched. apply Qlt_bool_comp. apply (bridge_match_all_error a b i j).
Qed.

