(* (G) FullMatcher._do_match: per pair of candidate vectors the first matching and the refinement run inside one try block whose
   LinAlgError handler skips the pair (structure checked by the translator); the pair contributes its match or nothing *)
From Coq Require Import List.
From BF Require Import Model.FullMatch.
From BFGen Require Import GenFM.
Import ListNotations.
Lemma bridge_do_match_pair m :
  gen_do_match_pair (Some (Some m)) = [m] /\ gen_do_match_pair (Some None) = [] /\ gen_do_match_pair None = [].
Proof. repeat split. Qed.
