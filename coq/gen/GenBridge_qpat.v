(* (G, rational part: qpat) theorems about / bridges for the definitions regenerated from the float formulas and guards of /repo *)
From Coq Require Import QArith Qround Qabs Qminmax Lqa Lia Bool ZArith.
From BF Require Import Model.Masks Model.Lattice Model.FullMatch Model.PadCrop Model.Upsample Proofs.MasksP.
From BFGen Require Import GenQ.
Open Scope Q_scope.

Lemma ltb_true a b : FullMatch.Qltb a b = true <-> a < b.
Proof.
  unfold FullMatch.Qltb. rewrite negb_true_iff. split.
  - intros H. apply Qnot_le_lt. intros Hc. apply Qle_bool_iff in Hc. congruence.
  - intros H. apply not_true_is_false. intros Hc. apply Qle_bool_iff in Hc. lra.
Qed.
Lemma ltb_false a b : FullMatch.Qltb a b = false <-> b <= a.
Proof. unfold FullMatch.Qltb. rewrite negb_false_iff. apply Qle_bool_iff. Qed.
Lemma leb_false a b : Qle_bool a b = false <-> b < a.
Proof.
  split.
  - intros H. apply Qnot_le_lt. intros Hc. apply Qle_bool_iff in Hc. congruence.
  - intros H. apply not_true_is_false. intros Hc. apply Qle_bool_iff in Hc. lra.
Qed.

(* constructor guards as written in the source: inconsistent radii / search are rejected, consistent ones accepted *)
Lemma bridge_guard_circular radius search :
  (gen_Circular_accept radius search = true <-> radius <= search) /\
  (gen_RadialGradient_accept radius search = true <-> radius <= search).
Proof.
  unfold gen_Circular_accept, gen_RadialGradient_accept. rewrite !negb_true_iff, !ltb_false. tauto.
Qed.

Lemma bridge_guard_bgsub radius ro search :
  (gen_BackgroundSubtraction_accept radius ro search = true <-> radius < ro /\ ro <= search) /\
  (gen_RadialGradientBackgroundSubtraction_accept radius ro search = true <-> radius < ro /\ ro <= search).
Proof.
  unfold gen_BackgroundSubtraction_accept, gen_RadialGradientBackgroundSubtraction_accept.
  rewrite !andb_true_iff, !negb_true_iff, !ltb_false, !leb_false. tauto.
Qed.

(* the defaults are accepted by the guards (positive radius) *)
Lemma bridge_defaults_accepted radius : 0 < radius ->
  gen_Circular_accept radius (gen_Circular_default_search radius) = true /\
  gen_BackgroundSubtraction_accept radius (gen_BackgroundSubtraction_default_radius_outer radius)
     (gen_BackgroundSubtraction_default_search radius (gen_BackgroundSubtraction_default_radius_outer radius)) = true /\
  gen_RadialGradientBackgroundSubtraction_accept radius (gen_RadialGradientBackgroundSubtraction_default_radius_outer radius)
     (gen_RadialGradientBackgroundSubtraction_default_search radius (gen_RadialGradientBackgroundSubtraction_default_radius_outer radius)) = true.
Proof.
  intros Hr. split; [|split].
  - apply bridge_guard_circular. unfold gen_Circular_default_search. lra.
  - apply bridge_guard_bgsub. unfold gen_BackgroundSubtraction_default_radius_outer, gen_BackgroundSubtraction_default_search.
    split; [lra|apply Q.le_max_r].
  - apply bridge_guard_bgsub. unfold gen_RadialGradientBackgroundSubtraction_default_radius_outer, gen_RadialGradientBackgroundSubtraction_default_search.
    split; [lra|apply Q.le_max_r].
Qed.

(* crop size is the ceiling of search *)
Lemma bridge_crop_size search : search <= gen_crop_size search /\ gen_crop_size search < search + 1.
Proof.
  unfold gen_crop_size. split; [apply Qle_ceiling|]. pose proof (Qceiling_lt search) as H.
  unfold Z.sub in H. rewrite inject_Z_plus in H. assert (E : inject_Z (-1)%Z == -(1)) by reflexivity. rewrite E in H. lra.
Qed.

(* default radial map: square, centred on pixel size // 2 on both axes *)
Lemma bridge_rmap radius ro :
  gen_rmap_centre_y radius ro = gen_rmap_centre_x radius ro /\
  gen_rmap_centre_y radius ro == inject_Z (Qfloor (gen_rmap_size radius ro / (2#1))) /\
  (2#1) * Qmax radius ro + (2#1) <= gen_rmap_size radius ro.
Proof.
  unfold gen_rmap_centre_y, gen_rmap_centre_x, gen_rmap_size. split; [reflexivity|]. split; [reflexivity|]. apply Qle_ceiling.
Qed.

