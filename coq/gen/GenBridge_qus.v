(* (G, rational part: qus) theorems about / bridges for the definitions regenerated from the float formulas and guards of /repo *)
From Coq Require Import QArith Qround Qabs Qminmax Lqa Lia Bool ZArith.
From BF Require Import Model.Masks Model.Lattice Model.FullMatch Model.PadCrop Model.Upsample Proofs.MasksP.
From BFGen Require Import GenQ.
Open Scope Q_scope.

Lemma ltb_true a b : FullMatch.Qltb a b = true <-> a < b.
Proof.
  unfold FullMatch.Qltb. rewrite negb_true_iff. split.
  - intros H. apply Qnot_le_lt. intros Hc. apply Qle_bool_iff in Hc. congruence.
  - intros H. apply not_true_is_false. intros Hc. apply Qle_bool_iff in Hc. lra.
Qed.
Lemma ltb_false a b : FullMatch.Qltb a b = false <-> b <= a.
Proof. unfold FullMatch.Qltb. rewrite negb_false_iff. apply Qle_bool_iff. Qed.
Lemma leb_false a b : Qle_bool a b = false <-> b < a.
Proof.
  split.
  - intros H. apply Qnot_le_lt. intros Hc. apply Qle_bool_iff in Hc. congruence.
  - intros H. apply not_true_is_false. intros Hc. apply Qle_bool_iff in Hc. lra.
Qed.

(* upsampling index skeleton for integer factors u >= 1 and integer sizes n >= 0 *)
Lemma Qceiling_half_odd u : (1 <= u)%Z -> Qceiling (inject_Z u * (3#2)) = us_region u.
Proof.
  intros Hu. unfold us_region, Qceiling, Qfloor, inject_Z, Qopp, Qmult. cbn [Qnum Qden].
  rewrite Pos.mul_1_l. change (Z.pos 2) with 2%Z.
  assert (E : (- (u * 3))%Z = (- (3 * u))%Z) by lia. rewrite E.
  Ltac Zify.zify_post_hook ::= Z.to_euclidean_division_equations. lia.
Qed.

Lemma bridge_upsample u n : (1 <= u)%Z -> (0 <= n)%Z ->
  gen_us_region (inject_Z u) == inject_Z (us_region u) /\
  gen_us_dftshift (inject_Z u) == inject_Z (us_dftshift u) /\
  gen_us_corr_center (inject_Z n) == inject_Z (us_corr_center n).
Proof.
  intros Hu Hn. unfold gen_us_region, gen_us_dftshift, gen_us_corr_center.
  rewrite (Qceiling_half_odd u Hu). split; [reflexivity|]. split.
  - unfold us_dftshift. unfold Qfloor, Qdiv, Qmult, Qinv, inject_Z. cbn [Qnum Qden]. rewrite Z.mul_1_r, Pos.mul_1_l. reflexivity.
  - unfold us_corr_center, Qceiling, Qfloor, Qopp, Qdiv, Qmult, Qinv, inject_Z. cbn [Qnum Qden]. rewrite Z.mul_1_r, Pos.mul_1_l.
    change (Z.pos 2) with 2%Z. apply inject_Z_injective || idtac.
    assert (E : (- (- n / 2))%Z = ((n + 1) / 2)%Z) by lia. rewrite E. reflexivity.
Qed.
