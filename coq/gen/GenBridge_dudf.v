(* (G) dtype decisions of the correlation UDFs, read from the current source *)
From Coq Require Import ZArith Bool Lia.
From BF Require Import Model.Dtype Proofs.DtypeP.
From BFGen Require Import GenD.
Open Scope Z_scope.

Lemma bridge_udf_buffer_dtypes d :
  gen_dt_udf_fast_buffer d = result_type_f32 d /\ gen_dt_udf_full_buffer d = result_type_f32 d /\ is_signed_int (gen_dt_udf_centers d) 16 = true.
Proof. repeat split. Qed.

Theorem source_udf_buffers_hold_integer_frames d bits sg v : d = NInt bits sg -> (bits = 8 \/ bits = 16 \/ bits = 32) -> in_range d v ->
  exact_in (gen_dt_udf_fast_buffer d) v /\ exact_in (gen_dt_udf_full_buffer d) v.
Proof.
  intros E Hb Hv. destruct (bridge_udf_buffer_dtypes d) as (E1 & E2 & _). rewrite E1, E2.
  split; exact (promotion_holds_values d bits sg v E Hb Hv).
Qed.
