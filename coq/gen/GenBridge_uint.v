(* (G) per-frame glue of the UDF classes as read from the current source *)
From Coq Require Import ZArith QArith Qround List Bool Lia.
From BF Require Import Base.Util Model.Lattice Model.Match Model.Crop Model.Pipeline Model.UDF Proofs.MatchP.
From BFGen Require Import GenU.
Open Scope Z_scope.

(* IntegrationUDF: window side 2c and the summand window * mask, as in UDF.integrate *)
Lemma bridge_integration fy fx f c mask py px :
  integrate fy fx f c mask py px =
  Zsum (gen_integration_window_side c) (fun y => Zsum (gen_integration_window_side c) (fun x => gen_integration_term (unopt (crop_px_at fy fx f c py px y x)) (mask y x))).
Proof. reflexivity. Qed.
