From Coq Require Import ZArith Bool Lia.
From BF Require Import Base.Util Model.PadCrop.
From BFGen Require Import Gen.
Open Scope Z_scope.

Lemma bridge_padcrop s t :
  gen_pc_extra s t = pc_extra s t /\ gen_pc_before s t = pc_before s t /\ gen_pc_after s t = pc_after s t.
Proof.
  unfold gen_pc_extra, gen_pc_before, gen_pc_after, pc_after, pc_extra, pc_before.
  destruct (Z.gtb_spec t s); cbv iota; repeat split; lia.
Qed.
