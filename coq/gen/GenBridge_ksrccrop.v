(* (G) property clauses stated directly about the kernels AS COMPILED FROM THE CURRENT SOURCE (GenK.v), for all inputs:
   obtained by composing the bridge lemmas with the theorems about the model. *)
From Coq Require Import ZArith Bool List Lia.
From BF Require Import Base.Util Model.Crop Model.Eval Proofs.CropP Proofs.EvalP.
From BFGen Require Import GenK GenBridge_kcrop.
Open Scope Z_scope.

(* C13: crop_disks_from_frame stores the zero-padded window of the frame around each peak *)
Theorem source_crop_is_zero_padded_window fy fx f c n h w py px i y x :
  gen_crop_store fy fx f c n h w py px i y x = pad0 fy fx f (py i - c + y) (px i - c + x).
Proof.
  pose proof (bridge_crop_store fy fx f c n h w py px i y x) as B.
  rewrite (crop_px_spec fy fx f c (py i) (px i) y x) in B. injection B as B. symmetry. exact B.
Qed.

