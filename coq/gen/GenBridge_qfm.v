(* (G, rational part: qfm) theorems about / bridges for the definitions regenerated from the float formulas and guards of /repo *)
From Coq Require Import QArith Qround Qabs Qminmax Lqa Lia Bool ZArith.
From BF Require Import Model.Masks Model.Lattice Model.FullMatch Model.PadCrop Model.Upsample Proofs.MasksP.
From BFGen Require Import GenQ.
Open Scope Q_scope.

Lemma ltb_true a b : FullMatch.Qltb a b = true <-> a < b.
Proof.
  unfold FullMatch.Qltb. rewrite negb_true_iff. split.
  - intros H. apply Qnot_le_lt. intros Hc. apply Qle_bool_iff in Hc. congruence.
  - intros H. apply not_true_is_false. intros Hc. apply Qle_bool_iff in Hc. lra.
Qed.
Lemma ltb_false a b : FullMatch.Qltb a b = false <-> b <= a.
Proof. unfold FullMatch.Qltb. rewrite negb_false_iff. apply Qle_bool_iff. Qed.
Lemma leb_false a b : Qle_bool a b = false <-> b < a.
Proof.
  split.
  - intros H. apply Qnot_le_lt. intros Hc. apply Qle_bool_iff in Hc. congruence.
  - intros H. apply not_true_is_false. intros Hc. apply Qle_bool_iff in Hc. lra.
Qed.

Lemma bridge_fullmatch_filters PI limit p1 p2 mn mx len :
  gen_angle_check PI limit p1 p2 = angle_check PI limit p1 p2 /\ gen_size_ok mn mx len = size_ok mn mx len.
Proof. split; reflexivity. Qed.

