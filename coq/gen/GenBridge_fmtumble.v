(* (G) FullMatcher._tumble and FullMatcher.check as read from the current source: the step sequence is the model's
   (check, optimise, check, re-match, check, optimise, check) and the check is the model's conjunction *)
From Coq Require Import ZArith List Bool QArith Lia.
From BF Require Import Model.Lattice Model.Match Model.FullMatch Model.Tumble Proofs.TumbleP.
From BFGen Require Import GenFM.
Import ListNotations.

Lemma bridge_tumble_steps : gen_tumble_steps = tumble_steps.
Proof. reflexivity. Qed.

Lemma bridge_check mm mind2 maxd2 s2 m a b : gen_check mm mind2 maxd2 s2 m a b = check mm mind2 maxd2 s2 m a b.
Proof.
  unfold gen_check, check. f_equal. f_equal.
  destruct (Z.ltb_spec (count_some m) mm), (Z.leb_spec mm (count_some m)); try reflexivity; lia.
Qed.

(* hence: whatever _tumble (as written in the source) returns satisfies C12's clauses on a returned match *)
Theorem source_tumble_returns_self_consistent_matches tol2 mm mind2 maxd2 s2 sel pts t0 m z a b :
  tsteps_run tol2 mm mind2 maxd2 s2 sel pts gen_tumble_steps t0 = Some (m, z, a, b) ->
  (mm <= count_some m)%Z /\ (mind2 <= norm2 a <= maxd2)%Q /\ (mind2 <= norm2 b <= maxd2)%Q /\
  (s2 * (norm2 a * norm2 b) < det2 a b * det2 a b)%Q.
Proof.
  rewrite bridge_tumble_steps. intros H.
  destruct (tumble_spec tol2 mm mind2 maxd2 s2 sel pts t0 m z a b H) as (H1 & H2 & H3 & H4 & _). tauto.
Qed.
