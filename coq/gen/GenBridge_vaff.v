(* (G) the vectorised formulas of common/gridmatching.py, evaluated symbolically for one generic row by
   harness/translate_v.py (square roots carried symbolically), equal the model *)
From Coq Require Import QArith Qround Qabs Qminmax Lqa Bool.
From BF Require Import Model.Lattice Model.WLS Model.Match Proofs.LatticeP Proofs.MatchP Proofs.MatchExactP.
From BFGen Require Import GenV.
Open Scope Q_scope.

(* get_transformation scales both sides of the system by the given weight: the weight of a row in the sum of squares is
   its square; design row (ref - c, 1) -- as in WLS.trows *)
Lemma bridge_transformation_weights w :
  gen_gt_weight w = w * w /\ (forall c r, gen_gt_design c r = (vy r - vy c, vx r - vx c, 1)).
Proof. repeat split. Qed.
