(* (G) C05 clauses stated directly about Matcher._match_all AS TRANSLATED FROM THE CURRENT SOURCE (GenV.v) *)
From Coq Require Import QArith Qround Qabs Qminmax Lqa Bool.
From BF Require Import Model.Lattice Model.Match Proofs.MatchP Proofs.MatchExactP.
From BFGen Require Import GenV GenBridge_vmatch.
Open Scope Q_scope.

(* a point with exactly integer indices is accepted for every tolerance > 0 and gets these indices *)
Theorem source_lattice_point_is_matched tol a b i j : 0 < tol ->
  gen_ma_matched tol a b (inject_Z i) (inject_Z j) = true /\ gen_ma_rounded (inject_Z i) (inject_Z j) = (inject_Z i, inject_Z j).
Proof.
  intros Ht. destruct (bridge_match_all_decision tol a b (inject_Z i) (inject_Z j)) as [E1 E2]. rewrite E1, E2. split.
  - apply Qlt_bool_true. rewrite (err2_integer a b i j). nra.
  - rewrite !round_he_int. reflexivity.
Qed.

(* a point half a cell away along a is rejected whenever tolerance^2 <= |a|^2 / (4 max(1, |i|)) *)
Theorem source_half_cell_is_rejected tol a b n jq : 0 < norm2 a -> 0 <= norm2 b ->
  tol * tol <= norm2 a / ((4#1) * Qmax 1 (Qabs (inject_Z n + (1#2)))) ->
  gen_ma_matched tol a b (inject_Z n + (1#2)) jq = false.
Proof.
  intros Ha Hb Ht. destruct (bridge_match_all_decision tol a b (inject_Z n + (1#2)) jq) as [E1 _]. rewrite E1.
  exact (half_cell_rejected (tol * tol) a b n jq Ha Hb Ht).
Qed.
