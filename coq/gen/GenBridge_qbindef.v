(* (G) the all-default layout of masks.radial_bins: radius = bounding_radius(...) (an integer), n_bins = round(radius - radius_inner) *)
From Coq Require Import QArith Qround ZArith Lia Lqa.
From BF Require Import Model.Match Model.Masks Model.BinDefaults Proofs.MasksP Proofs.BinDefaultsP.
From BFGen Require Import GenQ.
Open Scope Q_scope.

Lemma bridge_default_n_bins R ri : gen_default_n_bins R ri = default_n_bins R ri.
Proof. reflexivity. Qed.

Lemma bridge_bounding_radius k : gen_bounding_radius_of_ceil_sqrt k = bounding_radius_of_ceil_sqrt k.
Proof. reflexivity. Qed.

(* source level: with the defaults (inner radius 0) the bins are exactly one pixel wide, so the partition-of-unity theorem applies:
   the bins sum to 1 at every pixel with 1/2 <= r <= R - 1/2 *)
Lemma source_default_layout_partition R r : (1 <= R)%Z -> (1#2) <= r -> r <= inject_Z R - (1#2) ->
  sumQ (bins (Z.to_nat (gen_default_n_bins R 0)) 1 0 r) == 1.
Proof. intros. rewrite bridge_default_n_bins. apply default_layout_partition; assumption. Qed.

Lemma source_default_layout_width_one R : (1 <= R)%Z -> (inject_Z R - 0) / inject_Z (gen_default_n_bins R 0) == 1.
Proof. intros. rewrite bridge_default_n_bins. apply default_layout_width_one; assumption. Qed.
