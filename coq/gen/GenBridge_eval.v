From Coq Require Import ZArith Bool Lia.
From BF Require Import Base.Util Model.Eval.
From BFGen Require Import Gen.
Open Scope Z_scope.

Lemma bridge_clip_r H W y x : gen_clip_r H W y x 2 = clip_r H W y x.
Proof. unfold gen_clip_r, clip_r. reflexivity. Qed.

Lemma bridge_shift r p c : gen_shift r p c = shift r p c /\ gen_unshift r p c = unshift r p c.
Proof. unfold gen_shift, gen_unshift, shift, unshift. split; reflexivity. Qed.
