(* (G, rational part: qbin) theorems about / bridges for the definitions regenerated from the float formulas and guards of /repo *)
From Coq Require Import QArith Qround Qabs Qminmax Lqa Lia Bool ZArith.
From BF Require Import Model.Masks Model.Lattice Model.FullMatch Model.PadCrop Model.Upsample Proofs.MasksP.
From BFGen Require Import GenQ.
Open Scope Q_scope.

Lemma ltb_true a b : FullMatch.Qltb a b = true <-> a < b.
Proof.
  unfold FullMatch.Qltb. rewrite negb_true_iff. split.
  - intros H. apply Qnot_le_lt. intros Hc. apply Qle_bool_iff in Hc. congruence.
  - intros H. apply not_true_is_false. intros Hc. apply Qle_bool_iff in Hc. lra.
Qed.
Lemma ltb_false a b : FullMatch.Qltb a b = false <-> b <= a.
Proof. unfold FullMatch.Qltb. rewrite negb_false_iff. apply Qle_bool_iff. Qed.
Lemma leb_false a b : Qle_bool a b = false <-> b < a.
Proof.
  split.
  - intros H. apply Qnot_le_lt. intros Hc. apply Qle_bool_iff in Hc. congruence.
  - intros H. apply not_true_is_false. intros Hc. apply Qle_bool_iff in Hc. lra.
Qed.

(* radial_bins: bin width and bin value as in the model *)
Lemma bridge_bin w r0 r : gen_bin w r0 r == bin w r0 r.
Proof.
  unfold gen_bin, bin, clip01. assert (E : w / (2#1) + (1#2) - Qabs (r - r0) == w * (1#2) + (1#2) - Qabs (r - r0)) by field.
  rewrite E. reflexivity.
Qed.

Lemma bridge_bin_width radius ri n : gen_bin_width radius ri n == (radius - ri) / n.
Proof. reflexivity. Qed.

Lemma bridge_bin_centre w ri k : gen_bin_centre w ri k == ri + k * w + w * (1#2).
Proof. unfold gen_bin_centre. field. Qed.

(* radial_gradient_background_subtraction: the three masks are disjoint for delta > 0, so the order of the assignments
   does not matter and the function is the model's piecewise definition *)
Lemma bridge_rgbs r r0 ro delta : 0 < delta -> gen_rgbs r r0 ro delta == rgbs r r0 ro delta.
Proof.
  intros Hd. unfold gen_rgbs, rgbs.
  assert (E1 : r0 - delta / (2#1) == r0 - delta * (1#2)) by field.
  assert (E2 : r0 + delta / (2#1) == r0 + delta * (1#2)) by field.
  destruct (Masks.Qltb r (r0 - delta * (1#2))) eqn:A.
  - apply MasksP.Qltb_true in A.
    assert (Qle_bool (r0 + delta / (2#1)) r = false) as -> by (apply leb_false; lra). cbn [andb].
    assert (Qle_bool (r0 - delta / (2#1)) r = false) as -> by (apply leb_false; lra). cbn [andb].
    assert (FullMatch.Qltb r (r0 - delta / (2#1)) = true) as -> by (apply ltb_true; lra). reflexivity.
  - apply MasksP.Qltb_false in A. destruct (Masks.Qltb r (r0 + delta * (1#2))) eqn:B.
    + apply MasksP.Qltb_true in B.
      assert (Qle_bool (r0 + delta / (2#1)) r = false) as -> by (apply leb_false; lra). cbn [andb].
      assert (Qle_bool (r0 - delta / (2#1)) r = true) as -> by (apply Qle_bool_iff; lra).
      assert (FullMatch.Qltb r (r0 + delta / (2#1)) = true) as -> by (apply ltb_true; lra). cbn [andb].
      field. lra.
    + apply MasksP.Qltb_false in B.
      assert (Qle_bool (r0 + delta / (2#1)) r = true) as -> by (apply Qle_bool_iff; lra). cbn [andb].
      destruct (Qle_bool r ro); [reflexivity|].
      assert (Qle_bool (r0 - delta / (2#1)) r = true) as -> by (apply Qle_bool_iff; lra).
      assert (FullMatch.Qltb r (r0 + delta / (2#1)) = false) as -> by (apply ltb_false; lra). cbn [andb].
      assert (FullMatch.Qltb r (r0 - delta / (2#1)) = false) as -> by (apply ltb_false; lra). reflexivity.
Qed.

