(* (G) peak_elevation compiled from the current source (nested loops, running minimum of slopes (height - v)/dist compared
   without square roots) equals Eval.elevation (one loop over the flat index) *)
From Coq Require Import ZArith Bool List Lia.
From BF Require Import Base.Util Model.Eval Proofs.EvalP.
From BFGen Require Import GenK.
Import ListNotations.
Open Scope Z_scope.

Lemma fold_left_map {A B C} (g : A -> B -> A) (h : C -> B) l : forall s, fold_left g (map h l) s = fold_left (fun s x => g s (h x)) l s.
Proof. induction l as [|x l IH]; intros s; cbn [map fold_left]; [reflexivity|apply IH]. Qed.

Lemma fold_left_ext_in {A B} (f g : A -> B -> A) l : (forall s v, In v l -> f s v = g s v) -> forall s, fold_left f l s = fold_left g l s.
Proof.
  induction l as [|v l IH]; intros E s; cbn [fold_left]; [reflexivity|].
  rewrite E by (left; reflexivity). apply IH. intros s' v' Hin. apply E. right. exact Hin.
Qed.

(* a row-major double loop is one loop over the flat index *)
Lemma fold_nested_flat {S} (f : S -> Z -> Z -> S) W : 1 <= W -> forall H, 0 <= H -> forall s0,
  fold_left (fun s y => fold_left (fun s x => f s y x) (zseq W) s) (zseq H) s0
  = fold_left (fun s i => f s (i / W) (i mod W)) (zseq (H * W)) s0.
Proof.
  intros HW H HH. pattern H. apply natlike_ind; [| |exact HH].
  - intros s0. reflexivity.
  - intros h Hh IH s0. unfold Z.succ. rewrite (zseq_succ h Hh), fold_left_app, IH. cbn [fold_left].
    replace ((h + 1) * W) with (h * W + W) by lia. rewrite (zseq_app (h * W) W) by nia. rewrite fold_left_app.
    unfold zrange. replace (h * W + W - h * W) with W by lia. rewrite fold_left_map.
    apply fold_left_ext_in. intros s v Hin. apply in_zseq in Hin.
    destruct (flat_idx h v W Hin) as [E1 E2]. rewrite E1, E2. reflexivity.
Qed.

Lemma bridge_peak_elevation H W a ry rx D height : 0 <= H -> 1 <= W ->
  gen_elevation H W a ry rx D height = elevation H W a ry rx D height.
Proof.
  intros HH HW. unfold gen_elevation, elevation. cbv zeta.
  rewrite (fold_nested_flat (fun s y x => if (4 * ((y * D - ry) * (y * D - ry) + (x * D - rx) * (x * D - rx)) >=? 9 * (D * D)) && true
                                           then slope_min s (height - a y x) ((y * D - ry) * (y * D - ry) + (x * D - rx) * (x * D - rx)) else s) W HW H HH).
  apply fold_left_ext_in. intros s i _. rewrite andb_true_r. rewrite Z.mul_assoc.
  destruct (_ >=? _); [|reflexivity]. unfold slope_min. destruct s as [[a0 q0]|]; reflexivity.
Qed.
