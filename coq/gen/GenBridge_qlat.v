(* (G, rational part: qlat) theorems about / bridges for the definitions regenerated from the float formulas and guards of /repo *)
From Coq Require Import QArith Qround Qabs Qminmax Lqa Lia Bool ZArith.
From BF Require Import Model.Masks Model.Lattice Model.FullMatch Model.PadCrop Model.Upsample Proofs.MasksP.
From BFGen Require Import GenQ.
Open Scope Q_scope.

Lemma ltb_true a b : FullMatch.Qltb a b = true <-> a < b.
Proof.
  unfold FullMatch.Qltb. rewrite negb_true_iff. split.
  - intros H. apply Qnot_le_lt. intros Hc. apply Qle_bool_iff in Hc. congruence.
  - intros H. apply not_true_is_false. intros Hc. apply Qle_bool_iff in Hc. lra.
Qed.
Lemma ltb_false a b : FullMatch.Qltb a b = false <-> b <= a.
Proof. unfold FullMatch.Qltb. rewrite negb_false_iff. apply Qle_bool_iff. Qed.
Lemma leb_false a b : Qle_bool a b = false <-> b < a.
Proof.
  split.
  - intros H. apply Qnot_le_lt. intros Hc. apply Qle_bool_iff in Hc. congruence.
  - intros H. apply not_true_is_false. intros Hc. apply Qle_bool_iff in Hc. lra.
Qed.

(* within_frame, calc_coords, size_filter, angle_check *)
Lemma bridge_within_frame r fy fx py px : gen_within_frame r fy fx py px = within_frame r fy fx (py, px).
Proof.
  unfold gen_within_frame, within_frame, vy, vx, FullMatch.Qltb. cbn [fst snd].
  destruct (Qle_bool r py), (Qle_bool r px), (Qle_bool (fy - r) py), (Qle_bool (fx - r) px); reflexivity.
Qed.

Lemma bridge_calc_coord zy zx ay ax by_ bx i j :
  fst (gen_calc_coord zy zx ay ax by_ bx i j) == fst (calc_coord (zy, zx) (ay, ax) (by_, bx) (i, j)) /\
  snd (gen_calc_coord zy zx ay ax by_ bx i j) == snd (calc_coord (zy, zx) (ay, ax) (by_, bx) (i, j)).
Proof. unfold gen_calc_coord, calc_coord, vy, vx. cbn [fst snd]. split; ring. Qed.

