(* (G) the vectorised formulas of common/gridmatching.py, evaluated symbolically for one generic row by
   harness/translate_v.py (square roots carried symbolically), equal the model *)
From Coq Require Import QArith Qround Qabs Qminmax Lqa Bool.
From BF Require Import Model.Lattice Model.WLS Model.Match Proofs.LatticeP Proofs.MatchP Proofs.MatchExactP.
From BFGen Require Import GenV.
Open Scope Q_scope.

(* get_indices: np.linalg.solve with the matrix ((a, b)).T = Lattice.get_index (Cramer), up to == *)
Lemma bridge_get_indices zero a b p :
  match gen_get_index zero a b p, get_index zero a b p with
  | None, None => True
  | Some u, Some v => veq u v
  | _, _ => False
  end.
Proof.
  unfold gen_get_index, get_index, det2. cbv zeta.
  assert (D : vy a * vx b - vy b * vx a == vy a * vx b - vx a * vy b) by ring.
  rewrite (Qeq_bool_comp _ _ 0 D).
  destruct (Qeq_bool (vy a * vx b - vx a * vy b) 0) eqn:E; [exact I|]. apply Qeq_bool_false in E.
  unfold veq, vy, vx in *. cbn [fst snd]. split; field; lra.
Qed.

