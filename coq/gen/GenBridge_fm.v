(* (G) the bookkeeping loop of FullMatcher.full_match, executed symbolically from the current source by
   harness/translate_fm.py, is the model's loop (Model/FullMatch.v) for every state and every answer of the lattice search *)
From Coq Require Import ZArith List Bool Lia.
From BF Require Import Model.FullMatch.
From BFGen Require Import GenFM.
Import ListNotations.
Open Scope Z_scope.

Lemma bridge_full_match_iteration fuel mm zs ws methods a rest matches calls : (1 <= methods)%nat ->
  loop (S fuel) mm zs ws methods (a :: rest) matches calls =
  match gen_fm_iter mm zs ws methods matches a with
  | (FBreak, _, ns, _, ms) => (ms, ns, calls + 1, true)
  | (FNext, ws', _, meth', ms) => loop fuel mm zs ws' meth' rest ms (calls + 1)
  end.
Proof.
  intros Hm. unfold gen_fm_iter. cbn [loop]. destruct a as [m|].
  - destruct (count (bdiff ws m) >=? mm); reflexivity.
  - destruct methods as [|[|m']]; [lia| |]; reflexivity.
Qed.

(* start state, unmatched and weak selections *)
Lemma bridge_full_match_frame mm filt zs wc ans :
  let '(matches, new_selector, calls, ok) := loop (S (length ans)) mm zs filt (gen_fm_methods wc) ans [] 0 in
  full_match mm filt zs wc ans =
  {| o_matches := matches; o_unmatched := gen_fm_unmatched zs new_selector matches; o_weak := gen_fm_weak filt; o_calls := calls; o_ok := ok |}.
Proof.
  unfold full_match, gen_fm_methods, gen_fm_unmatched, gen_fm_weak.
  destruct (loop (S (length ans)) mm zs filt (if wc then 2%nat else 1%nat) ans [] 0) as [[[matches ns] calls] ok]. reflexivity.
Qed.

(* the number of candidate methods never reaches 0 while the loop runs (so candidate_methods[0] exists) *)
Lemma bridge_methods_positive mm zs ws methods matches a :
  (1 <= methods)%nat ->
  match gen_fm_iter mm zs ws methods matches a with
  | (FNext, _, _, meth', _) => (1 <= meth')%nat
  | _ => True
  end.
Proof.
  intros Hm. unfold gen_fm_iter. destruct a as [m|].
  - destruct (count (bdiff ws m) >=? mm); [exact Hm|exact I].
  - destruct (Nat.eqb (Nat.pred methods) 0) eqn:E; [exact I|]. apply Nat.eqb_neq in E. lia.
Qed.
