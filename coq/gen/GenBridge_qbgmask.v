(* (G) masks.background_subtraction: the per-pixel combination of disk and ring read from the source *)
From Coq Require Import QArith Bool.
From BF Require Import Model.Masks Proofs.MasksP.
From BFGen Require Import GenQ.
Open Scope Q_scope.

Lemma bridge_bgsub_px m1 m2 s1 s2 : gen_bgsub_px m1 m2 s1 s2 == bgsub_px m1 m2 s1 s2.
Proof. unfold gen_bgsub_px, bgsub_px. destruct (Qeq_bool s2 (0#1)); [ring | reflexivity]. Qed.

(* source level: when the ring misses the requested array (total s2 = 0) the mask is the disk itself: finite, no 0/0 (finding F17) *)
Lemma source_bgsub_empty_ring m1 m2 s1 : gen_bgsub_px m1 m2 s1 0 == m1.
Proof. rewrite bridge_bgsub_px. unfold bgsub_px. reflexivity. Qed.
