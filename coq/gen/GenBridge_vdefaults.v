(* (G) CorrelationResult.__init__: an omitted `refineds` stands for the centres, omitted peak values and peak elevations for ones
   (so an omitted elevation is never below a min_weight <= 1 and weighs 1 in the fits) *)
From BFGen Require Import GenV.
Lemma bridge_correlation_result_defaults :
  gen_default_refineds = DCenters /\ gen_default_peak_values = DOnes /\ gen_default_peak_elevations = DOnes.
Proof. repeat split. Qed.
