(* (G) per-frame glue of the UDF classes as read from the current source *)
From Coq Require Import ZArith QArith Qround List Bool Lia.
From BF Require Import Base.Util Model.Lattice Model.Match Model.Crop Model.Pipeline Model.UDF Proofs.MatchP.
From BFGen Require Import GenU.
Open Scope Z_scope.

(* the peak list of a frame: configured integer peak + rounded (half to even) zero shift = UDF.shifted_peak *)
Lemma bridge_udf_shifted_peak py px zy zx :
  (gen_udf_fast_peak py zy, gen_udf_fast_peak px zx) = shifted_peak (inject_Z py, inject_Z px) (zy, zx) /\
  (gen_udf_full_peak py zy, gen_udf_full_peak px zx) = shifted_peak (inject_Z py, inject_Z px) (zy, zx).
Proof. unfold gen_udf_fast_peak, gen_udf_full_peak, shifted_peak. cbn [fst snd]. rewrite !round_he_int. split; reflexivity. Qed.

(* rounding the shift and adding is NOT rounding the sum (half-integer shifts): the two must not be confused *)
Lemma bridge_udf_round_then_add : gen_udf_fast_peak 15 (1#2) = 15 /\ round_he ((15#1) + (1#2))%Q = 16.
Proof. split; reflexivity. Qed.

