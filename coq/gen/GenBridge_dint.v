(* (G) dtype decisions of IntegrationUDF, read from the current source *)
From Coq Require Import ZArith Bool Lia.
From BF Require Import Model.Dtype Proofs.DtypeP.
From BFGen Require Import GenD.
Open Scope Z_scope.

Lemma bridge_integration_dtypes d :
  gen_dt_integration_result d = result_type_f32 d /\ gen_dt_integration_crop_bufs d = result_type_f32 d.
Proof. repeat split. Qed.

Theorem source_integration_buffers_hold_integer_frames d bits sg v : d = NInt bits sg -> (bits = 8 \/ bits = 16 \/ bits = 32) -> in_range d v ->
  exact_in (gen_dt_integration_crop_bufs d) v.
Proof.
  intros E Hb Hv. destruct (bridge_integration_dtypes d) as (_ & E2). rewrite E2. exact (promotion_holds_values d bits sg v E Hb Hv).
Qed.
