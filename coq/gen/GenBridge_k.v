(* (G) the numba kernels of base/correlation.py, compiled from the current source text into Gallina by
   harness/translate_k.py (GenK.v), equal the hand-written model for ALL arguments:
     center_of_mass, refine_center, unravel_index, the body of evaluate_correlations (data flow into the four
     output arrays and into peak_elevation), and the slices handed to every kernel called per block. *)
From Coq Require Import ZArith Bool List Lia.
From BF Require Import Base.Util Model.Blocks Model.Eval Model.Pipeline Proofs.EvalP.
From BFGen Require Import GenK.
Import ListNotations.
Open Scope Z_scope.

(* ---- accumulating loops are sums ---- *)
Lemma fold_pair_sum (F G : Z -> Z) l : forall p q,
  fold_left (fun (st : Z * Z) v => let '(p1, q1) := st in (p1 + F v, q1 + G v)) l (p, q)
  = (p + sumZ (map F l), q + sumZ (map G l)).
Proof.
  unfold sumZ. induction l as [|v l IH]; intros p q; cbn [fold_left map fold_right].
  - f_equal; lia.
  - rewrite IH. f_equal; lia.
Qed.

Lemma fold_left_ext {A B} (f g : A -> B -> A) l : (forall s v, f s v = g s v) -> forall s, fold_left f l s = fold_left g l s.
Proof. intros E. induction l as [|v l IH]; intros s; cbn [fold_left]; [reflexivity|]. rewrite E. apply IH. Qed.

Lemma fold_nested_sum (F G : Z -> Z -> Z) l2 l1 : forall p q,
  fold_left (fun (st : Z * Z) y => let '(p1, q1) := st in
               let '(p3, q3) := fold_left (fun (st2 : Z * Z) x => let '(p2, q2) := st2 in (p2 + F y x, q2 + G y x)) l2 (p1, q1) in (p3, q3))
            l1 (p, q)
  = (p + sumZ (map (fun y => sumZ (map (F y) l2)) l1), q + sumZ (map (fun y => sumZ (map (G y) l2)) l1)).
Proof.
  intros p q.
  rewrite (fold_left_ext _ (fun (st : Z * Z) y => let '(p1, q1) := st in (p1 + sumZ (map (F y) l2), q1 + sumZ (map (G y) l2)))).
  - apply (fold_pair_sum (fun y => sumZ (map (F y) l2)) (fun y => sumZ (map (G y) l2))).
  - intros [p1 q1] y. rewrite fold_pair_sum. reflexivity.
Qed.

(* center_of_mass(arr) returns (r_y / s, r_x / s) with these three integers *)
Lemma bridge_center_of_mass h w a :
  gen_com h w a = (Zsum h (fun y => Zsum w (fun x => a y x * y)), Zsum h (fun y => Zsum w (fun x => a y x * x)), np_sum h w a).
Proof.
  unfold gen_com.
  rewrite (fold_nested_sum (fun y x => a y x * y) (fun y x => a y x * x)). cbv zeta. unfold Zsum. reflexivity.
Qed.

(* unravel_index on a 2-D shape *)
Lemma bridge_unravel H W i : gen_unravel H W i = unravel W i.
Proof. unfold gen_unravel, unravel. cbv zeta. rewrite !Z.mul_1_l, !Z.div_1_r. reflexivity. Qed.

(* np.min of a cut-out view = Eval.cut_min *)
Lemma np_min_view (c : Z -> Z -> Z) y x r n1 n2 : n1 = 2 * r + 1 -> n2 = 2 * r + 1 ->
  np_min n1 n2 (fun y' x' => c (y' + (y - r)) (x' + (x - r))) = cut_min c y x r.
Proof.
  intros -> ->. unfold np_min, cut_min. f_equal; try (f_equal; lia).
  apply flat_map_ext. intros dy. apply map_ext. intros dx. f_equal; lia.
Qed.

(* sums over a cut-out view, in the model's indexing *)
Lemma view_sums (a : Z -> Z -> Z) y x r m n1 n2 : n1 = 2 * r + 1 -> n2 = 2 * r + 1 ->
  sumZ (map (fun u => sumZ (map (fun v => (a (u + (y - r)) (v + (x - r)) - m) * u) (zseq n2))) (zseq n1))
    = Zsum (2 * r + 1) (fun dy => Zsum (2 * r + 1) (fun dx => dy * (a (y - r + dy) (x - r + dx) - m))) /\
  sumZ (map (fun u => sumZ (map (fun v => (a (u + (y - r)) (v + (x - r)) - m) * v) (zseq n2))) (zseq n1))
    = Zsum (2 * r + 1) (fun dy => Zsum (2 * r + 1) (fun dx => dx * (a (y - r + dy) (x - r + dx) - m))) /\
  np_sum n1 n2 (fun u v => a (u + (y - r)) (v + (x - r)) - m)
    = Zsum (2 * r + 1) (fun dy => Zsum (2 * r + 1) (fun dx => a (y - r + dy) (x - r + dx) - m)).
Proof.
  intros -> ->. unfold np_sum, Zsum.
  repeat split; apply sumZ_map_ext; intros u _; apply sumZ_map_ext; intros v _;
    replace (u + (y - r)) with (y - r + u) by lia; replace (v + (x - r)) with (x - r + v) by lia; ring.
Qed.

(* refine_center(center=(y, x), r0, corrmap): the refined position as two fractions (numerator, denominator) *)
Lemma bridge_refine_center H W a y x :
  gen_refine H W a y x 2 =
  let cm := refine_com H W a y x in
  if com_r cm <=? 0 then ((y, 1), (x, 1))
  else ((y * com_s cm + com_sy cm - com_r cm * com_s cm, com_s cm), (x * com_s cm + com_sx cm - com_r cm * com_s cm, com_s cm)).
Proof.
  unfold gen_refine, refine_com. fold (clip_r H W y x). set (r := clip_r H W y x). cbv zeta.
  rewrite fold_nested_sum. cbv iota beta.
  destruct (r <=? 0) eqn:Er; cbn [com_r com_sy com_sx com_s]; rewrite Er; [reflexivity|].
  rewrite (np_min_view a y x r) by lia.
  destruct (view_sums a y x r (cut_min a y x r) (y + r + 1 - (y - r)) (x + r + 1 - (x - r))) as (E1 & E2 & E3); [lia|lia|].
  rewrite E1, E2, E3, !Z.add_0_l. reflexivity.
Qed.

(* the cut-out slice of refine_center never leaves the map: numpy's clamping of slice bounds never applies, for any radius *)
Lemma bridge_refine_slices_in_bounds H W a y x r0 : 0 <= y < H -> 0 <= x < W -> gen_refine_slices_ok H W a y x r0 = true.
Proof.
  intros Hy Hx. unfold gen_refine_slices_ok. cbv zeta.
  destruct (_ <=? 0) eqn:E; [reflexivity|]. apply Z.leb_gt in E.
  repeat (apply andb_true_intro; split); apply Z.leb_le; lia.
Qed.

(* one iteration of evaluate_correlations: what is stored into out_centers / out_refineds / out_heights and what is
   handed to peak_elevation, in terms of the model (Pipeline.eval_peak = argmax2, shift, refine_com) *)
Lemma bridge_evaluate_correlations H W a py px c : 1 <= H -> 1 <= W ->
  let '(y, x) := argmax2 H W a in
  let cm := refine_com H W a y x in
  let ry := if com_r cm <=? 0 then (y, 1) else (y * com_s cm + com_sy cm - com_r cm * com_s cm, com_s cm) in
  let rx := if com_r cm <=? 0 then (x, 1) else (x * com_s cm + com_sx cm - com_r cm * com_s cm, com_s cm) in
  gen_ec H W a py px c =
  ((shift y py c, shift x px c),
   ((fst ry + py * snd ry - c * snd ry, snd ry), (fst rx + px * snd rx - c * snd rx, snd rx)),
   a y x, (ry, rx), a y x, true)
  /\ (forall u v, gen_ec_elev_map H W a py px c u v = a u v).
Proof.
  intros HH HW. pose proof (argmax2_spec H W a HH HW) as Hs.
  unfold argmax2, unravel in *. change (argmax_flat H W a) with (np_argmax H W (fun y x => a y x)) in *.
  set (i := np_argmax H W (fun y x => a y x)) in *. cbv iota beta in Hs |- *. destruct Hs as ((Hy & Hx) & _).
  split; [|intros u v; reflexivity].
  unfold gen_ec. cbv zeta. fold i. rewrite !Z.mul_1_l, !Z.div_1_r.
  unfold refine_com. fold (clip_r H W (i / W) (i mod W)). set (r := clip_r H W (i / W) (i mod W)).
  rewrite fold_nested_sum. cbv iota beta.
  assert (Hr2 : r <= Z.min (i / W) (Z.min (i mod W) (Z.min (H - i / W - 1) (W - i mod W - 1)))) by (unfold r, clip_r; lia).
  destruct (r <=? 0) eqn:Er; cbn [com_r com_sy com_sx com_s fst snd]; rewrite ?Er; cbn [fst snd].
  - unfold shift. repeat f_equal; lia.
  - apply Z.leb_gt in Er.
    rewrite (np_min_view a (i / W) (i mod W) r) by lia.
    destruct (view_sums a (i / W) (i mod W) r (cut_min a (i / W) (i mod W) r) (i / W + r + 1 - (i / W - r)) (i mod W + r + 1 - (i mod W - r))) as (E1 & E2 & E3); [lia|lia|].
    rewrite E1, E2, E3, !Z.add_0_l. unfold shift.
    repeat (f_equal; try lia).
    all: repeat (apply andb_true_intro; split); apply Z.leb_le; lia.
Qed.
