(* (G) the definitions regenerated from /repo's source equal the hand-written model, for all arguments *)
From Coq Require Import ZArith Bool Lia.
From BF Require Import Base.Util Model.Blocks.
From BFGen Require Import Gen.
Open Scope Z_scope.

Lemma bridge_buf_count c n i l : gen_buf_count c n i l = buf_count c n i l.
Proof. unfold gen_buf_count, buf_count, full_size. reflexivity. Qed.

Lemma bridge_fast_blocks n bc b :
  gen_fast_block_count n bc = block_count n bc /\ gen_fast_start n bc b = blk_start bc b /\
  gen_fast_stop n bc b = blk_stop n bc b /\ gen_fast_size n bc b = blk_stop n bc b - blk_start bc b.
Proof. unfold gen_fast_block_count, gen_fast_start, gen_fast_stop, gen_fast_size, block_count, blk_start, blk_stop. repeat split; lia. Qed.

Lemma bridge_full_blocks n bc b :
  gen_full_block_count n bc = block_count n bc /\ gen_full_start n bc b = blk_start bc b /\
  gen_full_stop n bc b = blk_stop n bc b /\ gen_full_size n bc b = blk_stop n bc b - blk_start bc b.
Proof. unfold gen_full_block_count, gen_full_start, gen_full_stop, gen_full_size, block_count, blk_start, blk_stop. repeat split; lia. Qed.
