(* (G) the `upsample` parameter of process_frame_fast / process_frame_full (base/correlation.py) and of the batch wrappers
   process_frames_fast / process_frames_full (common/correlation.py), abstractly executed for the flag value True and for an integer k *)
From Coq Require Import ZArith Bool Lia.
From BF Require Import Model.Upsample Model.UpsampleFlag Proofs.UpsampleP Proofs.UpsampleFlagP.
From BFGen Require Import GenK.
Open Scope Z_scope.

Lemma bridge_upsample_flag_base is_true k f :
  gen_fast_upsample_factor is_true k = us_factor is_true k /\ gen_full_upsample_factor is_true k = us_factor is_true k /\
  gen_fast_upsample_runs f = us_runs f /\ gen_full_upsample_runs f = us_runs f.
Proof.
  unfold gen_fast_upsample_factor, gen_full_upsample_factor, gen_fast_upsample_runs, gen_full_upsample_runs, us_factor, us_runs.
  repeat split; try reflexivity; apply Z.gtb_ltb.
Qed.

(* the wrappers hand the parameter on untouched: the flag True is still the flag, an integer is still that integer *)
Lemma bridge_upsample_flag_wrappers k :
  gen_frames_fast_flag_true = None /\ gen_frames_full_flag_true = None /\ gen_frames_fast_flag_int k = k /\ gen_frames_full_flag_int k = k.
Proof. repeat split. Qed.

(* source level: upsample=True runs the DFT upsampling with factor 20 in both pipelines, hence (C04_upsampled_within_bound) the refined
   position is within 0.75 + 0.5/20 px of the integer centre *)
Lemma source_flag_true_runs_with_factor_20 k :
  gen_fast_upsample_runs (gen_fast_upsample_factor true k) = true /\ gen_fast_upsample_factor true k = 20 /\
  gen_full_upsample_runs (gen_full_upsample_factor true k) = true /\ gen_full_upsample_factor true k = 20.
Proof.
  destruct (bridge_upsample_flag_base true k 20) as (A & B & _ & _).
  destruct (bridge_upsample_flag_base true k (gen_fast_upsample_factor true k)) as (_ & _ & C & _).
  destruct (bridge_upsample_flag_base true k (gen_full_upsample_factor true k)) as (_ & _ & _ & D).
  rewrite C, D, A, B. repeat split.
Qed.

(* source level: an integer factor k runs the step iff k > 1 (False = 0 and 1 switch it off), with exactly that factor *)
Lemma source_int_factor_runs_iff_gt_1 k :
  gen_fast_upsample_runs (gen_fast_upsample_factor false k) = (1 <? k) /\ gen_fast_upsample_factor false k = k /\
  gen_full_upsample_runs (gen_full_upsample_factor false k) = (1 <? k) /\ gen_full_upsample_factor false k = k.
Proof.
  destruct (bridge_upsample_flag_base false k k) as (A & B & C & D). rewrite A, B. unfold us_factor. rewrite C, D. repeat split.
Qed.

Lemma source_upsampled_bound_whenever_the_step_runs is_true k j :
  gen_fast_upsample_runs (gen_fast_upsample_factor is_true k) = true -> 0 <= j < us_region (gen_fast_upsample_factor is_true k) ->
  4 * Z.abs (us_delta (gen_fast_upsample_factor is_true k) j) <= 3 * gen_fast_upsample_factor is_true k + 2.
Proof.
  destruct (bridge_upsample_flag_base is_true k (gen_fast_upsample_factor is_true k)) as (A & _ & C & _).
  rewrite C, A. apply us_bound_when_runs.
Qed.
