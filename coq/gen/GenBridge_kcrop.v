(* (G) crop_disks_from_frame compiled from the current source: the three loops cover out_crop_bufs[i, y, x] for every
   i < len(peaks), y < shape[1], x < shape[2] (checked by the compiler) and the value stored is the model's, which is the
   zero-padded window (Proofs/CropP) -- in particular the frame is never read out of bounds *)
From Coq Require Import ZArith Bool Lia.
From BF Require Import Base.Util Model.Crop.
From BFGen Require Import GenK.
Open Scope Z_scope.

Lemma bridge_crop_store fy fx f c n h w py px i y x :
  crop_px_at fy fx f c (py i) (px i) y x = Some (gen_crop_store fy fx f c n h w py px i y x).
Proof.
  unfold crop_px_at, gen_crop_store, frame_coord, rd, inb. cbv zeta.
  destruct ((y + py i - c <? 0) || (y + py i - c >=? fy) || ((x + px i - c <? 0) || (x + px i - c >=? fx))) eqn:E; [reflexivity|].
  apply orb_false_iff in E. destruct E as [E1 E2]. apply orb_false_iff in E1, E2. destruct E1 as [A B], E2 as [C D].
  apply Z.ltb_ge in A, C. rewrite Z.geb_leb in B, D. apply Z.leb_gt in B, D.
  assert (H1 : (0 <=? y + py i - c) = true) by (apply Z.leb_le; lia).
  assert (H2 : (y + py i - c <? fy) = true) by (apply Z.ltb_lt; lia).
  assert (H3 : (0 <=? x + px i - c) = true) by (apply Z.leb_le; lia).
  assert (H4 : (x + px i - c <? fx) = true) by (apply Z.ltb_lt; lia).
  rewrite H1, H2, H3, H4. reflexivity.
Qed.
