(* (G) slices handed to the kernels called per block, extracted from the current source by harness/translate_k.py *)
From Coq Require Import ZArith Bool Lia.
From BF Require Import Base.Util Model.Blocks.
From BFGen Require Import GenK.
Open Scope Z_scope.

(* process_frame_fast: every kernel called for a block gets exactly the block's slice [start, stop) of the peak list and of each
   output array, and the first (stop - start) crop buffers *)
Lemma bridge_fast_call_slices n bc b :
  gen_fcall_crop_function_peaks_peaks n bc b = (blk_start bc b, blk_stop n bc b) /\
  gen_fcall_evaluate_correlations_peaks_peaks n bc b = (blk_start bc b, blk_stop n bc b) /\
  gen_fcall_evaluate_correlations_out_centers_out_centers n bc b = (blk_start bc b, blk_stop n bc b) /\
  gen_fcall_evaluate_correlations_out_refineds_out_refineds n bc b = (blk_start bc b, blk_stop n bc b) /\
  gen_fcall_evaluate_correlations_out_heights_out_heights n bc b = (blk_start bc b, blk_stop n bc b) /\
  gen_fcall_evaluate_correlations_out_elevations_out_elevations n bc b = (blk_start bc b, blk_stop n bc b) /\
  gen_fcall_evaluate_upsampling_peaks_peaks n bc b = (blk_start bc b, blk_stop n bc b) /\
  gen_fcall_evaluate_upsampling_out_centers_out_centers n bc b = (blk_start bc b, blk_stop n bc b) /\
  gen_fcall_evaluate_upsampling_out_refineds_out_refineds n bc b = (blk_start bc b, blk_stop n bc b) /\
  gen_fcall_crop_function_out_crop_bufs_crop_bufs n bc b = (0, blk_stop n bc b - blk_start bc b) /\
  gen_fcall_log_scale_cropbufs_inplace_pos0_crop_bufs n bc b = (0, blk_stop n bc b - blk_start bc b) /\
  gen_fcall_do_correlations_pos1_crop_bufs n bc b = (0, blk_stop n bc b - blk_start bc b) /\
  gen_fcall_evaluate_upsampling_corrs_crop_bufs n bc b = (0, blk_stop n bc b - blk_start bc b).
Proof.
  unfold gen_fcall_crop_function_peaks_peaks, gen_fcall_crop_function_out_crop_bufs_crop_bufs, gen_fcall_log_scale_cropbufs_inplace_pos0_crop_bufs, gen_fcall_do_correlations_pos1_crop_bufs, gen_fcall_evaluate_correlations_peaks_peaks, gen_fcall_evaluate_correlations_out_centers_out_centers, gen_fcall_evaluate_correlations_out_refineds_out_refineds, gen_fcall_evaluate_correlations_out_heights_out_heights, gen_fcall_evaluate_correlations_out_elevations_out_elevations, gen_fcall_evaluate_upsampling_corrs_crop_bufs, gen_fcall_evaluate_upsampling_peaks_peaks, gen_fcall_evaluate_upsampling_out_centers_out_centers, gen_fcall_evaluate_upsampling_out_refineds_out_refineds, blk_start, blk_stop.
  repeat split; f_equal; lia.
Qed.

(* process_frame_full: every kernel called for a block gets exactly the block's slice [start, stop) of the peak list and of each
   output array, and the first (stop - start) crop buffers *)
Lemma bridge_full_call_slices n bc b :
  gen_ucall_crop_function_peaks_peaks n bc b = (blk_start bc b, blk_stop n bc b) /\
  gen_ucall_evaluate_correlations_peaks_peaks n bc b = (blk_start bc b, blk_stop n bc b) /\
  gen_ucall_evaluate_correlations_out_centers_out_centers n bc b = (blk_start bc b, blk_stop n bc b) /\
  gen_ucall_evaluate_correlations_out_refineds_out_refineds n bc b = (blk_start bc b, blk_stop n bc b) /\
  gen_ucall_evaluate_correlations_out_heights_out_heights n bc b = (blk_start bc b, blk_stop n bc b) /\
  gen_ucall_evaluate_correlations_out_elevations_out_elevations n bc b = (blk_start bc b, blk_stop n bc b) /\
  gen_ucall_evaluate_upsampling_peaks_peaks n bc b = (blk_start bc b, blk_stop n bc b) /\
  gen_ucall_evaluate_upsampling_out_centers_out_centers n bc b = (blk_start bc b, blk_stop n bc b) /\
  gen_ucall_evaluate_upsampling_out_refineds_out_refineds n bc b = (blk_start bc b, blk_stop n bc b) /\
  gen_ucall_crop_function_out_crop_bufs_crop_bufs n bc b = (0, blk_stop n bc b - blk_start bc b) /\
  gen_ucall_evaluate_correlations_corrs_crop_bufs n bc b = (0, blk_stop n bc b - blk_start bc b) /\
  gen_ucall_evaluate_upsampling_corrs_crop_bufs n bc b = (0, blk_stop n bc b - blk_start bc b).
Proof.
  unfold gen_ucall_crop_function_peaks_peaks, gen_ucall_crop_function_out_crop_bufs_crop_bufs, gen_ucall_evaluate_correlations_corrs_crop_bufs, gen_ucall_evaluate_correlations_peaks_peaks, gen_ucall_evaluate_correlations_out_centers_out_centers, gen_ucall_evaluate_correlations_out_refineds_out_refineds, gen_ucall_evaluate_correlations_out_heights_out_heights, gen_ucall_evaluate_correlations_out_elevations_out_elevations, gen_ucall_evaluate_upsampling_corrs_crop_bufs, gen_ucall_evaluate_upsampling_peaks_peaks, gen_ucall_evaluate_upsampling_out_centers_out_centers, gen_ucall_evaluate_upsampling_out_refineds_out_refineds, blk_start, blk_stop.
  repeat split; f_equal; lia.
Qed.
