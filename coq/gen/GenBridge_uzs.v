(* (G) CorrelationUDF.get_zero_shift(index): the shift in force for a frame *)
From Coq Require Import QArith ZArith.
From BFGen Require Import GenU.
Open Scope Q_scope.
Lemma bridge_zero_shift s f i :
  gen_zero_shift ZSNone i = (0, 0) /\ gen_zero_shift (ZSConst s) i = s /\ gen_zero_shift (ZSPerFrame f) i = f i.
Proof. repeat split. Qed.
