From Coq Require Import ZArith Bool Lia.
From BF Require Import Base.Util Model.Crop.
From BFGen Require Import Gen.
Open Scope Z_scope.
Ltac destr_ifs := repeat match goal with |- context [if ?b then _ else _] => destruct b eqn:? end.

(* per-pixel kernel *)
Lemma bridge_crop_px fy fx c py px y x :
  gen_px_yy fy fx c py px y x = frame_coord c py y /\ gen_px_xx fy fx c py px y x = frame_coord c px x /\
  gen_px_y_outside fy fx c py px y x = ((frame_coord c py y <? 0) || (frame_coord c py y >=? fy)) /\
  gen_px_x_outside fy fx c py px y x = ((frame_coord c px x <? 0) || (frame_coord c px x >=? fx)).
Proof. unfold gen_px_yy, gen_px_xx, gen_px_y_outside, gen_px_x_outside, frame_coord. repeat split. Qed.

(* slicing back-end: the slices written in the source are the model's slices (after CPython normalisation) *)
Lemma bridge_slicing_y fy fx c h w py px :
  slice_lo (gen_tgt_y_start fy fx c h w py px) h = tgt_lo c h py /\
  slice_len (gen_tgt_y_start fy fx c h w py px) (gen_tgt_y_stop fy fx c h w py px) h = tgt_len fy c h py /\
  slice_lo (gen_src_y_start fy fx c h w py px) fy = src_lo fy c py /\
  slice_len (gen_src_y_start fy fx c h w py px) (gen_src_y_stop fy fx c h w py px) fy = src_len fy c h py.
Proof.
  unfold gen_tgt_y_start, gen_tgt_y_stop, gen_src_y_start, gen_src_y_stop, tgt_lo, tgt_len, src_lo, src_len,
    s_cut, s_skip, s_origin, s_end, frame_coord, slice_len, slice_hi, slice_lo, adj.
  repeat split; destr_ifs; lia.
Qed.

Lemma bridge_slicing_x fy fx c h w py px :
  slice_lo (gen_tgt_x_start fy fx c h w py px) w = tgt_lo c w px /\
  slice_len (gen_tgt_x_start fy fx c h w py px) (gen_tgt_x_stop fy fx c h w py px) w = tgt_len fx c w px /\
  slice_lo (gen_src_x_start fy fx c h w py px) fx = src_lo fx c px /\
  slice_len (gen_src_x_start fy fx c h w py px) (gen_src_x_stop fy fx c h w py px) fx = src_len fx c w px.
Proof.
  unfold gen_tgt_x_start, gen_tgt_x_stop, gen_src_x_start, gen_src_x_stop, tgt_lo, tgt_len, src_lo, src_len,
    s_cut, s_skip, s_origin, s_end, frame_coord, slice_len, slice_hi, slice_lo, adj.
  repeat split; destr_ifs; lia.
Qed.

(* the slot is zeroed before the slice assignment (the statement  out_crop_bufs[i] = 0  precedes it) *)
Lemma bridge_slicing_zero_first : gen_slicing_zero_first = true.
Proof. reflexivity. Qed.
