(* (G) log_scale / log_scale_cropbufs_inplace: the argument of the logarithm extracted from the current source *)
From Coq Require Import ZArith Bool List Lia.
From BF Require Import Base.Util Model.Prelog.
From BFGen Require Import GenK.
Open Scope Z_scope.

(* log(x - min + 1); the frame version takes the minimum of the whole array after promotion to a float dtype, the
   crop-buffer version the minimum of each buffer separately *)
Lemma bridge_log_scale_argument x m :
  gen_log_arg_frame x m = x - m + 1 /\ gen_log_arg_crop x m = x - m + 1 /\
  gen_log_frame_min_whole_array = true /\ gen_log_frame_promoted = true /\ gen_log_crop_min_per_buffer = true.
Proof. unfold gen_log_arg_frame, gen_log_arg_crop. repeat split; lia. Qed.

(* = the documented definition Prelog.prelog_exact *)
Lemma bridge_log_scale_is_prelog l :
  prelog_exact l = map (map (fun x => gen_log_arg_frame x (min2 l))) l /\
  prelog_exact l = map (map (fun x => gen_log_arg_crop x (min2 l))) l.
Proof.
  unfold prelog_exact. cbv zeta. split; apply map_ext; intros r; apply map_ext; intros x;
    [unfold gen_log_arg_frame|unfold gen_log_arg_crop]; lia.
Qed.

(* adding a constant to every pixel (hence to the minimum) does not change the argument: offset invariance at the source *)
Lemma bridge_log_scale_offset_invariant x m o :
  gen_log_arg_frame (x + o) (m + o) = gen_log_arg_frame x m /\ gen_log_arg_crop (x + o) (m + o) = gen_log_arg_crop x m.
Proof. unfold gen_log_arg_frame, gen_log_arg_crop. split; lia. Qed.
