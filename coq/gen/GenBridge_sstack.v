(* (G) sparse_template_multi_stack as read from the current source: block i of the flat coordinate arrays is the template
   stamped at offset i, entry by entry, and the selector keeps exactly the entries inside the image = Stamp.place *)
From Coq Require Import ZArith List Bool Lia.
From BF Require Import Base.Util Model.Stamp Proofs.EvalP.
From BFGen Require Import GenS.
Import ListNotations.
Open Scope Z_scope.

Lemma flat_map_map {A B C} (f : B -> list C) (g : A -> B) l : flat_map f (map g l) = flat_map (fun x => f (g x)) l.
Proof. induction l as [|x l IH]; cbn [map flat_map]; [reflexivity|]. rewrite IH. reflexivity. Qed.

Lemma flat_map_ext_in {A B} (f g : A -> list B) l : (forall x, In x l -> f x = g x) -> flat_map f l = flat_map g l.
Proof.
  induction l as [|x l IH]; intros E; cbn [flat_map]; [reflexivity|].
  rewrite (E x (or_introl eq_refl)), IH; [reflexivity|]. intros y Hy. apply E. right. exact Hy.
Qed.

(* a row-major double loop producing lists is one loop over the flat index *)
Lemma flat_map_nested_flat {B} (g : Z -> Z -> list B) W : 1 <= W -> forall H, 0 <= H ->
  flat_map (fun y => flat_map (fun x => g y x) (zseq W)) (zseq H) = flat_map (fun k => g (k / W) (k mod W)) (zseq (H * W)).
Proof.
  intros HW H HH. pattern H. apply natlike_ind; [| |exact HH].
  - reflexivity.
  - intros h Hh IH. unfold Z.succ. rewrite (zseq_succ h Hh), flat_map_app, IH. cbn [flat_map]. rewrite app_nil_r.
    replace ((h + 1) * W) with (h * W + W) by lia. rewrite (zseq_app (h * W) W) by nia. rewrite flat_map_app. f_equal.
    unfold zrange. replace (h * W + W - h * W) with W by lia. rewrite flat_map_map.
    apply flat_map_ext_in. intros v Hin. apply in_zseq in Hin.
    destruct (flat_idx h v W Hin) as [E1 E2]. rewrite E1, E2. reflexivity.
Qed.

Lemma bridge_stack_block th tw t H W mi oy ox i : 0 <= th -> 1 <= tw ->
  place th tw t H W (mi i) (oy i) (ox i) =
  flat_map (fun k => let e := gen_stack_entry th tw t mi oy ox i k in if gen_stack_keep H W (e_y e) (e_x e) then [e] else []) (zseq (th * tw)).
Proof.
  intros Hth Htw. unfold place. etransitivity.
  { exact (flat_map_nested_flat (fun ty tx => let y := ty + oy i in let x := tx + ox i in
              if (0 <=? y) && (y <? H) && (0 <=? x) && (x <? W) then [{| e_layer := mi i; e_y := y; e_x := x; e_val := t ty tx |}] else []) tw Htw th Hth). }
  apply flat_map_ext_in. intros k _. unfold gen_stack_entry, gen_stack_keep. cbv zeta. cbn [e_y e_x].
  rewrite !Z.geb_leb. reflexivity.
Qed.
