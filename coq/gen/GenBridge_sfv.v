(* (G) feature_vector and sparse_circular_multi_stack as read from the current source: offsets, template side, layer order *)
From Coq Require Import ZArith List Bool Lia.
From BF Require Import Base.Util Model.Stamp.
From BFGen Require Import GenS.
Open Scope Z_scope.

(* feature_vector: the centre pixel (c, c) of the (2c+1) x (2c+1) mask lands on the peak, layer i belongs to peak i *)
Lemma bridge_feature_vector p c i : gen_fv_offset p c + c = p /\ gen_fv_side c = 2 * c + 1 /\ gen_fv_layer i = i.
Proof. unfold gen_fv_offset, gen_fv_side, gen_fv_layer. repeat split; lia. Qed.

(* sparse_circular_multi_stack: box side 2 ceil(r) + 1, its centre pixel ceil(r) lands on the given centre *)
Lemma bridge_circular_stack centre c : 0 <= c ->
  gen_cs_bbox c = 2 * c + 1 /\ gen_cs_bbox_center c = c /\ gen_cs_offset centre c + c = centre.
Proof.
  intros Hc. unfold gen_cs_offset, gen_cs_bbox_center, gen_cs_bbox.
  replace (2 * c + 1 - 1) with (c * 2) by lia. rewrite Z.div_mul by lia. repeat split; lia.
Qed.
