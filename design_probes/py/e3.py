import numpy as np, warnings
from libertem_blobfinder.common import patterns, correlation as cc
from libertem_blobfinder.base import correlation as bc, masks
# C07 shapes
for shape in [(40,40),(41,41),(40,41),(41,40),(51,64)]:
    f = np.zeros(shape, dtype=np.float32)
    cy, cx = 20, 17
    f += 5*masks.circular(centerX=cx, centerY=cy, imageSizeX=shape[1], imageSizeY=shape[0], radius=4)
    f += 3*masks.circular(centerX=30, centerY=8, imageSizeX=shape[1], imageSizeY=shape[0], radius=4)
    for P in (patterns.RadialGradient(radius=4), patterns.BackgroundSubtraction(radius=4), patterns.Circular(radius=4)):
        corr = cc.get_correlation(f, P)
        pk = cc.get_peaks(f, P, 2)
        print(shape, type(P).__name__, corr.shape, pk.tolist())
