import numpy as np, warnings
warnings.simplefilter('ignore')
from libertem_blobfinder.base import masks, correlation as bc, utils
from libertem_blobfinder.common import patterns, correlation as cc
rng = np.random.default_rng(11)
def run_fast(P, frame, pk, nbuf, ups=False, fill=0.0, cropfn=bc.crop_disks_from_frame, bufs=None):
    c = P.get_crop_size(); t = P.get_template((2*c,2*c)); n=len(pk)
    oc = np.full((n,2), -999, dtype=np.int32); orf = np.full((n,2), np.nan, dtype=np.float32); oh=np.full(n,np.nan,np.float32); oe=np.full(n,np.nan,np.float32)
    if bufs is None: bufs = np.full((nbuf,2*c,2*c), fill, dtype=np.float32)
    bc.process_frame_fast(t, c, frame, pk, oc, orf, oh, oe, bufs, upsample=ups, crop_function=cropfn)
    return oc, orf, oh, oe
def run_full(P, frame, pk, nbuf, ups=False):
    c = P.get_crop_size(); t = P.get_template(frame.shape); n=len(pk)
    oc = np.full((n,2), -999, dtype=np.int32); orf = np.full((n,2), np.nan, dtype=np.float32); oh=np.full(n,np.nan,np.float32); oe=np.full(n,np.nan,np.float32)
    fb = np.full(frame.shape, 7.0, dtype=np.float32)
    bc.process_frame_full(t, c, frame, pk, oc, orf, oh, oe, fb, nbuf, upsample=ups)
    return oc, orf, oh, oe
bad = []
for trial in range(150):
    fy, fx = (int(v) for v in rng.integers(12, 40, 2))
    kind = trial % 5
    if kind==0: f = rng.poisson(3,(fy,fx)).astype(np.float32)
    elif kind==1: f = rng.normal(0,1e3,(fy,fx)).astype(np.float32)
    elif kind==2: f = np.full((fy,fx), 5, np.float32)
    elif kind==3: f = np.zeros((fy,fx), np.float32); f[rng.integers(fy), rng.integers(fx)] = 1e6
    else: f = -rng.poisson(3,(fy,fx)).astype(np.float32)
    P = [patterns.RadialGradient(3, search=rng.uniform(3,6)), patterns.BackgroundSubtraction(3, search=rng.uniform(4.5,7)), patterns.Circular(2.5, search=rng.uniform(2.5,5))][trial%3]
    c = P.get_crop_size(); n = int(rng.integers(1,12))
    pk = np.stack([rng.integers(-2*c, fy+2*c+1, n), rng.integers(-2*c, fx+2*c+1, n)], axis=1).astype(np.int32)
    for ups in (False, True, int(rng.integers(2,51))):
        u = 20 if ups is True else ups
        for name, fn in (('fast', run_fast), ('full', run_full)):
            try:
                base = fn(P, f, pk, n, False)
                oc, orf, oh, oe = fn(P, f, pk, n, ups)
            except Exception as e:
                bad.append((name, ups, 'EXC', type(e).__name__, str(e)[:80])); continue
            if (oc==-999).any() or np.isnan(orf).any() or np.isnan(oh).any() or np.isnan(oe).any(): bad.append((name, ups, 'unfilled/nan', kind)); continue
            if ((oc < pk-c) | (oc > pk+c-1)).any(): bad.append((name, ups, 'centre range'))
            lim = 2 if not ups else 0.75+0.5/u
            if (np.abs(orf-oc) > lim+1e-4).any(): bad.append((name, ups, 'refined far', float(np.abs(orf-oc).max()), kind))
            if not (np.isfinite(oh).all() and np.isfinite(oe).all() and (oe>=0).all()): bad.append((name, ups, 'nonfinite', kind))
            if ups and not (np.array_equal(base[0], oc) and np.array_equal(base[2], oh) and np.array_equal(base[3], oe)): bad.append((name, ups, 'ups changed others'))
    # C08 buffer counts
    for name, fn in (('fast', run_fast), ('full', run_full)):
        ref = fn(P, f, pk, n)
        for nb in range(1, n+4):
            r = fn(P, f, pk, nb)
            if not (np.array_equal(ref[0], r[0]) and np.allclose(ref[1], r[1], rtol=1e-5, atol=1e-4) and np.allclose(ref[2], r[2], rtol=1e-5, atol=1e-6)): bad.append((name, 'bufcount', nb, n, kind)); break
from collections import Counter
print(Counter(b[:3] for b in bad).most_common(15)); print(bad[:8])
