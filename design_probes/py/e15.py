import numpy as np, warnings
warnings.simplefilter('ignore')
import libertem.udf.base as lb
from libertem_blobfinder.udf.correlation import SparseCorrelationUDF
from libertem_blobfinder.common import patterns
from libertem_blobfinder.base import correlation as bc
class TS:
    def __init__(self, origin, shape): self.origin=origin; self.shape=shape
def run_tiled(udf, data, tiles, depth):
    n = data.shape[0]; sig = data.shape[1:]
    udf.meta = lb._NS(input_dtype=data.dtype, dataset_shape=lb._Shape((n,), sig), array_backend=lb.UDF.BACKEND_NUMPY, slice=None)
    udf.params = lb._NS(**udf._kwargs)
    decl = udf.get_result_buffers(); full = {k: np.zeros((n,)+d.extra_shape, dtype=d.dtype) for k, d in decl.items()}
    udf.task_data = lb._NS(**udf.get_task_data())
    for f0 in range(0, n, depth):
        fr = slice(f0, min(n, f0+depth))
        for (y0,x0,h,w) in tiles:
            udf.meta.slice = TS((y0,x0),(h,w))
            udf.results = lb._NS(**{k: full[k][fr] for k in full})
            udf.process_tile(data[fr, y0:y0+h, x0:x0+w])
    udf.results = lb._NS(**full); udf.postprocess()
    return full
rng = np.random.default_rng(1)
fy, fx = 24, 20
P = patterns.BackgroundSubtraction(radius=3, search=5)
pk = np.array([[8,8],[14,11]])
def direct(frame):
    L = np.log(frame - frame.min() + 1); c = P.get_crop_size(); m = P.get_mask((2*c+1,2*c+1)); steps=2
    out = np.zeros((len(pk), 5, 5))
    Lp = np.pad(L, c+steps+1)
    for k,(py,px) in enumerate(pk):
        for oy in range(-steps, steps+1):
            for ox in range(-steps, steps+1):
                y0 = py+oy-c + c+steps+1; x0 = px+ox-c + c+steps+1
                out[k, oy+steps, ox+steps] = (Lp[y0:y0+2*c+1, x0:x0+2*c+1]*m).sum()
    return out.reshape(-1)
for name, data in (('zero-background', np.where(rng.random((3,fy,fx))<0.3, 0, rng.poisson(20,(3,fy,fx))).astype(np.float32)),
                   ('gradient background', (rng.poisson(5,(3,fy,fx)) + np.arange(fy)[None,:,None]*3 + np.arange(3)[:,None,None]*50).astype(np.float32))):
    ref = np.stack([direct(f) for f in data])
    for tname, tiles, depth in (('single,1', [(0,0,fy,fx)], 1), ('rows,1', [(0,0,8,fx),(8,0,8,fx),(16,0,8,fx)], 1), ('cols,1', [(0,0,fy,10),(0,10,fy,10)], 1), ('single,3', [(0,0,fy,fx)], 3)):
        u = SparseCorrelationUDF(peaks=pk, match_pattern=P, steps=2)
        r = run_tiled(u, data, tiles, depth)
        print(name, tname, 'max |corr - direct| = %.4f' % np.abs(r['corr']-ref).max())
try:
    SparseCorrelationUDF(peaks=pk, match_pattern=P, steps=2, zero_shift=np.array([1,1])); print('zero_shift accepted')
except ValueError as e: print('zero_shift rejected:', e)
