import numpy as np, warnings
warnings.simplefilter('ignore')
from libertem.udf.base import run_udf
from libertem_blobfinder.udf.correlation import FastCorrelationUDF, FullFrameCorrelationUDF
from libertem_blobfinder.udf.refinement import FastmatchMixin, AffineMixin
from libertem_blobfinder.udf.integration import IntegrationUDF
from libertem_blobfinder.common import patterns, correlation as cc
import libertem_blobfinder.common.gridmatching as grm
rng = np.random.default_rng(0)
data = rng.poisson(4, (5, 32, 30)).astype(np.float32)
P = patterns.BackgroundSubtraction(radius=3, search=5)
pk = np.array([[10,10],[20,15],[5,25],[16,16]])
ref = cc.process_frames_fast(P, data, pk)
for parts in ([[0,1,2,3,4]], [[0],[1],[2],[3],[4]], [[3,4],[0],[2,1]]):
    for limit in (1, 500, 2**19):
        u = FastCorrelationUDF(peaks=pk, match_pattern=P, zero_shift=None, **{'__limit': limit})
        r = run_udf(u, data, parts)
        print(parts, limit, np.array_equal(r['centers'], ref[0]), np.abs(r['refineds']-ref[1]).max(), np.abs(r['peak_values']-ref[2]).max())
class MyUDF(FastmatchMixin, FullFrameCorrelationUDF): pass
u = MyUDF(peaks=pk, match_pattern=P, zero_shift=None, matcher=grm.Matcher(), start_zero=np.array([16.,16.]), start_a=np.array([6.,0.]), start_b=np.array([0.,6.]))
r = run_udf(u, data, [[0,1],[2,3,4]])
print({k: v.shape for k, v in r.items()})
cent = IntegrationUDF.aux_data(np.tile(pk, (5,1,1)), kind='nav', dtype=np.int64, extra_shape=(4,2))
r = run_udf(IntegrationUDF(centers=cent, pattern=P), data, [[0,1,2],[3,4]])
print(r['integration'].shape, r['integration'][0])
