import numpy as np
from libertem_blobfinder.base import masks
for c in [(10.5,10.5),(10.4,10.3),(10.0,10.0), (10.5, 10.0)]:
    for kw in [dict(n_bins=None), dict(radius=8, n_bins=8), dict(radius=8,n_bins=4), dict(radius=8, n_bins=1)]:
        for sp in (False, True):
            b = masks.radial_bins(c[1], c[0], 21, 21, use_sparse=sp, **kw)
            if sp: b = b.todense()
            s = b.sum(axis=0)
            r, _ = masks.polar_map(c[1], c[0], 21, 21)
            rad = kw.get('radius', masks.bounding_radius(c[1],c[0],21,21))
            inside = (r >= 0.5) & (r <= rad-0.5)
            print(c, kw, sp, 'max dev inside', np.abs(s[inside]-1).max(), 'max', b.max(), s.max())
