import numpy as np, warnings
warnings.simplefilter('ignore')
from scipy.ndimage import fourier_shift
from libertem_blobfinder.base import masks, correlation as bc
from libertem_blobfinder.common import patterns, correlation as cc
rng = np.random.default_rng(13)
worst = {}
for trial in range(400):
    R = rng.uniform(3, 10); fy, fx = (int(v) for v in rng.integers(60, 100, 2))
    p = np.array([rng.uniform(25, fy-25), rng.uniform(25, fx-25)])
    contrast = 10**rng.uniform(0,3); bg = rng.uniform(0, 10)
    f = (bg + contrast*masks.circular(centerX=p[1], centerY=p[0], imageSizeX=fx, imageSizeY=fy, radius=R, antialiased=True))[None].astype(np.float32)
    ro = R*1.5
    Ps = {'RG': patterns.RadialGradient(R), 'BS': patterns.BackgroundSubtraction(R), 'Circ': patterns.Circular(R),
          'RGBSint': patterns.RadialGradientBackgroundSubtraction(R, radius_outer=np.ceil(ro))}
    start = np.round(p + rng.uniform(-0.4,0.4,2)*R).astype(int)[None]
    for k, P in Ps.items():
        for nm, fn in (('fast', cc.process_frames_fast), ('full', cc.process_frames_full)):
            r = fn(P, f, start)
            e_c = np.abs(r[0][0,0]-p).max(); e_r = np.abs(r[1][0,0]-p).max()
            key=(k,nm); w = worst.get(key,(0,0)); worst[key]=(max(w[0],e_c), max(w[1],e_r))
for k,v in sorted(worst.items()): print(k, 'centre err %.3f refined err %.3f'%v)
# upsampling band-limited
fft=np.fft; worst_u=0
for trial in range(200):
    shp = tuple(int(v) for v in rng.integers(40,91,2)); u=int(rng.integers(2,51)); sh = rng.uniform(-10,10,2)
    P = patterns.Circular(13); fr = P.get_mask(shp).astype(np.float32); t = P.get_template(shp)
    fs = fft.ifft2(fourier_shift(fft.fft2(fr), shift=sh)).real
    corrs, specs = bc.do_correlations(t[None], fs[None], with_specs=True)
    am = np.unravel_index(corrs[0].argmax(), corrs[0].shape)
    cen = np.ceil(np.asarray(shp)/2, dtype=np.float32)
    fq = (fft.fftfreq(shp[0], u), fft.rfftfreq(shp[1], u))
    ref = bc.refine_center_upsampling(cen, am, specs[0], fq, u)
    true = np.array(shp)//2 + sh
    worst_u = max(worst_u, (np.abs(ref-true).max() - 1/u))
print('upsampling worst excess over 1/u: %.4f'%worst_u)
