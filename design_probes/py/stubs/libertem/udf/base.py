import numpy as np
class _NS:
    def __init__(self, **kw): self.__dict__.update(kw)
    def get(self, k, d=None): return self.__dict__.get(k, d)
    def __getitem__(self, k): return self.__dict__[k]
class _BufDecl:
    def __init__(self, kind, extra_shape=(), dtype='float32'): self.kind=kind; self.extra_shape=tuple(extra_shape); self.dtype=np.dtype(dtype)
class _Aux:
    def __init__(self, data, kind, extra_shape, dtype): self.data=np.asarray(data, dtype=dtype); self.kind=kind; self.extra_shape=tuple(extra_shape)
    @property
    def shape(self): return self.data.shape
class _Shape:
    def __init__(self, nav, sig): self.nav=tuple(nav); self.sig=tuple(sig)
class UDF:
    BACKEND_NUMPY='numpy'; BACKEND_CUPY='cupy'; BACKEND_SPARSE_COO='sparse.COO'; BACKEND_SPARSE_GCXS='sparse.GCXS'
    def __init__(self, *args, **kwargs):
        self._kwargs = kwargs
        self.params = _NS(**kwargs)
    xp = np
    def buffer(self, kind, extra_shape=(), dtype='float32', **kw): return _BufDecl(kind, extra_shape, dtype)
    @classmethod
    def aux_data(cls, data, kind, extra_shape=(), dtype='float32'): return _Aux(data, kind, extra_shape, dtype)
    def forbuf(self, arr, target): return np.asarray(arr)
    def postprocess(self): pass
    def get_task_data(self): return {}
    def get_backends(self): return (self.BACKEND_NUMPY,)

def run_udf(udf, data, partitions, sig_dims=2, tiling=None):
    """data: (n, fy, fx); partitions: list of lists of frame indices."""
    n = data.shape[0]; sig = data.shape[1:]
    decl = None
    full = {}
    aux = {k: v for k, v in udf._kwargs.items() if isinstance(v, _Aux)}
    def view_params(idx):
        kw = dict(udf._kwargs)
        for k, a in aux.items(): kw[k] = a.data[idx] if idx is not None else a.data
        return _NS(**kw)
    udf.meta = _NS(input_dtype=data.dtype, dataset_shape=_Shape((n,), sig), array_backend=UDF.BACKEND_NUMPY, slice=None)
    udf.params = view_params(None)
    decl = udf.get_result_buffers()
    for k, d in decl.items(): full[k] = np.zeros((n,)+d.extra_shape, dtype=d.dtype)
    for part in partitions:
        udf.params = view_params(None)
        udf.task_data = _NS(**udf.get_task_data())
        for i in part:
            udf.params = view_params(i)
            udf.results = _NS(**{k: full[k][i] for k in full})
            udf.process_frame(data[i])
    udf.params = view_params(None)
    udf.results = _NS(**full)
    udf.postprocess()
    return full
