from .base import UDF
