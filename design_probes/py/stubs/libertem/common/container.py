class MaskContainer:
    def __init__(self, *a, **k): raise NotImplementedError
