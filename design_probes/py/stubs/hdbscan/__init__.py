import numpy as np
class HDBSCAN:
    """deterministic stand-in: greedy grid clustering of (r, phi) vectors"""
    def __init__(self, min_cluster_size=2, min_samples=1, cell=1.5):
        self.min_cluster_size=min_cluster_size; self.min_samples=min_samples; self.cell=cell
    def fit(self, X):
        X = np.asarray(X)
        keys = {}
        labels = -np.ones(len(X), dtype=int)
        for i, v in enumerate(X):
            k = (round(v[0]/self.cell), round(v[1]/0.05))
            keys.setdefault(k, []).append(i)
        lab = 0
        for k in sorted(keys):
            if len(keys[k]) >= max(2, self.min_cluster_size):
                labels[keys[k]] = lab; lab += 1
        self.labels_ = labels
        self.probabilities_ = np.ones(len(X))
        return self
