import numpy as np, warnings
from libertem_blobfinder.common import patterns, correlation as cc
from libertem_blobfinder.base import correlation as bc, masks
rng = np.random.default_rng(0)
# C13 slicing stale
frame = rng.integers(1, 9, size=(6,7)).astype(np.float32)
peaks = np.array([[0,0],[3,3],[5,6],[-5,2],[20,20]])
c=2
a = np.full((len(peaks),4,4), 77, dtype=np.float32); b=a.copy()
bc.crop_disks_from_frame(peaks, frame, c, a)
bc.crop_disks_from_frame_slicing(peaks, frame, c, b)
print("crop equal with prefilled:", np.array_equal(a,b))
print(b[0])
# C04 full: negative centers
pat = patterns.BackgroundSubtraction(radius=3, search=5)
frames = rng.poisson(3, size=(1,32,33)).astype(np.float32)
pk = np.array([[-8,-8],[0,0],[2,30],[40,40],[16,16]])
for fn in (cc.process_frames_fast, cc.process_frames_full):
    try:
        r = fn(pat, frames, pk)
        print(fn.__name__, r[0][0].tolist(), r[0].dtype, r[1][0].tolist())
        print(' heights', r[2][0], 'elev', r[3][0])
    except Exception as e:
        print(fn.__name__, 'EXC', type(e).__name__, e)
# u1 extremes full
f = np.zeros((1,32,32), dtype='u1'); f[0,10:14,10:14]=255
with warnings.catch_warnings():
    warnings.simplefilter('ignore')
    r = cc.process_frames_full(patterns.RadialGradient(radius=3), f, np.array([[12,12]]))
    r2 = cc.process_frames_full(patterns.RadialGradient(radius=3), f.astype('f8'), np.array([[12,12]]))
print('u1 extremes', r, r2)
