import numpy as np, warnings
warnings.simplefilter('ignore')
from libertem_blobfinder.base import masks, correlation as bc, utils
from libertem_blobfinder.common import patterns, correlation as cc
import libertem_blobfinder.common.gridmatching as grm
rng = np.random.default_rng(5)
# C14 translation/transposition/offset
bad = {'tr':0,'tp':0,'off':0}
for trial in range(60):
    fy, fx = rng.integers(30,50,2)
    f = rng.poisson(5, (1,fy,fx)).astype(np.float32)
    P = [patterns.RadialGradient(radius=3, search=5), patterns.BackgroundSubtraction(radius=3, search=6), patterns.Circular(radius=3.5, search=5)][trial%3]
    c = P.get_crop_size()
    pk = np.stack([rng.integers(c+3, fy-c-3, 4), rng.integers(c+3, fx-c-3, 4)], axis=1)
    for fn in (cc.process_frames_fast, cc.process_frames_full):
        r0 = fn(P, f, pk)
        # offset
        r1 = fn(P, f+1000, pk)
        if not (np.array_equal(r0[0], r1[0]) and np.allclose(r0[1], r1[1], atol=2e-3) and np.allclose(r0[2], r1[2], rtol=1e-3)): bad['off']+=1
        # transpose
        r2 = fn(P, f.transpose(0,2,1).copy(), pk[:, ::-1].copy())
        if not (np.array_equal(r0[0][..., ::-1], r2[0]) and np.allclose(r0[1][..., ::-1], r2[1], atol=2e-3)): bad['tp']+=1
        # cyclic translation (full) / inside (fast)
        v = np.array([2, -3])
        f2 = np.roll(f, v, axis=(1,2))
        r3 = fn(P, f2, pk+v)
        if fn is cc.process_frames_full:
            if not (np.array_equal(r0[0]+v, r3[0]) and np.allclose(r0[1]+v, r3[1], atol=2e-3) and np.allclose(r0[2], r3[2], rtol=1e-4)): bad['tr']+=1
print('C14', bad)
# C17
bad=0
for trial in range(2000):
    zero = rng.uniform(-50,50,2); ang=rng.uniform(0,2*np.pi); d=rng.uniform(0.06,np.pi-0.06)*rng.choice([-1,1])
    a = rng.uniform(1,100)*np.array([np.sin(ang),np.cos(ang)]); b = rng.uniform(1,100)*np.array([np.sin(ang+d),np.cos(ang+d)])
    idx = rng.uniform(-5,5,(7,2))
    pts = utils.calc_coords(zero,a,b,idx)
    if not np.allclose(grm.get_indices(pts, zero,a,b), idx, atol=1e-6): bad+=1
    pol = utils.make_polar(pts); 
    if not np.allclose(utils.make_cartesian(pol), pts): bad+=1
print('C17 roundtrip bad', bad)
# frame_peaks boundary, integer lattice
fy, fx, r = 40, 50, 5
idxg = np.mgrid[-6:7, -6:7]
i1, p1 = utils.frame_peaks(fy, fx, np.array([20,25]), np.array([5,0]), np.array([0,5]), r, idxg)
i2, p2 = utils.frame_peaks(fy, fx, np.array([20,25]), np.array([5,0]), np.array([0,5]), r, utils.regularize_indices(idxg))
print('frame_peaks', len(i1), np.array_equal(i1,i2), p1.min(axis=0), p1.max(axis=0))
m = grm.Match(grm.CorrelationResult(p1), None, np.array([20,25]), np.array([5,0]), np.array([0,5]), i1)
print('Match.calc_coords drop_zero', len(m.calc_coords(idxg)), len(m.calc_coords(idxg, drop_zero=True)), len(m.calc_coords(idxg, frame_shape=(fy,fx), r=r)))
# C20
bad=0
for trial in range(500):
    n=int(rng.integers(3,30)); ref=rng.uniform(-50,50,(n,2))
    L = rng.normal(0,1,(2,2)); 
    if np.linalg.cond(L)>50: continue
    t = rng.uniform(-20,20,2); c = rng.uniform(-30,30,2); w=rng.uniform(0.1,10,n)
    tgt = (ref-c)@L + t + c
    M = grm.get_transformation(ref, tgt, center=c, weighs=w)
    if not np.allclose(grm.do_transformation(M, ref, center=c), tgt, atol=1e-7): bad+=1
    M0 = grm.get_transformation(ref, tgt)
    try:
        ctr = grm.find_center(M0)
        if not np.allclose(grm.do_transformation(M0, ctr[None]), ctr[None], atol=1e-6*max(1,np.abs(ctr).max())): bad+=1; print('fc', ctr, grm.do_transformation(M0, ctr[None]))
    except np.linalg.LinAlgError: pass
print('C20 bad', bad)
# C06
bad=0
for trial in range(300):
    n=int(rng.integers(3,40)); idx=rng.integers(-4,5,(n,2)).astype(float)
    if np.linalg.matrix_rank(np.hstack([np.ones((n,1)),idx]))<3: continue
    zero=rng.uniform(0,100,2); a=rng.uniform(-30,30,2); b=rng.uniform(-30,30,2)
    pts = zero+idx@np.array([a,b]) + rng.normal(0,1,(n,2)); w=10**rng.uniform(-2,2,n)
    mt = grm.Matcher().affinematch(centers=pts, indices=idx, peak_elevations=w)
    A = np.hstack([np.ones((n,1)),idx]); N=A.T@(A*w[:,None]); x=np.linalg.solve(N, A.T@(pts*w[:,None]))
    if not np.allclose(np.array([mt.zero,mt.a,mt.b]), x, atol=1e-7): bad+=1
    res = np.linalg.norm(pts - mt.calculated_refineds, axis=1)
    if not np.isclose(mt.error, (res*w).sum()/w.sum()): bad+=1
print('C06 bad', bad)
