import numpy as np, warnings
from libertem_blobfinder.common import patterns, correlation as cc
from libertem_blobfinder.base import correlation as bc, masks
from libertem_blobfinder.base.utils import cbed_frame
frames, idx, peaks = cbed_frame(fy=64, fx=64, radius=4, a=(16,0))
pat = patterns.RadialGradient(radius=4)
pk = peaks.astype(np.int32)
ref = cc.process_frames_fast(pat, frames.astype(np.float64), pk)
for dt in ['u1','u2','u4','u8','i1','i2','i4','i8','f4','f8']:
    f = np.clip(frames, 0, 100).astype(dt)
    for name, fn in (('fast', cc.process_frames_fast), ('full', cc.process_frames_full)):
        try:
            with warnings.catch_warnings():
                warnings.simplefilter('error')
                r = fn(pat, f, pk)
            r64 = fn(pat, f.astype('f8'), pk)
            print(dt, name, 'ok', np.array_equal(r[0], r64[0]), np.abs(r[1]-r64[1]).max(), np.abs(r[2]-r64[2]).max())
        except Exception as e:
            print(dt, name, 'EXC', type(e).__name__, str(e)[:100])
