import numpy as np, warnings
warnings.simplefilter('ignore')
from libertem_blobfinder.base import masks, correlation as bc, utils
from libertem_blobfinder.common import patterns
import libertem_blobfinder.common.gridmatching as grm
# C19
t = np.arange(1,7).reshape(2,3).astype(float)
def dense(offY, offX, H, W):
    out = np.zeros((H,W))
    for y in range(2):
        for x in range(3):
            yy, xx = y+offY, x+offX
            if 0<=yy<H and 0<=xx<W: out[yy,xx]=t[y,x]
    return out
bad=0
for H in range(1,5):
  for W in range(1,5):
    for oy in range(-4, H+3):
      for ox in range(-5, W+3):
        try:
            s = masks.sparse_template_multi_stack([0,1],[ox, 0],[oy, 0], t, W, H)
            d = s.todense()
            if not np.array_equal(d[0], dense(oy,ox,H,W)): bad+=1; print('mismatch', H,W,oy,ox)
        except Exception as e:
            bad+=1; print('EXC', H,W,oy,ox, type(e).__name__, e); break
print('C19 bad', bad)
# feature vector centre convention
P = patterns.Circular(radius=2, search=3)
fv = patterns.feature_vector(12, 10, np.array([[5,6],[0,0],[9,11]]), P).todense()
print(fv.shape, np.unravel_index(fv[0].argmax(), fv[0].shape), fv[0].sum(), fv[1].sum())
print((fv[0]>0).astype(int))
sc = masks.sparse_circular_multi_stack([0,1],[6,0],[5,0],12,10,2.5).todense()
dc = masks.circular(6,5,12,10,2.5)
print('circ stack eq', np.array_equal(sc[0].astype(bool), dc))
# C08 get_buf_count
for args in [(4, 10, np.float32, 2**19), (4,10,np.float32,1), (100, 5, np.float64, 1000), (4,0,np.float32,2**19)]:
    print(args, bc.get_buf_count(*args))
# C17 mgrid layout
idx = np.mgrid[-1:2, -2:3]
print(utils.regularize_indices(idx)[:7].tolist())
