import numpy as np, warnings
warnings.simplefilter('ignore')
from libertem_blobfinder.base import masks, correlation as bc
from libertem_blobfinder.common import patterns, correlation as cc
def disk(shape, p, R, amp=50., bg=3., aa=False):
    d = masks.circular(centerX=p[1], centerY=p[0], imageSizeX=shape[1], imageSizeY=shape[0], radius=R, antialiased=aa).astype(float)
    L = bg + amp*d   # log-scaled intensity
    return np.exp(L) # so that log(x - min + 1) ~ L - shift? not exactly
def frame_from_log(L):
    # want log(x - min + 1) == L - min(L): x = exp(L - min L) - 1
    return np.exp(L - L.min()) - 1
for shape in [(48,48),(47,49),(50,45)]:
  for R in [3, 4, 5, 4.5]:
    p = (21, 23)
    L = 1.0 + 2.0*masks.circular(centerX=p[1], centerY=p[0], imageSizeX=shape[1], imageSizeY=shape[0], radius=R).astype(float)
    f = frame_from_log(L)[None]
    pats = {
      'RG': patterns.RadialGradient(radius=R, search=R*1.7),
      'BS': patterns.BackgroundSubtraction(radius=R, search=R*2.2),
      'Circ': patterns.Circular(radius=R, search=R*1.5),
      'RGBS': patterns.RadialGradientBackgroundSubtraction(radius=R, search=2*R),
      'UT_odd': patterns.UserTemplate(masks.circular(int(R)+1, int(R)+1, 2*int(R)+3, 2*int(R)+3, R).astype(float), search=2*R),
      'UT_even': patterns.UserTemplate(masks.circular(int(R)+1, int(R)+1, 2*int(R)+2, 2*int(R)+2, R).astype(float), search=2*R),
    }
    for name, P in pats.items():
        for off in [(0,0),(2,-1)]:
            pk = np.array([[p[0]+off[0], p[1]+off[1]]])
            r1 = cc.process_frames_fast(P, f, pk); r2 = cc.process_frames_full(P, f, pk)
            ok1 = (r1[0][0,0].tolist()==list(p)); ok2=(r2[0][0,0].tolist()==list(p))
            e1 = np.abs(r1[1][0,0]-p).max(); e2 = np.abs(r2[1][0,0]-p).max()
            if not (ok1 and ok2 and e1<0.01 and e2<0.01):
                print(shape, R, name, off, 'fast', r1[0][0,0].tolist(), round(float(e1),3), 'full', r2[0][0,0].tolist(), round(float(e2),3))
print('done')
