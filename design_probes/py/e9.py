import numpy as np, warnings, signal
warnings.simplefilter('ignore')
import libertem_blobfinder.common.fullmatch as fm  # (probe was also run against a copy with np.cross replaced)
import libertem_blobfinder.common.gridmatching as grm
rng = np.random.default_rng(3)
class TO(Exception): pass
def h(*a): raise TO()
signal.signal(signal.SIGALRM, h)
stats = dict(ok=0, exc=0, timeout=0, viol=0)
for trial in range(400):
    kind = trial % 4
    zero = rng.uniform(40,60,2)
    ang = rng.uniform(0,np.pi); la, lb = rng.uniform(10,30,2); ang2 = ang+rng.uniform(np.pi/3, 2*np.pi/3)
    a = la*np.array([np.sin(ang),np.cos(ang)]); b = lb*np.array([np.sin(ang2),np.cos(ang2)])
    n = int(rng.integers(3,20))
    idx = rng.integers(-3,4,size=(n,2)); idx[0]=0
    pts = zero + idx@np.array([a,b])
    if kind==1: pts = pts + rng.normal(0,0.2,pts.shape); pts[0]=zero
    if kind==2: pts = np.vstack([pts, rng.uniform(0,100,(int(rng.integers(1,6)),2))])
    if kind==3: pts = rng.uniform(0,100,(n,2))
    w = rng.uniform(0.05, 3, len(pts))
    mm = int(rng.integers(2,6))
    m = fm.FullMatcher(tolerance=rng.uniform(0.5,3), min_weight=0.1, min_match=mm, min_points=int(rng.integers(3,15)),
                       min_delta=rng.choice([0, 5]), max_delta=rng.choice([np.inf, 60]))
    signal.alarm(20)
    try:
        matches, unmatched, weak = m.full_match(pts, zero=pts[0], peak_elevations=w)
        signal.alarm(0)
        stats['ok']+=1
        filt = w >= 0.1
        zsel = np.array([np.allclose(p, pts[0]) for p in pts])
        cnt = np.zeros(len(pts), int)
        for mt in matches: cnt += mt.selector
        bad = []
        if not np.array_equal(weak.selector, ~filt): bad.append('weak')
        for i in range(len(pts)):
            if zsel[i]: 
                if matches and unmatched.selector[i]: bad.append('zero unmatched')
                continue
            if filt[i]:
                if cnt[i] + unmatched.selector[i] != 1: bad.append(('partition', i, cnt[i], unmatched.selector[i]))
            else:
                if cnt[i] or unmatched.selector[i]: bad.append(('weak in', i, cnt[i], unmatched.selector[i]))
        for mt in matches:
            if len(mt) < mm: bad.append(('short', len(mt), mm))
        if bad:
            stats['viol']+=1
            if stats['viol']<=5: print(trial, kind, bad[:4])
    except TO:
        stats['timeout']+=1; print('TIMEOUT', trial, kind, len(pts), mm)
    except Exception as e:
        signal.alarm(0); stats['exc']+=1; print('EXC', trial, kind, type(e).__name__, str(e)[:100])
print(stats)
