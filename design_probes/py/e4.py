import numpy as np, warnings
import libertem_blobfinder.common.gridmatching as grm
warnings.simplefilter('ignore')
m = grm.Matcher(tolerance=3, min_weight=0.1, min_match=3)
zero=np.array([50.,50.]); a=np.array([20.,0.]); b=np.array([0.,25.])
idx = np.array([(i,j) for i in range(-2,3) for j in range(-2,3)])
pts = zero + idx@np.array([a,b])
def t(name, **kw):
    try:
        r = m.fastmatch(**kw)
        print(name, 'ok', r.isnan(), len(r), r.error, len(r.indices))
    except Exception as e:
        print(name, 'EXC', type(e).__name__, str(e)[:80])
t('normal', centers=pts, zero=zero, a=a, b=b)
t('empty', centers=np.zeros((0,2)), zero=zero, a=a, b=b)
t('parallel', centers=pts, zero=zero, a=a, b=2*a)
t('zero vec', centers=pts, zero=zero, a=a*0, b=b)
t('nan a', centers=pts, zero=zero, a=a*np.nan, b=b)
t('nan pts', centers=pts*np.nan, zero=zero, a=a, b=b)
p2=pts.copy(); p2[3]=np.nan
t('one nan pt', centers=p2, zero=zero, a=a, b=b)
p2=pts.copy(); p2[3]=np.inf
t('one inf pt', centers=p2, zero=zero, a=a, b=b)
t('dups', centers=np.repeat(pts[:1],5,axis=0), zero=zero, a=a, b=b)
t('collinear', centers=pts[idx[:,0]==0], zero=zero, a=a, b=b)
t('zero weights', centers=pts, zero=zero, a=a, b=b, peak_elevations=np.zeros(len(pts)))
t('zero weights mw0', centers=pts, zero=zero, a=a, b=b, peak_elevations=np.zeros(len(pts)))
m0 = grm.Matcher(min_weight=0)
try:
    r = m0.fastmatch(centers=pts, zero=zero, a=a, b=b, peak_elevations=np.zeros(len(pts))); print('zw mw0', r.isnan(), len(r), r.error, r.zero)
except Exception as e: print('zw mw0 EXC', type(e).__name__, e)
try:
    r = m0.fastmatch(centers=pts, zero=zero, a=a, b=b, peak_elevations=np.full(len(pts), np.nan)); print('nan w', r.isnan(), len(r), r.error)
except Exception as e: print('nan w EXC', type(e).__name__, e)
# affinematch
try:
    r = m.affinematch(centers=pts[:2], indices=idx[:2]); print('aff 2 pts', r.isnan(), r.zero, r.a, r.b, r.error)
except Exception as e: print('aff EXC', type(e).__name__, e)
