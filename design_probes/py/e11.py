import numpy as np, warnings
warnings.simplefilter('ignore')
from libertem_blobfinder.base import masks, correlation as bc, utils
from libertem_blobfinder.common import patterns, correlation as cc
rng = np.random.default_rng(7)
# C16 built-in masks
bad=[]
for trial in range(300):
    R = rng.uniform(1.5, 15); ro = R*rng.uniform(1.1, 2); 
    shp = tuple(int(v) for v in rng.integers(2, 90, 2))
    for P in [patterns.Circular(R), patterns.RadialGradient(R), patterns.BackgroundSubtraction(R, radius_outer=ro), patterns.RadialGradientBackgroundSubtraction(R, radius_outer=ro)]:
        try:
            m = P.get_mask(shp)
        except Exception as e:
            bad.append((type(P).__name__, shp, R, ro, 'EXC', str(e)[:60])); continue
        if m.shape != shp: bad.append((type(P).__name__, shp, 'shape', m.shape)); continue
        cy, cx = shp[0]//2, shp[1]//2
        # point symmetry where both exist
        ys, xs = np.mgrid[0:shp[0], 0:shp[1]]
        y2, x2 = 2*cy-ys, 2*cx-xs
        ok = (y2>=0)&(y2<shp[0])&(x2>=0)&(x2<shp[1])
        d = np.abs(m[ys[ok], xs[ok]] - m[y2[ok], x2[ok]]).max() if ok.any() else 0
        if d > 1e-9: bad.append((type(P).__name__, shp, round(R,2), round(ro,2), 'asym', d))
        outer = ro if hasattr(P,'radius_outer') else R
        rr = np.sqrt((ys-cy)**2+(xs-cx)**2)
        if np.abs(m[rr > outer+1]).max(initial=0) > 1e-12: bad.append((type(P).__name__, shp, 'support'))
        if m.max() > 1+1e-12: bad.append((type(P).__name__, shp, 'gt1', m.max()))
        if isinstance(P, patterns.BackgroundSubtraction) and np.isfinite(m).all() and abs(m.sum())>1e-9: bad.append(('BS', shp, round(R,2), round(ro,2), 'sum', m.sum()))
        if not np.isfinite(m).all(): bad.append((type(P).__name__, shp, round(R,2), round(ro,2), 'nonfinite'))
from collections import Counter
print(Counter((b[0], b[-2] if isinstance(b[-1], float) else b[-1]) for b in bad).most_common(12))
print(bad[:6])
