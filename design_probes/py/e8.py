import numpy as np, warnings
warnings.simplefilter('ignore')
import libertem_blobfinder.common.gridmatching as grm
rng = np.random.default_rng(1)
found=0
for trial in range(20000):
    mm = int(rng.integers(3,8))
    tol = rng.uniform(0.3, 3)
    m = grm.Matcher(tolerance=tol, min_weight=0.1, min_match=mm)
    zero = rng.uniform(40,60,2); ang = rng.uniform(0,np.pi); la, lb = rng.uniform(20,40,2); ang2 = ang+rng.uniform(np.pi/3, 2*np.pi/3)
    a = la*np.array([np.sin(ang),np.cos(ang)]); b = lb*np.array([np.sin(ang2),np.cos(ang2)])
    n = mm + int(rng.integers(0,2))
    idx = rng.integers(-3,4,size=(n,2))
    pts = zero + idx@np.array([a,b]) + rng.normal(0, tol*0.6, size=(n,2))
    w = rng.uniform(0.2, 5, n)
    r = m.fastmatch(centers=pts, zero=zero+rng.normal(0,.5,2), a=a, b=b, peak_elevations=w)
    if not r.isnan() and len(r) < mm:
        found+=1
        if found<=3: print('valid match with', len(r), '<', mm, 'tol', tol, 'error', r.error)
print('found', found)
