From Coq Require Import Morphisms QArith Qminmax Qabs Lqa List.
Import ListNotations.
Open Scope Q_scope.

Definition clip01 (x : Q) : Q := Qmax 0 (Qmin 1 x).
Definition bin (w c r : Q) : Q := clip01 (w*(1#2) + (1#2) - Qabs (r - c)).

Lemma clip01_cases x : (x <= 0 /\ clip01 x == 0) \/ (0 <= x <= 1 /\ clip01 x == x) \/ (1 <= x /\ clip01 x == 1).
Proof.
  unfold clip01.
  destruct (Qlt_le_dec x 0) as [H|H].
  - left. split; [lra|]. rewrite Q.min_r by lra. rewrite Q.max_l by lra. reflexivity.
  - destruct (Qlt_le_dec x 1) as [H1|H1].
    + right; left. split; [lra|]. rewrite Q.min_r by lra. rewrite Q.max_r by lra. reflexivity.
    + right; right. split; [lra|]. rewrite Q.min_l by lra. rewrite Q.max_r by lra. reflexivity.
Qed.

#[global] Instance clip01_proper : Proper (Qeq ==> Qeq) clip01.
Proof. intros x y H. unfold clip01. rewrite H. reflexivity. Qed.

Lemma Qabs_cases x : (0 <= x /\ Qabs x == x) \/ (x <= 0 /\ Qabs x == - x).
Proof. destruct (Qlt_le_dec x 0); [right|left]; split; try lra; [apply Qabs_neg|apply Qabs_pos]; lra. Qed.

Lemma bin_trapezoid w e r : 1 <= w ->
  bin w (e + w*(1#2)) r == clip01 (r - e + (1#2)) - clip01 (r - (e + w) + (1#2)).
Proof.
  intros Hw. unfold bin.
  destruct (Qabs_cases (r - (e + w*(1#2)))) as [[Ha Ea]|[Ha Ea]]; rewrite Ea; clear Ea;
  destruct (clip01_cases (w*(1#2) + (1#2) - (r - (e + w*(1#2))))) as [[H1 E1]|[[H1 E1]|[H1 E1]]];
  destruct (clip01_cases (w*(1#2) + (1#2) - - (r - (e + w*(1#2))))) as [[H1' E1']|[[H1' E1']|[H1' E1']]];
  destruct (clip01_cases (r - e + (1#2))) as [[H2 E2]|[[H2 E2]|[H2 E2]]];
  destruct (clip01_cases (r - (e + w) + (1#2))) as [[H3 E3]|[[H3 E3]|[H3 E3]]];
  rewrite ?E1, ?E1', E2, E3; clear E1 E1' E2 E3; lra.
Qed.
Print Assumptions bin_trapezoid.

Fixpoint sumQ (l : list Q) : Q := match l with [] => 0 | x :: t => x + sumQ t end.
Fixpoint bins (n : nat) (w e r : Q) : list Q :=
  match n with O => [] | S k => bin w (e + w*(1#2)) r :: bins k w (e + w) r end.
Lemma bins_telescope n : forall w e r, 1 <= w ->
  sumQ (bins n w e r) == clip01 (r - e + (1#2)) - clip01 (r - (e + inject_Z (Z.of_nat n) * w) + (1#2)).
Proof.
  induction n as [|n IH]; intros w e r Hw.
  - cbn [bins sumQ Z.of_nat]. assert (E : e + inject_Z 0 * w == e) by (unfold inject_Z; ring).
    rewrite E. ring.
  - cbn [bins sumQ]. rewrite IH by assumption. rewrite bin_trapezoid by assumption.
    assert (E : e + w + inject_Z (Z.of_nat n) * w == e + inject_Z (Z.of_nat (S n)) * w).
    { rewrite Nat2Z.inj_succ, <- Z.add_1_r, inject_Z_plus. unfold inject_Z at 3. ring. }
    rewrite E. ring.
Qed.
Print Assumptions bins_telescope.

Theorem partition_of_unity n w ri r : 1 <= w ->
  ri + (1#2) <= r -> r <= ri + inject_Z (Z.of_nat n) * w - (1#2) ->
  sumQ (bins n w ri r) == 1.
Proof.
  intros Hw Hlo Hhi. rewrite bins_telescope by assumption.
  destruct (clip01_cases (r - ri + (1#2))) as [[H1 E1]|[[H1 E1]|[H1 E1]]];
  destruct (clip01_cases (r - (ri + inject_Z (Z.of_nat n) * w) + (1#2))) as [[H2 E2]|[[H2 E2]|[H2 E2]]];
  rewrite E1, E2; lra.
Qed.
Print Assumptions partition_of_unity.
