(* feasibility: block loop coverage for all n, bc ; python floor-div semantics *)
From Coq Require Import ZArith List Lia.
Import ListNotations.
Open Scope Z_scope.
Ltac Zify.zify_post_hook ::= Z.to_euclidean_division_equations.

Definition block_count (n bc : Z) := (n - 1) / bc + 1.
Definition blk_start (bc b : Z) := b * bc.
Definition blk_stop (n bc b : Z) := Z.min ((b + 1) * bc) n.

Lemma last_block_reaches_n n bc : 0 < n -> 0 < bc ->
  blk_stop n bc (block_count n bc - 1) = n.
Proof. unfold blk_stop, block_count. intros. nia. Qed.

Lemma blocks_nonempty n bc b : 0 < n -> 0 < bc -> 0 <= b < block_count n bc ->
  blk_start bc b < blk_stop n bc b /\ blk_stop n bc b - blk_start bc b <= bc.
Proof. unfold blk_stop, blk_start, block_count. intros. nia. Qed.

Lemma blocks_contiguous n bc b : 0 < bc -> 0 <= b -> b + 1 < block_count n bc ->
  blk_stop n bc b = blk_start bc (b + 1).
Proof. unfold blk_stop, blk_start, block_count. intros. nia. Qed.

Lemma zero_peaks bc : 0 < bc -> block_count 0 bc = 0.
Proof. unfold block_count. intros. nia. Qed.

(* user template offsets *)
Definition pad_before_code (s t : Z) := (t - s) / 2.            (* code today *)
Definition pad_before_fixed (s t : Z) := t / 2 - s / 2.
Lemma centre_fixed s t : 0 < s <= t -> pad_before_fixed s t + s / 2 = t / 2.
Proof. unfold pad_before_fixed. lia. Qed.
Lemma centre_code_refuted : exists s t, 0 < s <= t /\ pad_before_code s t + s / 2 <> t / 2.
Proof. exists 3, 4. vm_compute. split; [split|]; congruence. Qed.
Lemma centre_code_partial s t : 0 < s <= t -> (Z.even s = true \/ Z.odd t = true) ->
  pad_before_code s t + s / 2 = t / 2.
Proof. unfold pad_before_code. intros H [E|E]; [apply Z.even_spec in E|apply Z.odd_spec in E]; destruct E as [k ->]; lia. Qed.
Print Assumptions centre_code_partial.
