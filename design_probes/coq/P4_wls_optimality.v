From Coq Require Import QArith Lqa List Morphisms.
Import ListNotations.
Open Scope Q_scope.
Record row := { w : Q; i : Q; j : Q; p : Q }.
Fixpoint sumf (f : row -> Q) (l : list row) : Q := match l with [] => 0 | r :: t => f r + sumf f t end.
Definition res (x0 x1 x2 : Q) (r : row) := x0 + i r * x1 + j r * x2 - p r.
Definition cost x0 x1 x2 l := sumf (fun r => w r * (res x0 x1 x2 r * res x0 x1 x2 r)) l.
Definition lin d0 d1 d2 (r : row) := d0 + i r * d1 + j r * d2.
Lemma cost_expand l : forall x0 x1 x2 d0 d1 d2,
  cost (x0+d0) (x1+d1) (x2+d2) l ==
  cost x0 x1 x2 l
  + (2#1) * (d0 * sumf (fun r => w r * res x0 x1 x2 r) l
          + d1 * sumf (fun r => w r * res x0 x1 x2 r * i r) l
          + d2 * sumf (fun r => w r * res x0 x1 x2 r * j r) l)
  + sumf (fun r => w r * (lin d0 d1 d2 r * lin d0 d1 d2 r)) l.
Proof.
  induction l as [|r t IH]; intros; unfold cost in *; cbn [sumf].
  - ring.
  - rewrite IH. unfold res, lin. ring.
Qed.
Lemma sumf_nonneg f l : (forall r, In r l -> 0 <= f r) -> 0 <= sumf f l.
Proof. induction l as [|r t IH]; intros H; cbn [sumf]; [lra|].
  assert (0 <= f r) by (apply H; left; reflexivity).
  assert (0 <= sumf f t) by (apply IH; intros; apply H; right; assumption). lra. Qed.
Theorem normal_eq_optimal l x0 x1 x2 :
  (forall r, In r l -> 0 <= w r) ->
  sumf (fun r => w r * res x0 x1 x2 r) l == 0 ->
  sumf (fun r => w r * res x0 x1 x2 r * i r) l == 0 ->
  sumf (fun r => w r * res x0 x1 x2 r * j r) l == 0 ->
  forall y0 y1 y2, cost x0 x1 x2 l <= cost y0 y1 y2 l.
Proof.
  intros Hw E0 E1 E2 y0 y1 y2.
  assert (cost y0 y1 y2 l == cost (x0 + (y0 - x0)) (x1 + (y1 - x1)) (x2 + (y2 - x2)) l) as ->.
  { unfold cost. clear. induction l; cbn [sumf]; [reflexivity|]. rewrite IHl. unfold res. ring. }
  rewrite cost_expand, E0, E1, E2.
  assert (0 <= sumf (fun r => w r * (lin (y0-x0) (y1-x1) (y2-x2) r * lin (y0-x0) (y1-x1) (y2-x2) r)) l).
  { apply sumf_nonneg. intros r Hr. specialize (Hw r Hr).
    assert (0 <= lin (y0-x0) (y1-x1) (y2-x2) r * lin (y0-x0) (y1-x1) (y2-x2) r) by nra. nra. }
  lra.
Qed.
Print Assumptions normal_eq_optimal.
