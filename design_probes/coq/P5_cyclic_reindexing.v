From Coq Require Import ZArith List Lia Permutation.
Import ListNotations.
Open Scope Z_scope.
Ltac Zify.zify_post_hook ::= Z.to_euclidean_division_equations.

Definition zseq (n : nat) : list Z := map Z.of_nat (seq 0 n).
Definition sumZ (l : list Z) := fold_right Z.add 0 l.

Lemma sumZ_perm l l' : Permutation l l' -> sumZ l = sumZ l'.
Proof. unfold sumZ; induction 1; cbn [fold_right] in *; lia. Qed.

Lemma in_zseq n x : In x (zseq n) <-> 0 <= x < Z.of_nat n.
Proof. unfold zseq. rewrite in_map_iff. split.
  - intros (k & <- & Hk). apply in_seq in Hk. lia.
  - intros H. exists (Z.to_nat x). split; [lia|]. apply in_seq. lia. Qed.

Lemma NoDup_zseq n : NoDup (zseq n).
Proof. unfold zseq. apply FinFun.Injective_map_NoDup; [intros a b; lia|apply seq_NoDup]. Qed.

Lemma NoDup_map_inj_in {A B} (f : A -> B) l :
  (forall x y, In x l -> In y l -> f x = f y -> x = y) -> NoDup l -> NoDup (map f l).
Proof.
  induction l as [|a l IH]; intros Hinj Hnd; cbn; [constructor|].
  inversion Hnd as [|? ? Hna Hnd']; subst. constructor.
  - intros Hin. apply in_map_iff in Hin. destruct Hin as (b & E & Hb).
    assert (b = a) by (apply Hinj; [right; assumption|left; reflexivity|assumption]). subst. contradiction.
  - apply IH; [|assumption]. intros x y Hx Hy. apply Hinj; right; assumption.
Qed.

Lemma reflect_perm (n : nat) (a : Z) : (0 < n)%nat ->
  Permutation (map (fun t => (a - t) mod Z.of_nat n) (zseq n)) (zseq n).
Proof.
  intros Hn. apply NoDup_Permutation_bis.
  - apply NoDup_map_inj_in; [|apply NoDup_zseq].
    intros x y Hx Hy E. apply in_zseq in Hx, Hy.
    assert (((a - x) - (a - y)) mod Z.of_nat n = 0) by (rewrite Zminus_mod, E, Z.sub_diag; apply Z.mod_0_l; lia).
    assert (Hd : (y - x) mod Z.of_nat n = 0) by (rewrite <- H; f_equal; lia).
    apply Z.mod_divide in Hd; [|lia]. destruct Hd as [k Hk]. assert (Hk0 : k = 0) by (assert (k <= -1 \/ k = 0 \/ 1 <= k) as [?|[?|?]] by lia; [nia|assumption|nia]). subst k. lia.
  - rewrite map_length. reflexivity.
  - intros z Hz. apply in_map_iff in Hz. destruct Hz as (t & <- & Ht). apply in_zseq.
    apply Z.mod_pos_bound. lia.
Qed.

Lemma sum_reflect (n : nat) a (f : Z -> Z) : (0 < n)%nat ->
  sumZ (map f (zseq n)) = sumZ (map (fun t => f ((a - t) mod Z.of_nat n)) (zseq n)).
Proof.
  intros Hn. rewrite <- (map_map (fun t => (a - t) mod Z.of_nat n) f).
  apply sumZ_perm, Permutation_map, Permutation_sym, reflect_perm, Hn.
Qed.
Print Assumptions sum_reflect.
