From Coq Require Import ZArith Lia Bool.
Open Scope Z_scope.
(* CPython PySlice_AdjustIndices, step = 1 *)
Definition adj1 (i : option Z) (dflt len : Z) : Z :=
  match i with
  | None => dflt
  | Some v => if v <? 0 then Z.max 0 (v + len) else Z.min v len
  end.
Definition slice_lo (start : option Z) len := adj1 start 0 len.
Definition slice_hi (stop : option Z) len := adj1 stop len len.
Definition slice_len (start stop : option Z) len := Z.max 0 (slice_hi stop len - slice_lo start len).

(* crop_disks_from_frame_slicing, one axis; W = 2c = window length, f = frame length, p peak *)
Definition origin (c p : Z) := 0 + p - c.
Definition endd (c p : Z) := 2 * c + p - c.
Definition skip (c p : Z) := Z.max (- origin c p) 0.
Definition cut (f c p : Z) := let v := f - endd c p in if v >=? 0 then None else Some v.
Definition tgt_lo (f c p : Z) := slice_lo (Some (skip c p)) (2 * c).
Definition tgt_len (f c p : Z) := slice_len (Some (skip c p)) (cut f c p) (2 * c).
Definition src_lo (f c p : Z) := slice_lo (Some (Z.max (origin c p) 0)) f.
Definition src_len (f c p : Z) := slice_len (Some (Z.max (origin c p) 0)) (Some (Z.max (endd c p) 0)) f.

Lemma lens_agree f c p : 0 <= f -> 0 <= c -> tgt_len f c p = src_len f c p.
Proof.
  intros Hf Hc. unfold tgt_len, src_len, cut, skip, origin, endd, slice_len, slice_hi, slice_lo, adj1.
  repeat match goal with |- context [if ?b then _ else _] => destruct b eqn:? end; lia.
Qed.

(* every assigned target index j maps to frame index j + p - c, in bounds *)
Lemma assigned_maps f c p j : 0 <= f -> 0 <= c ->
  tgt_lo f c p <= j < tgt_lo f c p + tgt_len f c p ->
  src_lo f c p + (j - tgt_lo f c p) = j + p - c /\ 0 <= j + p - c < f /\ 0 <= j < 2 * c.
Proof.
  intros Hf Hc. unfold tgt_lo, tgt_len, src_lo, cut, skip, origin, endd, slice_len, slice_hi, slice_lo, adj1.
  repeat match goal with |- context [if ?b then _ else _] => destruct b eqn:? end; lia.
Qed.

(* conversely every in-frame window index is assigned *)
Lemma inframe_assigned f c p j : 0 <= f -> 0 <= c -> 0 <= j < 2 * c -> 0 <= j + p - c < f ->
  tgt_lo f c p <= j < tgt_lo f c p + tgt_len f c p.
Proof.
  intros Hf Hc. unfold tgt_lo, tgt_len, cut, skip, origin, endd, slice_len, slice_hi, slice_lo, adj1.
  repeat match goal with |- context [if ?b then _ else _] => destruct b eqn:? end; lia.
Qed.
Print Assumptions inframe_assigned.
