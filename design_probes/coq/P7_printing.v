From Coq Require Import ZArith List String QArith.
Import ListNotations.
Open Scope Z_scope.
(* Approach A: print nested lists of Z, parse with regex *)
Definition res : list (list Z) := [[1; -2; 300000000000000000000]; [4; 5; 6]].
Set Printing Width 1000000.
Set Printing Depth 10000000.
Eval vm_compute in res.
(* Approach B: Q as pairs *)
Definition qs : list (Z * positive) := map (fun q : Q => (Qnum (Qred q), Qden (Qred q))) [(6#4)%Q; (-1#3)%Q].
Eval vm_compute in qs.
