From Coq Require Import ZArith List Lia.
Import ListNotations.
Open Scope Z_scope.

Definition get2 (a : list (list Z)) (y x : Z) : Z :=
  nth (Z.to_nat x) (nth (Z.to_nat y) a []) 0.

Fixpoint zrange (n : nat) (s : Z) : list Z :=
  match n with O => [] | S k => s :: zrange k (s+1) end.

Definition sumZ (l : list Z) := fold_left Z.add l 0.

(* out[i][k] = sum_{t,u} mask[t][u] * data[(i + N/2 - t) mod N][(k + M/2 - u) mod M] *)
Definition cconv (N M : Z) (data mask : list (list Z)) (i k : Z) : Z :=
  let ys := zrange (Z.to_nat N) 0 in
  let xs := zrange (Z.to_nat M) 0 in
  sumZ (map (fun t => sumZ (map (fun u =>
     get2 mask t u * get2 data ((i + N/2 - t) mod N) ((k + M/2 - u) mod M)) xs)) ys).

Definition mk (N M : Z) (f : Z -> Z -> Z) : list (list Z) :=
  map (fun y => map (fun x => f y x) (zrange (Z.to_nat M) 0)) (zrange (Z.to_nat N) 0).

Definition data := mk 24 24 (fun y x => (y*y*7 + x*13 + y*x) mod 1000003 * 1048576).
Definition mask := mk 24 24 (fun y x => if (Z.abs (y-12) + Z.abs (x-12) <? 6) then 8388608 - (y+x) else 0).

Definition full := mk 24 24 (cconv 24 24 data mask).

