"""(G) Fail-closed translator: integer index arithmetic of selected functions in /repo/src  ->  Gallina (Gen.v).

Supported: integer constants, names, + - * // % ** 2, unary -, min/max/abs/len/int, comparisons, and/or/not, None,
`if` statements that (re)assign names, local one-line helper functions (inlined), `for x in range(..)` (the loop variable
becomes a parameter), subscripts/attributes that the target declares as atoms (e.g. peak[0] -> p0).
Anything else that a requested output depends on raises Untranslatable: the obligation is then reported as broken.
Python // and % are Z.div and Z.modulo (both floor)."""
import ast
import os
import sys


class Untranslatable(Exception):
    pass


class Val:
    def __init__(self, ty, s):
        self.ty = ty      # 'Z' | 'optZ' | 'bool'
        self.s = s


def paren(s):
    return '(' + s + ')'


class Tr:
    def __init__(self, atoms, helpers=None):
        self.atoms = atoms            # source text -> Coq variable name
        self.env = {}
        self.dead = False             # control left this path (continue / raise / break)
        self.helpers = helpers or {}  # local helper functions name -> (argnames, return expr ast)

    def atom(self, node):
        txt = ast.unparse(node)
        if txt in self.atoms:
            return Val('Z', self.atoms[txt])
        return None

    def expr(self, node):
        a = self.atom(node)
        if a is not None:
            return a
        if isinstance(node, ast.Constant):
            if node.value is None:
                return Val('optZ', 'None')
            if isinstance(node.value, bool):
                return Val('bool', 'true' if node.value else 'false')
            if isinstance(node.value, int):
                return Val('Z', str(node.value) if node.value >= 0 else '(%d)' % node.value)
            raise Untranslatable('constant %r' % (node.value,))
        if isinstance(node, ast.Name):
            if node.id in self.env:
                v = self.env[node.id]
                if v is None:
                    raise Untranslatable('%s depends on an untranslatable expression' % node.id)
                return v
            raise Untranslatable('unknown name %s' % node.id)
        if isinstance(node, ast.UnaryOp):
            if isinstance(node.op, ast.USub):
                v = self.need(node.operand, 'Z')
                return Val('Z', '(- %s)' % v.s)
            if isinstance(node.op, ast.Not):
                v = self.need(node.operand, 'bool')
                return Val('bool', '(negb %s)' % v.s)
            raise Untranslatable('unary op')
        if isinstance(node, ast.BinOp):
            if isinstance(node.op, ast.Pow):
                if isinstance(node.right, ast.Constant) and node.right.value == 2:
                    v = self.need(node.left, 'Z')
                    return Val('Z', '(%s * %s)' % (v.s, v.s))
                raise Untranslatable('power other than 2')
            l, r = self.need(node.left, 'Z'), self.need(node.right, 'Z')
            ops = {ast.Add: '+', ast.Sub: '-', ast.Mult: '*', ast.FloorDiv: '/', ast.Mod: 'mod'}
            for k, o in ops.items():
                if isinstance(node.op, k):
                    return Val('Z', '(%s %s %s)' % (l.s, o, r.s))
            raise Untranslatable('binary op %s' % type(node.op).__name__)
        if isinstance(node, ast.Call):
            fn = ast.unparse(node.func)
            if fn in ('min', 'max') and not node.keywords:
                args = node.args
                if len(args) == 1 and isinstance(args[0], ast.Tuple):
                    args = args[0].elts
                vs = [self.need(a, 'Z') for a in args]
                f = 'Z.min' if fn == 'min' else 'Z.max'
                out = vs[-1].s
                for v in reversed(vs[:-1]):
                    out = '(%s %s %s)' % (f, v.s, out)
                return Val('Z', out)
            if fn == 'abs' and len(node.args) == 1:
                return Val('Z', '(Z.abs %s)' % self.need(node.args[0], 'Z').s)
            if fn == 'int' and len(node.args) == 1:
                return self.need(node.args[0], 'Z')
            if fn in self.helpers:
                argn, body = self.helpers[fn]
                sub = Tr(self.atoms, self.helpers)
                sub.env = dict(self.env)
                for n, a in zip(argn, node.args):
                    try:
                        sub.env[n] = self.expr(a)
                    except Untranslatable:
                        sub.env[n] = None
                # atoms inside helper bodies may refer to the helper's parameter names: substitute textually
                mapping = {n: ast.unparse(a) for n, a in zip(argn, node.args)}
                body2 = _subst(body, mapping)
                return self.expr(body2)
            raise Untranslatable('call %s' % fn)
        if isinstance(node, ast.Compare) and len(node.ops) == 1:
            l, r = self.need(node.left, 'Z'), self.need(node.comparators[0], 'Z')
            ops = {ast.Lt: '<?', ast.LtE: '<=?', ast.Gt: '>?', ast.GtE: '>=?', ast.Eq: '=?'}
            for k, o in ops.items():
                if isinstance(node.ops[0], k):
                    return Val('bool', '(%s %s %s)' % (l.s, o, r.s))
            if isinstance(node.ops[0], ast.NotEq):
                return Val('bool', '(negb (%s =? %s))' % (l.s, r.s))
            raise Untranslatable('comparison')
        if isinstance(node, ast.BoolOp):
            vs = [self.need(v, 'bool') for v in node.values]
            o = '&&' if isinstance(node.op, ast.And) else '||'
            return Val('bool', '(' + (' %s ' % o).join(v.s for v in vs) + ')')
        raise Untranslatable('expression %s' % ast.unparse(node)[:60])

    def need(self, node, ty):
        v = self.expr(node)
        if v.ty != ty:
            raise Untranslatable('expected %s, got %s for %s' % (ty, v.ty, ast.unparse(node)[:40]))
        return v

    # -- statements ------------------------------------------------------------------------
    def assign(self, name, node):
        try:
            self.env[name] = self.expr(node)
        except Untranslatable:
            self.env[name] = None

    def stmts(self, body, on_stmt=None):
        for st in body:
            if on_stmt:
                on_stmt(self, st)
            if isinstance(st, ast.Assign) and len(st.targets) == 1:
                t = st.targets[0]
                if isinstance(t, ast.Name):
                    self.assign(t.id, st.value)
                elif isinstance(t, ast.Tuple) and isinstance(st.value, ast.Tuple) and len(t.elts) == len(st.value.elts):
                    vals = []
                    for e in st.value.elts:
                        try:
                            vals.append(self.expr(e))
                        except Untranslatable:
                            vals.append(None)
                    for n, v in zip(t.elts, vals):
                        if isinstance(n, ast.Name):
                            self.env[n.id] = v
                elif isinstance(t, ast.Tuple):
                    for n in t.elts:
                        if isinstance(n, ast.Name):
                            # e.g. (y, x) = center : element k of an atom
                            self.env[n.id] = None
                            txt = '%s[%d]' % (ast.unparse(st.value), t.elts.index(n))
                            if txt in self.atoms:
                                self.env[n.id] = Val('Z', self.atoms[txt])
            elif isinstance(st, ast.AugAssign) and isinstance(st.target, ast.Name):
                self.assign(st.target.id, ast.BinOp(left=ast.Name(id=st.target.id, ctx=ast.Load()), op=st.op, right=st.value))
            elif isinstance(st, ast.If):
                try:
                    cond = self.need(st.test, 'bool')
                except Untranslatable:
                    cond = None
                a, b = Tr(self.atoms, self.helpers), Tr(self.atoms, self.helpers)
                a.env, b.env = dict(self.env), dict(self.env)
                a.stmts(st.body, on_stmt)
                b.stmts(st.orelse, on_stmt)
                if a.dead and b.dead:
                    self.dead = True
                    continue
                if a.dead or b.dead:
                    self.env = (b if a.dead else a).env
                    continue
                for n in set(a.env) | set(b.env):
                    va, vb = a.env.get(n), b.env.get(n)
                    if va is vb:
                        self.env[n] = va
                        continue
                    if cond is None or va is None or vb is None:
                        self.env[n] = None
                        continue
                    if va.ty != vb.ty:
                        if {va.ty, vb.ty} == {'Z', 'optZ'}:
                            va = va if va.ty == 'optZ' else Val('optZ', '(Some %s)' % va.s)
                            vb = vb if vb.ty == 'optZ' else Val('optZ', '(Some %s)' % vb.s)
                        else:
                            self.env[n] = None
                            continue
                    self.env[n] = Val(va.ty, '(if %s then %s else %s)' % (cond.s, va.s, vb.s))
            elif isinstance(st, ast.For):
                if isinstance(st.target, ast.Name):
                    self.env[st.target.id] = Val('Z', st.target.id)
                self.stmts(st.body, on_stmt)
            elif isinstance(st, ast.FunctionDef):
                if len(st.body) == 1 and isinstance(st.body[0], ast.Return):
                    self.helpers[st.name] = ([a.arg for a in st.args.args], st.body[0].value)
            elif isinstance(st, ast.Return) and st.value is not None:
                self.assign('return', st.value)
            elif isinstance(st, (ast.With,)):
                self.stmts(st.body, on_stmt)
            elif isinstance(st, (ast.Continue, ast.Break, ast.Raise)):
                self.dead = True
                return


def _subst(node, mapping):
    """replace Name nodes by parsed source text (used to inline helper functions)"""
    class S(ast.NodeTransformer):
        def visit_Name(self, n):
            if n.id in mapping:
                return ast.parse(mapping[n.id], mode='eval').body
            return n
    import copy
    return S().visit(copy.deepcopy(node))


def find_function(tree, qualname):
    parts = qualname.split('.')
    body = tree.body
    node = None
    for p in parts:
        node = next((n for n in body if isinstance(n, (ast.FunctionDef, ast.ClassDef)) and n.name == p), None)
        if node is None:
            raise Untranslatable('function %s not found' % qualname)
        body = node.body
    return node


def emit(name, params, val, out):
    if val is None:
        raise Untranslatable('%s: value depends on an untranslatable expression' % name)
    ty = {'Z': 'Z', 'optZ': 'option Z', 'bool': 'bool'}[val.ty]
    out.append('Definition %s %s : %s := %s.' % (name, ' '.join('(%s : Z)' % p for p in params), ty, val.s))


def translate(repo, only=None):
    src = os.path.join(repo, 'src', 'libertem_blobfinder')
    out = ['(* GENERATED by harness/translate.py from %s -- do not edit *)' % src,
           'From Coq Require Import ZArith Bool.', 'Open Scope Z_scope.', '']
    problems = []

    def do(fn):
        try:
            fn()
        except Untranslatable as e:
            problems.append('%s: %s' % (fn.__name__, e))
        except Exception as e:  # noqa  (source shape this extractor does not expect: fail closed as well)
            problems.append('%s: %s: %s' % (fn.__name__, type(e).__name__, e))

    corr = ast.parse(open(os.path.join(src, 'base', 'correlation.py')).read())
    patt = ast.parse(open(os.path.join(src, 'common', 'patterns.py')).read())

    def t_buf_count():
        f = find_function(corr, 'get_buf_count')
        tr = Tr({'dtype.itemsize': 'itemsize', 'crop_size': 'crop_size', 'n_peaks': 'n_peaks', 'limit': 'limit'})
        tr.stmts(f.body)
        emit('gen_buf_count', ['crop_size', 'n_peaks', 'itemsize', 'limit'], tr.env.get('return'), out)

    def blocks(fname, pref):
        f = find_function(corr, fname)
        atoms = {'len(peaks)': 'n', 'len(crop_bufs)': 'bc'}
        tr = Tr(atoms)
        if fname == 'process_frame_full':
            tr.env['buf_count'] = Val('Z', 'bc')
        tr.env['upsample'] = None
        tr.stmts(f.body)
        emit(pref + 'block_count', ['n', 'bc'], tr.env.get('block_count'), out)
        emit(pref + 'start', ['n', 'bc', 'block'], tr.env.get('start'), out)
        emit(pref + 'stop', ['n', 'bc', 'block'], tr.env.get('stop'), out)
        emit(pref + 'size', ['n', 'bc', 'block'], tr.env.get('size'), out)

    def t_blocks_fast():
        blocks('process_frame_fast', 'gen_fast_')

    def t_blocks_full():
        blocks('process_frame_full', 'gen_full_')

    def t_slicing():
        f = find_function(corr, 'crop_disks_from_frame_slicing')
        atoms = {'peak[0]': 'py', 'peak[1]': 'px', 'crop_size': 'c', 'out_crop_bufs.shape[1]': 'h', 'out_crop_bufs.shape[2]': 'w',
                 'fy': 'fy', 'fx': 'fx'}
        tr = Tr(atoms)
        found = {'zero': False, 'assign': None}

        def on_stmt(t, st):
            if isinstance(st, ast.Assign) and len(st.targets) == 1 and isinstance(st.targets[0], ast.Subscript):
                tgt = st.targets[0]
                if ast.unparse(tgt) == 'out_crop_bufs[i]' and isinstance(st.value, ast.Constant) and st.value.value == 0:
                    if found['assign'] is None:
                        found['zero'] = True
                elif ast.unparse(tgt.value) == 'out_crop_bufs' and isinstance(tgt.slice, ast.Tuple) and len(tgt.slice.elts) == 3:
                    srcs = [n for n in ast.walk(st.value) if isinstance(n, ast.Subscript) and ast.unparse(n.value) == 'frame']
                    if len(srcs) != 1 or not isinstance(srcs[0].slice, ast.Tuple):
                        raise Untranslatable('source slice of the crop assignment not recognised')
                    found['assign'] = (dict(t.env), tgt.slice.elts[1:], srcs[0].slice.elts)
        tr.stmts(f.body, on_stmt)
        if found['assign'] is None:
            raise Untranslatable('slice assignment into out_crop_bufs not found')
        # structure of the loop (fail closed): one loop over range(len(peaks)); the clear  out_crop_bufs[i] = 0  and the slice assignment are
        # unconditional statements of its body, in this order; nothing else writes into out_crop_bufs; no iteration is cut short
        loops = [n for n in f.body if isinstance(n, ast.For)]
        if len(loops) != 1 or ast.unparse(loops[0].iter) != 'range(len(peaks))' or ast.unparse(loops[0].target) != 'i':
            raise Untranslatable('crop_disks_from_frame_slicing: exactly one loop `for i in range(len(peaks))` expected')
        body = loops[0].body
        if any(isinstance(n, (ast.Continue, ast.Break, ast.Return)) for st in body for n in ast.walk(st)):
            raise Untranslatable('crop_disks_from_frame_slicing: an iteration of the loop over the peaks can end early (continue / break / return)')

        def writes_out(st):
            tg = st.targets if isinstance(st, ast.Assign) else ([st.target] if isinstance(st, (ast.AugAssign, ast.AnnAssign)) else [])
            return any(isinstance(t, ast.Subscript) and ast.unparse(t.value).startswith('out_crop_bufs') for t in tg)
        top = [st for st in body if writes_out(st)]
        allw = [n for st in body for n in ast.walk(st) if isinstance(n, (ast.Assign, ast.AugAssign, ast.AnnAssign)) and writes_out(n)]
        if len(allw) != 2 or len(top) != 2:
            raise Untranslatable('crop_disks_from_frame_slicing: the clear of the slot and the slice assignment must be the only writes into out_crop_bufs and unconditional '
                                 '(%d writes, %d of them unconditional)' % (len(allw), len(top)))
        if not (ast.unparse(top[0].targets[0]) == 'out_crop_bufs[i]' and isinstance(top[0].value, ast.Constant) and top[0].value.value == 0):
            raise Untranslatable('crop_disks_from_frame_slicing: the first write into the slot is not `out_crop_bufs[i] = 0`')
        # the frame slice is converted to the array type of the BUFFER (the frame may be a sparse array, the buffer is dense)
        pre = [ast.unparse(st) for st in f.body if isinstance(st, ast.Assign)]
        val = top[1].value
        if 'target_backend = sparseconverter.get_backend(out_crop_bufs)' not in pre or not (
                isinstance(val, ast.Call) and ast.unparse(val.func) == 'sparseconverter.for_backend' and len(val.args) == 2 and not val.keywords
                and isinstance(val.args[0], ast.Subscript) and ast.unparse(val.args[0].value) == 'frame' and ast.unparse(val.args[1]) == 'target_backend'):
            raise Untranslatable('crop_disks_from_frame_slicing: the frame slice is not converted with sparseconverter.for_backend(frame[...], get_backend(out_crop_bufs))')
        env, tsl, ssl = found['assign']
        t2 = Tr(atoms, tr.helpers)
        t2.env = env
        params = ['fy', 'fx', 'c', 'h', 'w', 'py', 'px']
        for ax, (ts, ss) in zip('yx', zip(tsl, ssl)):
            if not (isinstance(ts, ast.Slice) and isinstance(ss, ast.Slice)) or ts.step or ss.step:
                raise Untranslatable('crop assignment does not use plain slices')
            for nm, node in (('tgt_%s_start' % ax, ts.lower), ('tgt_%s_stop' % ax, ts.upper), ('src_%s_start' % ax, ss.lower), ('src_%s_stop' % ax, ss.upper)):
                v = Val('optZ', 'None') if node is None else t2.expr(node)
                if v.ty == 'Z':
                    v = Val('optZ', '(Some %s)' % v.s)
                emit('gen_' + nm, params, v, out)
        out.append('Definition gen_slicing_zero_first : bool := %s.' % ('true' if found['zero'] else 'false'))

    def t_padcrop():
        f = find_function(patt, 'UserTemplate.get_mask')
        tr = Tr({'target': 'target', 'source': 'source'})
        fn_seen = {}

        def on_stmt(t, st):
            if isinstance(st, ast.Assign) and len(st.targets) == 1 and isinstance(st.targets[0], ast.Name) and st.targets[0].id == 'fn':
                fn_seen[ast.unparse(st.value)] = True
        tr.env['result'] = None
        loop = next(n for n in f.body if isinstance(n, ast.For))
        # the branches: target > source -> pad ; target < source -> crop ; else continue
        tr.stmts(loop.body, on_stmt)
        emit('gen_pc_extra', ['source', 'target'], tr.env.get('extra'), out)
        emit('gen_pc_before', ['source', 'target'], tr.env.get('before'), out)
        emit('gen_pc_after', ['source', 'target'], tr.env.get('after'), out)
        if set(fn_seen) != {'np.pad', 'crop'}:
            raise Untranslatable('pad/crop dispatch not recognised: %s' % sorted(fn_seen))

    def t_refine_clip():
        f = find_function(corr, 'refine_center')
        tr = Tr({'center[0]': 'y', 'center[1]': 'x', 's[0]': 'H', 's[1]': 'W', 'r': 'r0'})
        tr.env['s'] = None
        stmts = [st for st in f.body if not isinstance(st, ast.If)]
        tr.stmts(stmts)
        emit('gen_clip_r', ['H', 'W', 'y', 'x', 'r0'], tr.env.get('r'), out)

    def t_shift():
        for nm in ('_shift', '_unshift'):
            f = find_function(corr, nm)
            src = ast.unparse(f.body[0].value)
            want = {'_shift': 'relative_center + anchor - np.array((crop_size, crop_size))',
                    '_unshift': 'center - anchor + np.array((crop_size, crop_size))'}[nm]
            if src != want:
                raise Untranslatable('%s body changed: %s' % (nm, src))
        out.append('Definition gen_shift (rel anchor c : Z) : Z := rel + anchor - c.')
        out.append('Definition gen_unshift (pos anchor c : Z) : Z := pos - anchor + c.')

    def t_crop_px():
        f = find_function(corr, 'crop_disks_from_frame')
        atoms = {'peak[0]': 'py', 'peak[1]': 'px', 'crop_size': 'c', 'fy': 'fy', 'fx': 'fx', 'y': 'y', 'x': 'x'}
        tr = Tr(atoms)
        loops = [n for n in ast.walk(f) if isinstance(n, ast.For)]
        tr.stmts(f.body)
        for nm in ('yy', 'y_outside', 'xx', 'x_outside'):
            emit('gen_px_' + nm, ['fy', 'fx', 'c', 'py', 'px', 'y', 'x'], tr.env.get(nm), out)

    for t in (t_buf_count, t_blocks_fast, t_blocks_full, t_slicing, t_padcrop, t_refine_clip, t_shift, t_crop_px):
        if only is None or t.__name__ in only:
            do(t)
    return '\n'.join(out) + '\n', problems


if __name__ == '__main__':
    txt, probs = translate(sys.argv[1] if len(sys.argv) > 1 else '/repo')
    sys.stdout.write(txt)
    for p in probs:
        print('(* PROBLEM: %s *)' % p)
