"""Core of the verification harness: Coq driving, value parsing, evidence, violations.

Every check is   ./check <Cxx> [--tier quick|thorough] [--replay file]
and consists of
  (T) re-checking the theorems of Props/<Cxx>.v with coqc (and parsing Print Assumptions),
  (G) where applicable, regenerating Gen.v from /repo's source and re-proving GenBridge,
  (K) correspondence: model (vm_compute inside Coq) vs implementation (/repo/src) on the same inputs,
  (S) failing-input search with an oracle that states the property on the implementation.
"""
import fcntl
import hashlib
import json
import os
import re
import shutil
import subprocess
import sys
import time
from fractions import Fraction

VERIF = os.path.dirname(os.path.dirname(os.path.abspath(__file__)))
COQ = os.path.join(VERIF, 'coq')
THEORIES = os.path.join(COQ, 'theories')
BUILD = os.path.join(VERIF, 'build')
REPO = os.environ.get('VERIF_REPO', '/repo')

ALLOWED_AXIOMS = set()  # target: none.  Anything printed by Print Assumptions that is not here fails.

COQ_TIMEOUT = int(os.environ.get('VERIF_COQ_TIMEOUT', '900'))


class InputModified(Exception):
    """the library modified an array argument that is input only"""


def call_guarded(fn, *args, **kwargs):
    """fn(*args, **kwargs); raises InputModified if an ndarray argument differs afterwards"""
    import numpy as _np
    snap = [(('arg %d' % i), a, a.copy()) for i, a in enumerate(args) if isinstance(a, _np.ndarray)] + \
           [(k, a, a.copy()) for k, a in kwargs.items() if isinstance(a, _np.ndarray)]
    r = fn(*args, **kwargs)
    for nm, now, before in snap:
        if not _np.array_equal(now, before, equal_nan=True):
            raise InputModified('%s modified its input `%s` in place' % (getattr(fn, '__name__', 'call'), nm))
    return r


class Broken(Exception):
    """infrastructure failure of the check itself (exit 2)"""


# ----------------------------------------------------------------------------------------------
# parsing of Coq-printed values:  lists [a; b], tuples (a, b), Z literals, Some/None, true/false,
# rationals n # d, and constructor applications  (C a b)
# ----------------------------------------------------------------------------------------------
_tok = re.compile(r'\s*(\[|\]|\(|\)|;|,|#|-?\d+|[A-Za-z_][A-Za-z_0-9\.\']*|%[a-zA-Z]+)')


def _tokens(s):
    pos = 0
    out = []
    s = s.strip()
    while pos < len(s):
        m = _tok.match(s, pos)
        if not m:
            raise Broken('cannot tokenise Coq output at: %r' % s[pos:pos + 60])
        t = m.group(1)
        pos = m.end()
        if t.startswith('%'):
            continue
        out.append(t)
    return out


def parse_value(s):
    toks = _tokens(s)
    v, i = _parse_app(toks, 0)
    if i != len(toks):
        raise Broken('trailing tokens in Coq output: %r' % toks[i:i + 10])
    return v


def _parse_app(toks, i):
    """constructor application or atom or rational"""
    head, i = _parse_atom(toks, i)
    if isinstance(head, str) and head not in ('true', 'false', 'None'):
        args = []
        while i < len(toks) and toks[i] not in (']', ')', ';', ',', '#'):
            a, i = _parse_atom(toks, i)
            args.append(a)
        if head == 'Some':
            return ('Some', args[0]), i
        return (head,) + tuple(args), i
    if head == 'true':
        head = True
    elif head == 'false':
        head = False
    elif head == 'None':
        head = None
    if i < len(toks) and toks[i] == '#':
        d, i = _parse_atom(toks, i + 1)
        return Fraction(head, d), i
    return head, i


def _parse_atom(toks, i):
    t = toks[i]
    if t == '[':
        i += 1
        items = []
        if toks[i] == ']':
            return items, i + 1
        while True:
            v, i = _parse_app(toks, i)
            items.append(v)
            if toks[i] == ';':
                i += 1
                continue
            if toks[i] == ']':
                return items, i + 1
            raise Broken('bad list in Coq output near %r' % toks[i:i + 5])
    if t == '(':
        i += 1
        items = []
        while True:
            v, i = _parse_app(toks, i)
            items.append(v)
            if toks[i] == ',':
                i += 1
                continue
            if toks[i] == ')':
                i += 1
                break
            raise Broken('bad tuple in Coq output near %r' % toks[i:i + 5])
        if len(items) == 1:
            return items[0], i
        return tuple(items), i
    if re.fullmatch(r'-?\d+', t):
        return int(t), i + 1
    return t, i + 1


# ----------------------------------------------------------------------------------------------
# Gallina literal printers
# ----------------------------------------------------------------------------------------------
def cz(v):
    v = int(v)
    return str(v) if v >= 0 else '(%d)' % v


def clist(items, f=None):
    f = f or cz
    return '[' + '; '.join(f(x) for x in items) + ']'


def clist2(rows):
    return clist(rows, lambda r: clist(r))


def cpair(a, b):
    return '(%s, %s)' % (a, b)


def cq(fr):
    fr = Fraction(fr)
    n, d = fr.numerator, fr.denominator
    return '(%s # %d)' % (cz(n) if n >= 0 else '(%d)' % n, d) if True else ''


def cbool(b):
    return 'true' if b else 'false'


def copt(v, f=None):
    f = f or cz
    return 'None' if v is None else '(Some %s)' % f(v)


def float_to_fraction(x):
    return Fraction(*float(x).as_integer_ratio())


def scale_to_int(arr):
    """Exact conversion of a float array to integers: returns (ints, k) with arr == ints / 2**k exactly."""
    import numpy as np
    a = np.asarray(arr, dtype=np.float64)
    if not np.isfinite(a).all():
        raise ValueError('non-finite')
    k = 0
    for v in a.flat:
        d = Fraction(*float(v).as_integer_ratio()).denominator
        k = max(k, d.bit_length() - 1)
    ints = [int(Fraction(*float(v).as_integer_ratio()) * (1 << k)) for v in a.flat]
    return np.array(ints, dtype=object).reshape(a.shape), k


# ----------------------------------------------------------------------------------------------
# Coq build / run
# ----------------------------------------------------------------------------------------------
def _run(cmd, cwd=None, timeout=COQ_TIMEOUT, env=None):
    try:
        p = subprocess.run(cmd, cwd=cwd, stdout=subprocess.PIPE, stderr=subprocess.STDOUT, timeout=timeout, env=env)
    except subprocess.TimeoutExpired as e:
        return 124, (e.stdout or b'').decode('utf-8', 'replace') + '\n[timeout after %ss]' % timeout
    return p.returncode, p.stdout.decode('utf-8', 'replace')


def forbidden_scan():
    """no Admitted/admit/Axiom/... anywhere in the development"""
    pat = re.compile(r'\b(Admitted|admit|Axiom|Axioms|Parameter|Parameters|Conjecture|Hypothesis|Admit Obligations|'
                     r'Unset Guard Checking|Unset Positivity Checking|Unset Universe Checking|bypass_check|'
                     r'type-in-type|impredicative-set)\b')
    hits = []
    for root in (THEORIES, os.path.join(COQ, 'gen')):
        for dp, _, fns in os.walk(root):
            for fn in fns:
                if not fn.endswith('.v'):
                    continue
                txt = open(os.path.join(dp, fn)).read()
                txt = re.sub(r'\(\*.*?\*\)', '', txt, flags=re.S)
                for m in pat.finditer(txt):
                    hits.append('%s: %s' % (os.path.relpath(os.path.join(dp, fn), COQ), m.group(0)))
    return hits


def ensure_built(pid=None):
    """make the part of the library a check needs (all Model files + Props/<pid>.vo and what it depends on), incrementally
    and under a lock so that parallel checks do not race.  Other properties' files are not built: a broken proof elsewhere
    must not break this check."""
    os.makedirs(BUILD, exist_ok=True)
    with open(os.path.join(BUILD, '.lock'), 'w') as lk:
        fcntl.flock(lk, fcntl.LOCK_EX)
        if not os.path.exists(os.path.join(COQ, 'Makefile')):
            rc, out = _run(['coq_makefile', '-f', '_CoqProject', '-o', 'Makefile'], cwd=COQ)
            if rc != 0:
                raise Broken('coq_makefile failed:\n' + out)
        if pid is None:
            targets = []
        else:
            listed = [ln.strip() for ln in open(os.path.join(COQ, '_CoqProject')) if ln.strip().startswith('theories/Model/')]
            targets = ['theories/Props/%s.vo' % pid] + sorted(f + 'o' for f in listed)
        rc, out = _run(['make', '-j16'] + targets, cwd=COQ, timeout=3000)
        fcntl.flock(lk, fcntl.LOCK_UN)
    return rc, out


_ERR_RE = re.compile(r'File "([^"]+)", line (\d+), characters [\d-]+:\s*\nError:(.*?)(?:\n\n|\Z)', re.S)


def coqc(path, rundir, extra_q=(), timeout=COQ_TIMEOUT):
    cmd = ['coqc', '-q', '-Q', THEORIES, 'BF']
    for d, n in extra_q:
        cmd += ['-Q', d, n]
    cmd.append(path)
    return _run(cmd, cwd=rundir, timeout=timeout)


def parse_assumptions(out):
    """returns list of (closed: bool, axioms: [str]) for each Print Assumptions in the output"""
    res = []
    lines = out.splitlines()
    i = 0
    while i < len(lines):
        ln = lines[i]
        if ln.startswith('Closed under the global context'):
            res.append((True, []))
        elif ln.startswith('Axioms:'):
            ax = []
            i += 1
            while i < len(lines) and (lines[i].startswith(' ') or re.match(r'^[A-Za-z_][\w\.\']*\s*:', lines[i])):
                m = re.match(r'^([A-Za-z_][\w\.\']*)\s*:', lines[i])
                if m:
                    ax.append(m.group(1))
                i += 1
            res.append((False, ax))
            continue
        i += 1
    return res


def theorem_names(vfile):
    txt = open(vfile).read()
    txt = re.sub(r'\(\*.*?\*\)', '', txt, flags=re.S)
    return re.findall(r'^\s*(?:Theorem|Lemma|Corollary)\s+([A-Za-z_][\w\']*)', txt, flags=re.M)


# ----------------------------------------------------------------------------------------------
# check context
# ----------------------------------------------------------------------------------------------
class Ctx:
    def __init__(self, pid, tier, seed):
        import numpy as np
        self.pid = pid
        self.tier = tier
        self.seed = seed
        self.t0 = time.time()
        self.np = np
        self.rng = np.random.default_rng([seed, int(pid[1:])])
        self.rundir = os.path.join(BUILD, 'run', '%s-%s-%d' % (pid, tier, os.getpid()))
        shutil.rmtree(self.rundir, ignore_errors=True)
        os.makedirs(self.rundir)
        # stale run directories (failed runs keep theirs for inspection): drop those older than 30 minutes
        try:
            base = os.path.join(BUILD, 'run')
            for d in os.listdir(base):
                pth = os.path.join(base, d)
                if pth != self.rundir and time.time() - os.path.getmtime(pth) > 1800:
                    shutil.rmtree(pth, ignore_errors=True)
        except OSError:
            pass
        self.violations = []      # dicts
        self.known_hits = []
        self.obligations = []     # (name, ok, detail)
        self.trusted = []
        self.cov = {'evaluations': 0, 'distinct_nontrivial': 0, 'samples': [], 'rule': ''}
        self.extra = {}
        self.assumptions = []
        self.notes = []
        self._distinct = set()
        self.known = load_known(pid)
        self.quick = (tier == 'quick')

    # ---- sizes -------------------------------------------------------------------------------
    def n(self, quick, thorough):
        return quick if self.quick else thorough

    # ---- (T) ---------------------------------------------------------------------------------
    def check_theorems(self, extra_files=()):
        """build the library, then re-compile Props/<pid>.v in the run directory and read Print Assumptions"""
        hits = forbidden_scan()
        if hits:
            self.obligation('no-admits-or-axioms-in-development', False, '; '.join(hits[:5]))
        rc, out = ensure_built(self.pid)
        if rc != 0:
            m = _ERR_RE.search(out)
            where = ('%s line %s: %s' % (m.group(1), m.group(2), ' '.join(m.group(3).split())[:300])) if m else out[-600:]
            self.obligation('library-build', False, where)
            return False
        src = os.path.join(THEORIES, 'Props', self.pid + '.v')
        names = [n for n in theorem_names(src)]
        dst = os.path.join(self.rundir, 'Chk_%s.v' % self.pid)
        shutil.copy(src, dst)
        rc, out = coqc(dst, self.rundir)
        if rc != 0:
            m = _ERR_RE.search(out)
            where = ('line %s: %s' % (m.group(2), ' '.join(m.group(3).split())[:300])) if m else out[-600:]
            for nm in names:
                self.obligation('BF.Props.%s.%s' % (self.pid, nm), False, 'Props file does not compile: ' + where)
            return False
        pa = parse_assumptions(out)
        if len(pa) != len(names):
            self.obligation('BF.Props.%s:print-assumptions-count' % self.pid, False,
                            '%d theorems but %d Print Assumptions' % (len(names), len(pa)))
        ok_all = True
        for nm, (closed, ax) in zip(names, pa):
            bad = [a for a in ax if a not in ALLOWED_AXIOMS]
            ok = closed or not bad
            ok_all &= ok
            self.obligation('BF.Props.%s.%s' % (self.pid, nm), ok,
                            'Closed under the global context' if closed else 'Axioms: ' + ', '.join(ax))
            for a in ax:
                if a not in self.trusted:
                    self.trusted.append(a)
        if self.tier == 'thorough' and ok_all and os.environ.get('VERIF_NO_COQCHK') != '1':
            rc, out = _run(['coqchk', '-silent', '-o', '-Q', THEORIES, 'BF', 'BF.Props.' + self.pid], cwd=COQ, timeout=1800)
            okc = (rc == 0)
            self.obligation('coqchk BF.Props.%s' % self.pid, okc, ' '.join(out.split())[-400:])
        return ok_all

    # ---- (T) over the reals: a Props file whose theorems rest on the standard library's real-number axioms ----
    REAL_AXIOMS = ('ClassicalDedekindReals.sig_forall_dec', 'ClassicalDedekindReals.sig_not_dec',
                   'FunctionalExtensionality.functional_extensionality_dep')

    def check_theorems_reals(self, name):
        """build Props/<name>.vo, re-compile Props/<name>.v in the run directory and read every Print Assumptions: each
        theorem may depend on the three axioms the standard library declares for its real numbers and on nothing else."""
        with open(os.path.join(BUILD, '.lock'), 'w') as lk:
            fcntl.flock(lk, fcntl.LOCK_EX)
            rc, out = _run(['make', '-j16', 'theories/Props/%s.vo' % name], cwd=COQ, timeout=3000)
            fcntl.flock(lk, fcntl.LOCK_UN)
        src = os.path.join(THEORIES, 'Props', name + '.v')
        names = theorem_names(src)
        if rc != 0:
            m = _ERR_RE.search(out)
            where = ('%s line %s: %s' % (m.group(1), m.group(2), ' '.join(m.group(3).split())[:300])) if m else out[-600:]
            for nm in names:
                self.obligation('BF.Props.%s.%s' % (name, nm), False, 'does not build: ' + where)
            return False
        dst = os.path.join(self.rundir, 'Chk_%s.v' % name)
        shutil.copy(src, dst)
        rc, out = coqc(dst, self.rundir)
        if rc != 0:
            m = _ERR_RE.search(out)
            where = ('line %s: %s' % (m.group(2), ' '.join(m.group(3).split())[:300])) if m else out[-600:]
            for nm in names:
                self.obligation('BF.Props.%s.%s' % (name, nm), False, 'Props file does not compile: ' + where)
            return False
        blocks, cur = [], None
        for ln in out.splitlines():
            if ln.startswith('Closed under the global context'):
                blocks.append([])
                cur = None
            elif ln.startswith('Axioms:'):
                cur = []
                blocks.append(cur)
            elif cur is not None and ln and not ln[0].isspace():
                cur.append(re.split(r'[\s:]', ln, 1)[0])
        if len(blocks) != len(names):
            self.obligation('BF.Props.%s:print-assumptions-count' % name, False,
                            '%d theorems but %d Print Assumptions' % (len(names), len(blocks)))
            return False
        ok_all = True
        for nm, ax in zip(names, blocks):
            bad = [a for a in ax if a not in self.REAL_AXIOMS]
            ok_all &= not bad
            self.obligation('BF.Props.%s.%s' % (name, nm), not bad,
                            ('Axioms (standard library reals only): ' + ', '.join(ax)) if ax else 'Closed under the global context')
            for a in ax:
                if a not in self.trusted:
                    self.trusted.append(a)
        if self.tier == 'thorough' and ok_all and os.environ.get('VERIF_NO_COQCHK') != '1':
            # independent re-check; its context summary lists the axioms of every library LOADED (not only those the theorems
            # use): the three above plus Classical_Prop.classic, which Reals loads.  Anything else fails.
            rc, out = _run(['coqchk', '-silent', '-o', '-Q', THEORIES, 'BF', 'BF.Props.' + name], cwd=COQ, timeout=1800)
            m = re.search(r'\* Axioms:(.*?)\n\s*\n', out, flags=re.S)
            loaded = [x.strip() for x in (m.group(1).split('\n') if m else []) if x.strip() and x.strip() != '<none>']
            allowed = set('Coq.Reals.' + x if x.startswith('Classical') else 'Coq.Logic.' + x for x in self.REAL_AXIOMS)
            allowed.add('Coq.Logic.Classical_Prop.classic')
            extra = [x for x in loaded if x not in allowed]
            self.obligation('coqchk BF.Props.%s' % name, rc == 0 and m is not None and not extra,
                            'axioms of the loaded libraries: ' + ', '.join(loaded) if rc == 0 else ' '.join(out.split())[-400:])
            self.extra.setdefault('coqchk_loaded_axioms', {})[name] = loaded
        return ok_all

    # ---- thorough tier: the same check under other execution modes of the numba kernels ---------
    def run_modes(self, modes=('NUMBA_DISABLE_JIT=1', 'NUMBA_BOUNDSCHECK=1')):
        """thorough tier only: re-run this property's quick check in a subprocess with the kernels interpreted
        (NUMBA_DISABLE_JIT=1) and with bounds-checked JIT (NUMBA_BOUNDSCHECK=1: an out-of-bounds access raises instead of
        returning garbage).  Each run is one obligation; a violation found there is reported with its replay."""
        if self.tier != 'thorough' or os.environ.get('VERIF_SUBRUN') == '1':
            return
        for mode in modes:
            k, v = mode.split('=')
            env = dict(os.environ)
            env.update({k: v, 'VERIF_SUBRUN': '1', 'VERIF_EVIDENCE_DIR': os.path.join(BUILD, 'mode-ev-' + k), 'VERIF_SEED': str(self.seed)})
            rc, out = _run([os.path.join(VERIF, 'check'), self.pid, '--tier', 'quick'], cwd=VERIF, timeout=3600, env=env)
            m = re.search(r'VIOLATION property=\S+ replay=(\S+)', out)
            self.obligation('S+K:%s quick check under %s' % (self.pid, mode), rc == 0, out.strip().splitlines()[-1][:300] if out.strip() else 'no output')
            self.extra.setdefault('execution_modes', {})[mode] = 'exit %d' % rc
            if rc == 1 and m and 'no-failing-input-found' not in out:
                try:
                    body = json.load(open(m.group(1)))
                    self.violation('input', '[%s] %s' % (mode, body.get('what', '')), {k2: body[k2] for k2 in body if k2 in ('kind', 'call', 'args', 'failure')})
                except Exception:  # noqa
                    pass

    # ---- (G) generated layer ------------------------------------------------------------------
    # topic -> (generated file, translator functions the topic's bridge lemmas depend on)
    TOPICS = {
        'blocks': ('Gen', ['t_buf_count', 't_blocks_fast', 't_blocks_full']),
        'crop': ('Gen', ['t_slicing', 't_crop_px']),
        'padcrop': ('Gen', ['t_padcrop']),
        'eval': ('Gen', ['t_refine_clip', 't_shift']),
        'qpat': ('GenQ', ['t_circular', 't_bgsub', 't_crop_size', 't_rgbs_map']),
        'qbin': ('GenQ', ['t_bin', 't_rgbs']),
        'qlat': ('GenQ', ['t_within', 't_calc']),
        'qfm': ('GenQ', ['t_fullmatch']),
        'qus': ('GenQ', ['t_upsample']),
        'qbgmask': ('GenQ', ['t_bgsub_mask']),
        'qbindef': ('GenQ', ['t_bin_defaults']),
        'k': ('GenK', ['t_com', 't_refine', 't_unravel', 't_evaluate']),
        'kcalls': ('GenK', ['t_calls_fast', 't_calls_full']),
        'kelev': ('GenK', ['t_elevation']),
        'klog': ('GenK', ['t_logscale']),
        'kcrop': ('GenK', ['t_crop']),
        'kups': ('GenK', ['t_upsample_flag']),
        'vmatch': ('GenV', ['t_match_all']),
        'vidx': ('GenV', ['t_get_indices']),
        'vfit': ('GenV', ['t_weighted_optimize', 't_optimize']),
        'vaff': ('GenV', ['t_get_transformation']),
        'vdefaults': ('GenV', ['t_corr_defaults']),
        'fm': ('GenFM', ['t_loop']),
        'fmtumble': ('GenFM', ['t_tumble']),
        'fmpair': ('GenFM', ['t_do_match']),
        'ucorr': ('GenU', ['t_fast', 't_full']),
        'uint': ('GenU', ['t_integration']),
        'urefine': ('GenU', ['t_refine_mixins']),
        'uzs': ('GenU', ['t_zero_shift']),
        'dcommon': ('GenD', ['t_common', 't_logscale']),
        'dudf': ('GenD', ['t_udf']),
        'dint': ('GenD', ['t_integration']),
        'sstack': ('GenS', ['t_stack']),
        'sfv': ('GenS', ['t_feature_vector', 't_circular_stack']),
        # property clauses about the kernels as compiled from source (compose bridges with the model's theorems)
        'ksrccrop': ('GenK', []),
        'ksrceval': ('GenK', []),
        'kblocks': ('GenK', []),
        'vsrc': ('GenV', []),
    }
    TOPIC_DEPS = {'ksrccrop': ['kcrop'], 'ksrceval': ['k'], 'kblocks': ['blocks', 'kcalls'], 'vsrc': ['vmatch']}

    def check_generated(self, topics):
        """regenerate Gen.v / GenQ.v / GenK.v from /repo's current source, compile them and re-prove the bridge lemmas of the
        given topics (files coq/gen/GenBridge_<topic>.v).  A failure is an unproved obligation.  Only translator problems
        in functions a requested topic depends on count: an unrelated part of the source that became untranslatable
        must not alarm this property."""
        import translate
        import translate_q
        import translate_k
        import translate_v
        import translate_fm
        import translate_u
        import translate_d
        import translate_s
        gendir = os.path.join(self.rundir, 'gen')
        os.makedirs(gendir, exist_ok=True)
        expanded = []
        for t in topics:
            for d in self.TOPIC_DEPS.get(t, []) + [t]:
                if d not in expanded:
                    expanded.append(d)
        topics = expanded
        files = sorted(set(self.TOPICS[t][0] for t in topics))
        relevant = set(f for t in topics for f in self.TOPICS[t][1])
        problems = []
        for gf in files:
            mod = {'Gen': translate, 'GenQ': translate_q, 'GenK': translate_k, 'GenV': translate_v, 'GenFM': translate_fm, 'GenU': translate_u, 'GenD': translate_d, 'GenS': translate_s}[gf]
            # only the functions the requested topics depend on are translated: nothing else can break this property's layer
            txt, probs = mod.translate(REPO, only=relevant)
            problems += probs
            with open(os.path.join(gendir, gf + '.v'), 'w') as fh:
                fh.write(txt)
        for pr in problems:
            self.obligation('G:translate %s' % pr.split(':')[0], False, 'translator (fail closed): ' + pr)
        for gf in files:
            rc, out = coqc(os.path.join(gendir, gf + '.v'), gendir, extra_q=[(gendir, 'BFGen')])
            if rc != 0:
                self.obligation('G:%s.v compiles' % gf, False, out[-500:])
                return False
        ok_all = not problems
        for t in topics:
            src = os.path.join(COQ, 'gen', 'GenBridge_%s.v' % t)
            dst = os.path.join(gendir, 'GenBridge_%s.v' % t)
            shutil.copy(src, dst)
            names = theorem_names(src)
            rc, out = coqc(dst, gendir, extra_q=[(gendir, 'BFGen')])
            if rc == 0:
                for nm in names:
                    self.obligation('G:BFGen.GenBridge_%s.%s (generated from source = model, for all arguments)' % (t, nm), True, 'proved')
            else:
                ok_all = False
                m = _ERR_RE.search(out)
                where = ('line %s: %s' % (m.group(2), ' '.join(m.group(3).split())[:300])) if m else out[-400:]
                failing = None
                if m:
                    lines = open(dst).read().splitlines()[:int(m.group(2))]
                    for ln in reversed(lines):
                        mm = re.match(r'\s*Lemma\s+([\w\']+)', ln)
                        if mm:
                            failing = mm.group(1)
                            break
                for nm in names:
                    if failing is None or nm == failing:
                        self.obligation('G:BFGen.GenBridge_%s.%s' % (t, nm), False, 'bridge proof fails: ' + where)
        self.extra['generated_layer'] = {'topics': list(topics), 'translator_problems': problems}
        return ok_all

    def obligation(self, name, ok, detail=''):
        self.obligations.append((name, bool(ok), detail))

    # ---- (K) model evaluation inside Coq ------------------------------------------------------
    def coq_eval(self, tag, imports, exprs, defs='', shard=200, timeout=COQ_TIMEOUT, extra_q=()):
        """Evaluate each Gallina expression with vm_compute; returns the parsed values (same order).
        imports: e.g. 'Model.Crop'.  Raises Broken if Coq fails (model does not run)."""
        if not exprs:
            return []
        files = []
        for k in range(0, len(exprs), shard):
            fn = os.path.join(self.rundir, 'cases_%s_%d.v' % (tag, k // shard))
            with open(fn, 'w') as fh:
                fh.write('From Coq Require Import ZArith QArith List Bool.\n')
                fh.write('From BF Require Import %s.\n' % ' '.join(imports.split()))
                fh.write('Import ListNotations.\nOpen Scope Z_scope.\n')
                fh.write('Set Printing Width 100000000.\nSet Printing Depth 100000000.\n')
                fh.write(defs + '\n')
                for e in exprs[k:k + shard]:
                    fh.write('Eval vm_compute in (%s).\n' % e)
            files.append(fn)
        outs = _parallel_coqc(files, self.rundir, timeout, extra_q)
        vals = []
        for fn, (rc, out) in zip(files, outs):
            if rc != 0:
                raise Broken('model evaluation failed in %s:\n%s' % (fn, out[-1500:]))
            got = _split_evals(out)
            vals.extend(parse_value(g) for g in got)
        if len(vals) != len(exprs):
            raise Broken('expected %d values from Coq, got %d' % (len(exprs), len(vals)))
        return vals

    # ---- bookkeeping --------------------------------------------------------------------------
    def count(self, n=1, key=None, nontrivial=True):
        self.cov['evaluations'] += n
        if key is not None and nontrivial:
            h = hashlib.sha1(repr(key).encode()).hexdigest()[:16]
            if h not in self._distinct:
                self._distinct.add(h)
                self.cov['distinct_nontrivial'] += 1

    def sample(self, s, maxn=6):
        if len(self.cov['samples']) < maxn:
            self.cov['samples'].append(s)

    def hist(self, name, key):
        h = self.extra.setdefault('distribution', {}).setdefault(name, {})
        h[str(key)] = h.get(str(key), 0) + 1

    def violation(self, kind, what, replay, signature=None):
        """kind: 'input' (concrete failing input on the implementation) or 'obligation'"""
        sig = signature or what
        for k in self.known:
            if k.get('status') == 'known' and re.search(k['signature'], sig):
                if k['signature'] not in [h['signature'] for h in self.known_hits]:
                    self.known_hits.append({'signature': k['signature'], 'what': what})
                return
        self.violations.append({'kind': kind, 'what': what, 'replay': replay})

    # ---- finish -------------------------------------------------------------------------------
    def finish(self, level, explanation='', rule=''):
        failed = [(n, d) for (n, ok, d) in self.obligations if not ok]
        input_viol = [v for v in self.violations if v['kind'] == 'input']
        if failed and not input_viol:
            self.violations.append({'kind': 'obligation', 'what': 'proof obligation / correspondence no longer checks',
                                    'replay': {'kind': 'obligation', 'failed': [{'name': n, 'detail': d} for n, d in failed]}})
        exit_code = 0
        lines = []
        for h in self.known_hits:
            lines.append('KNOWN-FINDING: property=%s %s' % (self.pid, h['what']))
        if self.violations:
            exit_code = 1
            v = input_viol[0] if input_viol else self.violations[0]
            body = dict(v['replay'])
            body.setdefault('property', self.pid)
            body.setdefault('kind', v['kind'])
            body['what'] = v['what']
            body['failed_obligations'] = [{'name': n, 'detail': d} for n, d in failed]
            body['other_violations'] = [w['what'] for w in self.violations if w is not v][:20]
            h = hashlib.sha1(json.dumps(body, sort_keys=True, default=str).encode()).hexdigest()[:10]
            os.makedirs(os.path.join(VERIF, 'replays'), exist_ok=True)
            path = os.path.join(VERIF, 'replays', '%s-%s.json' % (self.pid, h))
            with open(path, 'w') as fh:
                json.dump(body, fh, indent=1, default=str)
            tail = '' if v['kind'] == 'input' else ' no-failing-input-found'
            lines.append('VIOLATION property=%s replay=%s%s' % (self.pid, path, tail))
        cov = dict(self.cov)
        cov['rule'] = rule or cov.get('rule', '')
        cov['obligations'] = len(self.obligations)
        cov['discharged'] = sum(1 for (_, ok, _) in self.obligations if ok)
        cov['obligation_list'] = [{'name': n, 'ok': ok, 'detail': d[:200]} for (n, ok, d) in self.obligations]
        cov['checker_cmd'] = 'make -C coq -j16 && coqc -q -Q coq/theories BF build/run/<run>/Chk_%s.v  (Print Assumptions parsed)%s' % (
            self.pid, '; coqchk -silent -o BF.Props.%s' % self.pid if self.tier == 'thorough' else '')
        cov['trusted_base'] = (['Coq 8.16.1 kernel + vm_compute (no native_compute)',
                                'axioms reported by Print Assumptions: ' + (', '.join(self.trusted) if self.trusted else 'none (Closed under the global context)'),
                                'harness: generators, exact float->Z/Q conversion, output parser, comparator (see DESIGN.md section 4)']
                               + self.assumptions)
        cov['explanation'] = explanation
        cov['exhaustive'] = bool(self.extra.get('exhaustive', False))
        cov['known_findings_hit'] = self.known_hits
        for k, v in self.extra.items():
            cov.setdefault(k, v)
        if cov['distinct_nontrivial'] > cov['evaluations']:
            cov['distinct_nontrivial'] = cov['evaluations']
        ev = {
            'property_id': self.pid, 'tier': self.tier, 'seed': int(self.seed), 'level': level,
            'coverage': cov, 'assumptions': self.assumptions + self.notes,
            'wall_s': round(time.time() - self.t0, 2), 'violations': len(self.violations),
        }
        evdir = os.environ.get('VERIF_EVIDENCE_DIR') or os.path.join(VERIF, 'evidence')
        os.makedirs(evdir, exist_ok=True)
        with open(os.path.join(evdir, self.pid + '.json'), 'w') as fh:
            json.dump(ev, fh, indent=1, default=str)
        for ln in lines:
            print(ln)
        print('%s %s tier=%s seed=%d obligations=%d/%d evaluations=%d distinct=%d wall=%.1fs' % (
            self.pid, 'FAIL' if exit_code else 'ok', self.tier, self.seed, cov['discharged'], cov['obligations'],
            cov['evaluations'], cov['distinct_nontrivial'], time.time() - self.t0))
        if exit_code == 0 and os.environ.get('VERIF_KEEP_RUN') != '1':
            shutil.rmtree(self.rundir, ignore_errors=True)
        sys.stdout.flush()
        return exit_code


def _split_evals(out):
    """each 'Eval vm_compute' prints '     = value' then '     : type' (value on one line thanks to Printing Width)"""
    vals = []
    cur = None
    for ln in out.splitlines():
        if ln.startswith('     = '):
            if cur is not None:
                vals.append(cur)
            cur = ln[7:]
        elif ln.startswith('     : '):
            if cur is not None:
                vals.append(cur)
                cur = None
        elif cur is not None:
            cur += ' ' + ln.strip()
    if cur is not None:
        vals.append(cur)
    return vals


def _parallel_coqc(files, rundir, timeout, extra_q=()):
    from concurrent.futures import ThreadPoolExecutor
    with ThreadPoolExecutor(max_workers=min(16, max(1, len(files)))) as ex:
        return list(ex.map(lambda f: coqc(f, rundir, extra_q=extra_q, timeout=timeout), files))


def load_known(pid):
    p = os.path.join(VERIF, 'known_findings.json')
    if not os.path.exists(p):
        return []
    data = json.load(open(p))
    return [k for k in data.get('findings', []) if k.get('property') == pid]


def git_head(path):
    rc, out = _run(['git', '-C', path, 'rev-parse', '--short', 'HEAD'])
    return out.strip() if rc == 0 else '?'
