"""(G) Fail-closed translator for the vectorised numpy formulas of common/gridmatching.py  ->  Gallina over Q (GenV.v).

The formulas act row by row on arrays of points; they are evaluated symbolically for ONE generic row.  Values:
  Q text            a rational expression
  Abs(text)         |x|           (np.absolute / np.abs)
  Sqrt(text)        sqrt(e), e >= 0      (np.linalg.norm, ** 0.5)
  Tup([...])        a row (one entry per column) or a constant tuple
Square roots are never evaluated: |d| * sqrt(n) = sqrt(d^2 n), sqrt(e1) / sqrt(e2) = sqrt(e1 / e2), the norm of a row of
square roots is the square root of the sum of their arguments, and  sqrt(e) < t  becomes  e < t^2  (t >= 0: the tolerance).
np.linalg.solve of a 2x2 system and np.linalg.lstsq are primitives (Cramer / weighted normal equations, trusted base):
for lstsq the translator extracts the design row, the response row and the ROW SCALE factor s of both sides; the
weight of the row in the least-squares sum is s^2."""
import ast
import os
import sys

from translate import Untranslatable


class Qv:
    def __init__(self, s):
        self.s = s


class Abs:
    def __init__(self, s):
        self.s = s          # the argument x of |x|


class Sqrt:
    def __init__(self, s):
        self.s = s          # the argument e of sqrt(e)


class Tup:
    def __init__(self, items):
        self.items = list(items)


class Bv:
    def __init__(self, s):
        self.s = s


def sq(v):
    """square of a non-negative-or-not value as a Q text"""
    if isinstance(v, Sqrt):
        return v.s
    if isinstance(v, (Qv, Abs)):
        return '(%s * %s)' % (v.s, v.s)
    raise Untranslatable('square of %s' % type(v).__name__)


class V:
    def __init__(self, env):
        self.env = dict(env)

    def bc(self, f, a, b):
        """broadcast a binary operation over rows / tuples"""
        if isinstance(a, Tup) or isinstance(b, Tup):
            if not isinstance(a, Tup):
                a = Tup([a] * len(b.items))
            if not isinstance(b, Tup):
                b = Tup([b] * len(a.items))
            if len(a.items) != len(b.items):
                raise Untranslatable('broadcast of rows of different lengths')
            return Tup([f(x, y) for x, y in zip(a.items, b.items)])
        return f(a, b)

    def mul(self, a, b):
        if isinstance(a, Qv) and isinstance(b, Qv):
            return Qv('(%s * %s)' % (a.s, b.s))
        if isinstance(a, (Abs, Sqrt)) and isinstance(b, (Abs, Sqrt)):
            return Sqrt('(%s * %s)' % (sq(a), sq(b)))          # product of non-negative factors
        raise Untranslatable('product %s * %s' % (type(a).__name__, type(b).__name__))

    def div(self, a, b):
        if isinstance(a, Qv) and isinstance(b, Qv):
            return Qv('(%s / %s)' % (a.s, b.s))
        if isinstance(a, (Abs, Sqrt)) and isinstance(b, (Abs, Sqrt)):
            return Sqrt('(%s / %s)' % (sq(a), sq(b)))
        raise Untranslatable('quotient %s / %s' % (type(a).__name__, type(b).__name__))

    def addsub(self, op):
        def f(a, b):
            if isinstance(a, Qv) and isinstance(b, Qv):
                return Qv('(%s %s %s)' % (a.s, op, b.s))
            raise Untranslatable('sum of %s, %s' % (type(a).__name__, type(b).__name__))
        return f

    def expr(self, n):
        txt = ast.unparse(n)
        if txt in self.env:
            return self.env[txt]
        if isinstance(n, ast.Constant) and isinstance(n.value, int) and not isinstance(n.value, bool):
            return Qv('(%d#1)' % n.value if n.value >= 0 else '(-(%d#1))' % -n.value)
        if isinstance(n, ast.Tuple):
            return Tup([self.expr(e) for e in n.elts])
        if isinstance(n, ast.BinOp):
            if isinstance(n.op, ast.Pow):
                if isinstance(n.right, ast.Constant) and n.right.value == 0.5:
                    v = self.expr(n.left)
                    return self.bc(lambda x, _: self.sqrt(x), v, v)
                raise Untranslatable('power %s' % ast.unparse(n.right))
            a, b = self.expr(n.left), self.expr(n.right)
            if isinstance(n.op, ast.Mult):
                return self.bc(self.mul, a, b)
            if isinstance(n.op, ast.Div):
                return self.bc(self.div, a, b)
            if isinstance(n.op, ast.Add):
                return self.bc(self.addsub('+'), a, b)
            if isinstance(n.op, ast.Sub):
                return self.bc(self.addsub('-'), a, b)
            raise Untranslatable('operator %s' % type(n.op).__name__)
        if isinstance(n, ast.Compare) and len(n.ops) == 1 and isinstance(n.ops[0], ast.Lt):
            a, b = self.expr(n.left), self.expr(n.comparators[0])
            if isinstance(a, Sqrt) and isinstance(b, Qv):
                # sqrt(e) < t  <->  e < t^2   for t >= 0 (for t < 0 the left side is never smaller: side condition)
                return Bv('(Qlt_bool %s (%s * %s))' % (a.s, b.s, b.s))
            raise Untranslatable('comparison %s < %s' % (type(a).__name__, type(b).__name__))
        if isinstance(n, ast.Call):
            fn = ast.unparse(n.func)
            a = n.args
            kw = {k.arg: ast.unparse(k.value) for k in n.keywords}
            if fn in ('np.absolute', 'np.abs') and len(a) == 1:
                v = self.expr(a[0])
                return self.bc(lambda x, _: self.absv(x), v, v)
            if fn == 'np.around' and len(a) == 1 and not kw:
                v = self.expr(a[0])
                return self.bc(lambda x, _: self.rnd(x), v, v)
            if fn == 'np.maximum' and len(a) == 2:
                x, y = self.expr(a[0]), self.expr(a[1])
                return self.bc(self.qmax, x, y)
            if fn == 'np.linalg.norm' and len(a) == 1:
                v = self.expr(a[0])
                if not isinstance(v, Tup):
                    raise Untranslatable('norm of a scalar')
                if kw not in ({}, {'axis': '1'}):
                    raise Untranslatable('norm keywords %s' % kw)
                return Sqrt('(' + ' + '.join(sq(x) for x in v.items) + ')')
            if fn == 'np.sqrt' and len(a) == 1:
                v = self.expr(a[0])
                return self.bc(lambda x, _: self.sqrt(x), v, v)
            raise Untranslatable('call %s' % fn)
        raise Untranslatable('expression %s' % txt[:60])

    def sqrt(self, x):
        if isinstance(x, Qv):
            return Sqrt(x.s)
        if isinstance(x, Abs):
            return Sqrt('(Qabs %s)' % x.s)
        raise Untranslatable('sqrt of %s' % type(x).__name__)

    def absv(self, x):
        if isinstance(x, Qv):
            return Abs(x.s)
        if isinstance(x, (Abs, Sqrt)):
            return x
        raise Untranslatable('abs of %s' % type(x).__name__)

    def rnd(self, x):
        if isinstance(x, Qv):
            return Qv('(inject_Z (round_he %s))' % x.s)
        raise Untranslatable('around of %s' % type(x).__name__)

    def qmax(self, x, y):
        def q(v):
            if isinstance(v, Qv):
                return v.s
            if isinstance(v, Abs):
                return '(Qabs %s)' % v.s
            raise Untranslatable('maximum of %s' % type(v).__name__)
        r = '(Qmax %s %s)' % (q(x), q(y))
        # the maximum with a positive constant or of absolute values is used as a non-negative quantity under ** 0.5
        return Qv(r)


def find(tree, qual):
    body = tree.body
    node = None
    for p in qual.split('.'):
        node = next((n for n in body if isinstance(n, (ast.FunctionDef, ast.ClassDef)) and n.name == p), None)
        if node is None:
            raise Untranslatable('%s not found' % qual)
        body = node.body
    return node


HEADER = '''(* GENERATED by harness/translate_v.py -- do not edit *)
From Coq Require Import QArith Qround Qabs Qminmax.
From BF Require Import Model.Lattice Model.Match.
Open Scope Q_scope.
'''


def translate(repo, only=None):
    src = os.path.join(repo, 'src', 'libertem_blobfinder', 'common', 'gridmatching.py')
    mod = ast.parse(open(src).read())
    out = [HEADER]
    problems = []

    def t_match_all():
        f = find(mod, 'Matcher._match_all')
        v = V({'indices': Tup([Qv('i'), Qv('j')]), 'a': Tup([Qv('(vy a)'), Qv('(vx a)')]), 'b': Tup([Qv('(vy b)'), Qv('(vx b)')]),
               'self.tolerance': Qv('tol')})
        seen = {}
        for st in f.body:
            if isinstance(st, ast.Expr) and isinstance(st.value, ast.Constant):
                continue
            if isinstance(st, ast.Assign) and len(st.targets) == 1 and isinstance(st.targets[0], ast.Name):
                nm = st.targets[0].id
                src_txt = ast.unparse(st.value)
                if nm == 'indices':
                    if src_txt != 'get_indices(point_selection.refineds, zero, a, b)':
                        raise Untranslatable('_match_all: indices = %s' % src_txt)
                    continue
                if nm == 'matched_indices':
                    if src_txt != 'rounded[matched_selector].astype(int)':
                        raise Untranslatable('_match_all: matched_indices = %s' % src_txt)
                    seen['matched_indices'] = True
                    continue
                if nm in ('new_selector', 'result'):
                    seen[nm] = src_txt
                    continue
                v.env[nm] = v.expr(st.value)
            elif isinstance(st, ast.Return):
                seen['return'] = ast.unparse(st.value)
            else:
                raise Untranslatable('_match_all: statement %s' % type(st).__name__)
        if seen.get('new_selector') != 'point_selection.new_selector(matched_selector)' or seen.get('return') != 'result' or 'matched_indices' not in seen \
                or 'selector=new_selector' not in seen.get('result', '') or 'indices=matched_indices' not in seen.get('result', ''):
            raise Untranslatable('_match_all: result construction changed: %s' % seen)
        r, e, m = v.env.get('rounded'), v.env.get('errors'), v.env.get('matched_selector')
        if not (isinstance(r, Tup) and len(r.items) == 2 and all(isinstance(x, Qv) for x in r.items) and isinstance(e, Sqrt) and isinstance(m, Bv)):
            raise Untranslatable('_match_all: rounded / errors / matched_selector not of the expected kind')
        out.append('(* one row of Matcher._match_all: indices (i, j) of a point, lattice vectors a, b; errors = sqrt(gen_ma_err2) *)')
        out.append('Definition gen_ma_rounded (i j : Q) : Q * Q := (%s, %s).' % (r.items[0].s, r.items[1].s))
        out.append('Definition gen_ma_err2 (a b : vec) (i j : Q) : Q := %s.' % e.s)
        out.append('Definition gen_ma_matched (tol : Q) (a b : vec) (i j : Q) : bool := %s.' % m.s)

    def t_get_indices():
        f = find(mod, 'get_indices')
        body = [ast.unparse(st) for st in f.body if not (isinstance(st, ast.Expr) and isinstance(st.value, ast.Constant))]
        # (the difference is taken in float64 -- np.subtract(..., dtype=np.float64) --, so that unsigned integer coordinates do not wrap: F18)
        want = ['coefficients = np.array((a, b)).T', 'target = np.subtract(points, zero, dtype=np.float64)', 'result = np.linalg.solve(coefficients, target.T).T', 'return result']
        if body != want:
            raise Untranslatable('get_indices body changed: %s' % body)
        # np.linalg.solve([[ay, by], [ax, bx]], t) by Cramer's rule (trusted primitive)
        out.append('Definition gen_get_index (zero a b p : vec) : option vec :=')
        out.append('  let ty := vy p - vy zero in let tx := vx p - vx zero in')
        out.append('  let d := vy a * vx b - vy b * vx a in')
        out.append('  if Qeq_bool d 0 then None else Some ((ty * vx b - vy b * tx) / d, (vy a * tx - ty * vx a) / d).')

    def lstsq_rows(fname, rowsenv):
        """design row, response row and row scale of a function that ends in np.linalg.lstsq(A, B, rcond=None)"""
        f = find(mod, fname)
        calls = [n for n in ast.walk(f) if isinstance(n, ast.Call) and ast.unparse(n.func) == 'np.linalg.lstsq']
        if len(calls) != 1 or len(calls[0].args) != 2:
            raise Untranslatable('%s: exactly one lstsq(A, B, ...) expected' % fname)
        return f, calls[0]

    def post_lstsq(f, name):
        '''after the lstsq call: only an empty solution is an error; the solution rows are (zero, a, b)'''
        stm = [ast.unparse(s_) for s_ in f.body if not (isinstance(s_, ast.Expr) and isinstance(s_.value, ast.Constant))]
        tail = stm[-4:]
        want = ["if x.size == 0:\n    raise np.linalg.LinAlgError('Optimizing returned empty result')", 'zero, a, b = x', 'return self.derive(zero=zero, a=a, b=b)']
        if tail[-3:] != want:
            raise Untranslatable('%s: statements after lstsq changed: %s' % (name, tail[-3:]))

    def t_weighted_optimize():
        f, call = lstsq_rows('Match.weighted_optimize', None)
        body = {}
        for st in f.body:
            if isinstance(st, ast.Assign) and len(st.targets) == 1 and isinstance(st.targets[0], ast.Name):
                body[st.targets[0].id] = ast.unparse(st.value)
        want = {'indices': 'np.hstack([np.ones((len(self.indices), 1)), self.indices])',
                'W': 'np.vstack([self.peak_elevations, self.peak_elevations])',
                'Aw': 'indices * np.sqrt(self.peak_elevations[:, np.newaxis])',
                'Bw': 'self.refineds * np.sqrt(W.T)'}
        for k, wv in want.items():
            if body.get(k) != wv:
                raise Untranslatable('weighted_optimize: %s = %s' % (k, body.get(k)))
        if [ast.unparse(a) for a in call.args] != ['Aw', 'Bw']:
            raise Untranslatable('weighted_optimize: lstsq arguments')
        post_lstsq(f, 'weighted_optimize')
        # row scale of both sides: sqrt(w)  ->  weight of the row in the sum of squares: (sqrt w)^2
        v = V({'w': Qv('w')})
        s = v.expr(ast.parse('np.sqrt(w)', mode='eval').body)
        out.append('(* Match.weighted_optimize: design row (1, i, j), response (py, px), both scaled by sqrt(elevation): weight of the row *)')
        out.append('Definition gen_wopt_weight (w : Q) : Q := %s.' % sq(s))
        out.append('Definition gen_wopt_design (i j : Q) : Q * Q * Q := (1, i, j).')

    def t_optimize():
        f, call = lstsq_rows('Match.optimize', None)
        body = {}
        for st in f.body:
            if isinstance(st, ast.Assign) and len(st.targets) == 1 and isinstance(st.targets[0], ast.Name):
                body[st.targets[0].id] = ast.unparse(st.value)
        if body.get('indices') != 'np.hstack([np.ones((len(self.indices), 1)), self.indices])' or [ast.unparse(a) for a in call.args] != ['indices', 'self.refineds']:
            raise Untranslatable('optimize: design / response changed')
        post_lstsq(f, 'optimize')
        out.append('Definition gen_opt_weight (w : Q) : Q := 1.')

    def t_get_transformation():
        f, call = lstsq_rows('get_transformation', None)
        stm = [ast.unparse(st) for st in ast.walk(f) if isinstance(st, (ast.Assign, ast.AugAssign))]
        want = ['center = np.array((0.0, 0.0))', 'A = np.hstack((ref - center, np.ones((len(ref), 1))))', 'B = np.hstack((peaks - center, np.ones((len(peaks), 1))))',
                'fit, res, rank, s = np.linalg.lstsq(A, B, rcond=None)', 'W = np.vstack((weighs, weighs, weighs)).T', 'A *= W', 'B *= W']
        if sorted(stm) != sorted(want):
            raise Untranslatable('get_transformation: statements changed: %s' % sorted(set(stm) ^ set(want)))
        v = V({'w': Qv('w')})
        out.append('(* get_transformation: rows (ref - c, 1) and (peaks - c, 1), both scaled by the given weight: weight in the sum of squares *)')
        out.append('Definition gen_gt_weight (w : Q) : Q := %s.' % sq(v.env['w']))
        out.append('Definition gen_gt_design (c r : vec) : Q * Q * Q := (vy r - vy c, vx r - vx c, 1).')

    def t_corr_defaults():
        """CorrelationResult.__init__: what an omitted optional argument stands for"""
        f = find(mod, 'CorrelationResult.__init__')
        dflt = {}
        for st in f.body:
            if isinstance(st, ast.If):
                t = st.test
                if not (isinstance(t, ast.Compare) and isinstance(t.ops[0], ast.Is) and isinstance(t.left, ast.Name) and ast.unparse(t.comparators[0]) == 'None'
                        and len(st.body) == 1 and isinstance(st.body[0], ast.Assign) and ast.unparse(st.body[0].targets[0]) == t.left.id and not st.orelse):
                    raise Untranslatable('CorrelationResult.__init__: unexpected `if`: %s' % ast.unparse(t))
                if t.left.id in dflt:
                    raise Untranslatable('CorrelationResult.__init__: two defaults for %s' % t.left.id)
                dflt[t.left.id] = ast.unparse(st.body[0].value)
        kinds = {'centers': 'DCenters', 'np.ones(len(centers))': 'DOnes', 'refineds': 'DRefineds', 'peak_values': 'DValues'}
        for nm in ('refineds', 'peak_values', 'peak_elevations'):
            if nm not in dflt or dflt[nm] not in kinds:
                raise Untranslatable('CorrelationResult.__init__: default of %s is %s' % (nm, dflt.get(nm)))
        stores = {ast.unparse(st.targets[0]): ast.unparse(st.value) for st in f.body if isinstance(st, ast.Assign) and ast.unparse(st.targets[0]).startswith('self.')}
        if stores != {'self.centers': 'centers', 'self.refineds': 'refineds', 'self.peak_values': 'peak_values', 'self.peak_elevations': 'peak_elevations'}:
            raise Untranslatable('CorrelationResult.__init__: attributes stored: %s' % stores)
        out.append('Inductive corr_default := DCenters | DOnes | DRefineds | DValues.')
        out.append('Definition gen_default_refineds : corr_default := %s.' % kinds[dflt['refineds']])
        out.append('Definition gen_default_peak_values : corr_default := %s.' % kinds[dflt['peak_values']])
        out.append('Definition gen_default_peak_elevations : corr_default := %s.' % kinds[dflt['peak_elevations']])

    for t in (t_match_all, t_get_indices, t_weighted_optimize, t_optimize, t_get_transformation, t_corr_defaults):
        if only is not None and t.__name__ not in only:
            continue
        try:
            t()
        except Untranslatable as e:
            problems.append('%s: %s' % (t.__name__, e))
        except Exception as e:  # noqa
            problems.append('%s: %s: %s' % (t.__name__, type(e).__name__, e))
    return '\n'.join(out) + '\n', problems


if __name__ == '__main__':
    txt, probs = translate(sys.argv[1] if len(sys.argv) > 1 else '/repo')
    sys.stdout.write(txt)
    for p in probs:
        print('(* PROBLEM: %s *)' % p)
