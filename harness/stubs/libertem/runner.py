"""Explicit-schedule runner for the stand-in UDF protocol."""
import numpy as np

from .udf.base import UDF, AuxData, Shape, TileSlice, _NS


def run_udf(udf, data, partitions=None, tiling=None, depth=1, backend=UDF.BACKEND_NUMPY, task_data_override=None):
    """data: (n, fy, fx).  partitions: list of lists of frame indices (each frame exactly once, any order); default: one
    partition with all frames.  tiling: list of (y0, x0, h, w) signal-plane tiles (for process_tile UDFs);
    depth: number of frames stacked in one tile.  Returns dict name -> full result array (n, *extra_shape)."""
    data = np.asarray(data)
    data0 = data.copy()                       # the dataset is read-only for a UDF
    aux0 = {k: np.array(v.data, copy=True) for k, v in udf._kwargs.items() if isinstance(v, AuxData)}
    n = data.shape[0]
    sig = data.shape[1:]
    if partitions is None:
        partitions = [list(range(n))]
    aux = {k: v for k, v in udf._kwargs.items() if isinstance(v, AuxData)}

    def params(idx):
        kw = dict(udf._kwargs)
        for k, a in aux.items():
            kw[k] = a.data[idx] if idx is not None else a
        return _NS(**kw)

    if backend not in udf.get_backends():
        backend = UDF.BACKEND_NUMPY             # a back-end the UDF does not declare: the frames are densified before they reach it

    def deliver(arr):
        """the frame / tile as an array of the negotiated back-end"""
        if backend == UDF.BACKEND_NUMPY:
            return arr
        import sparseconverter
        return sparseconverter.for_backend(arr, backend)

    udf.meta = _NS(input_dtype=data.dtype, dataset_shape=Shape((n,), sig), array_backend=backend, slice=None)
    udf.params = params(None)
    decl = udf.get_result_buffers()
    full = {k: np.zeros((n,) + d.extra_shape, dtype=d.dtype) for k, d in decl.items()}
    tiled = hasattr(udf, 'process_tile') and not hasattr(udf, 'process_frame')
    for part in partitions:
        udf.params = params(None)
        td = udf.get_task_data()
        if task_data_override:
            td = dict(td)
            td.update(task_data_override)
        udf.task_data = _NS(**td)
        if not tiled:
            for i in part:
                udf.params = params(i)
                udf.results = _NS(**{k: full[k][i] for k in full})
                udf.process_frame(deliver(data[i]))
        else:
            tiles = tiling or [(0, 0, sig[0], sig[1])]
            for g in range(0, len(part), depth):
                frames = list(part[g:g + depth])
                udf.params = params(None)
                view = {k: full[k][frames] for k in full}      # copy (fancy indexing): written back below
                udf.results = _NS(**view)
                for (y0, x0, h, w) in tiles:
                    udf.meta.slice = TileSlice((y0, x0), (h, w))
                    udf.process_tile(deliver(data[frames][:, y0:y0 + h, x0:x0 + w]))
                for k in full:
                    full[k][frames] = view[k]
    udf.params = params(None)
    udf.results = _NS(**full)
    udf.postprocess()
    if not np.array_equal(data, data0, equal_nan=True):
        raise RuntimeError('the UDF modified the frames of the dataset in place')
    for k, v in aux0.items():
        if not np.array_equal(np.asarray(udf._kwargs[k].data), v, equal_nan=True):
            raise RuntimeError('the UDF modified its AUX data `%s` in place' % k)
    return full


class FakeDataSet:
    def __init__(self, data):
        self.data = np.asarray(data)
        self.shape = Shape((self.data.shape[0],), self.data.shape[1:])


class FakeContext:
    """ctx.run_udf(dataset=..., udf=...) with a schedule fixed at construction"""
    def __init__(self, partitions=None, tiling=None, depth=1):
        self.partitions, self.tiling, self.depth = partitions, tiling, depth
        self.last_udf = None

    def run_udf(self, dataset, udf, **kwargs):
        self.last_udf = udf
        return run_udf(udf, dataset.data, partitions=self.partitions, tiling=self.tiling, depth=self.depth)
