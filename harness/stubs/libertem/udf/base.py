import numpy as np


class _NS:
    def __init__(self, **kw):
        self.__dict__.update(kw)

    def get(self, k, d=None):
        return self.__dict__.get(k, d)

    def __getitem__(self, k):
        return self.__dict__[k]


class BufDecl:
    def __init__(self, kind, extra_shape=(), dtype='float32'):
        self.kind = kind
        self.extra_shape = tuple(extra_shape)
        self.dtype = np.dtype(dtype)


class AuxData:
    """AUX data of kind nav: one entry of shape extra_shape per frame"""
    def __init__(self, data, kind, extra_shape, dtype):
        self.data = np.asarray(data, dtype=dtype)
        self.kind = kind
        self.extra_shape = tuple(extra_shape)

    @property
    def shape(self):
        return self.data.shape

    def __getitem__(self, idx):
        return self.data[idx]


class Shape:
    def __init__(self, nav, sig):
        self.nav = tuple(nav)
        self.sig = tuple(sig)

    def __iter__(self):
        return iter(self.nav + self.sig)


class TileSlice:
    """signal-plane slice of a tile: origin (y, x) and shape (h, w)"""
    def __init__(self, origin, shape):
        self.origin = tuple(origin)
        self.shape = tuple(shape)


class UDF:
    BACKEND_NUMPY = 'numpy'
    BACKEND_CUPY = 'cupy'
    BACKEND_SPARSE_COO = 'sparse.COO'
    BACKEND_SPARSE_GCXS = 'sparse.GCXS'
    xp = np

    def __init__(self, *args, **kwargs):
        self._kwargs = kwargs
        self.params = _NS(**kwargs)

    def buffer(self, kind, extra_shape=(), dtype='float32', **kw):
        return BufDecl(kind, extra_shape, dtype)

    @classmethod
    def aux_data(cls, data, kind, extra_shape=(), dtype='float32'):
        return AuxData(data, kind, extra_shape, dtype)

    def forbuf(self, arr, target):
        return np.asarray(arr)

    def postprocess(self):
        pass

    def get_task_data(self):
        return {}

    def get_backends(self):
        return (self.BACKEND_NUMPY,)
