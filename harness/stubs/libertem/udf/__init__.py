from .base import UDF  # noqa
