"""Minimal stand-in for the parts of LiberTEM that libertem_blobfinder.udf uses (LiberTEM is not installed in this
sandbox).  It implements the UDF protocol -- get_result_buffers / get_task_data per partition / process_frame or
process_tile with per-frame views of results and AUX data / postprocess on the merged buffers -- driven by an explicit
schedule.  This runner IS the UDF semantics for the checks of C10 and C11 (trusted base, see DESIGN.md)."""
