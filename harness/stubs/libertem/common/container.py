import numpy as np


class MaskContainer:
    """stand-in: dense mask stack, sliced by a tile slice (origin (y, x), shape (h, w)) and flattened"""
    def __init__(self, mask_factories, dtype=None, use_sparse=None, backend=None, count=None):
        st = mask_factories()
        self.stack = np.asarray(st.todense() if hasattr(st, 'todense') else st, dtype=dtype)

    def get(self, key, transpose=False):
        (y0, x0), (h, w) = key.origin, key.shape
        m = self.stack[:, y0:y0 + h, x0:x0 + w].reshape(len(self.stack), -1)
        return m.T if transpose else m
