"""Deterministic stand-in for hdbscan.HDBSCAN (not installed here): single-linkage clustering of the candidate vectors
with a fixed distance threshold; sklearn-style fit() / labels_ / probabilities_.  The property C12 allows any
sklearn-style clusterer."""
import numpy as np


class HDBSCAN:
    def __init__(self, min_cluster_size=2, min_samples=1, eps=2.0):
        self.min_cluster_size = min_cluster_size
        self.min_samples = min_samples
        self.eps = eps
        self.labels_ = np.zeros(0, dtype=int)
        self.probabilities_ = np.zeros(0)

    def fit(self, X):
        X = np.asarray(X, dtype=float)
        n = len(X)
        parent = list(range(n))

        def find(i):
            while parent[i] != i:
                parent[i] = parent[parent[i]]
                i = parent[i]
            return i
        for i in range(n):
            for j in range(i + 1, n):
                if np.linalg.norm(X[i] - X[j]) <= self.eps:
                    parent[find(j)] = find(i)
        roots = {}
        labels = np.full(n, -1, dtype=int)
        for i in range(n):
            r = find(i)
            roots.setdefault(r, []).append(i)
        k = 0
        for r in sorted(roots):
            if len(roots[r]) >= max(2, int(self.min_cluster_size)):
                labels[roots[r]] = k
                k += 1
        self.labels_ = labels
        self.probabilities_ = np.where(labels >= 0, 1.0, 0.0)
        return self
