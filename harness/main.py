import argparse
import importlib
import json
import os
import sys
import traceback

sys.path.insert(0, os.path.dirname(os.path.abspath(__file__)))
import core  # noqa: E402


def main():
    ap = argparse.ArgumentParser()
    ap.add_argument('pid')
    ap.add_argument('--tier', default=os.environ.get('VERIF_TIER', 'quick'), choices=['quick', 'thorough'])
    ap.add_argument('--seed', type=int, default=int(os.environ.get('VERIF_SEED', '0') or 0))
    ap.add_argument('--replay', default=None)
    a = ap.parse_args()
    import libertem_blobfinder
    src = os.path.realpath(os.path.dirname(libertem_blobfinder.__file__))
    want = os.path.realpath(os.path.join(core.REPO, 'src', 'libertem_blobfinder'))
    if src != want:
        print('check broken: implementation imported from %s, expected %s' % (src, want), file=sys.stderr)
        return 2
    mod = importlib.import_module('props.' + a.pid)
    if a.replay:
        body = json.load(open(a.replay))
        return mod.replay(body)
    ctx = core.Ctx(a.pid, a.tier, a.seed)
    try:
        return mod.run(ctx)
    except core.Broken as e:
        print('check broken (infrastructure): %s' % e, file=sys.stderr)
        return 2
    except Exception as e:
        if type(e).__name__ == 'InputModified':
            # raised by the harness' input guards (the library modified an input-only argument in place) at a place where no
            # oracle was wrapping the call: a violation with the guard's message, not a failure of the check itself
            ctx.violation('input', str(e), {'kind': 'input', 'call': '(input guard)', 'args': {'traceback': traceback.format_exc()[-1500:]}, 'failure': str(e)})
            return ctx.finish('proof', explanation='run aborted by an input guard: ' + str(e), rule='(aborted)')
        traceback.print_exc()
        print('check broken (infrastructure): unexpected exception', file=sys.stderr)
        return 2
    except BaseException:
        traceback.print_exc()
        print('check broken (infrastructure): unexpected exception', file=sys.stderr)
        return 2


if __name__ == '__main__':
    sys.exit(main())
