"""C11 - Refinement and integration UDFs equal the library functions per frame."""
import json
from fractions import Fraction

import numpy as np

import core
from core import cq, cz, clist2
import corrlib as cl
from latlib import F, qv, fvec, lvec
from libertem.runner import run_udf, FakeContext, FakeDataSet
from libertem.udf.base import UDF as StubUDF
from libertem_blobfinder.base import utils as bu
from libertem_blobfinder.base.utils import cbed_frame
from libertem_blobfinder.common import gridmatching as grm, patterns as pat
from libertem_blobfinder.udf import refinement as ur, correlation as uc, integration as ui

LEVEL = 'proof'


def flat_indices(indices):
    '''the documented meaning of the two index layouts, independent of base.utils.regularize_indices:
    (2, n, m) = output of np.mgrid -> pairs in the order of np.concatenate(indices.T); (n, 2) = list of pairs'''
    indices = np.asarray(indices)
    if indices.ndim == 3 and indices.shape[0] == 2:
        return np.array([[indices[0, i, j], indices[1, i, j]] for j in range(indices.shape[2]) for i in range(indices.shape[1])])
    assert indices.ndim == 2 and indices.shape[1] == 2
    return indices


def rand_partitions(rng, n):
    order = [int(i) for i in rng.permutation(n)] if rng.integers(0, 2) else list(range(n))
    parts, k = [], 0
    while k < n:
        s = int(rng.integers(1, n - k + 1))
        parts.append(order[k:k + s])
        k += s
    return parts


def gen_refine(rng, combo=None):
    '''combo: (correlation, match, zero-shift kind) to force; None = random'''
    n = int(rng.integers(1, 7))
    fy, fx = int(rng.integers(44, 72)), int(rng.integers(44, 72))
    zero = np.array([fy / 2 + rng.uniform(-2, 2), fx / 2 + rng.uniform(-2, 2)])
    la = rng.uniform(11, 15)
    ang = rng.uniform(-0.3, 0.3)
    a = la * np.array([np.cos(ang), np.sin(ang)])
    b = rng.uniform(11, 15) * np.array([-np.sin(ang), np.cos(ang)])
    zk = str(rng.choice(['none', 'const', 'perframe', 'fractional'])) if combo is None else combo[2]
    if zk == 'none':
        shifts = np.zeros((n, 2))
        zs = None
    elif zk == 'const':
        s = np.array([float(rng.integers(-2, 3)), float(rng.integers(-2, 3))])
        shifts = np.tile(s, (n, 1))
        zs = s
        if rng.integers(0, 2):
            # shifts with different components (a per-frame reading of a constant shift would pick one component for both coordinates)
            s = np.array([float(rng.choice([-6, -4, 5, 6])), float(rng.choice([-3, 2, 3]))])
            shifts, zs = np.tile(s, (n, 1)), s
    else:
        shifts = rng.integers(-2, 3, size=(n, 2)).astype(float)
        if zk == 'fractional':
            shifts = shifts + rng.choice([0.25, 0.5, -0.4], size=(n, 2))
        zs = 'aux'
    radius = float(rng.choice([2.5, 3.0]))
    search = float(rng.choice([4.0, 4.5, 5.0]))
    data = []
    for s in shifts:
        fr, _, _ = cbed_frame(fy=fy, fx=fx, zero=zero + s, a=a, b=b, indices=np.mgrid[-3:4, -3:4], radius=radius, all_equal=False, margin=radius + 1)
        data.append(fr[0] + rng.poisson(0.2, size=(fy, fx)))
    layout = str(rng.choice(['mgrid', 'list', 'mgrid (2,7,2)', 'mgrid (2,2,5)']))
    if layout == 'mgrid':
        idx = np.mgrid[-3:4, -3:4]
    elif layout == 'mgrid (2,7,2)':
        idx = np.mgrid[-3:4, 0:2]             # an mgrid whose last axis happens to have length 2 is still an mgrid
    elif layout == 'mgrid (2,2,5)':
        idx = np.mgrid[-1:1, -2:3]
    else:
        idx = np.array([(i, j) for i in range(-3, 4) for j in range(-3, 4)])[rng.permutation(49)[:30]]
    return dict(data=np.array(data, dtype=np.float32), zero=zero, a=a, b=b, shifts=shifts, zs=zs, zk=zk, zs_form=str(rng.choice(['array', 'tuple', 'list'])), radius=radius, search=search, indices=idx, layout=layout,
                correlation=str(rng.choice(['fast', 'fullframe', 'sparse'])) if combo is None else combo[0],
                match=str(rng.choice(['fast', 'affine'])) if combo is None else combo[1],
                tolerance=float(rng.choice([0.4, 1.0, 3.0])) if combo is None or len(combo) < 4 else combo[3], parts=rand_partitions(rng, n),
                upsample=[False, False, True, 4, 7][int(rng.integers(0, 5))], mm_equals_peaks=bool(rng.integers(0, 4) == 0))


def refine_failure(c):
    pattern = pat.RadialGradient(radius=c['radius'], search=c['search'])
    mm = 3
    if c.get('mm_equals_peaks'):
        # min_match equal to the number of lattice positions that are correlated: a frame in which all of them match has exactly min_match peaks
        fl = flat_indices(c['indices'])
        co = c['zero'] + fl @ np.array([c['a'], c['b']])
        mm = max(3, int(sum(1 for q in co if c['search'] <= q[0] < c['data'].shape[1] - c['search'] and c['search'] <= q[1] < c['data'].shape[2] - c['search'])))
    matcher = grm.Matcher(tolerance=c['tolerance'], min_weight=0.05, min_match=mm)
    n, fy, fx = c['data'].shape
    zs = c['zs']
    if isinstance(zs, str):
        zs = StubUDF.aux_data(c['shifts'], kind='nav', extra_shape=(2,), dtype='float64')
    elif zs is not None and c.get('zs_form', 'array') != 'array':
        # one (y, x) shift for all frames given as a plain tuple / list instead of an array
        zs = tuple(float(v) for v in zs) if c['zs_form'] == 'tuple' else [float(v) for v in zs]
    corr = c['correlation']
    if corr == 'sparse' and c['zk'] != 'none':
        try:
            ur.run_refine(FakeContext(), FakeDataSet(c['data']), zero=c['zero'], a=c['a'], b=c['b'], match_pattern=pattern, matcher=matcher, correlation='sparse',
                          match=c['match'], indices=c['indices'], steps=3, zero_shift=zs)
            return 'run_refine(correlation=sparse) accepted a zero shift'
        except ValueError:
            return None
    ctx = FakeContext(partitions=c['parts'])
    try:
        res, used = ur.run_refine(ctx, FakeDataSet(c['data']), zero=c['zero'], a=c['a'], b=c['b'], match_pattern=pattern, matcher=matcher, correlation=corr,
                                  match=c['match'], indices=c['indices'], steps=3, zero_shift=zs, upsample=c.get('upsample', False))
    except Exception as e:  # noqa
        return 'run_refine raised %s: %s (correlation=%s match=%s zero shift %s, %d frames, partitions %s)' % (type(e).__name__, e, corr, c['match'], c['zk'], n, c['parts'])
    # the peaks correlated: lattice positions keeping the margin `search`, truncated to int; indices returned
    flat = flat_indices(c['indices'])
    coords = c['zero'] + flat @ np.array([c['a'], c['b']])
    r = c['search']
    keep = [k for k in range(len(flat)) if (r <= coords[k][0] < fy - r) and (r <= coords[k][1] < fx - r)]
    amb = [k for k in range(len(flat)) if min(abs(coords[k][0] - r), abs(coords[k][1] - r), abs(coords[k][0] - (fy - r)), abs(coords[k][1] - (fx - r))) < 1e-9]
    if not amb:
        if not np.array_equal(used, flat[keep]):
            return 'run_refine returned indices %s..., expected the %d indices whose position keeps the margin search=%s' % (np.asarray(used)[:3].tolist(), len(keep), r)
        udf = ctx.last_udf
        want = coords[keep].astype(int)
        if not np.array_equal(udf._kwargs['peaks'], np.round(want).astype(int)):
            return 'run_refine correlates peaks %s..., expected %s...' % (np.asarray(udf._kwargs['peaks'])[:3].tolist(), want[:3].tolist())
    # the requested correlation is the one that ran: the stored correlation result of every frame is what the library's batch function gives
    # for that frame with the SAME upsampling setting (the lattice below is then the match of that result)
    if corr in ('fast', 'fullframe') and not amb:
        from libertem_blobfinder.common import correlation as cc_
        fn = cc_.process_frames_fast if corr == 'fast' else cc_.process_frames_full
        base_peaks = np.asarray(ctx.last_udf._kwargs['peaks'])
        for i in range(n):
            sh = np.round(c['shifts'][i]).astype(int) if c['zk'] != 'none' else np.zeros(2, dtype=int)
            lib = fn(pattern, c['data'][i:i + 1], base_peaks + sh, upsample=c.get('upsample', False))
            if not np.array_equal(res['centers'][i], lib[0][0]) or not np.allclose(res['refineds'][i], lib[1][0], rtol=0, atol=2e-3):
                k = int(np.argmax(np.abs(np.asarray(res['refineds'][i], dtype=float) - lib[1][0]).max(axis=1)))
                return ('frame %d: run_refine(correlation=%s, upsample=%s) stored refined position %s for peak %s, the library function with that setting gives %s'
                        % (i, corr, c.get('upsample', False), np.asarray(res['refineds'][i][k]).tolist(), (base_peaks + sh)[k].tolist(), lib[1][0][k].tolist()))
    # per frame: stored match == matcher's match on that frame's correlation result, started from zero + that frame's shift
    for i in range(n):
        start = c['zero'] + (c['shifts'][i] if c['zk'] != 'none' else 0)
        kw = dict(centers=res['centers'][i], refineds=res['refineds'][i], peak_values=res['peak_values'][i], peak_elevations=res['peak_elevations'][i])
        if c['match'] == 'fast':
            m = matcher.fastmatch(zero=start, a=c['a'], b=c['b'], **kw)
        else:
            m = matcher.affinematch(indices=used, **kw)
        for nm, got, wantv in (('zero', res['zero'][i], m.zero), ('a', res['a'][i], m.a), ('b', res['b'][i], m.b), ('error', res['error'][i], m.error)):
            if not np.array_equal(np.asarray(got, dtype=np.float32), np.asarray(wantv).astype(np.float32), equal_nan=True):
                return ('frame %d: stored %s %s differs from the matcher\'s %s match %s started from zero + zero shift %s (correlation=%s, partitions %s)'
                        % (i, nm, np.asarray(got).tolist(), c['match'], np.asarray(wantv).tolist(), c['shifts'][i].tolist(), corr, c['parts']))
        if not np.array_equal(res['selector'][i], m.selector):
            return 'frame %d: stored selector differs from the matcher\'s' % i
    return None


def dispatch_failure():
    pattern = pat.RadialGradient(radius=2.5, search=4)
    data = np.zeros((1, 32, 32), dtype=np.float32)
    for kw in (dict(correlation='nonsense'), dict(match='nonsense')):
        try:
            ur.run_refine(FakeContext(), FakeDataSet(data), zero=(16, 16), a=(8, 0), b=(0, 8), match_pattern=pattern, matcher=grm.Matcher(), indices=np.mgrid[-1:2, -1:2], **kw)
            return 'run_refine accepted %s' % kw
        except ValueError:
            pass
        except Exception as e:  # noqa
            return 'run_refine raised %s instead of ValueError for %s' % (type(e).__name__, kw)
    classes = {'fast': uc.FastCorrelationUDF, 'fullframe': uc.FullFrameCorrelationUDF, 'sparse': uc.SparseCorrelationUDF}
    mix = {'fast': ur.FastmatchMixin, 'affine': ur.AffineMixin}
    for cn, cls in classes.items():
        for mn, mx in mix.items():
            ctx = FakeContext()
            ur.run_refine(ctx, FakeDataSet(data), zero=(16, 16), a=(8, 0), b=(0, 8), match_pattern=pattern, matcher=grm.Matcher(), indices=np.mgrid[-1:2, -1:2],
                          correlation=cn, match=mn, steps=2)
            if not (isinstance(ctx.last_udf, cls) and isinstance(ctx.last_udf, mx)):
                return 'run_refine(correlation=%s, match=%s) built %s' % (cn, mn, type(ctx.last_udf).__mro__[1:3])
    return None


def gen_integration(rng):
    n = int(rng.integers(1, 5))
    pattern, desc = cl.rand_pattern(rng, cmax=4, kinds=['Circular', 'BackgroundSubtraction', 'RadialGradient'])
    c = pattern.get_crop_size()
    fy, fx = int(rng.integers(6, 20)), int(rng.integers(6, 20))
    data = rng.integers(0, 50, size=(n, fy, fx)).astype(str(rng.choice(['float32', 'uint8', 'int32', 'float64'])))
    npk = int(rng.integers(1, 5))
    centers = np.array([cl.rand_peaks(rng, fy, fx, c, npk) for _ in range(n)], dtype=np.int64)
    return dict(pattern=pattern, desc=desc, data=data, centers=centers, parts=rand_partitions(rng, n))


def gen_integration_exact(rng):
    '''Exactly representable masks (bool / small integers / float32 dyadics) and frames whose values need more than
    float32: the integration result must then be the exact sum (all partial sums stay far below 2**53).'''
    n = int(rng.integers(1, 4))
    ty, tx = int(rng.integers(2, 9)), int(rng.integers(2, 9))
    tdtype = str(rng.choice(['bool', 'uint8', 'int16', 'float32']))
    t = rng.integers(0, 2 if tdtype == 'bool' else 4, size=(ty, tx))
    t[ty // 2, tx // 2] = 1
    search = int(rng.integers(1, 6))
    desc = {'kind': 'UserTemplate', 'template': t.tolist(), 'tdtype': tdtype, 'search': search}
    pattern = cl.pattern_from_desc(desc)
    c = pattern.get_crop_size()
    fy, fx = int(rng.integers(6, 20)), int(rng.integers(6, 20))
    dt = str(rng.choice(['float64', 'int32', 'uint32', 'int64']))
    hi = {'float64': 2 ** 36, 'int64': 2 ** 36, 'int32': 2 ** 31 - 1, 'uint32': 2 ** 32 - 1}[dt]
    data = rng.integers(hi // 2, hi, size=(n, fy, fx)).astype(dt)
    npk = int(rng.integers(1, 4))
    centers = np.array([cl.rand_peaks(rng, fy, fx, c, npk) for _ in range(n)], dtype=np.int64)
    return dict(pattern=pattern, desc=desc, data=data, centers=centers, parts=rand_partitions(rng, n), exact=True)


def gen_integration_many(rng):
    """more peaks than crop buffers of the library's default 512 kB budget would hold, and not a multiple of that number: every peak of
    every frame still gets its sum"""
    radius = float(rng.choice([8.0, 10.0]))
    pattern = pat.Circular(radius=radius, search=2 * radius)
    desc = {'kind': 'Circular', 'radius': radius, 'search': 2 * radius, 'radius_outer': None}
    c = pattern.get_crop_size()
    dt = str(rng.choice(['float32', 'float64', 'uint16']))
    per = 2 ** 19 // ((2 * c) ** 2 * np.dtype(np.result_type(np.dtype(dt), np.float32)).itemsize)
    npk = int(per + rng.integers(1, per))
    fy, fx = int(rng.integers(20, 40)), int(rng.integers(20, 40))
    data = rng.integers(0, 50, size=(2, fy, fx)).astype(dt)
    centers = np.stack([np.column_stack([rng.integers(-c, fy + c, npk), rng.integers(-c, fx + c, npk)]) for _ in range(2)]).astype(np.int64)
    return dict(pattern=pattern, desc=desc, data=data, centers=centers, parts=[[0], [1]] if rng.integers(0, 2) else [[1, 0]])


def run_integration(c):
    aux = StubUDF.aux_data(c['centers'], kind='nav', extra_shape=c['centers'].shape[1:], dtype=np.int64)
    return run_udf(ui.IntegrationUDF(centers=aux, pattern=c['pattern']), c['data'], partitions=c['parts'])['integration']


def integration_failure(c):
    try:
        got = run_integration(c)
    except Exception as e:  # noqa
        return 'IntegrationUDF raised %s: %s' % (type(e).__name__, e)
    cs = c['pattern'].get_crop_size()
    m = np.asarray(c['pattern'].get_mask((2 * cs, 2 * cs)), dtype=np.float64)
    for f in range(len(c['data'])):
        for k, p in enumerate(c['centers'][f]):
            w = cl.window_float(c['data'][f].astype(np.float64), cs, p)
            want = float((w * m).sum())
            if abs(got[f, k] - want) > (0 if c.get('exact') else 1e-4 * (np.abs(w * m).sum() + 1)):
                return 'frame %d peak %s: integration %.6g != sum of the zero-padded frame over the mask %.6g' % (f, p.tolist(), got[f, k], want)
    return None


def replay(body):
    print(json.dumps({'note': 'replay of C11 cases re-runs the oracle on the stored arguments', 'stored_failure': body.get('failure')}, indent=1))
    a = body['args']
    if body.get('call') == 'IntegrationUDF':
        c = dict(pattern=cl.pattern_from_desc(a['pattern']), desc=a['pattern'], data=np.array(a['data'], dtype=a['dtype']), centers=np.array(a['centers']), parts=a['partitions'],
                 exact=a.get('exact', False))
        fail = integration_failure(c)
    elif body.get('call') == 'run_refine':
        c = {k: (np.array(v) if isinstance(v, list) and k not in ('parts',) else v) for k, v in a.items()}
        c['data'] = np.array(a['data'], dtype=np.float32)
        fail = refine_failure(c)
    else:
        fail = dispatch_failure()
    print(json.dumps({'failure_now': fail}, indent=1))
    if fail:
        print('VIOLATION property=C11 replay=(given)')
        return 1
    return 0


def run(ctx):
    rng = ctx.rng
    ctx.check_theorems()
    ctx.check_generated(['qlat', 'uint', 'kcrop', 'dint', 'urefine', 'uzs'])
    # (K) IntegrationUDF vs UDF.integrate (exact integers x quantised mask)
    exprs, meta = [], []
    nq = ctx.n(10, 80)
    for k in range(nq + ctx.n(8, 60)):
        c = gen_integration(rng) if k < nq else gen_integration_exact(rng)
        got = run_integration(c)
        cs = c['pattern'].get_crop_size()
        mq = cl.quant(np.asarray(c['pattern'].get_mask((2 * cs, 2 * cs)), dtype=np.float64))
        fy, fx = c['data'].shape[1:]
        for f in range(len(c['data'])):
            for kk, p in enumerate(c['centers'][f]):
                exprs.append('integrate %d %d (Crop.of_list2 %s) %d (Corr.of_list2 %s) %s %s' % (fy, fx, clist2(c['data'][f].astype(np.int64).tolist()), cs, clist2(mq.tolist()), cz(p[0]), cz(p[1])))
                w = cl.window_float(c['data'][f].astype(np.float64), cs, p)
                mfl = np.asarray(c['pattern'].get_mask((2 * cs, 2 * cs)), dtype=np.float64)
                meta.append((float(got[f, kk]), c['desc'], p.tolist(), (0.0, 0.0, 0.0) if c.get('exact') else
                             (2e-5 * float((np.abs(w) * np.abs(mfl)).sum()), float(np.abs(w).sum() / cl.QS), 1e-6)))
        ctx.hist('dtype', str(c['data'].dtype) + ('/exact-mask ' + c['desc']['tdtype'] if c.get('exact') else ''))
    vals = ctx.coq_eval('integ', cl.COQ_IMPORTS + ' Model.Stamp Model.UDF', exprs, shard=40)
    nbad = 0
    for mv, (iv, desc, p, scale) in zip(vals, meta):
        m = mv / float(cl.QS)
        ctx.count(1, key=('integ', desc, p, iv))
        # float32 accumulation of terms of magnitude [scale] (cancellation for zero-sum masks) + mask quantisation
        # (exact-mask stream: integer data x exactly representable mask, all sums < 2**53: no tolerance at all)
        if abs(m - iv) > sum(scale):
            nbad += 1
            ctx.obligation('K:C11 integration entry', False, 'model %.6g impl %.6g peak %s' % (m, iv, p))
    ctx.obligation('K:C11 IntegrationUDF = UDF.integrate (sum of the zero-padded crop times the mask) for %d (frame, peak) entries' % len(vals), nbad == 0, '%d mismatches' % nbad)

    # (K) the peaks run_refine correlates vs Lattice.frame_peaks (exact rationals), truncated towards zero
    exprs, meta = [], []
    for k in range(ctx.n(10, 60)):
        c = gen_refine(rng)
        n, fy, fx = c['data'].shape
        idx = flat_indices(c['indices']).astype(float)
        exprs.append('map (fun ip => match ip with (ij, p) => [ql (fst ij); ql (snd ij); ql (fst p); ql (snd p)] end) (frame_peaks %s %s %s %s %s %s [%s])'
                     % (cq(F(fy)), cq(F(fx)), qv(c['zero']), qv(c['a']), qv(c['b']), cq(F(c['search'])), '; '.join(qv(v) for v in idx)))
        pattern = pat.RadialGradient(radius=c['radius'], search=c['search'])
        fctx = FakeContext()
        res, used = ur.run_refine(fctx, FakeDataSet(c['data'][:1]), zero=c['zero'], a=c['a'], b=c['b'], match_pattern=pattern, matcher=grm.Matcher(), indices=c['indices'])
        meta.append((np.asarray(used, dtype=float), np.asarray(fctx.last_udf._kwargs['peaks'])))
    vals = ctx.coq_eval('fpeaks', 'Model.Lattice', exprs, shard=20)
    nbad = 0
    for mv, (used, pk) in zip(vals, meta):
        mi = np.array([[e[0][0] / e[0][1], e[1][0] / e[1][1]] for e in mv]).reshape(-1, 2)
        mp = np.array([[int(Fraction(e[2][0], e[2][1])), int(Fraction(e[3][0], e[3][1]))] for e in mv]).reshape(-1, 2)   # astype('int'): truncation
        ctx.count(1, key=('fpeaks', used.tolist()))
        if not (np.array_equal(mi, used) and np.array_equal(mp, pk)):
            nbad += 1
    ctx.obligation('K:C11 run_refine peaks/indices = Lattice.frame_peaks with margin search, truncated (%d lattices)' % len(vals), nbad == 0, '%d mismatches' % nbad)

    # (S) statement
    d = dispatch_failure()
    if d:
        ctx.violation('input', d, {'kind': 'input', 'call': 'run_refine dispatch', 'args': {}})
    # every (correlation, match) combination with and without a zero shift first (sparse: only without), then random ones
    combos = [(cr, mt, zk) for cr in ('fast', 'fullframe', 'sparse') for mt in ('fast', 'affine') for zk in (('none',) if cr == 'sparse' else ('none', 'perframe'))]
    # fractional per-frame shifts with a tight matcher: the start zero of the fast match must carry the un-rounded shift
    combos += [('fast', 'fast', 'fractional', 0.4), ('fullframe', 'fast', 'fractional', 0.4), ('fast', 'fast', 'const'), ('fullframe', 'fast', 'const'), ('fast', 'fast', 'const'), ('fast', 'affine', 'const')]
    for k in range(ctx.n(24, 300)):
        c = gen_refine(rng, combos[k] if k < len(combos) else None)
        fail = refine_failure(c)
        ctx.count(len(c['data']), key=('refine', c['zero'].tolist(), c['parts'], c['zk'], c['correlation'], c['match']))
        for nm in ('correlation', 'match', 'zk', 'layout', 'zs_form', 'upsample', 'mm_equals_peaks'):
            ctx.hist(nm, c[nm])
        if len(ctx.cov['samples']) < 4:
            ctx.sample({'frames': len(c['data']), 'shape': list(c['data'].shape[1:]), 'partitions': c['parts'], 'zero_shift': c['zk'], 'correlation': c['correlation'], 'match': c['match'],
                        'index_layout': c['layout'], 'tolerance': c['tolerance']})
        if fail:
            sig = fail
            if c['zk'] == 'const' and c['match'] == 'fast':
                sig = 'FastmatchMixin with a constant zero_shift array: IndexError / wrong start zero'
            args = {k2: (v.tolist() if isinstance(v, np.ndarray) else v) for k2, v in c.items()}
            ctx.violation('input', fail, {'kind': 'schedule', 'call': 'run_refine', 'args': args, 'failure': fail}, signature=sig)
            break
    for k in range(ctx.n(40, 600)):
        c = gen_integration(rng) if k % 3 else gen_integration_exact(rng)
        if k % 10 == 9:
            c = gen_integration_many(rng)
            ctx.hist('integration with more peaks than 512 kB of crop buffers', 1)
        fail = integration_failure(c)
        ctx.count(len(c['data']))
        if fail:
            ctx.violation('input', fail, {'kind': 'schedule', 'call': 'IntegrationUDF', 'args': {'pattern': c['desc'], 'data': c['data'].tolist(), 'dtype': str(c['data'].dtype),
                                                                                              'centers': c['centers'].tolist(), 'partitions': c['parts'], 'exact': bool(c.get('exact'))}, 'failure': fail})
            break
    ctx.assumptions.append('LiberTEM is not installed: the UDF classes run under harness/stubs/libertem (explicit-schedule runner with a fake Context/DataSet); this runner is the UDF semantics for this check')
    return ctx.finish(
        LEVEL,
        explanation='Theorems: integration = masked sum of the zero-padded window; refinement runs per frame on top of the correlation UDFs for any partitioning; the '
                    'refined peak list is exactly frame_peaks with margin search in index order. Tie: IntegrationUDF vs UDF.integrate under vm_compute, run_refine peaks/'
                    'indices vs Lattice.frame_peaks; oracle: stored (zero, a, b, selector, error) bit-identical (float32) to the matcher applied to each frame\'s correlation '
                    'result started from zero + that frame\'s shift, dispatch table and rejection of unknown names, sparse rejects a zero shift.',
        rule='1..6 frames rendered with cbed_frame + Poisson noise, random partitions, zero shift none/constant (array, tuple or list)/per-frame/fractional, correlation fast/fullframe/sparse x match '
             'fast/affine, tolerances 0.4/1/3, index layouts mgrid and (n,2); integration: 1..4 frames, per-frame integer centres incl. border/outside, 4 dtypes; exact-mask stream: bool/uint8/int16/float32 user templates on float64/int32/uint32/int64 frames with values up to 2**36, compared without tolerance.')
