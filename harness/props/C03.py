"""C03 - Outputs equal their documented definitions on a direct correlation."""
import json

import numpy as np

import core
import corrlib as cl

LEVEL = 'proof'


case_replay = cl.case_replay
check_oracle = cl.check_oracle


def replay(body):
    a = body['args']
    if 'batch' in a:
        from libertem_blobfinder.common import correlation as cc
        b = a['batch']
        pattern = cl.pattern_from_desc(b['desc_built'])
        frame = (np.array(b['ints'], dtype=np.int64) + b['baseline']).astype(b['dtype'])
        fn = cc.process_frames_fast if b['method'] == 'fast' else cc.process_frames_full
        try:
            fn(pattern, frame[np.newaxis], np.asarray(b['peaks']))
            pattern.radius = b['desc_now']['radius']
            if b['desc_now'].get('radius_outer') is not None:
                pattern.radius_outer = b['desc_now']['radius_outer']
            o = fn(pattern, frame[np.newaxis], np.asarray(b['peaks']))
            probs = check_oracle(cl.pattern_from_desc(b['desc_now']), frame.astype(np.float64), [tuple(q) for q in b['peaks']], b['method'], tuple(x[0] for x in o))
        except Exception as e:  # noqa
            probs = ['raised %s: %s' % (type(e).__name__, e)]
        print(json.dumps({'failure_now': probs}, indent=1, default=str))
        if probs:
            print('VIOLATION property=C03 replay=(given)')
            return 1
        return 0
    if 'variant' not in a:
        return cl.replay_case(body, 'C03')
    pattern = cl.pattern_from_desc(a['pattern'])
    frame = (np.array(a['frame_ints'], dtype=np.float64) / a['one']).astype(np.float32)
    run = cl.run_fast if a['method'] == 'fast' else cl.run_full
    try:
        if 'variant' in a:
            v = a['variant']
            probs = run_variant(pattern, frame, a['peaks'], a['method'], v['crop_function'], v['upsample'], v['bc'], v['prefill'], v.get('cdt', 'int32'))
        else:
            outs = run(pattern, frame, a['peaks'])
            probs = check_oracle(pattern, frame, a['peaks'], a['method'], outs)
    except Exception as e:  # noqa
        probs = ['raised %s: %s' % (type(e).__name__, e)]
    print(json.dumps({'replayed': {k: a[k] for k in ('pattern', 'peaks', 'method')}, 'failure_now': probs}, indent=1, default=str))
    if probs:
        print('VIOLATION property=C03 replay=(given)')
        return 1
    return 0


def run_variant(pattern, frame, peaks, method, cf=None, ups=False, bc=None, prefill=False, cdt='int32'):
    """one call of the stand-alone kernel with the given crop function ('numba' / 'slicing' / None = default), upsampling setting, number of
    crop buffers, and (prefill) crop buffers / frame buffer that have been used for another frame before; returns the problems"""
    from libertem_blobfinder.base import correlation as blc
    fn = {None: None, 'numba': blc.crop_disks_from_frame, 'slicing': blc.crop_disks_from_frame_slicing}[cf]
    c = pattern.get_crop_size()
    kw = {}
    n = len(peaks)
    # the centres output in the caller's integer dtype (the docstrings use uint16): a centre that does not fit wraps there -- the caller's
    # choice --, but the refined position, height and elevation written next to it are floats and must be the documented ones
    outs = (np.full((n, 2), 0, dtype=cdt), np.full((n, 2), np.nan, dtype=np.float32), np.full((n,), np.nan, dtype=np.float32), np.full((n,), np.nan, dtype=np.float32))
    if method == 'fast':
        bufs = np.zeros((bc or len(peaks), 2 * c, 2 * c), dtype=np.float32)
        if prefill:
            other = ((np.arange(frame.size, dtype=np.float32).reshape(frame.shape) * 5.0) % 11.0 + 3.0).astype(np.float32)
            cl.run_fast(pattern, other, peaks, crop_function=fn, crop_bufs=bufs)
        cl.run_fast(pattern, frame, peaks, crop_function=fn, upsample=ups, crop_bufs=bufs, outs=outs)
    else:
        fb = np.zeros(frame.shape, dtype=np.float32)
        if prefill:
            fb[:] = 4.25
        cl.run_full(pattern, frame, peaks, bc=bc, crop_function=fn, upsample=ups, frame_buf=fb, outs=outs)
    if cdt not in ('int32', 'int64'):
        # undo the wrap of the centres with the help of the window they must lie in ([peak - c, peak + c - 1]): unique modulo 2**bits > 2c
        bits = np.dtype(cdt).itemsize * 8
        pk = np.asarray(peaks, dtype=np.int64)
        cen = outs[0].astype(np.int64)
        cen = pk - c + ((cen - (pk - c)) % (2 ** bits))
        outs = (cen,) + outs[1:]
    return check_oracle(pattern, frame, peaks, method, outs, upsampled=bool(ups))


def gen_cases(ctx, n, smax, cmax):
    rng = ctx.rng
    cases = []
    for k in range(n):
        pattern, desc = cl.rand_pattern(rng, cmax=cmax)
        c = pattern.get_crop_size()
        fy, fx = int(rng.integers(max(3, c), smax + 1)), int(rng.integers(max(3, c), smax + 1))
        one = int(rng.choice([1, 1, 4]))
        ints, kind = cl.rand_frame(rng, fy, fx, one=one)
        peaks = cl.rand_peaks(rng, fy, fx, c, int(rng.integers(1, 4)))
        method = 'fast' if k % 2 == 0 else 'full'
        cases.append((pattern, desc, ints, one, kind, peaks, method))
    return cases


def run(ctx):
    ctx.check_theorems()
    ctx.check_generated(['eval', 'crop', 'k', 'kelev', 'klog', 'kcrop', 'ksrceval', 'dcommon', 'kcalls', 'kups'])
    rng = ctx.rng
    # ---------------- (K): model vs implementation on the same inputs ----------------
    cases = gen_cases(ctx, ctx.n(36, 300), 12, 4)
    items = []
    for (pattern, desc, ints, one, kind, peaks, method) in cases:
        frame = (ints.astype(np.float64) / one).astype(np.float32)
        run_impl = cl.run_fast if method == 'fast' else cl.run_full
        bc = int(rng.integers(1, len(peaks) + 2))
        try:
            outs = run_impl(pattern, frame, peaks, bc=bc)
        except Exception as e:  # noqa
            ctx.violation('input', 'process_frame_%s raised %s: %s' % (method, type(e).__name__, e),
                          case_replay(desc, ints, one, peaks, method, ['raised %s' % type(e).__name__]))
            continue
        items.append(dict(pattern=pattern, desc=desc, ints=ints, one=one, peaks=peaks, method=method, outs=outs, note='bc=%d' % bc))
        ctx.hist('pattern', desc['kind'])
        ctx.hist('frame_kind', kind)
        ctx.hist('parity', '%d%d' % (ints.shape[0] % 2, ints.shape[1] % 2))
        ctx.hist('method', method)
    cl.model_check(ctx, items, 'C03', 'process_frame output differs from its definition')

    # ---------------- (S): the statement, directly, on larger / real-valued inputs ----------------
    nS = ctx.n(60, 600)
    for k in range(nS):
        pattern, desc = cl.rand_pattern(rng, cmax=6)
        c = pattern.get_crop_size()
        fy, fx = int(rng.integers(max(4, c), 25)), int(rng.integers(max(4, c), 25))
        ints, kind = cl.rand_frame(rng, fy, fx, one=1)
        frame = ints.astype(np.float32)
        if k % 3 == 0:
            frame = (frame + rng.normal(0, 1.5, size=frame.shape)).astype(np.float32)   # real-valued noise
        peaks = cl.rand_peaks(rng, fy, fx, c, int(rng.integers(1, 6)))
        method = 'fast' if k % 2 == 0 else 'full'
        run_impl = cl.run_fast if method == 'fast' else cl.run_full
        try:
            outs = run_impl(pattern, frame, peaks, bc=int(rng.integers(1, len(peaks) + 2)))
            probs = check_oracle(pattern, frame, peaks, method, outs)
        except Exception as e:  # noqa
            probs = ['raised %s: %s' % (type(e).__name__, e)]
        ctx.count(len(peaks))
        if probs:
            fi = np.rint(frame.astype(np.float64) * 1024).astype(np.int64)
            ctx.violation('input', 'process_frame_%s output differs from its definition: %s' % (method, probs[0]),
                          case_replay(desc, fi, 1024, peaks, method, probs))
            break
    # (S2) batch entry points: wide dtypes carrying a large baseline, and pattern OBJECTS whose public parameters are changed
    # between two uses (the classes read radius / radius_outer at query time) -- compared with the definitions for a fresh pattern
    from libertem_blobfinder.common import correlation as cc
    for k in range(ctx.n(16, 120)):
        kind = ['Circular', 'RadialGradient', 'BackgroundSubtraction', 'RadialGradientBackgroundSubtraction'][k % 4]
        r1, r2 = float(rng.choice([2.0, 2.5, 3.0])), float(rng.choice([1.5, 2.0, 3.5]))
        if kind == 'RadialGradientBackgroundSubtraction' and r2 > r1:
            r1, r2 = r2, r1          # its default radial map is sized at construction: a later, larger radius would not fit into it
        search = 5.0
        mk = lambda r: {'kind': kind, 'radius': r, 'search': search, 'radius_outer': (r + 1.0 if 'Background' in kind else None)}
        pattern = cl.pattern_from_desc(mk(r1))
        c = pattern.get_crop_size()
        fy, fx = int(rng.integers(12, 26)), int(rng.integers(12, 26))
        ints, fk = cl.rand_frame(rng, fy, fx, one=1)
        base, dt = [(0, 'float32'), (2 ** 30, 'float64'), (-10 ** 9, 'float64'), (2 ** 27, 'int32'), (2 ** 40, 'int64'), (2 ** 25, 'float32'), (-5 * 10 ** 7, 'float32')][int(rng.integers(0, 7))]
        if dt == 'float32' and base:
            ints = ints.astype(np.int64) * 4          # float32 resolves steps of 4 at this magnitude: the values below are exact
        frame = (ints.astype(np.int64) + base).astype(dt)
        peaks = cl.rand_peaks(rng, fy, fx, c, int(rng.integers(1, 4)), where='inside')
        method = 'fast' if k % 2 == 0 else 'full'
        fn = cc.process_frames_fast if method == 'fast' else cc.process_frames_full
        desc_now = mk(r1)
        try:
            fn(pattern, frame[np.newaxis], np.asarray(peaks))                        # first use of the object
            if k % 3 != 0:
                pattern.radius = r2
                if 'Background' in kind:
                    pattern.radius_outer = r2 + 1.0
                desc_now = mk(r2)
            o = fn(pattern, frame[np.newaxis], np.asarray(peaks))
            outs = tuple(x[0] for x in o)
            probs = check_oracle(cl.pattern_from_desc(desc_now), frame.astype(np.float64), peaks, method, outs)
        except Exception as e:  # noqa
            probs = ['raised %s: %s' % (type(e).__name__, e)]
        ctx.count(len(peaks), key=('batch', kind, r1, desc_now['radius'], dt, base, method, fy, fx))
        ctx.hist('batch dtype/baseline', '%s/%s' % (dt, base))
        if probs:
            fail = 'process_frames_%s (%s frame with baseline %s, %s radius %s%s) differs from its definition: %s' % (
                method, dt, base, kind, desc_now['radius'], '' if desc_now['radius'] == r1 else ' set on an object built with radius %s' % r1, probs[0])
            ctx.violation('input', fail, {'kind': 'input', 'call': 'process_frames_%s' % method, 'args': {'batch': {'desc_built': mk(r1), 'desc_now': desc_now, 'ints': ints.tolist(),
                          'baseline': base, 'dtype': dt, 'peaks': [list(map(int, q)) for q in peaks], 'method': method}}, 'failure': fail})
            break
    # (S3) both crop functions, upsampling on (the definitions of centre, height and elevation do not change), one crop buffer for several
    # peaks, buffers used before; tall, wide and square frames with most peaks on the border
    for k in range(ctx.n(60, 500)):
        pattern, desc = cl.rand_pattern(rng, cmax=5)
        c = pattern.get_crop_size()
        a, b = int(rng.integers(max(4, c), 20)), int(rng.integers(1, 2 * c + 6))
        fy, fx = [(a + b, a), (a, a + b), (a, a)][k % 3]
        ints, kind = cl.rand_frame(rng, fy, fx, one=1)
        frame = ints.astype(np.float32)
        peaks = cl.rand_peaks(rng, fy, fx, c, int(rng.integers(1, 4)), where='border') + cl.rand_peaks(rng, fy, fx, c, int(rng.integers(1, 3)))
        peaks = [peaks[i] for i in rng.permutation(len(peaks))]
        method = 'fast' if k % 2 == 0 else 'full'
        cf = [None, 'numba', 'slicing', 'slicing'][int(rng.integers(0, 4))]
        ups = [False, True, 4, False][(k // 2) % 4]
        bc = int(rng.choice([1, 1, 2, len(peaks)]))
        prefill = bool(rng.integers(0, 2))
        cdt = ['int32', 'int32', 'uint16', 'uint32', 'int16', 'int64', 'uint8'][int(rng.integers(0, 7))]
        ctx.hist('variant: centre buffer dtype', cdt)
        try:
            probs = run_variant(pattern, frame, peaks, method, cf, ups, bc, prefill, cdt)
        except Exception as e:  # noqa
            probs = ['raised %s: %s' % (type(e).__name__, e)]
        ctx.count(len(peaks), key=('variant', json.dumps(desc)[:160], fy, fx, tuple(peaks), method, cf, ups, bc, prefill, cdt))
        ctx.hist('variant: crop function / upsample', '%s/%s' % (cf, ups))
        if probs:
            ctx.violation('input', 'process_frame_%s (crop function %s, upsample=%s, %d crop buffer(s)%s, frame %dx%d) output differs from its definition: %s' % (
                method, cf, ups, bc, ', buffers used before' if prefill else '', fy, fx, probs[0]),
                case_replay(desc, ints, 1, peaks, method, probs, extra={'variant': {'crop_function': cf, 'upsample': ups, 'bc': bc, 'prefill': prefill, 'cdt': cdt}}))
            break
    ctx.extra['oracle_frames'] = nS
    ctx.run_modes()
    return ctx.finish(
        LEVEL,
        explanation='Theorems about the kernels (argmax = first maximum, clip radius, centre of mass, elevation = smallest slope, FFT product = '
                    'cross-correlation for centro-symmetric masks of any parity). Tie: Pipeline.report evaluates the whole model pipeline (crop, '
                    'x-min+1, table-driven log, exact cyclic convolution, argmax, centre of mass, elevation) under vm_compute on the same frames/'
                    'patterns/peaks the implementation processed; oracle = definitions evaluated directly in float64 without FFT.',
        rule='(K) random frames 3..12 (all parities, non-square), 6 frame kinds, 5 pattern classes with crop size 2..4, 1..3 peaks inside/border/outside, '
             'fast and full alternating, random buffer counts; distinct by (pattern, frame, peak, method). (S) frames up to 24, crop size up to 6, '
             'integer and real-valued data; (S3) both crop functions, upsampling on/off, 1..n crop buffers, used buffers, tall/wide frames with border peaks.')
