"""C13 - Cropping returns the zero-padded window around each peak (both back-ends)."""
import itertools
import json

import numpy as np

import core
from core import cz, clist2

from libertem_blobfinder.base import correlation as blc

LEVEL = 'proof'
SENT = 7777.0


def guarded_frame(vals, guard=6, sentinel=123):
    """frame as a view into a larger array filled with a sentinel: an out-of-bounds read of the
    numba kernel (which is not bounds checked) returns the sentinel instead of crashing"""
    fy, fx = vals.shape
    big = np.full((fy + 2 * guard, fx + 2 * guard), sentinel, dtype=vals.dtype)
    big[guard:guard + fy, guard:guard + fx] = vals
    return big[guard:guard + fy, guard:guard + fx]


GUARDV = 5555        # guard value around the buffer (positive: also valid for unsigned buffers)


def guarded_buf(n, h, w, fill, dtype, guard=3):
    big = np.full((n + 2, h + 2 * guard, w + 2 * guard), GUARDV, dtype=dtype)
    view = big[1:n + 1, guard:guard + h, guard:guard + w]
    view[...] = fill
    return big, view


def pad0_ref(frame, c, h, w, p):
    fy, fx = frame.shape
    out = np.zeros((h, w), dtype=(frame.dtype if np.dtype(frame.dtype).kind in 'iu' and np.dtype(frame.dtype).itemsize == 8 else np.float64))
    for y in range(h):
        for x in range(w):
            yy, xx = p[0] - c + y, p[1] - c + x
            if 0 <= yy < fy and 0 <= xx < fx:
                out[y, x] = frame[yy, xx]
    return out


def run_impl(fn, frame, c, h, w, peaks, fill, dtype=np.float32, spare=0, fmt=None):
    """returns (status, windows) ; status 'ok' | 'raise:<type>' | 'guard' (write outside the buffer).  spare: slots of the buffer stack beyond
    the number of peaks ("n doesn't have to match the number of peaks"); fmt: deliver the frame as that sparse array format"""
    big, view = guarded_buf(len(peaks) + spare, h, w, fill, dtype)
    # the peak list is a view into a longer array: a read beyond its end finds the peak (1, 1) instead of arbitrary memory
    pkbig = np.full((len(peaks) + 4, 2), 1, dtype=np.int64)
    pk = pkbig[:len(peaks)]
    pk[...] = np.asarray(peaks, dtype=np.int64).reshape(-1, 2)
    pk0, fr0 = pk.copy(), frame.copy()
    arg = frame
    if fmt is not None:
        import sparseconverter
        arg = sparseconverter.for_backend(np.ascontiguousarray(frame), fmt)
    try:
        fn(pk, arg, c, view)
    except Exception as e:  # noqa
        return 'raise:%s: %s' % (type(e).__name__, str(e)[:120]), None
    if not np.array_equal(pk, pk0):
        return 'the peak list passed in was modified in place (%s -> %s)' % (pk0[:2].tolist(), pk[:2].tolist()), None
    if not np.array_equal(frame, fr0, equal_nan=True):
        return 'the frame passed in was modified in place', None
    chk = big.copy()
    chk[1:len(peaks) + spare + 1, 3:3 + h, 3:3 + w] = GUARDV
    if not (chk == np.asarray(GUARDV).astype(chk.dtype)).all():
        return 'guard', view.copy()
    return 'ok', view.copy()


BACKENDS = [('per_pixel', blc.crop_disks_from_frame), ('slicing', blc.crop_disks_from_frame_slicing)]


SPARSE_FORMATS = ['sparse.COO', 'sparse.GCXS', 'scipy.sparse.csr_matrix', 'scipy.sparse.csc_matrix']


def oracle_case(frame_vals, c, h, w, peaks, fill, dtype=np.float32, spare=0, fmt=None):
    """the property statement on the implementation; returns None or a failure description.  fmt: the frame is handed to the slicing
    back-end as a sparse array of that format (the per-pixel back-end gets the dense frame)"""
    frame = guarded_frame(frame_vals)
    res = {}
    for name, fn in BACKENDS:
        st, win = run_impl(fn, frame, c, h, w, peaks, fill, dtype, spare, fmt if name == 'slicing' else None)
        if st != 'ok':
            return {'backend': name + (' (%s frame)' % fmt if fmt and name == 'slicing' else ''), 'problem': st, 'peak': [int(v) for v in peaks[0]]}
        res[name] = win
        for i, p in enumerate(peaks):
            exp = pad0_ref(frame_vals, c, h, w, p)
            if not np.array_equal(win[i] if exp.dtype.kind in 'iu' else win[i].astype(np.float64), exp, equal_nan=True):
                return {'backend': name, 'problem': 'window differs from zero-padded window',
                        'peak': [int(p[0]), int(p[1])], 'expected': exp.tolist(), 'got': win[i].tolist()}
    if not np.array_equal(res['per_pixel'], res['slicing'], equal_nan=True):
        n = len(peaks)
        if spare and np.array_equal(res['per_pixel'][:n], res['slicing'][:n], equal_nan=True):
            return {'backend': 'both', 'problem': 'back-ends disagree on the %d slot(s) of the buffer stack beyond the %d peak(s): per-pixel %s, slicing %s (pre-fill %s)'
                    % (spare, n, res['per_pixel'][n:].ravel()[:6].tolist(), res['slicing'][n:].ravel()[:6].tolist(), fill), 'peak': [int(v) for v in peaks[0]]}
        return {'backend': 'both', 'problem': 'back-ends disagree'}
    return None


def make_replay(frame_vals, c, h, w, peak, fill, dtype, fail, spare=0, fmt=None):
    return {'kind': 'input', 'call': 'crop_disks_from_frame / crop_disks_from_frame_slicing',
            'args': {'frame': np.asarray(frame_vals).tolist(), 'crop_size': int(c), 'buf_shape': [int(h), int(w)],
                     'peak': [int(peak[0]), int(peak[1])], 'prefill': float(fill), 'dtype': str(np.dtype(dtype)), 'spare_slots': int(spare), 'frame_format': fmt},
            'failure': fail}


def replay(body):
    a = body['args']
    fv = np.array(a['frame'], dtype=a['dtype'])
    fail = oracle_case(fv, a['crop_size'], a['buf_shape'][0], a['buf_shape'][1], [a['peak']], a['prefill'], np.dtype(a['dtype']), a.get('spare_slots', 0), a.get('frame_format'))
    print(json.dumps({'replayed': a, 'failure_now': fail}, indent=1, default=str))
    if fail:
        print('VIOLATION property=C13 replay=(given)')
        return 1
    return 0


def search(ctx, budget_shapes):
    """(S) exhaustive box of the property + random larger cases.  Stops at the first failure (after shrinking
    is not needed: the box is enumerated from the smallest shapes up)."""
    n = 0
    for fy, fx in budget_shapes:
      for nonfinite in (False, True):
        vals = (np.arange(fy * fx, dtype=np.float32).reshape(fy, fx) + 1)
        if nonfinite:
            # non-finite pixels on the frame border: zero padding must stay exactly zero next to them
            if (fy, fx) not in ((1, 1), (2, 3), (3, 2), (4, 4), (5, 5), (7, 7)):
                continue
            vals[0, fx // 2] = np.inf
            vals[fy - 1, 0] = np.nan
            vals[fy // 2, fx - 1] = -np.inf
        for c in (1, 2, 3, 4):
            h = w = 2 * c
            peaks = list(itertools.product(range(-2 * c - 1, fy + 2 * c + 2), range(-2 * c - 1, fx + 2 * c + 2)))
            for fill in (0.0, SENT):
                n += len(peaks) * 2
                fail = oracle_case(vals, c, h, w, peaks, fill)
                if fail:
                    # narrow down to one peak
                    for p in peaks:
                        f1 = oracle_case(vals, c, h, w, [p], fill)
                        if f1:
                            return n, make_replay(vals, c, h, w, p, fill, np.float32, f1)
                    return n, make_replay(vals, c, h, w, peaks[0], fill, np.float32, fail)
    return n, None


def run(ctx):
    rng = ctx.rng
    ctx.check_theorems()
    ctx.check_generated(['crop', 'kcrop', 'ksrccrop'])

    # ---------------- (S) the property's own exhaustive box on the implementation ----------------
    maxs = 7
    shapes = [(fy, fx) for fy in range(1, maxs + 1) for fx in range(1, maxs + 1)]
    if ctx.quick:
        shapes = [s for s in shapes if s[0] <= 4 or s[1] <= 3 or s in ((7, 7), (6, 7), (7, 5), (5, 5))]
    n_box, rep = search(ctx, shapes)
    ctx.count(n_box)
    ctx.extra['oracle_box_crops'] = n_box
    ctx.extra['oracle_box_shapes'] = len(shapes)
    if rep:
        ctx.violation('input', 'cropping differs from the zero-padded window: %s' % rep['failure'].get('problem'), rep)

    # ---------------- (S) 64-bit integer frames cropped into buffers of their own dtype: every value must arrive unchanged ----------------
    for k in range(ctx.n(12, 120)):
        dt = [np.int64, np.uint64][k % 2]
        fy, fx = int(rng.integers(1, 9)), int(rng.integers(1, 9))
        c = int(rng.integers(1, 4))
        info = np.iinfo(dt)
        vals = (rng.integers(0, 2 ** 20, size=(fy, fx)).astype(dt) + dt(info.max - 2 ** 21))      # not representable in float64
        if dt is np.int64 and k % 4 == 0:
            vals = -vals
        p = (int(rng.integers(-c, fy + c)), int(rng.integers(-c, fx + c)))
        fail = oracle_case(vals, c, 2 * c, 2 * c, [p], 0, dt)
        ctx.count(2, key=('int64', str(np.dtype(dt)), fy, fx, c, p))
        if fail:
            ctx.violation('input', 'cropping a %s frame into a %s buffer changes values (%s): %s' % (np.dtype(dt).name, np.dtype(dt).name, fail.get('backend'), fail.get('problem')),
                          make_replay(vals, c, 2 * c, 2 * c, p, 0, dt, fail))
            break
    # ---------------- (S) buffer stacks with more slots than peaks; sparse frames through the slicing back-end ----------------
    for k in range(ctx.n(120, 1200)):
        fy, fx = int(rng.integers(1, 10)), int(rng.integers(1, 10))
        c = int(rng.integers(1, 4))
        dt = [np.float32, np.float32, np.int32, np.float64][k % 4]
        vals = (rng.integers(0, 60, size=(fy, fx)) * (rng.random(size=(fy, fx)) < (0.3 if k % 3 == 0 else 1.0))).astype(dt)
        p = (int(rng.integers(-c - 1, fy + c + 2)), int(rng.integers(-c - 1, fx + c + 2)))
        spare = int(rng.integers(0, 3))
        fmt = SPARSE_FORMATS[(k // 2) % 4] if k % 2 == 0 else None
        fill = float(rng.choice([0, SENT, np.nan, np.inf, -np.inf]))        # also buffers that hold non-finite leftovers
        if k % 6 == 5:
            # windows astronomically far outside (64-bit peak coordinates): still all zeros, no wrap-around of the coordinate arithmetic
            far = int(rng.choice([2 ** 31, 2 ** 32, -2 ** 32, 3 * 2 ** 32, 2 ** 40, 2 ** 62, -2 ** 62])) + int(rng.integers(-c, c + 1))
            p = (far, p[1]) if rng.integers(0, 2) else (p[0], far)
        outdt = np.float64 if np.dtype(dt).itemsize == 8 else np.float32
        fail = oracle_case(vals, c, 2 * c, 2 * c, [p], fill, outdt, spare, fmt)
        ctx.count(2, key=('spare/sparse', fy, fx, c, p, spare, fmt, fill, str(np.dtype(dt))))
        ctx.hist('frame format for the slicing back-end', fmt or 'numpy')
        ctx.hist('spare buffer slots', spare)
        if fail:
            ctx.violation('input', 'cropping differs from the zero-padded window (%s): %s' % (fail.get('backend'), fail.get('problem')), make_replay(vals, c, 2 * c, 2 * c, p, fill, outdt, fail, spare, fmt))
            break
    # ---------------- (K) correspondence model <-> implementation ----------------
    ncase = ctx.n(300, 3000)
    cases = []
    dtypes = [np.float32, np.float64, np.int32, np.uint8, np.int16, np.uint16, np.int64]
    for k in range(ncase):
        if k % 3 == 0:
            fy, fx = int(rng.integers(1, 5)), int(rng.integers(1, 5))
        else:
            fy, fx = int(rng.integers(1, 12)), int(rng.integers(1, 12))
        c = int(rng.integers(1, 5))
        if k % 7 == 0:   # buffer shape different from (2c, 2c): the functions use the buffer's own shape
            h, w = int(rng.integers(1, 9)), int(rng.integers(1, 9))
        else:
            h = w = 2 * c
        kind = int(rng.integers(0, 4))
        if kind == 0:   # inside
            p = (int(rng.integers(0, fy)), int(rng.integers(0, fx)))
        elif kind == 1:  # near/over a border
            p = (int(rng.choice([-c, -c + 1, -1, 0, fy - 1, fy, fy + c - 1, fy + c])),
                 int(rng.choice([-c, -c + 1, -1, 0, fx - 1, fx, fx + c - 1, fx + c])))
        else:
            p = (int(rng.integers(-2 * c - 1, fy + 2 * c + 2)), int(rng.integers(-2 * c - 1, fx + 2 * c + 2)))
        dt = dtypes[int(rng.integers(0, len(dtypes)))]
        vals = rng.integers(1, 100, size=(fy, fx)).astype(dt)
        fill = float(rng.choice([0, 77, 5]))
        cases.append((vals, c, h, w, p, fill, dt))
        ctx.hist('frame_parity', '%d%d' % (fy % 2, fx % 2))
        ctx.hist('peak_kind', ['inside', 'border', 'anywhere', 'anywhere'][kind])
        ctx.hist('buffer', '2c' if (h, w) == (2 * c, 2 * c) else 'other')

    exprs = []
    for (vals, c, h, w, p, fill, dt) in cases:
        fy, fx = vals.shape
        f = '(of_list2 %s)' % clist2(vals.tolist())
        args = '%d %d %s %d %d %d %s %s' % (fy, fx, f, c, h, w, cz(p[0]), cz(p[1]))
        exprs.append('(map (map enc_o) (crop_px_win %s), map (map enc_w) (crop_slice_win true %s (fun _ _ => %s)))'
                     % (args, args, cz(int(fill))))
    vals_coq = ctx.coq_eval('k', 'Base.Util Model.Crop', exprs, shard=100)

    ndis = 0
    for case, mv in zip(cases, vals_coq):
        (vals, c, h, w, p, fill, dt) = case
        frame = guarded_frame(vals)
        outdt = np.float64 if np.dtype(dt).itemsize == 8 else np.float32
        nontrivial = any(0 <= p[0] - c + y < vals.shape[0] for y in range(h)) and any(0 <= p[1] - c + x < vals.shape[1] for x in range(w))
        ctx.count(1, key=(vals.shape, c, h, w, p, fill), nontrivial=True)
        ctx.hist('window', 'overlaps_frame' if nontrivial else 'entirely_outside')
        for (name, fn), m in zip(BACKENDS, mv):
            st, win = run_impl(fn, frame, c, h, w, [p], fill, outdt)
            model_err = any(e[0] != 0 for row in m for e in row)
            if st != 'ok':
                impl = st
                agree = model_err and st.startswith('raise')
            else:
                impl = win[0].tolist()
                agree = (not model_err) and all(float(m[y][x][1]) == float(win[0][y, x]) for y in range(h) for x in range(w))
            if not agree:
                ndis += 1
                fail = oracle_case(vals, c, h, w, [p], fill, outdt)
                if fail:
                    ctx.violation('input', 'cropping differs from the zero-padded window (%s): %s' % (name, fail.get('problem')),
                                  make_replay(vals, c, h, w, p, fill, outdt, fail))
                else:
                    ctx.obligation('K:C13/%s' % name, False, 'model and implementation differ on %s' % json.dumps(
                        {'frame': vals.tolist(), 'c': c, 'buf': [h, w], 'peak': list(p), 'prefill': fill, 'impl': impl, 'model': m}, default=str)[:1500])
        if len(ctx.cov['samples']) < 4:
            ctx.sample({'frame_shape': list(vals.shape), 'dtype': str(np.dtype(dt)), 'crop_size': c, 'buffer': [h, w], 'peak': list(p), 'prefill': fill,
                        'model_per_pixel_row0': [e[1] for e in mv[0][0]]})
    ctx.obligation('K:C13 correspondence crop_px_win/crop_slice_win vs both back-ends (%d cases)' % len(cases), ndis == 0,
                   '%d disagreements' % ndis)
    ctx.extra['traces_validated_against_impl'] = len(cases) * 2
    ctx.extra['disagreements'] = ndis
    ctx.extra['exhaustive'] = not ctx.quick
    ctx.run_modes()
    return ctx.finish(
        LEVEL,
        explanation='Theorems (all frame shapes, crop sizes, buffer shapes, peaks, buffer contents) about Model/Crop.v; '
                    'model tied to /repo by running crop_px_win / crop_slice_win under vm_compute and both real back-ends on the same '
                    'random frames (guard-padded so that unchecked numba reads/writes outside are visible), plus the property\'s own '
                    'exhaustive box on the implementation against an independent zero-padding reference.',
        rule='(K) random frames 1..11 x 1..11 of 7 dtypes, c 1..4, buffer (2c,2c) or arbitrary, peaks inside / on borders / anywhere in '
             '[-2c-1, shape+2c+1], pre-filled buffers; distinct by (shape, c, buffer, peak, prefill). (S) exhaustive shapes<=7x7 '
             '(quick: a sub-box), c 1..4, every peak of the property\'s range, pre-fill 0 and 7777, both back-ends; buffer stacks with 0..2 slots more than peaks; frames handed to the slicing back-end as sparse.COO / sparse.GCXS / scipy.sparse csr / csc arrays.')
