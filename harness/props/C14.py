"""C14 - Equivariant to translation and axis swap, invariant to intensity offset."""
import json

import numpy as np

import core
import corrlib as cl
from libertem_blobfinder.common import patterns as pat

LEVEL = 'proof'


def transposed_pattern(desc):
    if desc['kind'] == 'UserTemplate':
        d = dict(desc)
        d['template'] = np.array(desc['template']).T.tolist()
        return cl.pattern_from_desc(d), d
    return cl.pattern_from_desc(desc), desc


def close(a, b, rtol, scale, what):
    a = np.asarray(a, dtype=np.float64)
    b = np.asarray(b, dtype=np.float64)
    if not np.allclose(a, b, rtol=rtol, atol=rtol * max(scale, 1.0), equal_nan=True):
        return '%s: %s vs %s' % (what, a.tolist(), b.tolist())
    return None


def stmt_failure(desc, frame, peaks, v, offset, method, upsample=False, crop='default'):
    """frame: float32 (integer valued), windows of all peaks and translated peaks inside the frame; crop: 'default' or 'slicing' crop function"""
    pattern = cl.pattern_from_desc(desc)
    run0 = cl.run_fast if method == 'fast' else cl.run_full
    run = run0
    if crop == 'slicing':
        from libertem_blobfinder.base.correlation import crop_disks_from_frame_slicing

        def run(*a, **k):
            return run0(*a, crop_function=crop_disks_from_frame_slicing, **k)
    base = run(pattern, frame, peaks)
    sc = float(np.abs(base[2]).max()) + 1.0
    rt = 1e-5 if method == 'fast' else 2e-4
    # translation (cyclic roll: exact translation of the content for windows that stay inside)
    fr2 = np.roll(frame, v, axis=(0, 1))
    pk2 = [(p[0] + v[0], p[1] + v[1]) for p in peaks]
    if method == 'fast':
        # only windows that do not cross the wrap-around seam are comparable
        pass
    t = run(pattern, fr2, pk2)
    if not np.array_equal(t[0], base[0] + np.array(v)):
        # centres may differ only between (near-)equal maxima: FFT round-off depends on the absolute position
        maps, scale = cl.oracle_maps(pattern, frame, peaks, method)
        c = pattern.get_crop_size()
        for i in range(len(peaks)):
            a = base[0][i] - np.array(peaks[i]) + c
            b = t[0][i] - np.array(pk2[i]) + c
            if not (0 <= b[0] < 2 * c and 0 <= b[1] < 2 * c) or abs(maps[i][a[0], a[1]] - maps[i][b[0], b[1]]) > 3e-4 * scale + 2e-3:
                return 'translation by %s: centres %s, expected %s' % (v, t[0].tolist(), (base[0] + np.array(v)).tolist())
        keep = [i for i in range(len(peaks)) if np.array_equal(t[0][i], base[0][i] + np.array(v))]
    else:
        keep = list(range(len(peaks)))
    for f in (close(t[1][keep], (base[1] + np.array(v, dtype=np.float64))[keep], rt, 1.0, 'translation by %s: refined' % (v,)),
              close(t[2], base[2], rt, sc, 'translation by %s: heights' % (v,)),
              close(t[3][keep], base[3][keep], rt, sc, 'translation by %s: elevations' % (v,))):
        if f:
            return f
    # translation with DFT upsampling on (refined positions only change)
    if upsample:
        b2 = run(pattern, frame, peaks, upsample=upsample)
        t2 = run(pattern, fr2, pk2, upsample=upsample)
        f = close(t2[1][keep], (b2[1] + np.array(v, dtype=np.float64))[keep], 1e-5, 100.0, 'translation by %s with upsample=%s: refined' % (v, upsample))
        if f:
            return f
    # transpose
    pT, dT = transposed_pattern(desc)
    tr = run(pT, np.ascontiguousarray(frame.T), [(p[1], p[0]) for p in peaks])
    # a tie between equal maxima is broken by row-major order, which is not swap symmetric: compare only when centres swap
    if np.array_equal(tr[0][:, ::-1], base[0]):
        for f in (close(tr[1][:, ::-1], base[1], 2e-4, 1.0, 'transpose: refined'),
                  close(tr[2], base[2], 2e-4, sc, 'transpose: heights'),
                  close(tr[3], base[3], 2e-4, sc, 'transpose: elevations')):
            if f:
                return f
    else:
        # accept only if heights agree (a genuine tie); otherwise the centres must swap
        if close(tr[2], base[2], 2e-4, sc, 'h') is not None or True:
            ties = [i for i in range(len(peaks)) if not np.array_equal(tr[0][i][::-1], base[0][i])]
            maps, scale = cl.oracle_maps(pattern, frame, [peaks[i] for i in ties], method)
            c = pattern.get_crop_size()
            for cm, i in zip(maps, ties):
                a = base[0][i] - np.array(peaks[i]) + c
                b = tr[0][i][::-1] - np.array(peaks[i]) + c
                if not (0 <= b[0] < 2 * c and 0 <= b[1] < 2 * c) or abs(cm[a[0], a[1]] - cm[b[0], b[1]]) > 3e-4 * scale + 2e-3:
                    return 'transpose: centre of peak %s is %s, transposed run gives %s (not a tie)' % (tuple(peaks[i]), base[0][i].tolist(), tr[0][i][::-1].tolist())
    # offset
    o = run(pattern, frame + np.float32(offset), peaks)
    if not np.array_equal(o[0], base[0]):
        maps, scale = cl.oracle_maps(pattern, frame, peaks, method)
        c = pattern.get_crop_size()
        for i in range(len(peaks)):
            a = base[0][i] - np.array(peaks[i]) + c
            b = o[0][i] - np.array(peaks[i]) + c
            if abs(maps[i][a[0], a[1]] - maps[i][b[0], b[1]]) > 3e-4 * scale + 2e-3:
                return 'offset %s: centres %s vs %s' % (offset, o[0].tolist(), base[0].tolist())
    else:
        for f in (close(o[1], base[1], 1e-3, 1.0, 'offset %s: refined' % offset),
                  close(o[2], base[2], 1e-3, sc, 'offset %s: heights' % offset),
                  close(o[3], base[3], 1e-3, sc, 'offset %s: elevations' % offset)):
            if f:
                return f
    # the batch entry points accept float peak lists (positions from a lattice): translating such a list by integers must act the same way
    from libertem_blobfinder.common import correlation as cc
    fn = cc.process_frames_fast if method == 'fast' else cc.process_frames_full
    fracs = np.array([[0.5, 0.5], [0.25, 0.5], [0.5, 0.75], [0.0, 0.5]])[:len(peaks)]
    pf = np.array(peaks, dtype=np.float64)[:len(fracs)] + fracs
    pf = pf[(np.floor(pf + np.array(v)).min(axis=1) >= 0)]
    if len(pf):
        hb = fn(pattern, frame[np.newaxis], pf)
        ht = fn(pattern, fr2[np.newaxis], pf + np.array(v, dtype=np.float64))
        if np.array_equal(ht[0][0], hb[0][0] + np.array(v)):
            for f in (close(ht[2][0], hb[2][0], rt, sc, 'translation by %s of a peak list with half-pixel positions %s: heights' % (v, pf.tolist())),
                      close(ht[1][0], hb[1][0] + np.array(v, dtype=np.float64), rt, 1.0, 'translation by %s of a peak list with half-pixel positions %s: refined' % (v, pf.tolist()))):
                if f:
                    return f
        elif close(ht[2][0], hb[2][0], 10 * rt, sc, 'h') is not None:
            return 'translation by %s of a peak list with half-pixel positions %s: centres %s, expected %s, heights %s vs %s' % (
                v, pf.tolist(), ht[0][0].tolist(), (hb[0][0] + np.array(v)).tolist(), ht[2][0].tolist(), hb[2][0].tolist())
    # offset on wide-dtype frames that sit on a large pedestal (beyond float32's integer range), through the batch entry points
    for dtw, ped in ((np.int32, 20000001), (np.float64, 2.0 ** 30), (np.int64, 2 ** 40)):
        fw = (np.rint(frame).astype(np.int64) + int(ped)).astype(dtw)
        bw = fn(pattern, fw[np.newaxis], np.asarray(peaks))
        ow = fn(pattern, (fw + dtw(int(offset)))[np.newaxis], np.asarray(peaks))
        if not np.array_equal(ow[0], bw[0]):
            if close(ow[2][0], bw[2][0], 1e-3, sc, 'h') is not None:
                return 'offset %s on a %s frame with pedestal %s: centres %s vs %s, heights %s vs %s' % (
                    offset, np.dtype(dtw).name, ped, ow[0][0].tolist(), bw[0][0].tolist(), ow[2][0].tolist(), bw[2][0].tolist())
        else:
            for f in (close(ow[2][0], bw[2][0], 1e-3, sc, 'offset %s on a %s frame with pedestal %s: heights' % (offset, np.dtype(dtw).name, ped)),
                      close(ow[1][0], bw[1][0], 1e-3, 1.0, 'offset %s on a %s frame with pedestal %s: refined' % (offset, np.dtype(dtw).name, ped))):
                if f:
                    return f
    # offset on unsigned-integer frames whose darkest pixel is exactly 0 (raw counting-detector data): min - 1 must not wrap
    fi = frame - frame.min()
    if float(fi.max()) + offset < 2 ** 32 - 1 and np.array_equal(fi, np.rint(fi)):
        dt = np.uint16 if float(fi.max()) + offset < 65535 else np.uint32
        bi = run(pattern, fi.astype(dt), peaks)
        oi = run(pattern, (fi + np.float32(offset)).astype(dt), peaks)
        if np.array_equal(oi[0], bi[0]):
            sci = float(np.abs(np.nan_to_num(bi[2])).max()) + 1.0
            for f in (close(oi[1], bi[1], 1e-3, 1.0, 'offset %s on a %s frame with minimum 0: refined' % (offset, np.dtype(dt).name)),
                      close(oi[2], bi[2], 1e-3, sci, 'offset %s on a %s frame with minimum 0: heights' % (offset, np.dtype(dt).name)),
                      close(oi[3], bi[3], 1e-3, sci, 'offset %s on a %s frame with minimum 0: elevations' % (offset, np.dtype(dt).name))):
                if f:
                    return f
        elif not np.isfinite(bi[2]).all() or not np.isfinite(oi[2]).all():
            return 'offset %s on a %s frame with minimum 0: non-finite heights %s vs %s' % (offset, np.dtype(dt).name, bi[2].tolist(), oi[2].tolist())
    return None


def mk_replay(desc, frame, peaks, v, offset, method, fail, upsample=False, crop='default'):
    return {'kind': 'input', 'call': 'process_frame_%s (metamorphic)' % method,
            'args': {'pattern': desc, 'frame': np.asarray(frame, dtype=np.float64).tolist(), 'peaks': [list(map(int, p)) for p in peaks],
                     'translation': list(map(int, v)), 'offset': float(offset), 'method': method, 'upsample': upsample, 'crop': crop}, 'failure': fail}


def replay(body):
    if 'frame_ints' in body.get('args', {}):
        return cl.replay_case(body, 'C14')          # a failing input recorded by the model correspondence (cl.model_check)
    a = body['args']
    fail = stmt_failure(a['pattern'], np.array(a['frame'], dtype=np.float32), [tuple(p) for p in a['peaks']], tuple(a['translation']), a['offset'], a['method'], a.get('upsample', False), a.get('crop', 'default'))
    print(json.dumps({'failure_now': fail}, indent=1))
    if fail:
        print('VIOLATION property=C14 replay=(given)')
        return 1
    return 0


def run(ctx):
    rng = ctx.rng
    ctx.check_theorems()
    ctx.check_generated(['crop', 'eval', 'k', 'kelev', 'klog', 'kcalls'])
    # (K) model = implementation on translated pairs (small frames)
    items = []
    for k in range(ctx.n(8, 50)):
        pattern, desc = cl.rand_pattern(rng, cmax=3)
        c = pattern.get_crop_size()
        fy, fx = int(rng.integers(2 * c + 3, 13)), int(rng.integers(2 * c + 3, 13))
        ints, kind = cl.rand_frame(rng, fy, fx, str(rng.choice(['noise', 'blobs', 'structured'])))
        p = (int(rng.integers(c, fy - c - 1)), int(rng.integers(c, fx - c - 1)))
        v = (1, 1) if (p[0] + 1 + c <= fy and p[1] + 1 + c <= fx) else (0, 0)
        method = 'fast' if k % 2 == 0 else 'full'
        run_impl = cl.run_fast if method == 'fast' else cl.run_full
        for (ii, pp, note) in ((ints, p, 'base'), (np.roll(ints, v, axis=(0, 1)), (p[0] + v[0], p[1] + v[1]), 'rolled by %s' % (v,)), (ints + 1000, p, 'offset +1000')):
            outs = run_impl(pattern, ii.astype(np.float32), [pp])
            items.append(dict(pattern=pattern, desc=desc, ints=ii, one=1, peaks=[pp], method=method, outs=outs, note=note))
    cl.model_check(ctx, items, 'C14', 'output differs from its definition')

    # (S) metamorphic relations on the implementation
    nS = ctx.n(80, 800)
    for k in range(nS):
        pattern, desc = cl.rand_pattern(rng, cmax=5)
        if desc['kind'] == 'UserTemplate' and rng.integers(0, 2):
            # the optional search size left out: its default must not prefer one axis of a non-square template
            desc = dict(desc, search=None)
            pattern = cl.pattern_from_desc(desc)
            ctx.hist('user template with default search', 'x'.join(str(v) for v in np.array(desc['template']).shape))
        c = pattern.get_crop_size()
        fy, fx = int(rng.integers(2 * c + 6, 64)), int(rng.integers(2 * c + 6, 64))
        ints, kind = cl.rand_frame(rng, fy, fx, str(rng.choice(['noise', 'blobs', 'structured'])))
        frame = ints.astype(np.float32)
        n = int(rng.integers(1, 5))
        v = (int(rng.integers(-3, 4)), int(rng.integers(-3, 4)))
        peaks = []
        for _ in range(n):
            lo_y, hi_y = c + max(0, -v[0]), fy - c - max(0, v[0])
            lo_x, hi_x = c + max(0, -v[1]), fx - c - max(0, v[1])
            py, px = int(rng.integers(lo_y, hi_y + 1)), int(rng.integers(lo_x, hi_x + 1))
            # windows flush with a frame border before or after the translation (the window [p - c, p + c - 1] ends on the last row / column)
            if rng.random() < 0.3:
                py = int(rng.choice([lo_y, hi_y]))
            if rng.random() < 0.3:
                px = int(rng.choice([lo_x, hi_x]))
            peaks.append((py, px))
        method = 'fast' if k % 2 == 0 else 'full'
        offset = float(rng.choice([1, 10, 100, 1000, 10000]))
        ctx.hist('method', method)
        ctx.hist('shape', 'square' if fy == fx else ('tall' if fy > fx else 'wide'))
        ctx.hist('pattern', desc['kind'])
        upsample = int(rng.choice([4, 10, 20])) if k % 3 == 0 else False
        ctx.hist('upsample', upsample)
        crop = 'slicing' if k % 4 >= 2 else 'default'
        ctx.hist('crop function', crop)
        fail = stmt_failure(desc, frame, peaks, v, offset, method, upsample, crop)
        ctx.count(4 * n, key=(desc, fy, fx, peaks, v, offset, method, upsample, crop))
        if len(ctx.cov['samples']) < 7 and k % 15 == 0:
            ctx.sample({'metamorphic_case': {'pattern': desc['kind'], 'shape': [fy, fx], 'peaks': peaks, 'translation': list(v), 'offset': offset, 'method': method}})
        if fail:
            ctx.violation('input', fail, mk_replay(desc, frame, peaks, v, offset, method, fail, upsample, crop))
            break
    ctx.extra['metamorphic_cases'] = nS
    return ctx.finish(
        LEVEL,
        explanation='Theorems: crop-based pipeline model is exactly translation equivariant for windows inside both frames; cyclic shift and transposition '
                    'of the data shift/transposes the correlation map; x-min+1 is offset invariant. Tie: pipeline model vs implementation on base/rolled/'
                    'offset inputs; oracle: translation (cyclic roll), transpose (+ swapped peaks, transposed user templates) and offsets 1..10^4 on the implementation.',
        rule='(S) random integer-valued frames up to 63x63 (square, tall, wide), 5 pattern classes, 1..4 peaks whose windows stay inside under the translation, '
             'translations in [-3,3]^2, both methods, both crop functions, windows flush with the frame border before or after the translation; transposition ties (equal maxima) are recognised with the direct correlation map and not counted.')
