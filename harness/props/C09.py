"""C09 - No state leaks between calls through reused buffers and objects."""
import json

import numpy as np

import core
import corrlib as cl
from libertem_blobfinder.base import correlation as blc
from libertem_blobfinder.common import gridmatching as grm

LEVEL = 'proof'
CROPS = {'per_pixel': blc.crop_disks_from_frame, 'slicing': blc.crop_disks_from_frame_slicing}


def gen_history(rng, ncalls, cmax=4, smax=24):
    pattern, desc = cl.rand_pattern(rng, cmax=cmax)
    c = pattern.get_crop_size()
    fy, fx = int(rng.integers(max(4, c + 1), smax)), int(rng.integers(max(4, c + 1), smax))
    calls = []
    nmax = int(rng.integers(2, 7))
    for _ in range(ncalls):
        ints, kind = cl.rand_frame(rng, fy, fx)
        n = int(rng.integers(1, nmax + 1))
        peaks = cl.rand_peaks(rng, fy, fx, c, n, where=str(rng.choice(['border', 'outside', 'inside'])))
        calls.append({'ints': ints, 'kind': kind, 'peaks': peaks})
    return pattern, desc, (fy, fx), nmax, calls


def run_history(pattern, shape, nmax, calls, method, crop, bc, prefill, shared):
    """returns the outputs of every call; shared=True: one set of buffers/outputs/pattern for the whole history"""
    c = pattern.get_crop_size()
    res = []
    wdt = np.float64 if 'f64' in method else np.float32        # working buffers as allocated for float64 / 32-bit integer data
    ups = 4 if 'ups' in method else False
    if shared:
        crop_bufs = np.full((bc, 2 * c, 2 * c), prefill, dtype=wdt)
        frame_buf = np.full(shape, prefill, dtype=wdt)
        outs_all = (np.full((nmax, 2), -99, dtype=np.int32), np.full((nmax, 2), prefill, dtype=np.float32),
                    np.full((nmax,), prefill, dtype=np.float32), np.full((nmax,), prefill, dtype=np.float32))
        if 'strided' in method:
            # the output arrays are columns of one result table per kind (non-contiguous views), as a caller collecting results would pass
            itab, ftab = np.full((nmax, 4), -99, dtype=np.int32), np.full((nmax, 6), prefill, dtype=np.float32)
            outs_all = (itab[:, 1:3], ftab[:, 0:2], ftab[:, 3], ftab[:, 5])
    for call in calls:
        frame = call['ints'].astype(wdt)
        n = len(call['peaks'])
        if shared:
            outs = tuple(o[:n] for o in outs_all)
            if method.startswith('fast'):
                cl.run_fast(pattern, frame, call['peaks'], crop_function=CROPS[crop], crop_bufs=crop_bufs, outs=outs, upsample=ups)
            else:
                cl.run_full(pattern, frame, call['peaks'], bc=bc, crop_function=CROPS[crop], frame_buf=frame_buf, outs=outs, upsample=ups)
            res.append(tuple(o.copy() for o in outs))
        else:
            p2 = cl.pattern_from_desc(pattern._verif_desc)
            if method.startswith('fast'):
                outs = cl.run_fast(p2, frame, call['peaks'], bc=bc, crop_function=CROPS[crop], dtype=wdt, upsample=ups)
            else:
                outs = cl.run_full(p2, frame, call['peaks'], bc=bc, crop_function=CROPS[crop], dtype=wdt, upsample=ups)
            res.append(outs)
    return res


def history_failure(pattern, shape, nmax, calls, method, crop, bc, prefill):
    try:
        a = run_history(pattern, shape, nmax, calls, method, crop, bc, prefill, True)
        b = run_history(pattern, shape, nmax, calls, method, crop, bc, prefill, False)
    except Exception as e:  # noqa
        return 'raised %s: %s' % (type(e).__name__, e), None
    # the last call once more with every peak on its own in fresh buffers: what was computed for the peaks before it in the same call (a
    # spectrum or buffer shared by all peaks of a frame) must not matter either
    try:
        last = calls[-1]
        solo = [run_history(pattern, shape, 1, [{'ints': last['ints'], 'kind': last.get('kind'), 'peaks': [p]}], method.replace('-strided', ''), crop, 1, prefill, False)[0] for p in last['peaks']]
        for i, so in enumerate(solo):
            for name, u, v in zip(('centres', 'refineds', 'heights', 'elevations'), b[-1], so):
                if not np.allclose(np.asarray(u[i], dtype=float), np.asarray(v[0], dtype=float), rtol=1e-5, atol=1e-5 * (1.0 + float(np.abs(np.nan_to_num(np.asarray(so[2], dtype=float))).max())), equal_nan=True):
                    return ('call #%d (%s, %s back-end): %s of peak %s after the other peaks of the same call: %s, on its own: %s'
                            % (len(calls) - 1, method, crop, name, tuple(last['peaks'][i]), np.asarray(u[i]).tolist(), np.asarray(v[0]).tolist())), len(calls) - 1
    except Exception as e:  # noqa
        return 'raised %s: %s' % (type(e).__name__, e), None
    for k, (x, y) in enumerate(zip(a, b)):
        for name, u, v in zip(('centres', 'refineds', 'heights', 'elevations'), x, y):
            if not np.array_equal(u, v, equal_nan=True):
                i = int(np.argwhere(~np.isclose(u.reshape(len(u), -1), v.reshape(len(v), -1), rtol=0, atol=0, equal_nan=True).all(axis=1))[0][0])
                return ('call #%d (%s, %s back-end): %s of peak %s differ between shared and fresh buffers: %s vs %s'
                        % (k, method, crop, name, tuple(calls[k]['peaks'][i]), u[i].tolist(), v[i].tolist())), k
    return None, None


def cross_shape_failure(desc, h, k, ups, seed):
    """a frame of odd width 2k+1 processed (with DFT upsampling) before and after frames of other shapes -- in particular of even width 2k, whose
    half spectrum has the same number of columns -- have been processed in this process: identical results are required.  The caller passes
    widths that have not been used before in this process, so that the first result is computed in a pristine state for that shape."""
    r = np.random.default_rng(seed)
    pattern = cl.pattern_from_desc(desc)
    c = pattern.get_crop_size()
    A = r.poisson(4.0, size=(h, 2 * k + 1)).astype(np.float32)
    others = [r.poisson(4.0, size=sh).astype(np.float32) for sh in ((h, 2 * k), (h + 1, 2 * k), (h, 2 * k + 2))]
    peaks = [(int(r.integers(c, h - c)), int(r.integers(c, 2 * k - c))) for _ in range(3)]
    try:
        first = {m: run(pattern, A, peaks, upsample=ups) for m, run in (('full', cl.run_full), ('fast', cl.run_fast))}
        for B in others:
            cl.run_full(pattern, B, peaks, upsample=ups)
            cl.run_fast(pattern, B, peaks, upsample=ups)
        again = {m: run(pattern, A, peaks, upsample=ups) for m, run in (('full', cl.run_full), ('fast', cl.run_fast))}
    except Exception as e:  # noqa
        return 'raised %s: %s' % (type(e).__name__, e)
    for m in ('full', 'fast'):
        for name, u, v in zip(('centres', 'refineds', 'heights', 'elevations'), first[m], again[m]):
            if not np.array_equal(u, v, equal_nan=True):
                return ('process_frame_%s(upsample=%s) on a %dx%d frame: %s %s before and %s after frames of shapes %s were processed'
                        % (m, ups, h, 2 * k + 1, name, u.tolist(), v.tolist(), [list(B.shape) for B in others]))
    return None


def requery_failure(desc, order):
    """one pattern object queried for the shapes in `order`; every array it hands out is then modified in place by the caller (normalised,
    clipped, ...), and so are the arrays and the radial map of ANOTHER object built from the same parameters.  Every answer -- of the used
    object and of an object built afterwards -- must be what a fresh object gave before any of that happened."""
    first = cl.pattern_from_desc(desc)
    ref = {}
    for s in order:
        if s not in ref:
            ref[s] = (np.array(first.get_mask(s), copy=True), np.array(first.get_template(s), copy=True))
    pattern, other = cl.pattern_from_desc(desc), cl.pattern_from_desc(desc)

    def scribble(a):
        a = np.asarray(a)
        if a.flags.writeable:
            a[...] = a * 0.5 + 3.0
    for k, s in enumerate(order):
        for who, obj in (('the used object', pattern), ('an object built afterwards', cl.pattern_from_desc(desc) if k % 3 == 2 else None)):
            if obj is None:
                continue
            m1, t1 = obj.get_mask(s), obj.get_template(s)
            if not (np.array_equal(m1, ref[s][0], equal_nan=True) and np.array_equal(t1, ref[s][1], equal_nan=True)):
                return 'pattern object (%s) queried for shape %s after %s (returned arrays were modified in place by the caller) differs from a fresh object' % (who, s, order[:k])
            scribble(m1)
            scribble(t1)
        scribble(other.get_mask(s))
        if getattr(other, 'radial_map', None) is not None:
            scribble(other.radial_map)          # the other object's own parameter, rescaled in place ("physical coordinates")
    return None


def batch_twice_failure(seed):
    """the batch entry points called twice (full then fast then full) on ONE stack object: identical results, stack unchanged; for every dtype
    and memory layout of the stack"""
    from libertem_blobfinder.common import correlation as cc
    r = np.random.default_rng(seed)
    pattern, desc = cl.rand_pattern(r, cmax=4, kinds=['Circular', 'RadialGradient', 'BackgroundSubtraction'])
    c = pattern.get_crop_size()
    fy, fx = int(r.integers(2 * c + 4, 30)), int(r.integers(2 * c + 4, 30))
    dt = str(r.choice(['float32', 'float32', 'float64', 'uint16', 'int32']))
    stack = np.ascontiguousarray(r.poisson(5.0, size=(3, fy, fx)).astype(dt))
    peaks = np.array(cl.rand_peaks(r, fy, fx, c, int(r.integers(1, 4)), where='inside'))
    keep = stack.copy()
    res = []
    for name, fn in (('process_frames_full', cc.process_frames_full), ('process_frames_fast', cc.process_frames_fast), ('process_frames_full', cc.process_frames_full), ('process_frames_fast', cc.process_frames_fast)):
        out = fn(pattern, stack, peaks)
        if not np.array_equal(stack, keep):
            return '%s modified the %s stack passed in (frame %d changed)' % (name, dt, int(np.argwhere((stack != keep).any(axis=(1, 2)))[0][0]))
        res.append((name, out))
    for (n1, o1), (n2, o2) in ((res[0], res[2]), (res[1], res[3])):
        for u, v in zip(o1, o2):
            if not np.array_equal(u, v, equal_nan=True):
                return 'the second call of %s on the same %s stack gives different results than the first' % (n1, dt)
    return None


def kinds_failure(radius, shape):
    """a Circular and a RadialGradient pattern with the same radius queried for the same shape one after the other (never seen before in this
    process): each gives its own mask -- the flat disk is 1 on its centre pixel, the radial gradient 0"""
    from libertem_blobfinder.common import patterns as pat_
    cy, cx = shape[0] // 2, shape[1] // 2
    for order in (('Circular', 'RadialGradient'), ('RadialGradient', 'Circular')):
        r_ = radius + (0.0 if order[0] == 'Circular' else 0.125)          # another key for the second order
        got = {}
        for kd in order:
            pobj = pat_.Circular(radius=r_, search=r_ + 2) if kd == 'Circular' else pat_.RadialGradient(radius=r_, search=r_ + 2)
            got[kd] = np.array(pobj.get_mask(shape), dtype=float)
        if not (abs(got['Circular'][cy, cx] - 1.0) < 1e-12 and abs(got['RadialGradient'][cy, cx]) < 1e-12):
            return ('%s(radius=%s) then %s(radius=%s), both queried for shape %s: centre pixel of the flat disk %.4g (must be 1), of the radial gradient %.4g (must be 0)'
                    % (order[0], r_, order[1], r_, shape, got['Circular'][cy, cx], got['RadialGradient'][cy, cx]))
        if not np.allclose(got['Circular'], cl.render_disk(cy, cx, shape[0], shape[1], r_, True), atol=1e-12):
            return 'Circular(radius=%s).get_mask(%s) queried %s a RadialGradient of the same radius is not the antialiased disk' % (r_, shape, 'after' if order[1] == 'Circular' else 'before')
    return None


def own_map_failure(radius, ro, shape, factor):
    """a RadialGradientBackgroundSubtraction whose own radial_map is rescaled IN PLACE between two queries (the library re-reads the parameters on
    every query): it then gives what a fresh object built with that rescaled map gives"""
    from libertem_blobfinder.common import patterns as pat_
    pobj = pat_.RadialGradientBackgroundSubtraction(radius=radius, radius_outer=ro, search=ro + 1)
    pobj.get_mask(shape)
    pobj.radial_map *= factor
    fresh = pat_.RadialGradientBackgroundSubtraction(radius=radius, radius_outer=ro, search=ro + 1, radial_map=np.array(pobj.radial_map, copy=True))
    if not np.array_equal(pobj.get_mask(shape), fresh.get_mask(shape), equal_nan=True):
        return 'RadialGradientBackgroundSubtraction(radius=%s, radius_outer=%s): after its radial_map was rescaled in place by %s the mask for shape %s is not that of a fresh object with the rescaled map' % (radius, ro, factor, shape)
    return None


def mk_replay(desc, shape, nmax, calls, method, crop, bc, prefill, fail):
    return {'kind': 'history', 'call': 'process_frame_%s x %d' % (method.split('-')[0] + (' (strided output views)' if 'strided' in method else ''), len(calls)),
            'args': {'pattern': desc, 'shape': list(shape), 'nmax': nmax, 'method': method, 'crop': crop, 'buffer_count': bc, 'prefill': prefill,
                     'calls': [{'ints': c['ints'].tolist(), 'peaks': [list(map(int, p)) for p in c['peaks']]} for c in calls]},
            'failure': fail}


def replay(body):
    if 'frame_ints' in body.get('args', {}):
        return cl.replay_case(body, 'C09')          # a failing input recorded by the model correspondence (cl.model_check)
    a = body['args']
    if 'kinds' in a or 'own_map' in a:
        fail = kinds_failure(a['kinds']['radius'], tuple(a['kinds']['shape'])) if 'kinds' in a else own_map_failure(a['own_map']['radius'], a['own_map']['ro'], tuple(a['own_map']['shape']), a['own_map']['factor'])
        print(json.dumps({'failure_now': fail}, indent=1))
        if fail:
            print('VIOLATION property=C09 replay=(given)')
            return 1
        return 0
    if 'batch_twice_seed' in a:
        fail = batch_twice_failure(a['batch_twice_seed'])
        print(json.dumps({'failure_now': fail}, indent=1))
        if fail:
            print('VIOLATION property=C09 replay=(given)')
            return 1
        return 0
    if 'shapes' in a and 'at' in a:
        fail = requery_failure(a['pattern'], [tuple(x) for x in a['shapes']])
        print(json.dumps({'failure_now': fail}, indent=1))
        if fail:
            print('VIOLATION property=C09 replay=(given)')
            return 1
        return 0
    if 'cross_shape' in a:
        x = a['cross_shape']
        fail = cross_shape_failure(a['pattern'], x['h'], x['k'], x['upsample'], x['seed'])
        print(json.dumps({'failure_now': fail}, indent=1))
        if fail:
            print('VIOLATION property=C09 replay=(given)')
            return 1
        return 0
    pattern = cl.pattern_from_desc(a['pattern'])
    pattern._verif_desc = a['pattern']
    calls = [{'ints': np.array(c['ints'], dtype=np.int64), 'peaks': [tuple(p) for p in c['peaks']]} for c in a['calls']]
    fail, _ = history_failure(pattern, tuple(a['shape']), a['nmax'], calls, a['method'], a['crop'], a['buffer_count'], a['prefill'])
    print(json.dumps({'failure_now': fail}, indent=1))
    if fail:
        print('VIOLATION property=C09 replay=(given)')
        return 1
    return 0


def shrink(pattern, desc, shape, nmax, calls, method, crop, bc, prefill):
    """drop calls / peaks while the failure persists"""
    cur = calls
    changed = True
    while changed and len(cur) > 1:
        changed = False
        for i in range(len(cur) - 1):
            cand = cur[:i] + cur[i + 1:]
            if history_failure(pattern, shape, nmax, cand, method, crop, bc, prefill)[0]:
                cur = cand
                changed = True
                break
    return cur


def run(ctx):
    rng = ctx.rng
    ctx.check_theorems()
    ctx.check_generated(['crop', 'blocks', 'kcalls', 'k', 'klog', 'kcrop'])
    nh = ctx.n(150, 1500)
    nfound = 0
    items = []
    for h in range(nh):
        ncalls = int(rng.integers(1, 7))
        pattern, desc, shape, nmax, calls = gen_history(rng, ncalls, cmax=4 if h % 2 else 3, smax=24 if h % 2 else 11)
        pattern._verif_desc = desc
        method = ('fast' if h % 3 != 2 else 'full') + ('-strided' if h % 4 == 3 else '') + ('-f64' if h % 5 == 2 else '') + ('-ups' if h % 7 in (2, 5) else '')
        crop = 'slicing' if h % 2 == 0 else 'per_pixel'
        bc = int(rng.integers(1, nmax + 2))
        prefill = float(rng.choice([0.0, 7.5, np.nan, 1e30, -3.0]))
        ctx.hist('method', method)
        ctx.hist('crop', crop)
        ctx.hist('calls', ncalls)
        ctx.hist('prefill', prefill)
        fail, k = history_failure(pattern, shape, nmax, calls, method, crop, bc, prefill)
        ctx.count(ncalls, key=(desc, shape, [c['peaks'] for c in calls], method, crop, bc))
        if len(ctx.cov['samples']) < 3:
            ctx.sample({'pattern': desc['kind'], 'shape': list(shape), 'method': method, 'crop': crop, 'buffer_count': bc, 'prefill': prefill,
                        'calls': [{'frame_kind': c['kind'], 'peaks': c['peaks']} for c in calls]})
        if fail and not nfound:
            nfound += 1
            small = shrink(pattern, desc, shape, nmax, calls, method, crop, bc, prefill)
            f2, _ = history_failure(pattern, shape, nmax, small, method, crop, bc, prefill)
            ctx.violation('input', 'result depends on previous buffer contents / earlier calls: ' + (f2 or fail),
                          mk_replay(desc, shape, nmax, small, method, crop, bc, prefill, f2 or fail),
                          signature=('slicing back-end: result depends on previous buffer contents' if crop == 'slicing' else fail))
        # (K) the stateless model against the LAST call of the dirty history (small frames only)
        if shape[0] <= 10 and shape[1] <= 10 and len(items) < ctx.n(10, 60) and np.isfinite(prefill) and 'ups' not in method:      # (the model has no DFT upsampling)
            try:
                res = run_history(pattern, shape, nmax, calls, method, crop, bc, prefill, True)
                items.append(dict(pattern=pattern, desc=desc, ints=calls[-1]['ints'], one=1, peaks=calls[-1]['peaks'], method=method.split('-')[0],
                                  outs=res[-1], note='last of %d calls, %s, bc=%d, prefill=%s' % (ncalls, crop, bc, prefill)))
            except Exception:  # noqa
                pass
    cl.model_check(ctx, items, 'C09', 'result after a history differs from the stateless definition')

    # frames of different shapes through one process (module-level state keyed by a derived size, e.g. the width of the half spectrum)
    for i in range(ctx.n(8, 40)):
        pattern, desc = cl.rand_pattern(rng, cmax=4)
        h, k = int(rng.integers(20, 40)), 15 + i                 # widths 2k, 2k+1 >= 30: not used by any other stream of this check
        ups = [True, 4, 2, 10][i % 4]
        sd = int(rng.integers(0, 2 ** 31))
        fail = cross_shape_failure(desc, h, k, ups, sd)
        ctx.count(4, key=('cross-shape', json.dumps(desc)[:160], h, k, ups, sd))
        ctx.hist('cross-shape upsample', ups)
        if fail:
            ctx.violation('input', 'result depends on frames of other shapes processed before: ' + fail,
                          {'kind': 'history', 'call': 'process_frame_full/fast over frames of several shapes', 'args': {'pattern': desc, 'cross_shape': {'h': h, 'k': k, 'upsample': ups, 'seed': sd}}, 'failure': fail})
            break
    for k in range(ctx.n(12, 100)):
        sd = int(rng.integers(0, 2 ** 31))
        fail = batch_twice_failure(sd)
        ctx.count(4, key=('batch twice', sd))
        if fail:
            ctx.violation('input', fail, {'kind': 'history', 'call': 'process_frames_full / process_frames_fast twice on one stack', 'args': {'batch_twice_seed': sd}, 'failure': fail})
            break
    for k in range(ctx.n(8, 40)):
        radius, shape = 2.0 + 0.25 * k + 0.03125, (int(rng.integers(12, 40)), int(rng.integers(12, 40)))        # radii used nowhere else in this check
        fail = kinds_failure(radius, shape)
        ctx.count(4, key=('kinds', radius, shape))
        if fail:
            ctx.violation('input', fail, {'kind': 'history', 'call': 'Circular / RadialGradient get_mask', 'args': {'kinds': {'radius': radius, 'shape': list(shape)}}, 'failure': fail})
            break
        ro, factor = radius + 2.0, float(rng.choice([0.7, 1.3, 0.5]))
        fail = own_map_failure(radius, ro, shape, factor)
        ctx.count(2, key=('own map', radius, ro, shape, factor))
        if fail:
            ctx.violation('input', fail, {'kind': 'history', 'call': 'RadialGradientBackgroundSubtraction.radial_map rescaled in place', 'args': {'own_map': {'radius': radius, 'ro': ro, 'shape': list(shape), 'factor': factor}}, 'failure': fail})
            break
    # pattern objects and matchers re-used across queries
    nobj = 0
    for k in range(ctx.n(20, 100)):
        pattern, desc = cl.rand_pattern(rng, cmax=5, kinds=[cl.PATTERN_KINDS[k % len(cl.PATTERN_KINDS)]])      # every class in turn
        shapes = [(int(rng.integers(2, 30)), int(rng.integers(2, 30))) for _ in range(3)]
        shapes += [(shapes[0][0], shapes[0][1] ^ 1), (shapes[1][0], shapes[1][1] ^ 1)]   # same rfft2 shape, different width
        if desc['kind'] == 'UserTemplate':
            # shapes that need no padding on either axis (the template's own shape and smaller ones): get_mask then only crops
            ty, tx = np.array(desc['template']).shape
            shapes += [(ty, tx), (max(1, ty - 1), max(1, tx - 2)), (ty, max(1, tx - 1))]
        order = shapes + shapes[::-1] + [shapes[i] for i in rng.permutation(len(shapes))]
        nobj += len(order)
        fail = requery_failure(desc, order)
        if fail:
            ctx.violation('input', fail, {'kind': 'history', 'call': 'get_mask/get_template', 'args': {'pattern': desc, 'shapes': [list(x) for x in order], 'at': []}, 'failure': fail})
            break
    matcher = grm.Matcher(tolerance=1.0, min_weight=0.1, min_match=3)
    for k in range(ctx.n(20, 100)):
        n = int(rng.integers(4, 12))
        idx = rng.integers(-3, 4, size=(n, 2))
        zero, a, b = rng.uniform(20, 40, 2), np.array([rng.uniform(8, 12), rng.uniform(-2, 2)]), np.array([rng.uniform(-2, 2), rng.uniform(8, 12)])
        pts = zero + idx @ np.array([a, b]) + rng.normal(0, 0.1, size=(n, 2))
        w = rng.uniform(0.05, 2, n)
        m1 = matcher.fastmatch(centers=pts, refineds=pts, peak_values=w, peak_elevations=w, zero=zero, a=a, b=b)
        m2 = grm.Matcher(tolerance=1.0, min_weight=0.1, min_match=3).fastmatch(centers=pts, refineds=pts, peak_values=w, peak_elevations=w, zero=zero, a=a, b=b)
        nobj += 1
        if not (np.array_equal(m1.zero, m2.zero, equal_nan=True) and np.array_equal(m1.selector, m2.selector)):
            ctx.violation('input', 'matcher object re-used gives a different fastmatch result',
                          {'kind': 'history', 'call': 'Matcher.fastmatch', 'args': {'points': pts.tolist(), 'weights': w.tolist()}})
            break
    ctx.count(nobj)
    ctx.extra['object_requeries'] = nobj
    ctx.run_modes()
    return ctx.finish(
        LEVEL,
        explanation='Theorems: cropping overwrites a buffer slot completely for both back-ends; a call on ANY state (arbitrary slot and output-array '
                    'contents) writes the pure per-peak results; induction over the call list (any history). Tie: the stateless Coq pipeline against the '
                    'outputs of the last call of dirty histories; oracle: histories with shared vs fresh buffers/outputs/pattern objects must be bit-identical.',
        rule='histories of 1..6 calls (frames of 6 kinds, peak lists of differing length incl. border/outside peaks), shared crop_bufs / frame_buf / output '
             'arrays pre-filled with 0, 7.5, NaN, 1e30, -3; both back-ends via crop_function; fast and full; frames of several shapes (even/odd width with the same half-spectrum width) with upsampling through one process; distinct by (pattern, shape, peak lists, method, '
             'back-end, buffer count).')
