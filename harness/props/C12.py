"""C12 - Full matching partitions the peaks and returns self-consistent matches."""
import json
import math

import numpy as np

import core
from core import cq
from latlib import F, rand_lattice, qv, lvec
import logging
import libertem_blobfinder.common.fullmatch as fm
import libertem_blobfinder.common.gridmatching as grm
from libertem_blobfinder.base.utils import make_polar

LEVEL = 'proof'
logging.getLogger('libertem_blobfinder.common.fullmatch').setLevel(logging.ERROR)


def cb(v):
    return '[' + '; '.join('true' if b else 'false' for b in v) + ']'


SMALL_EXACT_TURN = [0]
CLOUD_KINDS = ['lattice', 'lattice_noise', 'two_lattices', 'random', 'small_exact', 'tight_limits', 'limit_edge', 'doublets', 'small_exact']


def gen_cloud(rng, kind=None):
    kind = kind or str(rng.choice(CLOUD_KINDS))
    la, lb = rng.uniform(18, 35, 2)
    fine = elong = False
    SMALL_EXACT_TURN[0] += 1 if kind == 'small_exact' else 0
    if kind == 'small_exact' and SMALL_EXACT_TURN[0] % 5 != 0:
        # a coarse candidate vector would miss the far lattice points: long lattice vectors at the default tolerance, or a tight tolerance
        v_ = [0, 1, 2, 2][SMALL_EXACT_TURN[0] % 5 - 1]              # in turn: long vectors, tight tolerance, elongated cell (twice), plain
        if v_ == 0:
            la, lb = rng.uniform(100, 250, 2)
        elif v_ == 1:
            fine = True
        else:
            la = float(rng.uniform(12, 20))          # a strongly elongated cell: a sub-lattice (2a, b) is more "square" than the lattice itself
            lb = la * float(rng.uniform(3.5, 5.0))
            elong = True
    ang = rng.uniform(0, np.pi)
    d = np.deg2rad(rng.uniform(60, 120))
    a = la * np.array([np.sin(ang), np.cos(ang)])
    b = lb * np.array([np.sin(ang + d), np.cos(ang + d)])
    zero = rng.uniform(50, 80, 2)
    cand = np.array([(i, j) for i in range(-2, 3) for j in range(-2, 3) if (i, j) != (0, 0)])
    if kind == 'doublets':
        # rows of close doublets (split spots): the peaks sit on integer positions of a "lattice" whose two vectors are nearly parallel --
        # the user's candidate list proposes exactly these two vectors, in any of the four quadrants (also on either side of the +-pi cut of the
        # polar angle); no match may have vectors closer than min_angle
        L_, d_ = float(rng.uniform(25, 35)), float(rng.uniform(1.0, 2.0))
        sy, sx = [(1, -1), (1, 1), (-1, -1), (-1, 1)][int(rng.integers(0, 4))]
        if rng.integers(0, 2):
            va, vb = np.array([d_, sx * L_]), np.array([-d_, sx * L_])
        else:
            va, vb = np.array([sy * L_, d_]), np.array([sy * L_, -d_])
        zero = np.array([64.0, 114.0]) if sx < 0 else np.array([64.0, 20.0])
        idx = np.array([(0, 0), (1, 0), (0, 1), (2, 0), (0, 2), (1, 1)])
        pts = zero + idx @ np.array([va, vb])
        w = np.ones(len(pts))
        true = None
        dbl_cand = [va.copy(), vb.copy()]
    elif kind == 'small_exact':
        # a complete noise-free lattice patch of at most ten points (n x m, both >= 2) that contains the zero point
        n1, m1 = [(2, 2), (2, 3), (3, 2), (3, 3), (2, 4), (4, 2), (2, 5), (5, 2)][int(rng.integers(0, 8))]
        if elong:
            n1, m1 = [(4, 2), (5, 2)][int(rng.integers(0, 2))]          # at least four points along the short vector a
        i0, j0 = -int(rng.integers(0, n1)), -int(rng.integers(0, m1))
        full = [(i, j) for i in range(i0, i0 + n1) for j in range(j0, j0 + m1) if (i, j) != (0, 0)]
        idx = np.vstack([[0, 0], np.array(full)[rng.permutation(len(full))]])
        pts = zero + idx @ np.array([a, b])
        w = np.ones(len(pts))
        true = [tuple(ij) for ij in idx]
    elif kind in ('lattice', 'lattice_noise', 'tight_limits', 'limit_edge'):
        n = int(rng.integers(5, 18))
        idx = np.vstack([[0, 0], cand[rng.permutation(len(cand))[:n - 1]]])
        pts = zero + idx @ np.array([a, b])
        if kind in ('lattice_noise', 'limit_edge'):
            pts = pts + rng.normal(0, 0.3, size=pts.shape)
            pts[0] = zero
        no = int(rng.integers(0, 5))
        pts = np.vstack([pts, rng.uniform(0, 130, size=(no, 2))])
        w = rng.uniform(0.3, 2.0, len(pts))
        nw = int(rng.integers(0, 4))
        pts = np.vstack([pts, rng.uniform(0, 130, size=(nw, 2))])
        w = np.append(w, rng.uniform(0, 0.09, nw))
        true = None
    elif kind == 'two_lattices':
        idx = np.vstack([[0, 0], cand[rng.permutation(len(cand))[:8]]])
        th = np.deg2rad(rng.uniform(20, 40))
        R = np.array([[np.cos(th), -np.sin(th)], [np.sin(th), np.cos(th)]])
        pts = np.vstack([zero + idx @ np.array([a, b]), zero + idx[1:] @ (np.array([a, b]) * 1.3) @ R])
        w = rng.uniform(0.3, 2.0, len(pts))
        true = None
    else:
        n = int(rng.integers(3, 26))
        pts = rng.uniform(0, 130, size=(n, 2))
        w = rng.uniform(0, 2.0, n)
        true = None
    if kind != 'small_exact' and rng.random() < 0.35:
        # quantised elevations: some exactly at the threshold min_weight (they are NOT weak), some just below
        j = rng.permutation(len(w))[:max(1, len(w) // 4)]
        w = w.copy()
        w[j] = rng.choice([0.1, 0.1, 0.05], size=len(j))
    params = dict(tolerance=float(rng.choice([1.0, 3.0])), min_weight=0.1, min_match=int(rng.choice([3, 3, 4])), min_angle=float(rng.choice([np.pi / 10, np.pi / 5])),
                  min_points=int(rng.choice([10, 5])), min_delta=float(rng.choice([0.0, 5.0, 15.0])), max_delta=float(rng.choice([np.inf, 60.0, 40.0])))
    if kind == 'limit_edge':
        # a length limit within 1 % of a lattice constant, noisy positions: the fitted vector can drift over the limit
        edge = float(rng.choice([la, lb]) * (1 + rng.uniform(-0.012, 0.012)))
        if rng.integers(0, 2):
            params.update(max_delta=edge, min_delta=0.0, tolerance=1.5)
        else:
            params.update(min_delta=edge, max_delta=np.inf, tolerance=1.5)
    if kind == 'tight_limits':
        # length limits that exclude every (or almost every) connecting vector, more points than min_points
        params.update(min_points=5, max_delta=float(rng.choice([0.4, 0.9, 1.1]) * min(la, lb)), min_delta=float(rng.choice([0.0, 3.0])))
    if kind == 'small_exact':
        params.update(tolerance=3.0, min_match=3, min_delta=0.0, max_delta=np.inf, min_angle=np.pi / 10, min_points=10)
        if fine:
            params.update(tolerance=float(rng.choice([0.5, 0.3, 1.0])))
    use_cand = bool(rng.integers(0, 3) == 0)
    candv = [a + rng.normal(0, 0.2, 2), b + rng.normal(0, 0.2, 2), a + b] if use_cand else None
    if kind == 'doublets':
        candv = dbl_cand
        params.update(tolerance=3.0, min_match=3, min_delta=0.0, max_delta=np.inf, min_angle=np.pi / 10)
    argmode = 'all'
    if kind != 'small_exact':
        r = rng.random()
        if r < 0.12:
            # a peak position that occurs twice (a lattice point or an outlier, never the zero point): the difference vectors then contain (0, 0)
            j = int(rng.integers(1, len(pts)))
            pts, w = np.vstack([pts, pts[j]]), np.append(w, float(rng.uniform(0.3, 2.0)))
            params['min_delta'] = 0.0
        elif r < 0.2:
            # a zero-length vector among the user's candidates
            candv = [np.zeros(2), a + rng.normal(0, 0.2, 2), b + rng.normal(0, 0.2, 2)]
            candv = [candv[i] for i in rng.permutation(3)]
            params['min_delta'] = 0.0
        elif r < 0.32:
            # optional arguments left out: the elevations (or values and elevations) then default to ones, whatever the values are
            argmode = str(rng.choice(['values_only', 'positions_only']))
    return dict(kind=kind, pts=pts, w=w, zero=pts[0].copy(), params=params, cand=candv, true=true, lattice=(zero, a, b), argmode=argmode)


def run_full(c, record=None):
    matcher = fm.FullMatcher(**c['params'])
    if record is not None:
        orig = matcher._find_best_vector_match

        def spy(point_selection, zero, candidates):
            m = orig(point_selection=point_selection, zero=zero, candidates=candidates)
            record.append((point_selection.selector.copy(), None if m is None else m.selector.copy()))
            return m
        matcher._find_best_vector_match = spy
    cand = None if c['cand'] is None else np.array(c['cand'])
    am = c.get('argmode', 'all')
    kw = dict(refineds=c['pts'], peak_values=c['w'], peak_elevations=c['w']) if am == 'all' else (dict(peak_values=c['w']) if am == 'values_only' else {})
    return matcher, core.call_guarded(matcher.full_match, centers=c['pts'], zero=np.asarray(c['zero']), cand=cand, **kw)


def stmt_failure(c):
    try:
        matcher, (matches, unmatched, weak) = run_full(c)
    except Exception as e:  # noqa
        return 'full_match raised %s: %s' % (type(e).__name__, str(e)[:200])
    p = c['params']
    n = len(c['pts'])
    we = c['w'] if c.get('argmode', 'all') == 'all' else np.ones(n)         # the elevations in force (documented default: ones)
    strong = we >= p['min_weight']
    if not np.array_equal(weak.selector, ~strong):
        return 'weak set is not exactly the peaks with elevation < min_weight'
    zsel = np.array([np.allclose(c['pts'][i], c['zero']) for i in range(n)])
    cnt = np.zeros(n, dtype=int)
    for m in matches:
        cnt += m.selector.astype(int)
    for i in range(n):
        if zsel[i]:
            if matches and unmatched.selector[i]:
                return 'zero point reported as unmatched although a match was found'
            continue
        if not strong[i]:
            if unmatched.selector[i] or cnt[i]:
                return 'weak peak #%d appears in unmatched/matches' % i
            continue
        if int(unmatched.selector[i]) + cnt[i] != 1:
            return 'peak #%d is in unmatched=%s and in %d matches (must be exactly one of them)' % (i, bool(unmatched.selector[i]), cnt[i])
    for k, m in enumerate(matches):
        if len(m) < p['min_match']:
            return 'match %d has %d < min_match peaks' % (k, len(m))
        for v, nm in ((m.a, 'a'), (m.b, 'b')):
            l = float(np.linalg.norm(v))
            if not (p['min_delta'] - 1e-9 <= l <= p['max_delta'] + 1e-9):
                return 'match %d: |%s| = %.4f outside [%s, %s]' % (k, nm, l, p['min_delta'], p['max_delta'])
        dphi = abs(math.atan2(m.a[0], m.a[1]) - math.atan2(m.b[0], m.b[1])) % np.pi       # angle of (y, x) vectors: atan2(y, x)
        if not (dphi > p['min_angle'] - 1e-9 and dphi < np.pi - p['min_angle'] + 1e-9):
            return 'match %d: lattice vectors separated by %.4f rad, less than min_angle' % (k, dphi)
        if not np.array_equal(m.indices, np.round(m.indices)):
            return 'match %d has non-integer indices' % k
        # weighted least-squares fit of its own peaks
        idx = np.asarray(m.indices, dtype=float)
        A = np.hstack([np.ones((len(idx), 1)), idx])
        if np.linalg.matrix_rank(A) == 3:
            ww = we[m.selector]
            res = c['pts'][m.selector] - (m.zero + idx @ np.array([m.a, m.b]))
            g = A.T @ (ww[:, None] * res)
            if (np.abs(g) > 1e-6 * (np.abs(A).T @ (ww[:, None] * (np.abs(res) + 1e-9))) + 1e-7).any():
                return 'match %d: lattice is not the weighted least-squares fit of its own peaks' % k
    if c['true'] is not None:
        if not matches:
            return 'noise-free lattice of %d points with its zero point: no match found' % n
        m = matches[0]
        if int(m.selector.sum()) != n:
            return 'noise-free lattice of %d points with its zero point: first match contains only %d points' % (n, int(m.selector.sum()))
        if not m.error < 1e-6:
            return 'noise-free lattice: first match has error %.3g' % m.error
    return None


def mk_replay(c, fail):
    return {'kind': 'input', 'call': 'FullMatcher.full_match', 'args': {'kind': c['kind'], 'pts': c['pts'].tolist(), 'w': c['w'].tolist(), 'zero': c['zero'].tolist(),
            'params': {k: (None if (isinstance(v, float) and math.isinf(v)) else v) for k, v in c['params'].items()}, 'cand': None if c['cand'] is None else [v.tolist() for v in c['cand']],
            'exact_lattice': c['true'] is not None, 'argmode': c.get('argmode', 'all')}, 'failure': fail}


def replay(body):
    if 'tumble' in body.get('args', {}):
        t = body['args']['tumble']
        c = dict(t, pos=np.array(t['pos']), w=np.array(t['w']), sel=np.array(t['sel'], dtype=bool), start=tuple(np.array(v) for v in t['start']))
        fail = tumble_stmt_failure(c)
        print(json.dumps({'failure_now': fail}, indent=1))
        if fail:
            print('VIOLATION property=C12 replay=(given)')
            return 1
        return 0
    a = body['args']
    params = {k: (np.inf if v is None else v) for k, v in a['params'].items()}
    c = dict(kind=a['kind'], pts=np.array(a['pts']), w=np.array(a['w']), zero=np.array(a['zero']), params=params, cand=None if a['cand'] is None else [np.array(v) for v in a['cand']],
             true=True if a['exact_lattice'] else None, argmode=a.get('argmode', 'all'))
    fail = stmt_failure(c)
    print(json.dumps({'failure_now': fail}, indent=1))
    if fail:
        print('VIOLATION property=C12 replay=(given)')
        return 1
    return 0


# ---- (K) the per-pair search: _match_all + _tumble vs Tumble.do_pair (exact rationals) ------------------------------
def gen_tumble(rng):
    from props import C05
    c = C05.gen(rng)
    n = min(len(c['pos']), 12)
    pos, w = c['pos'][:n], np.where(np.isnan(c['w'][:n]), 0.01, c['w'][:n])
    sel = rng.random(n) < 0.85
    la, lb = np.linalg.norm(c['true'][1]), np.linalg.norm(c['true'][2])
    # length limits: none, generous, excluding the shorter vector, and right at the true lengths (the fitted length then falls on either
    # side of the limit from one stage of _tumble to the next)
    e1, e2 = rng.uniform(-0.004, 0.012, 2)
    mind, maxd = [(0.0, 1e6), (0.7 * min(la, lb), 1.3 * max(la, lb)), (1.05 * min(la, lb), 1e6), (0.0, max(la, lb) * (1 + e1)),
                  (min(la, lb) * (1 - e2), 1e6), (min(la, lb) * (1 - e2), max(la, lb) * (1 + e1))][int(rng.integers(0, 6))]
    return dict(pos=pos, w=w, sel=sel, start=c['start'], tol=float(rng.choice([0.5, 1.5, 3.0])), mm=int(rng.integers(3, 6)), mind=float(mind), maxd=float(maxd),
                ang=float(rng.choice([np.pi / 10, np.pi / 5, np.pi / 3, 1.4])))


def run_tumble(c):
    m = fm.FullMatcher(tolerance=c['tol'], min_weight=0.0, min_match=c['mm'], min_angle=c['ang'], min_delta=c['mind'], max_delta=c['maxd'])
    corr = grm.CorrelationResult(centers=c['pos'], refineds=c['pos'], peak_values=c['w'], peak_elevations=c['w'])
    ps = grm.PointSelection(corr, selector=c['sel'].copy())
    try:
        m0 = m._match_all(point_selection=ps, zero=c['start'][0], a=c['start'][1], b=c['start'][2])
        return m._tumble(ps, m0)
    except np.linalg.LinAlgError:
        return None


def rank_deficient_stage(c):
    """does one of the two fits of _tumble see an index set of rank < 3 (fewer than three affinely independent indices)?"""
    m = fm.FullMatcher(tolerance=c['tol'], min_weight=0.0, min_match=c['mm'], min_angle=c['ang'], min_delta=c['mind'], max_delta=c['maxd'])
    corr = grm.CorrelationResult(centers=c['pos'], refineds=c['pos'], peak_values=c['w'], peak_elevations=c['w'])
    ps = grm.PointSelection(corr, selector=c['sel'].copy())

    def deficient(mt):
        A = np.hstack([np.ones((len(mt), 1)), np.asarray(mt.indices, dtype=float)])
        return len(mt) < 3 or np.linalg.matrix_rank(A) < 3
    try:
        m0 = m._match_all(point_selection=ps, zero=c['start'][0], a=c['start'][1], b=c['start'][2])
        if deficient(m0):
            return True
        o1 = m0.weighted_optimize()
        m1 = m._match_all(point_selection=ps, zero=o1.zero, a=o1.a, b=o1.b)
        return deficient(m1)
    except np.linalg.LinAlgError:
        return False


def tumble_expr(c):
    pk = '[' + '; '.join('Build_peak %s %s' % (cq(F(w)), qv(p)) for w, p in zip(c['w'], c['pos'])) + ']'
    sel = '[' + '; '.join('true' if s else 'false' for s in c['sel']) + ']'
    s2 = F(math.sin(c['ang'])) ** 2
    return ('match do_pair %s %d %s %s %s %s %s %s %s %s with Some (m, z, a, b) => (1, mout m, vl z, vl a, vl b) | None => (0, [], vl vzero, vl vzero, vl vzero) end'
            % (cq(F(c['tol']) ** 2), c['mm'], cq(F(c['mind']) ** 2), cq(F(c['maxd']) ** 2), cq(s2), sel, pk, qv(c['start'][0]), qv(c['start'][1]), qv(c['start'][2])))


def tumble_problem(c, mv):
    ok, mm_, z, a, b = mv
    r = run_tumble(c)
    if bool(ok) != (r is not None):
        if not ok and rank_deficient_stage(c):
            # two selected peaks share an index and no third independent one is left: numpy's lstsq returns a minimum-norm solution
            # where the exact model has none (singular normal equations) -- outside the domain of the correspondence; the clauses
            # on the returned match (tumble_stmt_failure) still apply
            return None
        return 'validity: model %s, implementation %s' % ('match' if ok else 'None', 'None' if r is None else 'match')
    if ok:
        msel = np.array([e[0] == 1 for e in mm_])
        midx = np.array([[e[1], e[2]] for e in mm_ if e[0] == 1])
        if not np.array_equal(msel, r.selector) or not np.array_equal(midx, r.indices):
            return 'selection / indices differ: model %s impl %s' % (msel.astype(int).tolist(), r.selector.astype(int).tolist())
        for nm, q, v in (('zero', z, r.zero), ('a', a, r.a), ('b', b, r.b)):
            if np.abs(lvec(q) - v).max() > 1e-7:
                return '%s: model %s impl %s' % (nm, lvec(q).tolist(), np.asarray(v).tolist())
    return None


def tumble_stmt_failure(c):
    """what the property says about a returned match, on the implementation only"""
    r = run_tumble(c)
    if r is None:
        return None
    if len(r) < c['mm'] or len(r.indices) != len(r):
        return '_tumble returned a match with %d peaks / %d indices, min_match=%d' % (len(r), len(r.indices), c['mm'])
    for nm, v in (('a', r.a), ('b', r.b)):
        ln = float(np.linalg.norm(v))
        if not (c['mind'] * (1 - 1e-9) <= ln <= c['maxd'] * (1 + 1e-9)):
            return '_tumble returned a match whose vector %s has length %.6g outside [%.6g, %.6g]' % (nm, ln, c['mind'], c['maxd'])
    sn = abs(r.a[0] * r.b[1] - r.a[1] * r.b[0]) / (np.linalg.norm(r.a) * np.linalg.norm(r.b))
    if sn < math.sin(c['ang']) * (1 - 1e-9):
        return '_tumble returned a match whose vectors are separated by less than min_angle (|sin| = %.6g < %.6g)' % (sn, math.sin(c['ang']))
    w = r.peak_elevations
    A = np.hstack([np.ones((len(r), 1)), r.indices]) * np.sqrt(w)[:, None]
    x, *_ = np.linalg.lstsq(A, r.refineds * np.sqrt(w)[:, None], rcond=None)
    if not (np.allclose(r.zero, x[0], atol=1e-7) and np.allclose(r.a, x[1], atol=1e-7) and np.allclose(r.b, x[2], atol=1e-7)):
        return '_tumble returned a match whose lattice is not the weighted least-squares fit of its own peaks'
    return None


def tumble_replay(c, fail):
    return {'kind': 'input', 'call': 'FullMatcher._match_all + _tumble', 'args': {'tumble': {k: (v.tolist() if isinstance(v, np.ndarray) else ([x.tolist() for x in v] if k == 'start' else v))
                                                                                       for k, v in c.items()}}, 'failure': fail}


def run(ctx):
    rng = ctx.rng
    ctx.check_theorems()
    ctx.check_generated(['qfm', 'vmatch', 'vidx', 'vfit', 'fm', 'fmtumble', 'vdefaults', 'fmpair'])
    # (K) the per-pair search (_match_all + _tumble) in exact rationals vs the implementation; (S) the clauses on what it returns
    tcases = [gen_tumble(rng) for _ in range(ctx.n(24, 240))]
    tvals = ctx.coq_eval('tumble', 'Model.Lattice Model.WLS Model.Match Model.Tumble', [tumble_expr(c) for c in tcases], shard=4, timeout=1500)
    nbad = nval = 0
    for c, mv in zip(tcases, tvals):
        ctx.count(1, key=('tumble', c['pos'].tolist(), c['tol'], c['mm'], c['mind'], c['ang']))
        ctx.hist('tumble model result', 'match' if mv[0] else 'None')
        nval += int(bool(mv[0]))
        fail = tumble_stmt_failure(c)
        if fail:
            ctx.violation('input', fail, tumble_replay(c, fail))
            continue
        prob = tumble_problem(c, mv)
        if prob:
            nbad += 1
            ctx.obligation('K:C12 tumble case', False, prob[:400])
    ctx.obligation('K:C12 Tumble.do_pair (check, optimise, check, re-match, check, optimise, check over Q) vs FullMatcher._match_all + _tumble (%d clouds, %d matches)'
                   % (len(tcases), nval), nbad == 0, '%d disagreements' % nbad)
    # (K) trace-driven: the real lattice search's answers are recorded and fed to the Coq loop as the oracle
    exprs, meta = [], []
    nprogress = 0
    for k in range(ctx.n(60, 600)):
        c = gen_cloud(rng, CLOUD_KINDS[k % len(CLOUD_KINDS)])          # every kind of cloud in turn
        rec = []
        try:
            matcher, (matches, unmatched, weak) = run_full(c, rec)
        except Exception as e:  # noqa
            fail = 'full_match raised %s: %s' % (type(e).__name__, str(e)[:200])
            ctx.violation('input', fail, mk_replay(c, fail), signature=('full_match raises ValueError from np.cross on 2-vectors' if 'cross' in str(e) else fail))
            continue
        n = len(c['pts'])
        filt = (c['w'] if c.get('argmode', 'all') == 'all' else np.ones(n)) >= c['params']['min_weight']
        zsel = np.array([bool(np.allclose(c['pts'][i], c['zero'])) for i in range(n)])
        ans = '[' + '; '.join('None' if m is None else 'Some %s' % cb(m) for (_, m) in rec) + ']'
        exprs.append('let o := full_match %d %s %s %s %s in (o_matches o, o_unmatched o, o_weak o, o_calls o, o_ok o)' % (
            c['params']['min_match'], cb(filt), cb(zsel), 'true' if c['cand'] is not None else 'false', ans))
        meta.append((c, [m.selector.tolist() for m in matches], unmatched.selector.tolist(), weak.selector.tolist(), len(rec)))
        # termination premise: every accepted match removes at least one non-zero peak from the working set
        for (ws, m) in rec:
            if m is not None:
                if not (m & ws & ~zsel).any():
                    ctx.obligation('K:C12 termination premise (accepted match removes a non-zero peak)', False, 'match %s on working set %s' % (m.tolist(), ws.tolist()))
                else:
                    nprogress += 1
                if (m & ~ws).any():
                    ctx.obligation('K:C12 oracle postcondition (match is a subset of its working set)', False, 'match %s working set %s' % (m.tolist(), ws.tolist()))
        ctx.hist('cloud', c['kind'])
        ctx.hist('oracle_calls', len(rec))
    vals = ctx.coq_eval('k', 'Model.FullMatch', exprs, shard=100)
    ndis = 0
    for mv, (c, ms, um, wk, ncalls) in zip(vals, meta):
        m_ms, m_um, m_wk, m_calls, m_ok = mv
        ctx.count(1, key=(c['pts'].tolist(), c['w'].tolist(), str(c['params'])))
        if len(ctx.cov['samples']) < 4:
            ctx.sample({'cloud': c['kind'], 'points': len(c['pts']), 'params': {k: str(v) for k, v in c['params'].items()}, 'candidates': c['cand'] is not None, 'oracle_calls': ncalls,
                        'matches': len(ms), 'unmatched': int(sum(um)), 'weak': int(sum(wk))})
        if not (m_ok and [list(x) for x in m_ms] == ms and list(m_um) == um and list(m_wk) == wk and m_calls == ncalls):
            ndis += 1
            fail = stmt_failure(c)
            if fail:
                ctx.violation('input', fail, mk_replay(c, fail))
            else:
                ctx.obligation('K:C12 case', False, 'model (matches %s unmatched %s calls %s ok %s) vs implementation (matches %s unmatched %s calls %s)' % (m_ms, m_um, m_calls, m_ok, ms, um, ncalls))
    ctx.obligation('K:C12 correspondence FullMatch.full_match (loop bookkeeping, recorded oracle answers) vs FullMatcher.full_match (%d clouds, %d accepted matches)' % (len(vals), nprogress),
                   ndis == 0, '%d disagreements' % ndis)

    # (K2) angle_check / size_filter vs model, PI = the float value of np.pi
    exprs, want = [], []
    PI = cq(F(np.pi))
    for k in range(ctx.n(60, 400)):
        p1, p2 = float(rng.uniform(-np.pi, np.pi)), float(rng.uniform(-np.pi, np.pi))
        lim = float(rng.choice([np.pi / 10, np.pi / 5, 0.1]))
        d = abs(p1 - p2) % np.pi
        if min(abs(d - lim), abs(d - (np.pi - lim))) < 1e-9:
            continue
        exprs.append('angle_check %s %s %s %s' % (PI, cq(F(lim)), cq(F(p1)), cq(F(p2))))
        want.append(bool(fm.angle_check(np.array([[1.0, p1]]), np.array([[1.0, p2]]), lim)[0]))
    got = ctx.coq_eval('angle', 'Model.FullMatch', exprs, shard=200)
    ctx.count(len(want))
    ctx.obligation('K:C12 angle_check = FullMatch.angle_check on %d angle pairs' % len(want), got == want, str([(g, w) for g, w in zip(got, want) if g != w][:3]))

    # (S) statement
    for k in range(ctx.n(150, 2000)):
        c = gen_cloud(rng, CLOUD_KINDS[k % len(CLOUD_KINDS)])          # every kind of cloud in turn
        fail = stmt_failure(c)
        ctx.count(1)
        if fail:
            sig = fail
            if 'cross' in fail:
                sig = 'full_match raises ValueError from np.cross on 2-vectors'
            ctx.violation('input', fail, mk_replay(c, fail), signature=sig)
            break
    for k in range(ctx.n(250, 2500)):
        c = gen_cloud(rng, 'limit_edge')
        fail = stmt_failure(c)
        ctx.count(1)
        if fail:
            ctx.violation('input', fail, mk_replay(c, fail))
            break
    ctx.assumptions.append('hdbscan is not installed: harness/stubs/hdbscan provides a deterministic sklearn-style stand-in clusterer (single linkage, fixed threshold), as the property allows')
    return ctx.finish(
        LEVEL,
        explanation='Theorems about the loop bookkeeping for ANY lattice search plugged in (answers only need the right length): strong non-zero peaks are unmatched XOR matched, '
                    'zero point never unmatched once a match exists, weak set exact; angle_check separation and symmetry; match lattices are weighted fits (C06); '
                    'whatever check/_tumble/_do_match (modelled over Q) return has >= min_match peaks, vector lengths within the limits, separation above the minimum angle '
                    'and the weighted fit of exactly its own peaks. Tie: the loop, _tumble\'s step sequence and check regenerated from the source text (bridge lemmas); '
                    'Tumble.do_pair in exact rationals vs _match_all + _tumble; '
                    'trace-driven -- the answers of the real _find_best_vector_match are recorded at run time and fed to the Coq loop, whose (matches, unmatched, weak, number of '
                    'calls) must equal the implementation\'s; termination premise and oracle postcondition monitored on every trace.',
        rule='clouds of 3..25 points: lattice subsets (+noise, outliers, weak points), two interleaved lattices, random clouds, noise-free lattices <= 10 points; with/without '
             'candidate lists; parameter settings (tolerance, min_match, min_angle, min_points, min/max_delta).')
