"""C10 - Correlation UDFs equal the stand-alone result under any partitioning/tiling."""
import json
import math
from fractions import Fraction

import numpy as np

import core
from core import cq, cz, clist2
import corrlib as cl
from latlib import F, qv
from libertem.runner import run_udf
from libertem.udf.base import UDF as StubUDF
from libertem_blobfinder.base import correlation as blc
from libertem_blobfinder.udf import correlation as uc

LEVEL = 'proof'
KNOWN_SIG = 'SparseCorrelationUDF.process_tile: per-tile log scaling (tile minima differ)'


def rand_partitions(rng, n):
    order = [int(i) for i in rng.permutation(n)] if rng.integers(0, 2) else list(range(n))
    parts, k = [], 0
    while k < n:
        s = int(rng.integers(1, n - k + 1))
        parts.append(order[k:k + s])
        k += s
    if rng.integers(0, 2):
        parts = [parts[i] for i in rng.permutation(len(parts))]
    return parts


def gen_frame_case(rng):
    pattern, desc = cl.rand_pattern(rng, cmax=5, kinds=['Circular', 'RadialGradient', 'BackgroundSubtraction', 'RadialGradientBackgroundSubtraction'])
    if rng.integers(0, 5) == 0:
        # a user template that is larger than its explicit search window (a ring well outside the window) and has no symmetry
        cs_ = int(rng.integers(3, 6))
        T = 4 * cs_ + int(rng.integers(1, 4))
        yy_, xx_ = np.mgrid[0:T, 0:T]
        rr_ = np.hypot(yy_ - T // 2, xx_ - T // 2)
        t = (rr_ <= cs_ - 1.0).astype(float) - 0.5 * ((rr_ >= 1.4 * cs_) & (rr_ <= 1.9 * cs_)) * (1 + 0.3 * np.sin(np.arctan2(yy_ - T // 2, xx_ - T // 2)))
        desc = {'kind': 'UserTemplate', 'template': t.tolist(), 'search': float(cs_)}
        pattern = cl.pattern_from_desc(desc)
    c = pattern.get_crop_size()
    n = int(rng.integers(1, 9))
    tall = int(rng.integers(0, 3))
    fy, fx = int(rng.integers(2 * c + 6, 48)), int(rng.integers(2 * c + 6, 48))
    if tall == 1 and fx >= fy:
        fy, fx = fx + 7, fy
    dtype = str(rng.choice(['float32', 'float64', 'uint16', 'int32']))
    data = np.stack([cl.rand_frame(rng, fy, fx, str(rng.choice(['noise', 'blobs', 'structured'])))[0] for _ in range(n)]).astype(dtype)
    backend = str(rng.choice(['numpy', 'numpy', 'sparse.COO', 'sparse.GCXS']))
    if rng.integers(0, 3) == 0:
        # event-like data: mostly empty frames with a few counts, some frames completely empty
        data = (rng.random(size=data.shape) < 0.02).astype(dtype) * np.asarray(rng.integers(1, 4, size=data.shape), dtype=dtype)
        data[int(rng.integers(0, n))] = 0
    npk = int(rng.integers(1, 6))
    base = np.array(cl.rand_peaks(rng, fy, fx, c, npk), dtype=np.float64)
    peaks = base + rng.choice([0.0, 0.5, 0.3, -0.5], size=base.shape)
    zk = str(rng.choice(['none', 'const', 'perframe', 'half']))
    if zk == 'none':
        zs = None
    elif zk == 'const':
        zs = np.array([float(rng.integers(-3, 4)), float(rng.uniform(-3, 3))])
    elif zk == 'half':
        zs = np.array([float(rng.integers(-3, 3)) + 0.5, float(rng.integers(-3, 3)) + 0.5])
    else:
        zs = np.round(rng.uniform(-3, 3, size=(n, 2)) * 2) / 2
    limit = int(rng.choice([1, (2 * c) ** 2 * 4, (2 * c) ** 2 * 4 * 2 + 1, 2 ** 19]))
    upsample = [False, False, True, 4][int(rng.integers(0, 4))]
    return dict(pattern=pattern, desc=desc, data=data, peaks=peaks, zs=zs, zk=zk, limit=limit, upsample=upsample,
                parts=rand_partitions(rng, n), method=str(rng.choice(['fast', 'full'])), crop=str(rng.choice(['default', 'slicing'])), backend=backend,
                prerun_radius=(float(desc['radius']) * 0.7 if ('radius' in desc and rng.integers(0, 4) == 0) else None))


def make_udf(c):
    cls = uc.FastCorrelationUDF if c['method'] == 'fast' else uc.FullFrameCorrelationUDF
    zs = c['zs']
    if c['zk'] == 'perframe':
        zs = StubUDF.aux_data(zs, kind='nav', extra_shape=(2,), dtype='float64')
    kw = dict(peaks=c['peaks'], match_pattern=c['pattern'], zero_shift=zs, upsample=c['upsample'])
    kw['__limit'] = c['limit']
    return cls(**kw)


def standalone(c, i):
    """the stand-alone result for frame i with the peak list rounded and shifted by the rounded zero shift"""
    zs = c['zs']
    z = np.zeros(2) if zs is None else (zs[i] if c['zk'] == 'perframe' else zs)
    pk = np.round(c['peaks']).astype(int) + np.round(z).astype(int)
    frame = c['data'][i]
    run = cl.run_fast if c['method'] == 'fast' else cl.run_full
    dtype = np.result_type(frame.dtype, np.float32)
    return run(c['pattern'], frame, pk.tolist(), upsample=c['upsample'], dtype=dtype), pk


def frame_udf_failure(c):
    try:
        override = {'crop_function': blc.crop_disks_from_frame_slicing} if c['crop'] == 'slicing' else None
        if c.get('prerun_radius'):
            # the same pattern OBJECT was used for an earlier run while its public radius had another value (the library re-reads the parameters)
            p_ = c['pattern']
            r_now = p_.radius
            p_.radius = c['prerun_radius']
            run_udf(make_udf(c), c['data'][:1], task_data_override=override, backend=c.get('backend', 'numpy'))
            p_.radius = r_now
        res = run_udf(make_udf(c), c['data'], partitions=c['parts'], task_data_override=override, backend=c.get('backend', 'numpy'))
    except Exception as e:  # noqa
        return 'UDF run raised %s: %s' % (type(e).__name__, e)
    for i in range(len(c['data'])):
        ref, pk = standalone(c, i)
        got = (res['centers'][i], res['refineds'][i], res['peak_values'][i], res['peak_elevations'][i])
        sc = float(np.abs(ref[2]).max()) + 1.0
        if not cl.results_close(got, ref, rtol=1e-5, scale=sc):
            k = [j for j in range(len(pk)) if not cl.results_close(tuple(g[j:j + 1] for g in got), tuple(r[j:j + 1] for r in ref), 1e-5, sc)][0]
            return ('frame %d peak %s (%s UDF%s, back-end %s, partitions %s, limit %d, zero shift %s, crop %s, upsample %s): UDF centre %s refined %s height %.6g, stand-alone centre %s refined %s height %.6g'
                    % (i, pk[k].tolist(), c['method'], ' whose pattern object was used before with radius %s' % c['prerun_radius'] if c.get('prerun_radius') else '', c.get('backend', 'numpy'), c['parts'], c['limit'], c['zk'], c['crop'], c['upsample'], got[0][k].tolist(), got[1][k].tolist(), got[2][k],
                       ref[0][k].tolist(), ref[1][k].tolist(), ref[2][k]))
    return None


# ------------------------------------------------------------------------------------------------------------------
def sparse_case(rng, shared_min):
    pattern, desc = cl.rand_pattern(rng, cmax=3, kinds=['Circular', 'RadialGradient', 'BackgroundSubtraction'])
    if rng.integers(0, 3) == 0:
        # a user template without any symmetry (a mirrored or transposed mask gives another correlation)
        cs_ = int(rng.integers(2, 4))
        ty, tx = int(rng.integers(3, 2 * cs_ + 2)), int(rng.integers(3, 2 * cs_ + 2))
        t = np.round(rng.uniform(0, 1, size=(ty, tx)) * 8) / 8 + np.linspace(0, 1, ty)[:, None] + 2 * np.linspace(0, 1, tx)[None, :]
        desc = {'kind': 'UserTemplate', 'template': t.tolist(), 'search': float(cs_)}
        pattern = cl.pattern_from_desc(desc)
    c = pattern.get_crop_size()
    n = int(rng.integers(1, 4))
    fy, fx = int(rng.integers(8, 15)), int(rng.integers(8, 15))
    data = rng.poisson(3, size=(n, fy, fx)).astype(np.float32) + rng.integers(1, 4, size=(n, 1, 1))
    if shared_min:
        # every row and every column of every frame contains the global minimum 0: all row/column band tiles share the minimum
        for f in range(n):
            for y in range(fy):
                data[f, y, (y * 3 + f) % fx] = 0
            for x in range(fx):
                data[f, (x * 5 + f) % fy, x] = 0
    else:
        y, x = np.mgrid[0:fy, 0:fx]
        data = data + (y * 2 + x)[None].astype(np.float32) + np.arange(n, dtype=np.float32)[:, None, None] * 3
    peaks = np.array(cl.rand_peaks(rng, fy, fx, c, int(rng.integers(1, 3))))
    steps = int(rng.integers(1, 3))
    return dict(pattern=pattern, desc=desc, data=data, peaks=peaks, steps=steps)


def tilings(fy, fx):
    return {'single': ([0, fy], [0, fx]), 'row_bands': ([0, fy // 3, 2 * fy // 3, fy], [0, fx]), 'col_split': ([0, fy], [0, fx // 2, fx]),
            'grid': ([0, fy // 2, fy], [0, fx // 2, fx])}


def tiles_of(rc, cc):
    return [(rc[i], cc[j], rc[i + 1] - rc[i], cc[j + 1] - cc[j]) for i in range(len(rc) - 1) for j in range(len(cc) - 1)]


def run_sparse(c, tiling, depth, parts=None):
    udf = uc.SparseCorrelationUDF(peaks=c['peaks'], match_pattern=c['pattern'], steps=c['steps'])
    return run_udf(udf, c['data'], partitions=parts or [list(range(len(c['data'])))], tiling=tiles_of(*tiling), depth=depth)


def direct_sparse(c):
    """the statement: direct correlation of the log-scaled frame with the mask at the (2 steps + 1)^2 offsets around each peak"""
    pattern, data, peaks, steps = c['pattern'], c['data'], c['peaks'], c['steps']
    cs = pattern.get_crop_size()
    m = np.asarray(pattern.get_mask((2 * cs + 1, 2 * cs + 1)), dtype=np.float64)
    n, fy, fx = data.shape
    out = np.zeros((n, len(peaks), 2 * steps + 1, 2 * steps + 1))
    for f in range(n):
        L = np.log(data[f].astype(np.float64) - data[f].min() + 1)
        for k, p in enumerate(peaks):
            for dy in range(-steps, steps + 1):
                for dx in range(-steps, steps + 1):
                    oy, ox = p[0] + dy - cs, p[1] + dx - cs
                    s = 0.0
                    for ty in range(2 * cs + 1):
                        for tx in range(2 * cs + 1):
                            y, x = oy + ty, ox + tx
                            if 0 <= y < fy and 0 <= x < fx:
                                s += m[ty, tx] * L[y, x]
                    out[f, k, dy + steps, dx + steps] = s
    return out


def sparse_failure(c, rng, only=None):
    """only: (tiling name, depth) -- replay of one recorded schedule"""
    n, fy, fx = c['data'].shape
    T = tilings(fy, fx)
    if only is not None:
        T = {only[0]: T[only[0]]}
    ref = direct_sparse(c).reshape(n, -1)
    sc = float(np.abs(ref).max()) + 1.0
    results = {}
    for name, tl in T.items():
        for depth in ((1, 2, 3) if only is None else (only[1],)):
            if depth > n:
                continue
            try:
                r = run_sparse(c, tl, depth)
            except Exception as e:  # noqa
                return 'SparseCorrelationUDF raised %s: %s' % (type(e).__name__, e), None
            results[(name, depth)] = r
            if not np.allclose(r['corr'], ref, rtol=2e-5, atol=2e-5 * sc):
                d = float(np.abs(r['corr'] - ref).max())
                return ('sparse corr with tiling %s depth %d differs from the direct correlation of the log-scaled frame by %.4g' % (name, depth, d)), (name, depth)
    return None, None


def tile_minima_differ(c, tiling, depth):
    data = c['data']
    n = len(data)
    mins = set()
    for g in range(0, n, depth):
        blk = data[g:g + depth]
        gm = set(float(blk[f].min()) for f in range(len(blk)))
        for (y0, x0, h, w) in tiles_of(*tiling):
            mins.add((float(blk[:, y0:y0 + h, x0:x0 + w].min()), tuple(sorted(gm))))
    return any(m != min(g) or len(g) > 1 for m, g in mins)


def mk_replay_frame(c, fail):
    return {'kind': 'schedule', 'call': '%sCorrelationUDF under the stand-in runner' % ('Fast' if c['method'] == 'fast' else 'FullFrame'),
            'args': {'pattern': c['desc'], 'data': c['data'].tolist(), 'dtype': str(c['data'].dtype), 'peaks': c['peaks'].tolist(), 'zero_shift_kind': c['zk'],
                     'zero_shift': None if c['zs'] is None else np.asarray(c['zs']).tolist(), 'limit': c['limit'], 'upsample': c['upsample'], 'partitions': c['parts'],
                     'method': c['method'], 'crop': c['crop'], 'backend': c.get('backend', 'numpy'), 'prerun_radius': c.get('prerun_radius')}, 'failure': fail}


def replay(body):
    a = body['args']
    if 'sparse' in body.get('call', ''):
        c = dict(pattern=cl.pattern_from_desc(a['pattern']), desc=a['pattern'], data=np.array(a['data'], dtype=np.float32), peaks=np.array(a['peaks']), steps=a['steps'])
        fail, where = sparse_failure(c, np.random.default_rng(0), only=tuple(a['tiling']) if a.get('tiling') else None)
    else:
        c = dict(pattern=cl.pattern_from_desc(a['pattern']), desc=a['pattern'], data=np.array(a['data'], dtype=a['dtype']), peaks=np.array(a['peaks']),
                 zs=None if a['zero_shift'] is None else np.array(a['zero_shift']), zk=a['zero_shift_kind'], limit=a['limit'], upsample=a['upsample'], parts=a['partitions'],
                 method=a['method'], crop=a['crop'], backend=a.get('backend', 'numpy'), prerun_radius=a.get('prerun_radius'))
        fail = frame_udf_failure(c)
    print(json.dumps({'failure_now': fail}, indent=1))
    if fail:
        print('VIOLATION property=C10 replay=(given)')
        return 1
    return 0


def run(ctx):
    rng = ctx.rng
    ctx.check_theorems()
    ctx.check_generated(['blocks', 'crop', 'kcalls', 'k', 'kblocks', 'ucorr', 'dudf', 'kups', 'uzs'])

    # (K1) peaks handed to the stand-alone function: spied from the running UDF vs UDF.shifted_peak
    spied = []
    orig = blc.process_frame_fast

    def spy(*args, **kw):
        spied.append(np.array(kw['peaks']).copy())
        return orig(*args, **kw)
    exprs, want = [], []
    try:
        uc.ltbc.process_frame_fast = spy
        pattern, desc = cl.rand_pattern(rng, cmax=3, kinds=['RadialGradient'])
        for k in range(ctx.n(12, 60)):
            pk = np.round(rng.uniform(4, 20, size=(3, 2)) * 4) / 4 + rng.choice([0, 0.5], size=(3, 2))
            zs = np.round(rng.uniform(-3, 3, 2) * 4) / 4 + rng.choice([0, 0.5], size=2)
            data = np.zeros((1, 24, 24), dtype=np.float32)
            spied.clear()
            run_udf(uc.FastCorrelationUDF(peaks=pk, match_pattern=pattern, zero_shift=zs), data)
            want.append(spied[0].tolist())
            exprs.append('map (fun p => match shifted_peak p %s with (y, x) => [y; x] end) [%s]' % (qv(zs), '; '.join(qv(p) for p in pk)))
            ctx.count(3, key=('shift', pk.tolist(), zs.tolist()))
    finally:
        uc.ltbc.process_frame_fast = orig
    got = ctx.coq_eval('shift', 'Model.Lattice Model.Match Model.UDF', exprs)
    bad = [(w, g) for w, g in zip(want, got) if w != g]
    ctx.obligation('K:C10 peaks passed by the UDF = UDF.shifted_peak = round(peaks) + round(zero_shift) (%d runs)' % len(want), not bad, str(bad[:2]))

    # (K2) sparse UDF: corr buffer vs UDF.sparse_corr_code (per-tile minimum, table-driven log) on small integer data
    exprs, meta = [], []
    for k in range(ctx.n(6, 40)):
        c = sparse_case(rng, shared_min=bool(k % 2))
        c['data'] = np.round(c['data']).astype(np.float32)
        n, fy, fx = c['data'].shape
        name = ['single', 'row_bands', 'col_split', 'grid'][k % 4]
        rc, cc = tilings(fy, fx)[name]
        depth = 1 + (k % 2) if n >= 2 else 1
        r = run_sparse(c, (rc, cc), depth)
        cs = c['pattern'].get_crop_size()
        tm = cl.quant(np.asarray(c['pattern'].get_mask((2 * cs + 1, 2 * cs + 1)), dtype=np.float64))
        steps = c['steps']
        ints = c['data'].astype(np.int64)
        for f in range(min(n, 2)):
            g0 = (f // depth) * depth
            stack = ints[g0:g0 + depth]
            args = set()
            for (y0, x0, h, w) in tiles_of(rc, cc):
                blk = stack[:, y0:y0 + h, x0:x0 + w]
                args |= set(int(v) for v in (ints[f, y0:y0 + h, x0:x0 + w] - blk.min() + 1).flat)
            tab = cl.log_table(sorted(args), 1)
            for kk, p in enumerate(c['peaks'][:1]):
                for (dy, dx) in ((0, 0), (-steps, steps)):
                    oy, ox = int(p[0]) + dy - cs, int(p[1]) + dx - cs
                    exprs.append('sparse_corr_code (lookup %s) 1 (grid_tiles %s %s) %d %d (Stamp.of_list2 %s) %s %s %d %d [%s] (Crop.of_list2 %s)'
                                 % (cl.ctab(tab), core.clist(rc), core.clist(cc), 2 * cs + 1, 2 * cs + 1, clist2(tm.tolist()), cz(oy), cz(ox), fy, fx,
                                    '; '.join('Crop.of_list2 %s' % clist2(s.tolist()) for s in stack), clist2(ints[f].tolist())))
                    mi = kk * (2 * steps + 1) ** 2 + (dy + steps) * (2 * steps + 1) + (dx + steps)
                    meta.append((float(r['corr'][f, mi]), name, depth, f, (dy, dx)))
    vals = ctx.coq_eval('sparse', cl.COQ_IMPORTS + ' Model.Stamp Model.UDF', exprs, shard=6, timeout=1500)
    nbad = 0
    for mv, (iv, name, depth, f, d) in zip(vals, meta):
        m = mv / float(cl.QS) ** 2
        ctx.count(1, key=('sparse', name, depth, f, d, iv))
        if abs(m - iv) > 2e-4 * (abs(m) + 1):
            nbad += 1
            ctx.obligation('K:C10 sparse corr entry', False, 'model %.6g impl %.6g (tiling %s depth %d frame %d offset %s)' % (m, iv, name, depth, f, d))
    ctx.obligation('K:C10 SparseCorrelationUDF corr buffer = UDF.sparse_corr_code (per-tile minimum incl. stacked frames) for %d entries' % len(vals), nbad == 0, '%d mismatches' % nbad)

    # (S1) frame UDFs vs stand-alone under random schedules
    nS = ctx.n(40, 1000)
    for k in range(nS):
        c = gen_frame_case(rng)
        fail = frame_udf_failure(c)
        ctx.count(len(c['data']), key=(c['desc'], c['data'].shape, c['peaks'].tolist(), c['parts'], c['limit'], c['zk'], c['method'], c['crop'], c['upsample'], c['backend']))
        for nm in ('method', 'zk', 'crop', 'upsample', 'limit', 'backend'):
            ctx.hist(nm, c[nm])
        ctx.hist('partitions', len(c['parts']))
        if len(ctx.cov['samples']) < 4:
            ctx.sample({'udf': c['method'], 'frames': len(c['data']), 'shape': list(c['data'].shape[1:]), 'dtype': str(c['data'].dtype), 'partitions': c['parts'], 'limit': c['limit'],
                        'zero_shift': c['zk'], 'crop_function': c['crop'], 'upsample': c['upsample'], 'peaks': c['peaks'].tolist()})
        if fail:
            ctx.violation('input', fail, mk_replay_frame(c, fail))
            break

    # (S2) sparse UDF: rejects a zero shift; tiling independence / equals the direct correlation
    try:
        uc.SparseCorrelationUDF(peaks=np.array([[5, 5]]), match_pattern=cl.make_pattern('Circular', 2.0, 3.0), steps=1, zero_shift=np.array([1.0, 0.0]))
        ctx.violation('input', 'SparseCorrelationUDF accepted a zero shift', {'kind': 'input', 'call': 'SparseCorrelationUDF', 'args': {'zero_shift': [1.0, 0.0]}})
    except ValueError:
        pass
    for k in range(ctx.n(6, 60)):
        shared = (k % 3 != 0)
        c = sparse_case(rng, shared_min=shared)
        fail, where = sparse_failure(c, rng)
        ctx.count(len(c['data']) * 8, key=('sparse-oracle', c['data'].tolist(), c['peaks'].tolist(), c['steps']))
        ctx.hist('sparse_data', 'tiles share the minimum' if shared else 'tile minima differ')
        if fail:
            n, fy, fx = c['data'].shape
            differs = where is not None and tile_minima_differ(c, tilings(fy, fx)[where[0]], where[1])
            sig = KNOWN_SIG if differs else fail
            ctx.violation('input', fail + (' [tile minima differ]' if differs else ' [all tiles share the frame minimum]'),
                          {'kind': 'schedule', 'call': 'SparseCorrelationUDF (sparse) under the stand-in runner',
                           'args': {'pattern': c['desc'], 'data': c['data'].tolist(), 'peaks': c['peaks'].tolist(), 'steps': c['steps'], 'tiling': where}, 'failure': fail}, signature=sig)
            if not differs:
                break
    ctx.assumptions.append('LiberTEM is not installed: the UDF classes run under harness/stubs/libertem (explicit-schedule runner, dense MaskContainer); this runner is the UDF semantics for this check')
    return ctx.finish(
        LEVEL,
        explanation='Theorems: any partitioning/order/buffer count/back-end gives the stand-alone per-frame result (state-machine induction over partitions and frames); '
                    'tile-wise summation over any band grid = sum over the plane; masked dot product = direct correlation with zero padding; the code\'s per-tile log '
                    'scaling is tiling independent only when tiles share the minimum (partial) and refuted in general (known finding F9). Tie: spied peaks vs shifted_peak, '
                    'sparse corr buffer vs the per-tile model; oracle: real UDF classes under the stand-in runner vs the stand-alone functions.',
        rule='1..8 frames, random set partitions in permuted order, byte limits 1 / one crop / two crops+1 / 512 kB, zero shift none/constant/per-frame/half-integer, '
             'fractional peaks, upsampling off/True/4, dtypes, default and slicing crop function, numpy / sparse.COO / sparse.GCXS array back-ends (frames delivered in that format), event-like data with empty frames, tall/wide frames; sparse: 4 tilings x depth 1..3, data with shared and with differing tile minima.')
