"""C06 - Lattice fits are the weighted least-squares optimum and affine-covariant."""
import json
import math

import numpy as np

import core
from core import cq
from latlib import F, qv, fvec, fq, pts, rand_lattice
from libertem_blobfinder.common import gridmatching as grm

LEVEL = 'proof'


def gen(rng):
    n = int(rng.integers(3, 61)) if rng.integers(0, 4) else int(rng.integers(3, 6))
    zero, a, b = rand_lattice(rng, lmin=5, lmax=60)
    while True:
        if rng.integers(0, 2):
            idx = rng.integers(-6, 7, size=(n, 2)).astype(float)
        else:
            idx = np.round(rng.uniform(-6, 6, size=(n, 2)) * 4) / 4
        M = np.hstack([np.ones((n, 1)), idx])
        if np.linalg.matrix_rank(M) == 3 and np.linalg.cond(M) < 100:
            break
    if rng.random() < 0.15:
        # indices that are nearly -- but not -- whole numbers relative to their size: expected pixel positions for unit base vectors on a large
        # frame, or indices relative to a reference lattice strained by a few ppm
        if rng.integers(0, 2):
            idx = rng.integers(1200, 2900, size=(n, 2)).astype(float) + rng.uniform(0, 0.0145, size=(n, 2))
            a, b = np.array([1.0, 0.0]) + rng.normal(0, 1e-3, 2), np.array([0.0, 1.0]) + rng.normal(0, 1e-3, 2)
        else:
            idx = rng.integers(-40, 41, size=(n, 2)).astype(float) * (1 + 6e-6)
        M = np.hstack([np.ones((n, 1)), idx - idx.mean(axis=0)])
        if np.linalg.matrix_rank(M) < 3 or np.linalg.cond(M) > 100:
            idx = np.array([[-40.0, 3.0], [17.0, 40.0], [39.0, -22.0], [5.0, 5.0]] * (n // 4 + 1))[:n] * (1 + 6e-6) + np.arange(n)[:, None]
    pos = zero + idx @ np.array([a, b]) + rng.normal(0, rng.choice([0.0, 0.3, 3.0]), size=(n, 2))
    w = np.exp(rng.uniform(np.log(1e-2), np.log(100), n)) if rng.integers(0, 2) else rng.uniform(0.01, 100, n)
    return idx, pos, w


def wcost(z, a, b, idx, pos, w):
    calc = z + idx @ np.array([a, b])
    return float((w * ((pos - calc) ** 2).sum(axis=1)).sum())


def stmt_failure(idx, pos, w, seed=0):
    rng = np.random.default_rng(seed)          # the random affine map and perturbations are a function of the recorded seed (replays reproduce)
    matcher = grm.Matcher()
    try:
        m = core.call_guarded(matcher.affinematch, centers=pos, refineds=pos, peak_values=w, peak_elevations=w, indices=idx)
    except Exception as e:  # noqa
        return 'affinematch raised %s: %s' % (type(e).__name__, e)
    if m.isnan():
        return 'affinematch returned an invalid match for well-conditioned input'
    if len(m) != len(pos) or not m.selector.all():
        return 'affinematch selected %d of %d points' % (len(m), len(pos))
    sc = max(1.0, np.abs(pos).max())
    c0 = wcost(m.zero, m.a, m.b, idx, pos, w)
    # normal equations (weighted residuals orthogonal to the regressors)
    res = pos - (m.zero + idx @ np.array([m.a, m.b]))
    A = np.hstack([np.ones((len(idx), 1)), idx])
    g = A.T @ (w[:, None] * res)
    gs = (np.abs(A).T @ (w[:, None] * (np.abs(res) + 1e-12 * sc)))
    if (np.abs(g) > 1e-7 * gs + 1e-9 * w.sum() * sc).any():
        return 'fit does not satisfy the weighted normal equations (not the weighted least-squares optimum): gradient %s' % g.tolist()
    for _ in range(20):
        d = rng.normal(0, 1e-3 * sc, size=(3, 2))
        if wcost(m.zero + d[0], m.a + d[1], m.b + d[2], idx, pos, w) < c0 * (1 - 1e-9) - 1e-12:
            return 'a perturbed lattice has a smaller weighted cost than the returned one'
    # error = elevation-weighted mean residual distance
    dist = np.linalg.norm(res, axis=1)
    e = float((dist * w).sum() / w.sum())
    if abs(m.error - e) > 1e-9 * max(1.0, e):
        return 'error %.9g is not the elevation-weighted mean residual distance %.9g' % (m.error, e)
    # methods of a match
    mm = grm.Match(grm.CorrelationResult(centers=pos, refineds=pos, peak_values=w, peak_elevations=w), selector=None, zero=None, a=None, b=None, indices=idx)
    mw = mm.weighted_optimize()
    if not (np.allclose(mw.zero, m.zero, atol=1e-9 * sc) and np.allclose(mw.a, m.a, atol=1e-9 * sc) and np.allclose(mw.b, m.b, atol=1e-9 * sc)):
        return 'weighted_optimize differs from affinematch'
    mu = mm.optimize()
    ru = pos - (mu.zero + idx @ np.array([mu.a, mu.b]))
    gu = A.T @ ru
    if (np.abs(gu) > 1e-7 * (np.abs(A).T @ (np.abs(ru) + 1e-12 * sc)) + 1e-9 * len(idx) * sc).any():
        return 'optimize is not the unweighted least-squares optimum'
    # the fit does not depend on matcher settings that concern matching only (tolerance, min_weight, min_match: the indices are given)
    m4 = grm.Matcher(tolerance=0.5, min_weight=float(w.max()) + 1.0, min_match=len(pos) + 3).affinematch(centers=pos, refineds=pos, peak_values=w, peak_elevations=w, indices=idx)
    if m4.isnan() or len(m4) != len(pos) or not (np.array_equal(m4.zero, m.zero) and np.array_equal(m4.a, m.a) and np.array_equal(m4.b, m.b)):
        return 'affinematch depends on the matcher\'s min_match / min_weight / tolerance (selected %d of %d, invalid=%s)' % (len(m4), len(pos), m4.isnan())
    # a Match that was inspected (error, calculated positions) BEFORE being optimised reports the optimised lattice afterwards
    ms = grm.Match(grm.CorrelationResult(centers=pos, refineds=pos, peak_values=w, peak_elevations=w), selector=None,
                   zero=m.zero + np.array([1.5, -2.0]), a=m.a * 1.03, b=m.b + np.array([0.4, 0.3]), indices=idx)
    e_before, c_before = ms.error, ms.calculated_refineds.copy()
    for nm, mo in (('weighted_optimize', ms.weighted_optimize()), ('optimize', ms.optimize())):
        calc = mo.zero + idx @ np.array([mo.a, mo.b])
        e_want = float((np.linalg.norm(pos - calc, axis=1) * w).sum() / w.sum())
        if not np.allclose(mo.calculated_refineds, calc, atol=1e-9 * sc) or abs(mo.error - e_want) > 1e-9 * max(1.0, e_want):
            return ('%s() of a Match whose error / calculated_refineds had been read before: reported error %.6g, calculated positions off by %.3g; '
                    'the returned lattice has error %.6g' % (nm, mo.error, float(np.abs(mo.calculated_refineds - calc).max()), e_want))
    # omitted elevations are ones (documented default), whatever the peak values are: the fit is then the unweighted optimum
    mv_ = matcher.affinematch(centers=pos, refineds=pos, peak_values=w, indices=idx)
    if mv_.isnan() or not (np.allclose(mv_.zero, mu.zero, atol=1e-7 * sc, rtol=0) and np.allclose(mv_.a, mu.a, atol=1e-7 * sc, rtol=0) and np.allclose(mv_.b, mu.b, atol=1e-7 * sc, rtol=0)):
        return 'affinematch with peak values but without peak elevations is not the unweighted optimum (the default elevations are ones): zero %s instead of %s' % (
            np.asarray(mv_.zero).tolist(), np.asarray(mu.zero).tolist())
    e_unw = float(np.linalg.norm(pos - (mu.zero + idx @ np.array([mu.a, mu.b])), axis=1).mean())
    if abs(mv_.error - e_unw) > 1e-7 * max(1.0, e_unw) * sc:
        return 'affinematch without peak elevations: error %.9g is not the plain mean residual distance %.9g' % (mv_.error, e_unw)
    # the fit is a function of positions, indices and weights only: whatever lattice the Match object carried before (none, NaN as in an
    # invalid match, infinite, absurdly far off) must not matter
    for nm, z0, a0, b0 in (('NaN', np.full(2, np.nan), np.full(2, np.nan), np.full(2, np.nan)), ('inf zero', np.full(2, np.inf), m.a, m.b),
                           ('zero = (1e20, -1e20)', np.array([1e20, -1e20]), m.a, m.b), ('a = b = 0', m.zero, np.zeros(2), np.zeros(2))):
        md = grm.Match(grm.CorrelationResult(centers=pos, refineds=pos, peak_values=w, peak_elevations=w), selector=None, zero=z0, a=a0, b=b0, indices=idx)
        for meth, want in (('weighted_optimize', m), ('optimize', mu)):
            try:
                got = getattr(md, meth)()
            except Exception as e:  # noqa
                return '%s() of a Match that carried the lattice %s raised %s: %s' % (meth, nm, type(e).__name__, e)
            if not (np.allclose(got.zero, want.zero, atol=1e-7 * sc, rtol=0) and np.allclose(got.a, want.a, atol=1e-7 * sc, rtol=0) and np.allclose(got.b, want.b, atol=1e-7 * sc, rtol=0)):
                return '%s() depends on the lattice the Match carried before (%s): zero %s, a %s, b %s instead of zero %s, a %s, b %s' % (
                    meth, nm, np.asarray(got.zero).tolist(), np.asarray(got.a).tolist(), np.asarray(got.b).tolist(), np.asarray(want.zero).tolist(), np.asarray(want.a).tolist(), np.asarray(want.b).tolist())
    # rescaling the weights
    for k in (1e-30, 1e-14, 1e-11, 1e-8, 1e-6, 1e-3, 0.5, 7.0, 1e3, 1e6, 1e12):
        m2 = matcher.affinematch(centers=pos, refineds=pos, peak_values=w * k, peak_elevations=w * k, indices=idx)
        if m2.isnan() or len(m2) != len(pos) or not (np.allclose(m2.zero, m.zero, atol=1e-7 * sc) and np.allclose(m2.a, m.a, atol=1e-7 * sc) and np.allclose(m2.b, m.b, atol=1e-7 * sc)):
            return 'rescaling all weights by %s changes the fit (selected %d of %d)' % (k, len(m2), len(pos))
    # affine covariance
    while True:
        L = rng.normal(0, 1, size=(2, 2))
        if np.linalg.cond(L) <= 100:
            break
    t = rng.uniform(-50, 50, 2)
    pos2 = pos @ L + t
    m3 = matcher.affinematch(centers=pos2, refineds=pos2, peak_values=w, peak_elevations=w, indices=idx)
    sc2 = max(1.0, np.abs(pos2).max(), sc)
    if m3.isnan() or not (np.allclose(m3.zero, m.zero @ L + t, atol=1e-7 * sc2) and np.allclose(m3.a, m.a @ L, atol=1e-7 * sc2) and np.allclose(m3.b, m.b @ L, atol=1e-7 * sc2)):
        return 'fit is not covariant under the affine map L=%s t=%s' % (L.tolist(), t.tolist())
    return None


def history_failure(rng, ncalls=4):
    '''one Matcher object and one index / position / weight buffer re-filled in place between calls: every call must give
    what a fresh Matcher gives on fresh arrays (no state carried over between calls)'''
    n = int(rng.integers(4, 12))
    matcher = grm.Matcher()
    bi, bp, bw = np.zeros((n, 2)), np.zeros((n, 2)), np.zeros(n)
    hist = []
    for c in range(ncalls):
        while True:
            idx, pos, w = gen(rng)
            if len(idx) >= n:
                idx, pos, w = idx[:n], pos[:n], w[:n]
                M = np.hstack([np.ones((n, 1)), idx])
                if np.linalg.matrix_rank(M) == 3 and np.linalg.cond(M) < 100:
                    break
        bi[:], bp[:], bw[:] = idx, pos, w
        hist.append((idx.tolist(), pos.tolist(), w.tolist()))
        try:
            m = matcher.affinematch(centers=bp, refineds=bp, peak_values=bw, peak_elevations=bw, indices=bi)
            ref = grm.Matcher().affinematch(centers=pos.copy(), refineds=pos.copy(), peak_values=w.copy(), peak_elevations=w.copy(), indices=idx.copy())
        except Exception as e:  # noqa
            return 'affinematch raised %s in call %d of a history' % (type(e).__name__, c), hist
        if not (np.array_equal(m.zero, ref.zero) and np.array_equal(m.a, ref.a) and np.array_equal(m.b, ref.b) and m.error == ref.error):
            return ('call %d on a re-used Matcher with index/position/weight buffers re-filled in place gives zero %s a %s b %s, a fresh Matcher on fresh arrays gives zero %s a %s b %s'
                    % (c, np.asarray(m.zero).tolist(), np.asarray(m.a).tolist(), np.asarray(m.b).tolist(), np.asarray(ref.zero).tolist(), np.asarray(ref.a).tolist(), np.asarray(ref.b).tolist())), hist
    return None, hist


def mk_replay(idx, pos, w, fail, seed=0):
    return {'kind': 'input', 'call': 'Matcher.affinematch / Match.weighted_optimize', 'args': {'indices': idx.tolist(), 'positions': pos.tolist(), 'weights': w.tolist(), 'seed': int(seed)}, 'failure': fail}


def replay_history(hist):
    matcher = grm.Matcher()
    n = len(hist[0][0])
    bi, bp, bw = np.zeros((n, 2)), np.zeros((n, 2)), np.zeros(n)
    for c, (idx, pos, w) in enumerate(hist):
        idx, pos, w = np.array(idx), np.array(pos), np.array(w)
        bi[:], bp[:], bw[:] = idx, pos, w
        m = matcher.affinematch(centers=bp, refineds=bp, peak_values=bw, peak_elevations=bw, indices=bi)
        ref = grm.Matcher().affinematch(centers=pos.copy(), refineds=pos.copy(), peak_values=w.copy(), peak_elevations=w.copy(), indices=idx.copy())
        if not (np.array_equal(m.zero, ref.zero) and np.array_equal(m.a, ref.a) and np.array_equal(m.b, ref.b)):
            return 'call %d of the history differs from a fresh Matcher on fresh arrays' % c
    return None


def replay(body):
    a = body['args']
    if 'history' in a:
        fail = replay_history(a['history'])
        print(json.dumps({'failure_now': fail}, indent=1))
        if fail:
            print('VIOLATION property=C06 replay=(given)')
            return 1
        return 0
    fail = stmt_failure(np.array(a['indices']), np.array(a['positions']), np.array(a['weights']), a.get('seed', 0))
    print(json.dumps({'failure_now': fail}, indent=1))
    if fail:
        print('VIOLATION property=C06 replay=(given)')
        return 1
    return 0


def run(ctx):
    rng = ctx.rng
    ctx.check_theorems()
    ctx.check_generated(['vfit', 'vdefaults'])
    exprs, meta = [], []
    for k in range(ctx.n(60, 600)):
        idx, pos, w = gen(rng)
        if len(idx) > 12:
            idx, pos, w = idx[:12], pos[:12], w[:12]
            if np.linalg.matrix_rank(np.hstack([np.ones((12, 1)), idx])) < 3 or np.linalg.cond(np.hstack([np.ones((12, 1)), idx])) > 100:
                continue
        l = pts(w, idx, pos)
        exprs.append('let l := %s in (match wls3 l with Some (z0, a0, b0) => let z := vred z0 in let a := vred a0 in let b := vred b0 in (1, vout z, vout a, vout b, map (fun q => qpair (resid2 z a b q)) l) | None => (0, vout vzero, vout vzero, vout vzero, []) end, '
                     'match wls3 (unit_weights l) with Some (z, a, b) => (1, vout z, vout a, vout b) | None => (0, vout vzero, vout vzero, vout vzero) end)' % l)
        meta.append((idx, pos, w))
        ctx.hist('points', len(idx))
    vals = ctx.coq_eval('k', 'Model.Lattice Model.WLS', exprs, shard=4, timeout=1500)
    ndis = 0
    for mv, (idx, pos, w) in zip(vals, meta):
        # Coq prints the left-nested tuple flat: (ok, z, a, b, r2, (oku, zu, au, bu))
        ok, z, a, b, r2, (oku, zu, au, bu_) = mv
        problems = []
        matcher = grm.Matcher()
        m = matcher.affinematch(centers=pos, refineds=pos, peak_values=w, peak_elevations=w, indices=idx)
        sc = max(1.0, np.abs(pos).max())
        cond = np.linalg.cond(np.hstack([np.ones((len(idx), 1)), idx]) * np.sqrt(w)[:, None])
        tol = 1e-10 * cond * sc + 1e-9
        if ok != 1 or m.isnan():
            problems.append('validity: model %s impl nan=%s' % (ok, m.isnan()))
        else:
            for nm, mvq, iv in (('zero', z, m.zero), ('a', a, m.a), ('b', b, m.b)):
                if np.abs(fvec(mvq) - iv).max() > tol:
                    problems.append('%s model %s impl %s' % (nm, fvec(mvq).tolist(), np.asarray(iv).tolist()))
            d = np.sqrt(np.array([fq(q) for q in r2]))
            e = float((d * w).sum() / w.sum())
            if abs(e - m.error) > 1e-8 * cond * max(1.0, e):
                problems.append('error model %.12g impl %.12g' % (e, m.error))
            mu = grm.Match(grm.CorrelationResult(centers=pos, refineds=pos, peak_values=w, peak_elevations=w), selector=None, zero=None, a=None, b=None, indices=idx).optimize()
            condu = np.linalg.cond(np.hstack([np.ones((len(idx), 1)), idx]))
            for nm, mvq, iv in (('zero(unweighted)', zu, mu.zero), ('a(unweighted)', au, mu.a), ('b(unweighted)', bu_, mu.b)):
                if oku != 1 or np.abs(fvec(mvq) - iv).max() > 1e-10 * condu * sc + 1e-9:
                    problems.append('%s model %s impl %s' % (nm, fvec(mvq).tolist(), np.asarray(iv).tolist()))
        ctx.count(1, key=(idx.tolist(), pos.tolist(), w.tolist()))
        if len(ctx.cov['samples']) < 3:
            ctx.sample({'n_points': len(idx), 'indices': idx[:4].tolist(), 'weights': w[:4].tolist(), 'impl_zero_a_b': [np.asarray(m.zero).tolist(), np.asarray(m.a).tolist(), np.asarray(m.b).tolist()],
                        'model_zero_a_b': [fvec(z).tolist(), fvec(a).tolist(), fvec(b).tolist()], 'condition': float(cond)})
        if problems:
            ndis += 1
            fail = stmt_failure(idx, pos, w)
            if fail:
                ctx.violation('input', fail, mk_replay(idx, pos, w, fail))
            else:
                ctx.obligation('K:C06 case', False, '; '.join(problems)[:600])
    ctx.obligation('K:C06 correspondence WLS.wls3 / resid2 (exact rational normal equations) vs affinematch / optimize / error (%d fits)' % len(vals), ndis == 0, '%d disagreements' % ndis)

    # singular inputs: exactly collinear indices -> model None ; implementation: invalid match or LinAlgError handled
    for k in range(5):
        idx = np.array([[0, 0], [1, 1], [2, 2], [3, 3]], dtype=float) * (k + 1)
        pos = rng.uniform(0, 50, size=(4, 2))
        w = np.ones(4)
        mv = ctx.coq_eval('sing%d' % k, 'Model.Lattice Model.WLS', ['match wls3 %s with Some _ => 1 | None => 0 end' % pts(w, idx, pos)])[0]
        ctx.obligation('K:C06 collinear indices are singular in the model (%d)' % k, mv == 0, str(mv))

    nS = ctx.n(120, 2500)
    for k in range(ctx.n(10, 100)):
        fail, hist = history_failure(rng)
        ctx.count(len(hist), key=('history', json.dumps(hist)[:300]))
        if fail:
            ctx.violation('input', fail, {'kind': 'history', 'call': 'Matcher.affinematch (re-used object and buffers)', 'args': {'history': hist}, 'failure': fail})
            break
    for k in range(nS):
        idx, pos, w = gen(rng)
        sd = int(rng.integers(0, 2 ** 31))
        fail = stmt_failure(idx, pos, w, sd)
        ctx.count(1)
        if fail:
            ctx.violation('input', fail, mk_replay(idx, pos, w, fail, sd))
            break
    return ctx.finish(
        LEVEL,
        explanation='Theorems over Q for any number of points: Cramer solution solves the weighted normal equations, which minimises the weighted cost for '
                    'non-negative weights; uniqueness; weight rescaling invariance; linearity in the response = affine covariance; exact data recovered. Tie: '
                    'wls3/resid2 in exact rationals vs affinematch / weighted_optimize / optimize / error (lstsq) on the same floats, tolerance 1e-10 x condition.',
        rule='3..60 points (K: <= 12), integer or quarter-integer indices of rank 3 and condition < 100, residuals 0 / 0.3 / 3 px, weights in (0.01, 100] log- or '
             'uniformly spread; oracle: normal equations, perturbations, error formula, optimize, weight rescaling, random affine maps cond <= 100.')
