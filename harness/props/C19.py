"""C19 - Sparse mask stacks equal dense stamping with clipping."""
import itertools
import json
import math
from fractions import Fraction

import numpy as np

import core
from core import cz, clist2
import corrlib as cl
from libertem_blobfinder.base import masks
from libertem_blobfinder.common import patterns as pat

LEVEL = 'proof'


def dense_stamp(tmpl, oy, ox, H, W):
    out = np.zeros((H, W), dtype=np.float64)
    th, tw = tmpl.shape
    for ty in range(th):
        for tx in range(tw):
            y, x = ty + oy, tx + ox
            if 0 <= y < H and 0 <= x < W:
                out[y, x] = tmpl[ty, tx]
    return out


def stack_failure(tmpl, H, W, placements):
    """placements: list of (layer, oy, ox) with distinct layers"""
    idx = [p[0] for p in placements]
    if tmpl.ndim == 2 and min(tmpl.shape) > 1 and (len(placements) + tmpl.shape[0]) % 3 == 0:
        tmpl = np.asfortranarray(tmpl) if len(placements) % 2 else np.ascontiguousarray(tmpl.T).T      # same values, not C-contiguous
    try:
        st = masks.sparse_template_multi_stack(mask_index=idx, offsetX=np.array([p[2] for p in placements]), offsetY=np.array([p[1] for p in placements]),
                                               template=tmpl, imageSizeX=W, imageSizeY=H)
        d = np.asarray(st.todense(), dtype=np.float64)
    except Exception as e:  # noqa
        return 'sparse_template_multi_stack raised %s: %s' % (type(e).__name__, e)
    if d.shape != (max(idx) + 1, H, W):
        return 'stack shape %s != %s' % (d.shape, (max(idx) + 1, H, W))
    for l in range(max(idx) + 1):
        exp = np.zeros((H, W))
        for (ll, oy, ox) in placements:
            if ll == l:
                exp += dense_stamp(np.asarray(tmpl, dtype=np.float64), oy, ox, H, W)
        if not np.array_equal(d[l], exp):
            return 'layer %d differs from the clipped dense stamp: got %s expected %s' % (l, d[l].tolist(), exp.tolist())
        # a layer taken out of the sparse stack (what a consumer indexing the stack sees) is the same layer
        try:
            dl = np.asarray(st[l].todense(), dtype=np.float64)
        except Exception as e:  # noqa
            return 'indexing layer %d of the sparse stack raised %s: %s' % (l, type(e).__name__, e)
        if not np.array_equal(dl, exp):
            return 'stack[%d] (layer access on the sparse stack, mask_index order %s) differs from the clipped dense stamp: got %s expected %s' % (l, idx, dl.tolist(), exp.tolist())
    return None


def circ_failure(cy, cx, H, W, radius, ctype='list'):
    """ctype: the centres are passed as plain lists or as arrays of that dtype (unsigned dtypes: non-negative centres only)"""
    ay, ax = (list(cy), list(cx)) if ctype == 'list' else (np.array(cy, dtype=ctype), np.array(cx, dtype=ctype))
    try:
        st = np.asarray(masks.sparse_circular_multi_stack(mask_index=list(range(len(cy))), centerX=ax, centerY=ay, imageSizeX=W, imageSizeY=H, radius=radius).todense())
    except Exception as e:  # noqa
        return 'sparse_circular_multi_stack (centres as %s) raised %s: %s' % (ctype, type(e).__name__, e)
    if st.shape != (len(cy), H, W):
        return 'sparse circular stack (centres as %s) has shape %s, expected %s' % (ctype, st.shape, (len(cy), H, W))
    yy, xx = np.mgrid[0:H, 0:W]
    for i in range(len(cy)):
        exp = ((yy - cy[i]) ** 2 + (xx - cx[i]) ** 2 <= radius * radius)
        if not np.array_equal(st[i].astype(bool), exp) or not np.array_equal(st[i], masks.circular(centerX=cx[i], centerY=cy[i], imageSizeX=W, imageSizeY=H, radius=radius)):
            return 'sparse circular layer %d (centre %s given as %s, radius %s) differs from the dense disk' % (i, (cy[i], cx[i]), ctype, radius)
    return None


def fv_failure(desc, H, W, peaks):
    pattern = cl.pattern_from_desc(desc)
    c = pattern.get_crop_size()
    pk = np.asarray(peaks, dtype=np.int64)
    pk0 = pk.copy()
    pat.feature_vector(imageSizeX=W, imageSizeY=H, peaks=pk, match_pattern=pattern)          # an earlier call with the same array
    if not np.array_equal(pk, pk0):
        return 'feature_vector modified the peaks array passed in: %s -> %s' % (pk0.tolist(), pk.tolist())
    st = np.asarray(pat.feature_vector(imageSizeX=W, imageSizeY=H, peaks=pk, match_pattern=pattern).todense(), dtype=np.float64)
    m = np.asarray(pattern.get_mask((2 * c + 1, 2 * c + 1)), dtype=np.float64)
    if st.shape != (len(peaks), H, W):
        return 'feature_vector stack shape %s' % (st.shape,)
    for i, p in enumerate(peaks):
        exp = dense_stamp(m, p[0] - c, p[1] - c, H, W)
        if not np.allclose(st[i], exp, atol=1e-12):
            return 'feature_vector layer %d (peak %s): mask centre pixel not on the peak / not the clipped (2c+1)^2 mask' % (i, tuple(p))
    return None


def replay(body):
    a = body['args']
    if body['call'] == 'sparse_template_multi_stack':
        fail = stack_failure(np.array(a['template'], dtype=np.float64), a['H'], a['W'], [tuple(p) for p in a['placements']])
    elif body['call'] == 'sparse_circular_multi_stack':
        for h in a.get('history', []):         # the calls made earlier in the recorded run (module-level state keyed by a derived size)
            circ_failure(h['cy'], h['cx'], h['H'], h['W'], h['radius'], h.get('ctype', 'list'))
        fail = circ_failure(a['cy'], a['cx'], a['H'], a['W'], a['radius'], a.get('ctype', 'list'))
    else:
        fail = fv_failure(a['pattern'], a['H'], a['W'], a['peaks'])
    print(json.dumps({'failure_now': fail}, indent=1))
    if fail:
        print('VIOLATION property=C19 replay=(given)')
        return 1
    return 0


def run(ctx):
    rng = ctx.rng
    ctx.check_theorems()
    ctx.check_generated(['sstack', 'sfv'])
    # (K) model vs implementation: templates with negative values, offsets everywhere, several layers in any order
    cases, exprs = [], []
    for k in range(ctx.n(120, 1200)):
        th, tw = int(rng.integers(1, 5)), int(rng.integers(1, 5))
        H, W = int(rng.integers(1, 7)), int(rng.integers(1, 7))
        tmpl = rng.integers(-9, 10, size=(th, tw)).astype(np.float64)
        nl = int(rng.integers(1, 5))
        layers = [int(v) for v in rng.permutation(nl + int(rng.integers(0, 3)))[:nl]]
        pl = [(l, int(rng.integers(-th - 2, H + 3)), int(rng.integers(-tw - 2, W + 3))) for l in layers]
        cases.append((tmpl, H, W, pl))
        nlay = max(layers) + 1
        exprs.append('let es := coo_entries %d %d (Stamp.of_list2 %s) %d %d [%s] in (n_layers [%s], map (dense_layer es %d %d) (zseq %d))'
                     % (th, tw, clist2(tmpl.astype(int).tolist()), H, W, '; '.join('(%s, %s, %s)' % (cz(a), cz(b), cz(c)) for a, b, c in pl),
                        '; '.join('(%s, %s, %s)' % (cz(a), cz(b), cz(c)) for a, b, c in pl), H, W, nlay))
        ctx.hist('template', '%dx%d' % (th, tw))
        ctx.hist('layers', nl)
    vals = ctx.coq_eval('k', 'Base.Util Model.Stamp', exprs, shard=100)
    ndis = 0
    for (tmpl, H, W, pl), mv in zip(cases, vals):
        idx = [p[0] for p in pl]
        ctx.count(1, key=(tmpl.tolist(), H, W, pl))
        try:
            d = np.asarray(masks.sparse_template_multi_stack(mask_index=idx, offsetX=np.array([p[2] for p in pl]), offsetY=np.array([p[1] for p in pl]),
                                                             template=tmpl, imageSizeX=W, imageSizeY=H).todense(), dtype=np.float64)
            ok = d.shape[0] == mv[0] and np.array_equal(d, np.array(mv[1], dtype=np.float64).reshape(d.shape))
        except Exception as e:  # noqa
            ok = False
        if len(ctx.cov['samples']) < 4:
            ctx.sample({'template': tmpl.tolist(), 'image': [H, W], 'placements(layer,offY,offX)': pl, 'model_layers': mv[1]})
        if not ok:
            ndis += 1
            fail = stack_failure(tmpl, H, W, pl)
            if fail:
                ctx.violation('input', fail, {'kind': 'input', 'call': 'sparse_template_multi_stack', 'args': {'template': tmpl.tolist(), 'H': H, 'W': W, 'placements': pl}, 'failure': fail})
            else:
                ctx.obligation('K:C19 case', False, 'model and implementation differ: %s' % json.dumps({'template': tmpl.tolist(), 'H': H, 'W': W, 'placements': pl}))
    ctx.obligation('K:C19 correspondence Stamp.coo_entries/todense vs sparse_template_multi_stack (%d stacks)' % len(cases), ndis == 0, '%d disagreements' % ndis)

    # (K2) disk template of the circular stack vs model (radii as rationals)
    exprs, meta = [], []
    circ_hist = []          # every call of sparse_circular_multi_stack made by this run, in order (replays repeat them)
    for radius in [0.5, 1.0, 1.5, 2.0, 2.5, 3.2, 4.0, 4.999, 5.0]:
        fr = Fraction(*float(radius).as_integer_ratio())
        c = math.ceil(radius)
        exprs.append('map (fun ty => map (fun tx => disk_tmpl %d %d %d ty tx) (zseq %d)) (zseq %d)' % (fr.numerator, fr.denominator, c, 2 * c + 1, 2 * c + 1))
        meta.append((radius, c))
    vals = ctx.coq_eval('disk', 'Base.Util Model.Stamp', exprs)
    bad = []
    for (radius, c), mv in zip(meta, vals):
        st = np.asarray(masks.sparse_circular_multi_stack(mask_index=[0], centerX=[c + 2], centerY=[c + 2], imageSizeX=2 * c + 5, imageSizeY=2 * c + 5, radius=radius).todense())[0]
        circ_hist.append({'cy': [c + 2], 'cx': [c + 2], 'H': 2 * c + 5, 'W': 2 * c + 5, 'radius': radius, 'ctype': 'list'})
        if not np.array_equal(st[2:2 * c + 3, 2:2 * c + 3].astype(int), np.array(mv)) or st.sum() != np.array(mv).sum():
            bad.append(radius)
        ctx.count(1, key=('disk', radius))
    ctx.obligation('K:C19 sparse_circular_multi_stack template = Stamp.disk_tmpl for %d radii' % len(meta), not bad, str(bad))

    # (S) statement: exhaustive small sizes + random larger
    n = 0
    found = None
    tsizes = [(1, 1), (1, 2), (2, 1), (2, 3), (3, 2), (3, 3)] if ctx.quick else [(a, b) for a in range(1, 5) for b in range(1, 5)]
    isizes = [(1, 1), (1, 3), (2, 2), (3, 1), (3, 4)] if ctx.quick else [(a, b) for a in range(1, 6) for b in range(1, 6)]
    for (th, tw) in tsizes:
        tmpl = (np.arange(th * tw).reshape(th, tw) - 2.0) * 1.25
        for (H, W) in isizes:
            offs = list(itertools.product(range(-th - 2, H + 3), range(-tw - 2, W + 3)))
            # all offsets as separate layers of one stack (layers are independent) and one by one in shuffled order
            pl = [(i, oy, ox) for i, (oy, ox) in enumerate(offs)]
            n += len(pl)
            fail = stack_failure(tmpl, H, W, pl)
            if fail and not found:
                for q in pl:
                    f1 = stack_failure(tmpl, H, W, [(0, q[1], q[2])])
                    if f1:
                        found = ({'template': tmpl.tolist(), 'H': H, 'W': W, 'placements': [(0, q[1], q[2])]}, f1)
                        break
                found = found or ({'template': tmpl.tolist(), 'H': H, 'W': W, 'placements': pl}, fail)
    if found:
        ctx.violation('input', found[1], {'kind': 'input', 'call': 'sparse_template_multi_stack', 'args': found[0], 'failure': found[1]})
    for k in range(ctx.n(40, 400)):
        th, tw = int(rng.integers(1, 10)), int(rng.integers(1, 10))
        H, W = int(rng.integers(1, 41)), int(rng.integers(1, 41))
        tmpl = rng.normal(0, 3, size=(th, tw))
        nl = int(rng.integers(1, 9))
        pl = [(int(l), int(rng.integers(-th - 2, H + 3)), int(rng.integers(-tw - 2, W + 3))) for l in rng.permutation(nl)]
        n += nl
        fail = stack_failure(tmpl, H, W, pl)
        if fail:
            ctx.violation('input', fail, {'kind': 'input', 'call': 'sparse_template_multi_stack', 'args': {'template': tmpl.tolist(), 'H': H, 'W': W, 'placements': pl}, 'failure': fail})
            break
        # circular stack
        cy = [int(v) for v in rng.integers(-2, H + 2, size=3)]
        cx = [int(v) for v in rng.integers(-2, W + 2, size=3)]
        radius = float(rng.choice([0.5, 1.0, 1.5, 2.5, 3.0, 4.2, 5.0]))
        ctype = ['list', 'int64', 'int32', 'uint8', 'uint16', 'uint32', 'uint64', 'int16'][k % 8]
        if ctype.startswith('u'):
            cy, cx = [max(0, v) for v in cy], [max(0, v) for v in cx]
            cy[0], cx[1] = 0, int(rng.integers(0, 2))             # disks overlapping the top / left border
        ctx.hist('circular stack: centres given as', ctype)
        fail = circ_failure(cy, cx, H, W, radius, ctype)
        n += 3
        if fail:
            ctx.violation('input', fail, {'kind': 'input', 'call': 'sparse_circular_multi_stack', 'args': {'cy': cy, 'cx': cx, 'H': H, 'W': W, 'radius': radius, 'ctype': ctype,
                                                                                                           'history': list(circ_hist)}, 'failure': fail})
            break
        circ_hist.append({'cy': cy, 'cx': cx, 'H': H, 'W': W, 'radius': radius, 'ctype': ctype})
        # feature vector, incl. patterns that are non-zero in their outermost row/column (search == radius)
        kind = str(rng.choice(['Circular', 'RadialGradient', 'BackgroundSubtraction']))
        radius = float(rng.choice([2.0, 3.0, 3.5]))
        desc = {'kind': kind, 'radius': radius, 'search': radius if kind != 'BackgroundSubtraction' else radius + 1.5, 'radius_outer': radius + 1.5}
        if k % 2:
            desc['search'] = 2 * radius
        peaks = [(int(rng.integers(-1, H + 1)), int(rng.integers(-1, W + 1))) for _ in range(3)]
        if k % 3 == 0:
            # peaks entirely outside the frame, also as the LAST entries of the list: their (empty) layers still exist
            peaks += [(H + 20, int(rng.integers(0, W + 1))), (-30, -30)][:int(rng.integers(1, 3))]
        fail = fv_failure(desc, H, W, peaks)
        n += 3
        if fail:
            ctx.violation('input', fail, {'kind': 'input', 'call': 'feature_vector', 'args': {'pattern': desc, 'H': H, 'W': W, 'peaks': peaks}, 'failure': fail})
            break
    ctx.count(n)
    ctx.extra['oracle_layers'] = n
    ctx.extra['exhaustive'] = not ctx.quick
    return ctx.finish(
        LEVEL,
        explanation='Theorems: the densified COO stack equals the sum of clipped stamps per layer for every template, image size and placement list (any order, '
                    'any offsets); empty when entirely outside; feature-vector centre pixel on the peak; circular stack = dense disk (bounding box cuts nothing). '
                    'Tie: coo_entries/todense under vm_compute vs sparse_template_multi_stack().todense(); disk template vs model.',
        rule='(K) templates 1..4 x 1..4 with negative values, images 1..6, offsets -t-2..img+2, 1..4 layers in permuted order with gaps; (S) exhaustive offsets on '
             'small sizes (quick: 6 template x 5 image sizes), random templates up to 9x9 / images up to 40x40 / up to 8 layers, circular stacks, feature vectors '
             'incl. border peaks and search == radius.')
