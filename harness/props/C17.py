"""C17 - Lattice coordinate algebra is consistent."""
import os
import json
from fractions import Fraction

import numpy as np

import core
from core import cq
from latlib import F, qv, qlist, fvec, fq, rand_lattice
from libertem_blobfinder.base import utils as bu
from libertem_blobfinder.common import gridmatching as grm

LEVEL = 'proof'


def margin_exact(zero, a, b, idx, r, fy, fx):
    """smallest exact distance of any coordinate from a decision boundary of within_frame"""
    z, A, B = [F(v) for v in zero], [F(v) for v in a], [F(v) for v in b]
    m = None
    for ij in idx:
        i, j = F(ij[0]), F(ij[1])
        p = (z[0] + i * A[0] + j * B[0], z[1] + i * A[1] + j * B[1])
        for d in (abs(p[0] - F(r)), abs(p[1] - F(r)), abs(p[0] - (F(fy) - F(r))), abs(p[1] - (F(fx) - F(r)))):
            m = d if m is None else min(m, d)
    return float(m) if m is not None else 1.0


def stmt_failure(zero, a, b, idx_nm, r, fy, fx):
    """idx_nm: mgrid-style array (2, n, m)"""
    flat = np.concatenate(idx_nm.T)
    # layouts
    i1, p1 = bu.frame_peaks(fy, fx, zero, a, b, r, idx_nm)
    i2, p2 = bu.frame_peaks(fy, fx, zero, a, b, r, flat)
    if not (np.array_equal(i1, i2) and np.array_equal(p1, p2)):
        return 'frame_peaks differs between (2,n,m) and (n,2) index layouts'
    # same multiset as row-major flattening
    rm = np.stack([idx_nm[0].ravel(), idx_nm[1].ravel()], axis=1)
    if sorted(map(tuple, flat.tolist())) != sorted(map(tuple, rm.tolist())):
        return 'regularize_indices loses / duplicates index pairs'
    coords = zero + flat[:, 0:1] * a + flat[:, 1:2] * b
    sc = max(1.0, np.abs(coords).max())
    if len(i1):
        own = zero + i1[:, 0:1] * a + i1[:, 1:2] * b
        if np.abs(own - p1).max() > 1e-9 * sc:
            return 'a returned coordinate is not zero + i a + j b of its own index'
    # selection, with exact arithmetic away from the boundary
    eps = 1e-9 * sc
    for ij, p in zip(flat, coords):
        inside = (r + eps <= p[0] < fy - r - eps) and (r + eps <= p[1] < fx - r - eps)
        outside = (p[0] < r - eps or p[0] >= fy - r + eps or p[1] < r - eps or p[1] >= fx - r + eps)
        sel = any((ij == q).all() for q in i1)
        if inside and not sel:
            return 'index %s with coordinate %s keeps the margin r=%s in frame (%s,%s) but is not returned' % (ij.tolist(), p.tolist(), r, fy, fx)
        if outside and sel:
            return 'index %s with coordinate %s violates r <= p < frame - r but is returned' % (ij.tolist(), p.tolist())
    # round trips
    back = grm.get_indices(coords, zero, a, b)
    cond = (np.linalg.norm(a) * np.linalg.norm(b)) / abs(a[0] * b[1] - a[1] * b[0])
    # the solve loses about cond * eps relative to the largest index-like quantity involved (indices, |coords| / |a|)
    lmin = min(np.linalg.norm(a), np.linalg.norm(b))
    if np.abs(back - flat).max() > 1e-11 * cond * max(1.0, np.abs(flat).max(), sc / lmin):
        return 'get_indices(calc_coords(indices)) != indices (max dev %.3g)' % np.abs(back - flat).max()
    fwd = bu.calc_coords(zero, a, b, back)
    if np.abs(fwd - coords).max() > 1e-8 * cond * sc:
        return 'calc_coords(get_indices(coords)) != coords'
    # Match.calc_coords incl. drop_zero and frame filter
    m = grm.Match(grm.CorrelationResult(centers=coords), selector=None, zero=zero, a=a, b=b, indices=flat)
    for layout in (idx_nm, flat):
        c0 = m.calc_coords(indices=layout)
        if not np.array_equal(c0, bu.calc_coords(zero, a, b, flat)):
            return 'Match.calc_coords differs from calc_coords'
        cz_ = m.calc_coords(indices=layout, drop_zero=True)
        nz = [k for k, ij in enumerate(flat) if not (ij[0] == 0 and ij[1] == 0)]
        if not np.array_equal(cz_, c0[nz]):
            return 'drop_zero does not remove exactly index (0, 0)'
        cf = m.calc_coords(indices=layout, drop_zero=True, frame_shape=(fy, fx), r=r)
        want = [k for k in nz if (r <= c0[k][0] < fy - r) and (r <= c0[k][1] < fx - r)]
        amb = [k for k in nz if min(abs(c0[k][0] - r), abs(c0[k][1] - r), abs(c0[k][0] - (fy - r)), abs(c0[k][1] - (fx - r))) < eps]
        if not amb and not np.array_equal(cf, c0[want]):
            return 'Match.calc_coords(drop_zero=True, frame_shape) returns the wrong peaks'
    # a Match that was inspected before another lattice is put on it (derive / optimise): its calculated positions are those of ITS lattice
    ms = grm.Match(grm.CorrelationResult(centers=coords + 0.25), selector=None, zero=zero, a=a, b=b, indices=flat)
    _ = (ms.error, ms.calculated_refineds.copy())
    z2, a2, b2 = zero + np.array([1.5, -0.5]), a * 1.01, b * 0.98            # still non-parallel
    for nm, md in (('derive(zero=, a=, b=)', ms.derive(zero=z2, a=a2, b=b2)),):
        want2 = z2 + flat[:, 0:1] * a2 + flat[:, 1:2] * b2
        if np.abs(np.asarray(md.calculated_refineds) - want2).max() > 1e-9 * sc:
            return '%s of a Match whose error / calculated positions had been read before: calculated_refineds are not zero + i a + j b of the new lattice (max deviation %.4g)' % (
                nm, np.abs(np.asarray(md.calculated_refineds) - want2).max())
        back2 = grm.get_indices(np.asarray(md.calculated_refineds), md.zero, md.a, md.b)
        if np.abs(back2 - flat).max() > 1e-9 * cond * max(1.0, np.abs(flat).max()) * sc:
            return '%s of a Match that had been inspected before: get_indices(calculated_refineds) != indices' % nm
    if len(flat) >= 3 and np.linalg.matrix_rank(np.hstack([np.ones((len(flat), 1)), flat])) == 3:
        for nm in ('optimize', 'weighted_optimize'):
            mo = getattr(ms, nm)()
            want3 = mo.zero + flat[:, 0:1] * mo.a + flat[:, 1:2] * mo.b
            if np.abs(np.asarray(mo.calculated_refineds) - want3).max() > 1e-9 * sc:
                return '%s() of a Match that had been inspected before: calculated_refineds are not zero + i a + j b of the returned lattice' % nm
    # cbed_frame selects its disks with the same rule, r = margin (default: the disk radius); an explicit margin of 0 is 0
    if fy <= 64 and fx <= 64 and fy >= 4 and fx >= 4 and len(flat) <= 16:
        for mg in (0, 0.0, None, 2.0):
            rad = 1.5
            rr = rad if mg is None else float(mg)
            want_ = [k for k in range(len(flat)) if (rr <= coords[k][0] < int(fy) - rr) and (rr <= coords[k][1] < int(fx) - rr)]
            if not want_:
                continue            # (the renderer needs at least one disk)
            try:
                _, ci, cp = bu.cbed_frame(fy=int(fy), fx=int(fx), zero=zero, a=a, b=b, indices=idx_nm, radius=rad, margin=mg)
            except Exception as e:  # noqa
                return 'cbed_frame(margin=%r) raised %s: %s' % (mg, type(e).__name__, e)
            amb_ = [k for k in range(len(flat)) if min(abs(coords[k][0] - rr), abs(coords[k][1] - rr), abs(coords[k][0] - (int(fy) - rr)), abs(coords[k][1] - (int(fx) - rr))) < eps]
            if not amb_ and not np.array_equal(np.asarray(ci, dtype=float), flat[want_]):
                return 'cbed_frame(margin=%r): returned %d index pairs, expected the %d whose coordinate satisfies %s <= p < frame - %s' % (mg, len(ci), len(want_), rr, rr)
    # polar <-> cartesian (sampled only: arctan2 / sin / cos are not modelled)
    pol = bu.make_polar(np.array([a, b]))
    if np.abs(bu.make_cartesian(pol) - np.array([a, b])).max() > 1e-9 * sc:
        return 'make_cartesian(make_polar(v)) != v'
    want_pol = np.array([[np.hypot(v[0], v[1]), np.arctan2(v[0], v[1])] for v in (a, b)])
    if np.abs(pol[:, 0] - want_pol[:, 0]).max() > 1e-9 * sc or np.abs(np.exp(1j * pol[:, 1]) - np.exp(1j * want_pol[:, 1])).max() > 1e-9:
        return 'make_polar(v) != (|v|, angle of v): %s vs %s' % (pol.tolist(), want_pol.tolist())
    # stacks of vectors (n, m, 2), e.g. one pair of lattice vectors per scan position: element-wise, shape preserved
    stk = np.array([[a, b, a + b], [b - a, 2 * a, -b]])
    ps = bu.make_polar(stk)
    if ps.shape != stk.shape or np.abs(ps[..., 0] - np.hypot(stk[..., 0], stk[..., 1])).max() > 1e-9 * sc \
            or np.abs(np.exp(1j * ps[..., 1]) - np.exp(1j * np.arctan2(stk[..., 0], stk[..., 1]))).max() > 1e-9:
        return 'make_polar of a (2, 3, 2) stack of vectors: shape %s, not the element-wise (|v|, angle)' % (ps.shape,)
    if np.abs(bu.make_cartesian(ps) - stk).max() > 1e-9 * sc:
        return 'make_cartesian(make_polar(stack)) != stack'
    # the dtype of the arguments must not matter: whole-pixel lattice vectors / zero given as integer arrays
    if np.array_equal(a, np.rint(a)) and np.array_equal(b, np.rint(b)) and np.array_equal(zero, np.rint(zero)):
        zi, ai, bi_ = zero.astype(np.int64), a.astype(np.int64), b.astype(np.int64)
        frac = flat + 0.5
        for nm, got, want in (('calc_coords', bu.calc_coords(zi, ai, bi_, frac), zero + frac[:, 0:1] * a + frac[:, 1:2] * b),
                              ('Match.calc_coords', grm.Match(grm.CorrelationResult(centers=coords), selector=None, zero=zi, a=ai, b=bi_, indices=frac).calc_coords(), zero + frac[:, 0:1] * a + frac[:, 1:2] * b),
                              ('get_indices', grm.get_indices(zero + frac[:, 0:1] * a + frac[:, 1:2] * b, zi, ai, bi_), frac)):
            if np.abs(np.asarray(got, dtype=float) - want).max() > 1e-9 * cond * sc:
                return '%s with integer-dtype zero/a/b and fractional indices: %s, expected %s' % (nm, np.asarray(got).tolist()[:3], want.tolist()[:3])
        # narrow and unsigned integer dtypes for everything (points, zero and lattice vectors -- e.g. differences of uint16 centre positions):
        # products of coordinates do not fit them, and a lattice with negative determinant has no unsigned representation of it
        for dtn in (np.int16, np.uint16, np.int32, np.uint8):
            info = np.iinfo(dtn)
            pts_i = zero + flat[:, 0:1] * a + flat[:, 1:2] * b
            allv = np.concatenate([pts_i.ravel(), zero, a, b])
            if not np.array_equal(flat, np.rint(flat)) or allv.min() < info.min or allv.max() > info.max:
                continue
            got = grm.get_indices(pts_i.astype(dtn), zero.astype(dtn), a.astype(dtn), b.astype(dtn))
            if np.abs(np.asarray(got, dtype=float) - flat).max() > 1e-9 * cond * sc:
                return 'get_indices with %s points, zero and lattice vectors: %s, expected %s' % (np.dtype(dtn).name, np.asarray(got).tolist()[:3], flat.tolist()[:3])
        pi_ = bu.make_polar(np.array([ai, bi_]))
        if np.abs(np.asarray(pi_, dtype=float) - pol).max() > 1e-9 * sc:
            return 'make_polar of integer-dtype vectors %s differs from the float result %s' % (np.asarray(pi_).tolist(), pol.tolist())
    return None


def gen_case(rng, integer):
    zero, a, b = rand_lattice(rng, integer=integer)
    n, m = int(rng.integers(1, 5)), int(rng.integers(1, 5))
    lo_i, lo_j = int(rng.integers(-3, 2)), int(rng.integers(-3, 2))
    idx = np.mgrid[lo_i:lo_i + n, lo_j:lo_j + m].astype(float)
    if not integer and rng.integers(0, 3) == 0:
        idx = idx + rng.choice([0.0, 0.5, 0.25], size=idx.shape)
    elif not integer and rng.integers(0, 3) == 0:
        # index sets far from the origin with small off-integer parts (a wide field of view over a fine lattice)
        idx = idx * float(rng.choice([1, 7, 40])) + rng.choice([-5000.0, -300.0, 120.0, 2900.0], size=(2, 1, 1)) + rng.choice([0.0, 0.024, -0.11, 0.3, 1e-3], size=idx.shape)
    fy, fx = float(rng.integers(8, 130)), float(rng.integers(8, 130))
    if integer:
        # put a peak exactly on the boundary r or frame - r
        flat = np.concatenate(idx.T)
        coords = zero + flat[:, 0:1] * a + flat[:, 1:2] * b
        k = int(rng.integers(0, len(coords)))
        choice = int(rng.integers(0, 3))
        r = float(abs(coords[k][0])) if choice == 0 else float(rng.integers(0, 6))
        if choice == 1:
            fy = float(coords[k][0] + r)
        elif choice == 2:
            fx = float(coords[k][1] + r)
    else:
        r = float(rng.choice([0.0, 2.5, 4.0, rng.uniform(0, 10)]))
    return zero, a, b, idx, r, fy, fx


def replay(body):
    a = body['args']
    fail = stmt_failure(np.array(a['zero']), np.array(a['a']), np.array(a['b']), np.array(a['indices']), a['r'], a['fy'], a['fx'])
    print(json.dumps({'failure_now': fail}, indent=1))
    if fail:
        print('VIOLATION property=C17 replay=(given)')
        return 1
    return 0


def mk_replay(zero, a, b, idx, r, fy, fx, fail):
    return {'kind': 'input', 'call': 'frame_peaks / get_indices / calc_coords', 'args': {'zero': zero.tolist(), 'a': a.tolist(), 'b': b.tolist(), 'indices': idx.tolist(),
                                                                                        'r': r, 'fy': fy, 'fx': fx}, 'failure': fail}


def check_generated_polar(ctx):
    """(G) for the polar clause: translate base/utils.py make_cartesian / make_polar to terms over R (fail closed) and
    re-prove that they are Model/Polar.v's definitions, for all arguments."""
    import translate_r
    from core import REPO, coqc, theorem_names
    try:
        gen = translate_r.translate(REPO)
    except Exception as e:  # noqa: fail closed, whatever the reason
        ctx.obligation('G:translate rpolar', False, 'translator (fail closed): %s: %s' % (type(e).__name__, str(e)[:300]))
        return False
    open(os.path.join(ctx.rundir, 'GenR.v'), 'w').write(gen)
    bpath = os.path.join(ctx.rundir, 'GenBridge_rpolar.v')
    open(bpath, 'w').write(translate_r.BRIDGE)
    rc, out = coqc(os.path.join(ctx.rundir, 'GenR.v'), ctx.rundir)
    if rc != 0:
        ctx.obligation('G:GenR.v compiles', False, out[-500:])
        return False
    rc, out = coqc(bpath, ctx.rundir)
    names = theorem_names(bpath)
    for nm in names:
        ctx.obligation('G:BFGen.GenBridge_rpolar.%s (generated from source = model, for all arguments)' % nm, rc == 0,
                       'proved' if rc == 0 else 'bridge proof fails: ' + ' '.join(out.split())[-300:])
    return rc == 0


def run(ctx):
    rng = ctx.rng
    ctx.check_theorems()
    ctx.check_theorems_reals('C17R')   # polar/cartesian round trip over R (real-number axioms of the standard library)
    ctx.check_generated(['qlat', 'vidx'])
    check_generated_polar(ctx)
    exprs, meta = [], []
    for k in range(ctx.n(150, 1500)):
        integer = (k % 3 == 0)
        zero, a, b, idx, r, fy, fx = gen_case(rng, integer)
        flat = np.concatenate(idx.T)
        I, J = idx[0], idx[1]
        qI = '[' + '; '.join('[' + '; '.join(cq(F(v)) for v in row) + ']' for row in I) + ']'
        qJ = '[' + '; '.join('[' + '; '.join(cq(F(v)) for v in row) + ']' for row in J) + ']'
        exprs.append('let idx := regularize_mgrid %s %s in (map vout idx, map vout (map (calc_coord %s %s %s) idx), '
                     'map vout (map fst (frame_peaks %s %s %s %s %s %s idx)), map vout (drop_zero idx), '
                     'map (fun p => match get_index %s %s %s p with Some r => vout r | None => ((0,1),(0,1)) end) (map (calc_coord %s %s %s) idx))'
                     % (qI, qJ, qv(zero), qv(a), qv(b), cq(F(fy)), cq(F(fx)), qv(zero), qv(a), qv(b), cq(F(r)), qv(zero), qv(a), qv(b), qv(zero), qv(a), qv(b)))
        meta.append((zero, a, b, idx, r, fy, fx, integer))
        ctx.hist('lattice', 'integer' if integer else 'float')
        ctx.hist('layout', '%dx%d' % idx.shape[1:])
    vals = ctx.coq_eval('k', 'Model.Lattice', exprs, shard=100)
    ndis = 0
    nskip = 0
    for mv, (zero, a, b, idx, r, fy, fx, integer) in zip(vals, meta):
        m_idx, m_coords, m_sel, m_nz, m_back = mv
        flat = bu.regularize_indices(idx)
        coords = bu.calc_coords(zero, a, b, flat)
        sel_i, sel_p = bu.frame_peaks(fy, fx, zero, a, b, r, idx)
        sc = max(1.0, np.abs(coords).max())
        problems = []
        if not np.array_equal(np.array([fvec(v) for v in m_idx]), flat):
            problems.append('index layout')
        if np.abs(np.array([fvec(v) for v in m_coords]) - coords).max() > 1e-9 * sc:
            problems.append('calc_coords')
        mg = margin_exact(zero, a, b, flat, r, fy, fx)
        if integer or mg > 1e-9 * sc:
            if not np.array_equal(np.array([fvec(v) for v in m_sel]).reshape(-1, 2), np.asarray(sel_i, dtype=np.float64).reshape(-1, 2)):
                problems.append('frame_peaks selection: model %s impl %s' % ([fvec(v).tolist() for v in m_sel], np.asarray(sel_i).tolist()))
        else:
            nskip += 1
        cond = (np.linalg.norm(a) * np.linalg.norm(b)) / abs(a[0] * b[1] - a[1] * b[0])
        back = grm.get_indices(coords, zero, a, b)
        if np.abs(np.array([fvec(v) for v in m_back]) - back).max() > 1e-9 * cond * sc:
            problems.append('get_indices')
        mm = grm.Match(grm.CorrelationResult(centers=coords), selector=None, zero=zero, a=a, b=b, indices=flat)
        nzc = mm.calc_coords(drop_zero=True)
        if len(nzc) != len(m_nz):
            problems.append('drop_zero')
        ctx.count(1, key=(zero.tolist(), a.tolist(), b.tolist(), idx.tolist(), r, fy, fx))
        if len(ctx.cov['samples']) < 4:
            ctx.sample({'zero': zero.tolist(), 'a': a.tolist(), 'b': b.tolist(), 'index_layout': list(idx.shape), 'r': r, 'frame': [fy, fx],
                        'selected_indices_model': [fvec(v).tolist() for v in m_sel], 'boundary_margin': mg})
        if problems:
            ndis += 1
            fail = stmt_failure(zero, a, b, idx, r, fy, fx)
            if fail:
                ctx.violation('input', fail, mk_replay(zero, a, b, idx, r, fy, fx, fail))
            else:
                ctx.obligation('K:C17 case', False, '%s ; args %s' % (problems, json.dumps(mk_replay(zero, a, b, idx, r, fy, fx, None)['args'])[:600]))
    ctx.obligation('K:C17 correspondence Lattice.{regularize_mgrid, calc_coord, frame_peaks, drop_zero, get_index} vs implementation (%d lattices)' % len(vals), ndis == 0, '%d disagreements' % ndis)
    ctx.extra['near_boundary_skipped'] = nskip

    for k in range(ctx.n(300, 5000)):
        zero, a, b, idx, r, fy, fx = gen_case(rng, k % 3 == 0)
        fail = stmt_failure(zero, a, b, idx, r, fy, fx)
        ctx.count(1)
        if fail:
            ctx.violation('input', fail, mk_replay(zero, a, b, idx, r, fy, fx, fail))
            break
    # rejected inputs
    try:
        bu.regularize_indices(np.zeros((3, 3)))
        ctx.violation('input', 'regularize_indices accepted an index array of shape (3, 3)', {'kind': 'input', 'call': 'regularize_indices', 'args': {'shape': [3, 3]}})
    except ValueError:
        pass
    return ctx.finish(
        LEVEL,
        explanation='Theorems over Q: coordinates<->indices mutually inverse for non-parallel vectors (None for parallel), frame_peaks = exact filter '
                    'r <= p < frame - r in index order with p = zero + i a + j b, mgrid layout entry/length, drop_zero exact. Tie: all of these evaluated '
                    'in exact rationals on the float inputs vs the numpy implementation (selection compared exactly for integer lattices that put peaks ON the '
                    'boundary, and whenever the exact margin exceeds 1e-9).',
        rule='lattices with |sin| >= 0.05, lengths 1..100 (1/3 integer-valued with a peak exactly on r or frame-r), mgrid windows up to 4x4 incl. fractional indices, '
             'margins 0..10; polar/cartesian round trip sampled only.')
