"""C07 - Peak finding returns the true disk positions for every frame shape."""
import json
import math

import numpy as np

import core
from core import cz, clist2
import corrlib as cl
from libertem_blobfinder.base import masks
from libertem_blobfinder.common import correlation as cc, patterns as pat

LEVEL = 'proof'
KINDS = ['Circular', 'RadialGradient', 'BackgroundSubtraction', 'RadialGradientBackgroundSubtraction']


def make(kind, radius):
    if kind == 'Circular':
        return pat.Circular(radius=radius)
    if kind == 'RadialGradient':
        return pat.RadialGradient(radius=radius)
    if kind == 'BackgroundSubtraction':
        return pat.BackgroundSubtraction(radius=radius)
    return pat.RadialGradientBackgroundSubtraction(radius=radius)


def gen(rng):
    fy, fx = int(rng.integers(40, 131)), int(rng.integers(40, 131))
    kind = KINDS[int(rng.integers(0, 4))]
    radius = float(rng.choice([3, 4, 5, 3.5]))
    nd = int(rng.integers(1, 13))
    sep = int(4 * radius + 4)
    pos = []
    tries = 0
    near_edge = rng.random() < 0.35
    while len(pos) < nd and tries < 2000:
        tries += 1
        # fully inside the frame, but possibly closer to an edge than the pattern's search radius (centre >= radius + 2 from every edge)
        m = int(math.ceil(radius)) + 2 if near_edge else sep // 2
        p = (int(rng.integers(m, fy - m)), int(rng.integers(m, fx - m)))
        if near_edge and len(pos) == 0:
            p = (m, int(rng.integers(m, fx - m))) if rng.random() < 0.5 else (int(rng.integers(m, fy - m)), fx - m - 1)
        if all(max(abs(p[0] - q[0]), abs(p[1] - q[1])) >= sep for q in pos):
            pos.append(p)
    bright = rng.permutation(len(pos)) * 1.5 + 2.0
    # the pattern OBJECT may have been used before, e.g. on a frame whose rfft2 spectrum has the same shape (widths 2m, 2m+1)
    history = []
    if rng.random() < 0.4:
        fx2 = fx + 1 if fx % 2 == 0 else fx - 1
        history = [[(fy, fx2), (fy, fx)], [(fy, fx2)], [(fy + 1, fx), (fy, fx2)]][int(rng.integers(0, 3))]
    # frames in a wide dtype on a large pedestal (more than 24 bits of mantissa needed), and pattern objects built with another radius
    base, dt = [(0, 'float32'), (0, 'float32'), (3e8, 'float64'), (2 ** 26, 'int64'), (2 ** 40, 'float64')][int(rng.integers(0, 5))]
    built = None if rng.random() < 0.7 else float(radius + rng.choice([2.0, 4.0]))   # larger: a default radial map built for it covers the new radius
    # the absolute intensity scale is arbitrary (normalised data, physical units): the brightest disks are the same whatever the unit
    scale = float(rng.choice([1e-12, 1e-6, 1e6, 1e12])) if (dt == 'float32' and rng.random() < 0.3) else 1.0
    return dict(shape=(fy, fx), kind=kind, radius=radius, pos=pos, bright=bright.tolist(), history=[list(h) for h in history], base=base, dtype=dt, built_radius=built, scale=scale)


def render(c):
    fy, fx = c['shape']
    f = np.zeros((fy, fx), dtype=np.float32)
    for p, b in zip(c['pos'], c['bright']):
        f += b * cl.render_disk(p[0], p[1], fy, fx, c['radius'], True).astype(np.float32)
    return f


def stmt_failure(c):
    f = render(c)
    if c.get('scale', 1.0) != 1.0:
        f = (f.astype(np.float64) * c['scale']).astype(np.float32)
    if c.get('dtype', 'float32') != 'float32':
        f = (np.rint(f.astype(np.float64) * 8) + c['base']).astype(c['dtype'])       # brightness steps of 12 on the pedestal
    if c.get('built_radius'):
        # the object was built for another radius and its public parameters were changed afterwards
        pattern = make(c['kind'], c['built_radius'])
        pattern.get_mask((16, 16))
        pattern.radius = c['radius']
        ref_p = make(c['kind'], c['radius'])
        for attr in ('radius_outer', 'search'):
            if hasattr(ref_p, attr):
                setattr(pattern, attr, getattr(ref_p, attr))
    else:
        pattern = make(c['kind'], c['radius'])
    try:
        for hy, hx in c.get('history', []):
            cc.get_peaks(np.linspace(0, 1, hy * hx, dtype=np.float32).reshape(hy, hx), pattern, 1)
        corr = cc.get_correlation(f, pattern)
    except Exception as e:  # noqa
        return 'get_correlation raised %s: %s' % (type(e).__name__, e)
    if corr.shape != f.shape:
        return 'correlation map has shape %s, frame has shape %s' % (corr.shape, f.shape)
    order = np.argsort(-np.array(c['bright']))
    for k in range(1, len(c['pos']) + 1):
        pk = cc.get_peaks(f, pattern, k)
        want = [list(c['pos'][i]) for i in order[:k]]
        if pk.tolist() != want:
            return 'get_peaks(num_peaks=%d) on shape %s (%s, radius %s%s) returned %s, expected the %d brightest disk centres %s' % (
                k, c['shape'], c['kind'], c['radius'], ', same pattern object used before on shapes %s' % c['history'] if c.get('history') else '', pk.tolist(), k, want)
    return None


def replay(body):
    fail = stmt_failure(body['args'])
    print(json.dumps({'failure_now': fail}, indent=1))
    if fail:
        print('VIOLATION property=C07 replay=(given)')
        return 1
    return 0


def run(ctx):
    rng = ctx.rng
    ctx.check_theorems()
    # (K) get_correlation vs Corr.cconv on small integer frames (all parities), mask quantised to 2^-20
    exprs, meta = [], []
    for k in range(ctx.n(24, 200)):
        fy, fx = int(rng.integers(4, 12)), int(rng.integers(4, 12))
        kind = KINDS[k % 4]
        radius = float(rng.choice([1.5, 2.0, 2.5]))
        pattern = make(kind, radius)
        ints, fk = cl.rand_frame(rng, fy, fx, str(rng.choice(['noise', 'blobs', 'hot'])))
        corr = cc.get_correlation(ints.astype(np.float64), pattern)
        mq = cl.quant(np.asarray(pattern.get_mask((fy, fx)), dtype=np.float64))
        exprs.append('Corr.tabulate %d %d (cconv %d %d (Corr.of_list2 %s) (Corr.of_list2 %s))' % (fy, fx, fy, fx, clist2(ints.tolist()), clist2(mq.tolist())))
        meta.append((corr, (fy, fx), kind, radius, ints))
        ctx.hist('parity', '%d%d' % (fy % 2, fx % 2))
        ctx.hist('pattern', kind)
    vals = ctx.coq_eval('k', 'Base.Util Model.Corr', exprs, shard=4, timeout=1500)
    ndis = 0
    for mv, (corr, shape, kind, radius, ints) in zip(vals, meta):
        m = np.array(mv, dtype=np.float64) / cl.QS
        ctx.count(1, key=(shape, kind, radius, ints.tolist()))
        sc = float(np.abs(m).max()) + 1.0
        ok = corr.shape == m.shape and np.allclose(corr, m, atol=2e-5 * sc)
        if len(ctx.cov['samples']) < 3:
            ctx.sample({'shape': list(shape), 'pattern': kind, 'radius': radius, 'impl_map_shape': list(corr.shape), 'max_abs_dev': float(np.abs(corr - m).max()) if corr.shape == m.shape else None})
        if not ok:
            ndis += 1
            c = dict(shape=(40 + shape[0], 41 + shape[1]), kind=kind, radius=3.0, pos=[(20, 17)], bright=[2.0])
            fail = stmt_failure(c)
            if fail:
                ctx.violation('input', fail, {'kind': 'input', 'call': 'get_correlation / get_peaks', 'args': c, 'failure': fail}, signature='get_correlation: wrong shape / shifted origin for odd frame sizes' if 'shape' in fail or 'returned' in fail else fail)
            else:
                ctx.obligation('K:C07 map', False, 'shape %s %s: impl shape %s' % (shape, kind, corr.shape))
    ctx.obligation('K:C07 get_correlation = Corr.cconv (exact cyclic convolution rotated by n/2) on %d frames of all parities' % len(vals), ndis == 0, '%d disagreements' % ndis)

    # (S) statement
    for k in range(ctx.n(60, 1000)):
        c = gen(rng)
        fail = stmt_failure(c)
        ctx.count(len(c['pos']), key=(c['shape'], c['kind'], c['radius'], c['pos']))
        ctx.hist('oracle_parity', '%d%d' % (c['shape'][0] % 2, c['shape'][1] % 2))
        ctx.hist('pattern object used before on', len(c['history']))
        if fail:
            ctx.violation('input', fail, {'kind': 'input', 'call': 'get_correlation / get_peaks', 'args': c, 'failure': fail},
                          signature='get_correlation: wrong shape / shifted origin for odd frame sizes' if ('shape' in fail and 'has shape' in fail) else fail)
            break
    return ctx.finish(
        LEVEL,
        explanation='Theorems: the map is the cross-correlation with the centred mask for centro-symmetric masks of any shape, built-in (radial) masks are centro-symmetric for '
                    'every shape, ifftshift puts zero displacement on n/2 for every n whereas fftshift / the default irfft2 length are wrong for odd sizes (repaired defect), '
                    'the map scales with the brightness. Tie: get_correlation vs the exact cyclic convolution under vm_compute on small frames of all parities.',
        rule='(K) frames 4..11 x 4..11, 4 built-in patterns; (S) shapes 40..130 in all parity combinations, 1..12 separated pixel-centred antialiased disks of distinct brightness, '
             'k = 1..number of disks; in 40 % of the cases the pattern object was used before on 1..2 other shapes (incl. the width of other parity that shares the rfft2 shape). peak_local_max (skimage) is external: its contract is assumed and sampled.')
