"""C20 - Affine transformation helpers round-trip and find the fixed point."""
import json

import numpy as np

import core
from core import cq
from latlib import F, qv, fvec, fq, lq, lvec
from libertem_blobfinder.common import gridmatching as grm

LEVEL = 'proof'


def unflat3(t):
    """Coq prints ((a, b), c) as (a, b, c) and (((n1,d1),(n2,d2)),(n3,d3)) as (n1, d1, (n2,d2), (n3,d3))"""
    if len(t) == 4 and not isinstance(t[0], tuple):
        return ((t[0], t[1]), t[2], t[3])
    return t


def rand_map(rng):
    while True:
        kind = int(rng.integers(0, 4))
        th = rng.uniform(0, 2 * np.pi)
        R = np.array([[np.cos(th), -np.sin(th)], [np.sin(th), np.cos(th)]])
        if kind == 0:
            L = R
        elif kind == 1:
            L = R @ np.array([[1, rng.uniform(-1.5, 1.5)], [0, 1]])
        elif kind == 2:
            L = R @ np.diag(rng.uniform(0.3, 3, 2))
        else:
            L = rng.normal(0, 1, size=(2, 2))
        if np.linalg.cond(L) <= 100 and abs(np.linalg.det(L - np.eye(2))) > 1e-2:
            if rng.random() < 0.25:
                # a small strain / rotation: L - I is tiny but as well conditioned as before, the fixed point is well defined
                L = np.eye(2) + float(rng.choice([1e-3, 1e-4, 2e-5])) * (L - np.eye(2))
            return L, rng.uniform(-40, 40, 2)


def gen(rng):
    n = int(rng.integers(3, 41))
    while True:
        ref = rng.uniform(-50, 80, size=(n, 2))
        if rng.random() < 0.3:
            ref = np.rint(ref)                 # pixel positions: also passed with an integer dtype below
        if np.linalg.cond(np.hstack([ref - ref.mean(axis=0), np.ones((n, 1))])) < 1e3:
            break
    L, t = rand_map(rng)
    if rng.random() < 0.2:
        # pixel positions under an integer-valued map (quarter turn, shear, scale, shift): exactly representable as unsigned integers
        ref = np.rint(np.abs(ref))
        L = np.array([[[0, 1], [-1, 0]], [[2, 1], [0, 3]], [[2, 0], [0, 3]], [[-1, 0], [0, -1]]][int(rng.integers(0, 4))], dtype=float)      # no eigenvalue 1
        t = np.array([float(rng.integers(0, 30)), float(rng.integers(0, 30))])
        t = t - np.minimum(0, (ref @ L + t).min(axis=0)) + 1.0
    centre = [None, np.zeros(2), rng.uniform(-30, 60, 2), np.array([0.0, float(rng.uniform(5, 60))]), np.array([float(rng.integers(5, 60)), 0.0])][int(rng.integers(0, 5))]     # also centres on an axis
    w = [None, np.full(n, float(rng.uniform(0.1, 5))), rng.uniform(0.1, 10, n), rng.integers(1, 200, n).astype(float)][int(rng.integers(0, 4))]
    return ref, L, t, centre, w


def units_failure(ref, L, t, centre, w, unit):
    """the same geometry expressed in another length unit (metres instead of pixels): every coordinate scales, the linear part does not.
    Absolute tolerances are relative to the size of the coordinates."""
    ref, t = ref * unit, t * unit
    centre = None if centre is None else centre * unit
    peaks = ref @ L + t
    sc = max(np.abs(peaks).max(), np.abs(ref).max())
    try:
        fit = grm.get_transformation(ref, peaks, center=centre, weighs=w)
        back = grm.do_transformation(fit, ref, center=centre)
    except Exception as e:  # noqa
        return 'raised %s: %s (unit %g)' % (type(e).__name__, e, unit)
    # the design matrix (coordinates, 1) mixes the unit of length with the constant 1: its condition number grows as 1 / unit, and with it the
    # round-off of the fit (inherent in the documented algorithm)
    cpt_ = np.zeros(2) if centre is None else centre
    condw = np.linalg.cond(np.hstack([ref - cpt_, np.ones((len(ref), 1))]) * (np.ones(len(ref)) if w is None else w)[:, None])
    if np.abs(back - peaks).max() > (1e-8 + 1e-14 * condw) * sc:
        return 'coordinates in units of %g px: round trip misses the target points by %.4g (coordinates up to %.4g)' % (unit, np.abs(back - peaks).max(), sc)
    M = np.zeros((3, 3))
    M[0:2, 0:2], M[2, 0:2], M[2, 2] = L, t, 1
    c = grm.find_center(M)
    c2 = grm.do_transformation(M, np.array([c]))[0]
    if not np.isfinite(c).all() or np.abs(c2 - c).max() > 1e-7 * max(sc, np.abs(c).max()) * np.linalg.cond(L - np.eye(2)):
        return 'coordinates in units of %g px: centre %s is not the fixed point (maps to %s)' % (unit, np.asarray(c).tolist(), np.asarray(c2).tolist())
    return None


def tracking_failure(seed, steps=5):
    """frame-to-frame tracking: one reference buffer is updated in place (ref[:] = target) between unweighted fits with the same centre;
    every fit must be the fit of the arrays' CURRENT contents"""
    r = np.random.default_rng(seed)
    n = int(r.integers(3, 12))
    while True:
        ref = r.uniform(-50, 80, size=(n, 2))
        if np.linalg.cond(np.hstack([ref - ref.mean(axis=0), np.ones((n, 1))])) < 1e3:
            break
    centre = [None, np.zeros(2), r.uniform(-30, 60, 2)][int(r.integers(0, 3))]
    for k in range(steps):
        L, t = rand_map(r)
        L = np.eye(2) + 0.05 * (L - np.eye(2))          # small frame-to-frame change
        peaks = ref @ L + t
        sc = max(1.0, np.abs(peaks).max(), np.abs(ref).max())
        fit = grm.get_transformation(ref, peaks, center=centre)
        back = grm.do_transformation(fit, ref, center=centre)
        if np.abs(back - peaks).max() > 1e-8 * sc:
            return 'step %d of a tracking loop (reference buffer updated in place before this fit): round trip misses the target points by %.4g' % (k, np.abs(back - peaks).max())
        ref[:] = peaks                                # in-place update of the same array object
    return None


def gen_hard(rng):
    """exactly affine point sets whose design matrix is badly scaled: a small group of neighbouring spots far away from the centre
    argument, or weights spread over many decades (any centre and any positive weights are allowed)"""
    L, t = rand_map(rng)
    if rng.integers(0, 2):
        n = int(rng.integers(3, 8))
        while True:
            ref = np.array([float(rng.choice([800.0, 2500.0, -4000.0])), float(rng.choice([800.0, 2500.0, 6000.0]))]) + rng.uniform(-3, 3, size=(n, 2))
            if np.linalg.cond(np.hstack([ref - ref.mean(axis=0), np.ones((n, 1))])) < 50:
                break
        centre = [None, np.zeros(2), rng.uniform(-30, 60, 2)][int(rng.integers(0, 3))]
        w = [None, rng.uniform(0.1, 10, n)][int(rng.integers(0, 2))]
    else:
        n = int(rng.integers(3, 7))
        while True:
            ref = rng.uniform(-50, 80, size=(n, 2))
            if np.linalg.cond(np.hstack([ref - ref.mean(axis=0), np.ones((n, 1))])) < 50:
                break
        centre = [None, ref.mean(axis=0)][int(rng.integers(0, 2))]
        w = 10.0 ** rng.uniform(-7.5, 0, n)
        w[int(rng.integers(0, n))] = 1.0
        w[int(rng.integers(0, n))] = 1e-7
    return ref, L, t, centre, w


def stmt_failure(ref, L, t, centre, w, noise=None):
    peaks = ref @ L + t
    sc = max(1.0, np.abs(peaks).max(), np.abs(ref).max())
    try:
        fit = core.call_guarded(grm.get_transformation, ref, peaks, center=centre, weighs=w)
        back = core.call_guarded(grm.do_transformation, fit, ref, center=centre)
    except Exception as e:  # noqa
        return 'raised %s: %s' % (type(e).__name__, e)
    if np.abs(back - peaks).max() > 1e-8 * sc:
        return 'round trip does not reproduce the target points (max error %.4g; centre %s, weights %s)' % (np.abs(back - peaks).max(), None if centre is None else centre.tolist(),
                                                                                                         None if w is None else 'given')
    # results are the caller's: a later call (same number of points) must not change an earlier result
    keep = back.copy()
    other = core.call_guarded(grm.do_transformation, fit * 1.5 + 0.25, ref[::-1].copy(), center=centre)
    if not np.array_equal(back, keep):
        return 'the array returned by do_transformation changed when do_transformation was called again (results share a buffer)'
    fit_keep = fit.copy()
    grm.get_transformation(ref[::-1].copy(), peaks + 1.0, center=centre, weighs=w)
    if not np.array_equal(fit, fit_keep):
        return 'the matrix returned by get_transformation changed when get_transformation was called again'
    if np.array_equal(ref, np.rint(ref)) and ref.min() >= 0 and np.array_equal(peaks, np.rint(peaks)) and peaks.min() >= 0 and peaks.max() < 65535:
        # pixel positions stored as unsigned integers (the dtype of centre buffers): no intermediate may be computed in that dtype
        try:
            fit_u = grm.get_transformation(ref.astype(np.uint16), peaks.astype(np.uint16), center=centre, weighs=w)
        except Exception as e:  # noqa
            return 'raised %s for uint16 point sets: %s' % (type(e).__name__, e)
        if np.abs(fit_u - fit).max() > 1e-8 * sc:
            return 'uint16 point sets give a different transformation than the same values as float64 (max deviation %.4g)' % np.abs(fit_u - fit).max()
    # accuracy of the last column: round-off of the solve grows with the condition of the weighted design (weights over many decades)
    cpt0 = np.zeros(2) if centre is None else centre
    condw = np.linalg.cond(np.hstack([ref - cpt0, np.ones((len(ref), 1))]) * (np.ones(len(ref)) if w is None else w)[:, None])
    if np.abs(fit[:, 2] - np.array([0, 0, 1])).max() > 1e-9 + 1e-14 * condw:
        return 'last column of the fitted matrix is not (0,0,1): %s' % fit[:, 2].tolist()
    if np.array_equal(ref, np.rint(ref)):
        # the same reference points as an integer array (pixel positions) must give the same result
        try:
            ri = ref.astype(np.int64)
            fit_i = grm.get_transformation(ri, peaks, center=centre, weighs=w)
            back_i = grm.do_transformation(fit_i, ri, center=centre)
        except Exception as e:  # noqa
            return 'raised %s for integer reference points: %s' % (type(e).__name__, e)
        if np.abs(back_i - peaks).max() > 1e-8 * sc:
            return 'round trip with integer-dtype reference points does not reproduce the target points (max error %.4g; centre %s)' % (
                np.abs(back_i - peaks).max(), None if centre is None else centre.tolist())
    if noise is not None:
        pk = peaks + noise
        fit2 = grm.get_transformation(ref, pk, center=centre, weighs=w)
        if w is not None and np.array_equal(w, np.rint(w)):
            # whole-number weights (counts) given in a narrow integer dtype must give the same fit as the same values in float64
            for dt in (np.uint8, np.uint16, np.int32):
                if w.max() <= np.iinfo(dt).max:
                    try:
                        fit_w = grm.get_transformation(ref, pk, center=centre, weighs=w.astype(dt))
                    except Exception as e:  # noqa
                        return 'raised %s for %s weights: %s' % (type(e).__name__, np.dtype(dt).name, e)
                    if np.abs(fit_w - fit2).max() > 1e-8 * sc:
                        return 'weights %s given as %s change the fit (max deviation %.4g)' % (w[:6].tolist(), np.dtype(dt).name, np.abs(fit_w - fit2).max())
        c = np.zeros(2) if centre is None else centre
        A = np.hstack([ref - c, np.ones((len(ref), 1))])
        ww = np.ones(len(ref)) if w is None else w
        res = (A @ fit2)[:, 0:2] - (pk - c)
        g = A.T @ ((ww ** 2)[:, None] * res)
        gs = np.abs(A).T @ ((ww ** 2)[:, None] * (np.abs(res) + 1e-12 * sc))
        if (np.abs(g) > 1e-7 * gs + 1e-9 * sc * (ww ** 2).sum()).any():
            return 'with residuals the fit is not the least-squares optimum for squared weights'
    # fixed point
    M = np.zeros((3, 3))
    M[0:2, 0:2] = L
    M[2, 0:2] = t
    M[2, 2] = 1
    try:
        c = core.call_guarded(grm.find_center, M)
    except Exception as e:  # noqa
        return 'find_center raised %s' % type(e).__name__
    if not np.isfinite(c).all():
        return 'find_center returned a non-finite centre %s for a map whose linear part has no eigenvalue 1 (L - I = %s)' % (np.asarray(c).tolist(), (L - np.eye(2)).tolist())
    c2 = grm.do_transformation(M, np.array([c]))[0]
    if np.abs(c2 - c).max() > 1e-7 * max(1.0, np.abs(c).max()) * np.linalg.cond(L - np.eye(2)):
        return 'centre %s of the transformation is not its fixed point: it maps to %s' % (c.tolist(), c2.tolist())
    return None


def mk_replay(ref, L, t, centre, w, fail, noise=None):
    return {'kind': 'input', 'call': 'get_transformation / do_transformation / find_center',
            'args': {'ref': ref.tolist(), 'L': L.tolist(), 't': t.tolist(), 'center': None if centre is None else centre.tolist(), 'weights': None if w is None else w.tolist(),
                     'noise': None if noise is None else noise.tolist()}, 'failure': fail}


def replay(body):
    a = body['args']
    if 'tracking_seed' in a:
        fail = tracking_failure(a['tracking_seed'])
        print(json.dumps({'failure_now': fail}, indent=1))
        if fail:
            print('VIOLATION property=C20 replay=(given)')
            return 1
        return 0
    if 'unit' in a:
        fail = units_failure(np.array(a['ref']), np.array(a['L']), np.array(a['t']), None if a['center'] is None else np.array(a['center']), None if a['weights'] is None else np.array(a['weights']), a['unit'])
        print(json.dumps({'failure_now': fail}, indent=1))
        if fail:
            print('VIOLATION property=C20 replay=(given)')
            return 1
        return 0
    fail = stmt_failure(np.array(a['ref']), np.array(a['L']), np.array(a['t']), None if a['center'] is None else np.array(a['center']), None if a['weights'] is None else np.array(a['weights']),
                        None if a.get('noise') is None else np.array(a['noise']))
    print(json.dumps({'failure_now': fail}, indent=1))
    if fail:
        print('VIOLATION property=C20 replay=(given)')
        return 1
    return 0


def run(ctx):
    rng = ctx.rng
    ctx.check_theorems()
    ctx.check_generated(['vaff'])
    exprs, meta = [], []
    for k in range(ctx.n(60, 600)):
        ref, L, t, centre, w = gen(rng)
        if len(ref) > 16:
            ref = ref[:16]
            w = None if w is None else w[:16]
        noise = rng.normal(0, 0.5, size=ref.shape) if k % 2 else np.zeros(ref.shape)
        peaks = ref @ L + t + noise
        c = np.zeros(2) if centre is None else centre
        ww = np.ones(len(ref)) if w is None else w
        l = '[' + '; '.join('Build_pair %s %s %s %s %s' % (cq(F(a)), cq(F(r[0])), cq(F(r[1])), cq(F(p[0])), cq(F(p[1]))) for a, r, p in zip(ww, ref, peaks)) + ']'
        probe = rng.uniform(-30, 30, 2)
        exprs.append('match get_transformation %s %s with Some m0 => let m := m3red m0 in (1, m3l m, vl (do_transformation m %s %s), '
                     'match find_center m with Some c => vl c | None => vl vzero end) | None => (0, [], vl vzero, vl vzero) end'
                     % (qv(c), l, qv(c), qv(probe)))
        meta.append((ref, peaks, centre, w, probe))
    vals = ctx.coq_eval('k', 'Model.Lattice Model.WLS', exprs, shard=4, timeout=1500)
    ndis = 0
    for mv, (ref, peaks, centre, w, probe) in zip(vals, meta):
        ok, mat, dt, fc = mv
        fit = grm.get_transformation(ref, peaks, center=centre, weighs=w)
        sc = max(1.0, np.abs(peaks).max(), np.abs(ref).max())
        cpt = np.zeros(2) if centre is None else centre
        cond = np.linalg.cond(np.hstack([ref - cpt, np.ones((len(ref), 1))]) * (np.ones(len(ref)) if w is None else w)[:, None])
        mm = np.array([[lq(e) for e in row] for row in mat]) if ok == 1 else np.zeros((3, 3))
        problems = []
        if ok != 1 or np.abs(mm - fit).max() > 1e-10 * cond * sc + 1e-9:
            problems.append('matrix model %s impl %s' % (mm.tolist(), fit.tolist()))
        else:
            d = grm.do_transformation(fit, np.array([probe]), center=centre)[0]
            if np.abs(lvec(dt) - d).max() > 1e-9 * cond * sc:
                problems.append('do_transformation model %s impl %s' % (lvec(dt).tolist(), d.tolist()))
            try:
                c_i = grm.find_center(fit)
                c_m = lvec(fc)
                fitq = np.array(fit)
                if abs(np.linalg.det(fitq[0:2, 0:2] - np.eye(2))) > 1e-3 and np.abs(c_i - c_m).max() > 1e-6 * max(1.0, np.abs(c_i).max()) * np.linalg.cond(fitq[0:2, 0:2] - np.eye(2)):
                    problems.append('find_center model %s impl %s' % (c_m.tolist(), c_i.tolist()))
            except np.linalg.LinAlgError:
                pass
        ctx.count(1, key=(ref.tolist(), peaks.tolist()))
        if len(ctx.cov['samples']) < 3:
            ctx.sample({'n_points': len(ref), 'centre': None if centre is None else centre.tolist(), 'weights': 'none' if w is None else 'given', 'impl_matrix': np.asarray(fit).tolist(), 'model_matrix': mm.tolist()})
        if problems:
            ndis += 1
            ctx.obligation('K:C20 case', False, '; '.join(problems)[:600])
    ctx.obligation('K:C20 correspondence WLS.get_transformation / do_transformation / find_center vs implementation (%d fits)' % len(vals), ndis == 0, '%d disagreements' % ndis)

    for k in range(ctx.n(300, 4000)):
        ref, L, t, centre, w = gen(rng)
        noise = rng.normal(0, 1.0, size=ref.shape)
        fail = stmt_failure(ref, L, t, centre, w, noise)
        ctx.count(1)
        ctx.hist('centre', 'none' if centre is None else 'given')
        ctx.hist('weights', 'none' if w is None else ('uniform' if np.ptp(w) == 0 else 'random'))
        if fail:
            ctx.violation('input', fail, mk_replay(ref, L, t, centre, w, fail, noise))
            break
    for k in range(ctx.n(60, 600)):
        ref, L, t, centre, w = gen(rng)
        unit = float(rng.choice([1e-9, 1e-8, 1e-6, 55e-6, 1e3, 1e6]))
        fail = units_failure(ref, L, t, centre, w, unit)
        ctx.count(1)
        ctx.hist('length unit', unit)
        if fail:
            r_ = mk_replay(ref, L, t, centre, w, fail, None)
            r_['args']['unit'] = unit
            ctx.violation('input', fail, r_)
            break
    for k in range(ctx.n(20, 200)):
        sd = int(rng.integers(0, 2 ** 31))
        fail = tracking_failure(sd)
        ctx.count(5)
        if fail:
            ctx.violation('input', fail, {'kind': 'history', 'call': 'get_transformation in a tracking loop', 'args': {'tracking_seed': sd}, 'failure': fail})
            break
    for k in range(ctx.n(80, 800)):
        ref, L, t, centre, w = gen_hard(rng)
        fail = stmt_failure(ref, L, t, centre, w, None)
        ctx.count(1)
        ctx.hist('badly scaled design', 'far cluster' if np.abs(ref).max() > 500 else 'weights over 7 decades')
        if fail:
            ctx.violation('input', fail, mk_replay(ref, L, t, centre, w, fail, None))
            break
    return ctx.finish(
        LEVEL,
        explanation='Theorems over Q: exact affine data are recovered exactly by the column-wise weighted fit (any centre, any weights), the fit is the '
                    'least-squares optimum for the squared weights, the centre returned by find_center is the fixed point. Tie: get_transformation / '
                    'do_transformation / find_center in exact rationals vs the lstsq/solve implementation on the same floats.',
        rule='3..40 points (K: <= 16), rotations / shears / anisotropic scalings / random maps with condition <= 100 and no eigenvalue 1, centre None/0/random, '
             'weights None/uniform/random, with and without residuals; exactly affine sets with a badly scaled design (small cluster 800..6000 px from the centre argument, weights over 7 decades).')
