"""C08 - Results do not depend on buffer size, peak order or other peaks."""
import json

import numpy as np

import core
from core import cz
import corrlib as cl
from libertem_blobfinder.base import correlation as blc

LEVEL = 'proof'


def record_blocks(method, pattern, frame, peaks, bc):
    """run the real loop with a recording crop function; returns the (len(peaks_slice), len(buffer)) per block"""
    calls = []

    def rec(peaks, frame, crop_size, out_crop_bufs):
        calls.append((int(len(peaks)), int(out_crop_bufs.shape[0]), [tuple(int(v) for v in p) for p in peaks]))
        return blc.crop_disks_from_frame(peaks=peaks, frame=frame, crop_size=crop_size, out_crop_bufs=out_crop_bufs)
    run = cl.run_fast if method == 'fast' else cl.run_full
    outs = run(pattern, frame, peaks, bc=bc, crop_function=rec)
    return calls, outs


def reference(method, pattern, frame, peaks, upsample):
    run = cl.run_fast if method == 'fast' else cl.run_full
    outs = [run(pattern, frame, [p], bc=1, upsample=upsample) for p in peaks]
    return tuple(np.concatenate([o[k] for o in outs]) for k in range(4))


def stmt_failure(method, pattern, frame, peaks, bc, upsample, ref=None, cf=None):
    """the property on the implementation: result with buffer count bc (and crop function cf: None = default, 'slicing') == per-peak
    reference (default crop function, each peak alone); every entry written"""
    run = cl.run_fast if method == 'fast' else cl.run_full
    if ref is None:
        ref = reference(method, pattern, frame, peaks, upsample)
    try:
        outs = run(pattern, frame, peaks, bc=bc, upsample=upsample, crop_function=blc.crop_disks_from_frame_slicing if cf == 'slicing' else None)
    except Exception as e:  # noqa
        return 'raised %s: %s' % (type(e).__name__, e)
    if (outs[0] == -99).any() or np.isnan(outs[1]).any() or np.isnan(outs[2]).any() or np.isnan(outs[3]).any():
        return 'an output entry was not written (sentinel/NaN left): centres %s heights %s' % (outs[0].tolist(), outs[2].tolist())
    sc = float(np.abs(ref[2]).max()) if len(peaks) else 1.0
    if not cl.results_close(outs, ref, rtol=1e-5, scale=sc):
        bad = [i for i in range(len(peaks)) if not cl.results_close(tuple(o[i:i + 1] for o in outs), tuple(r[i:i + 1] for r in ref), 1e-5, sc)]
        i = bad[0]
        return ('peak #%d %s: with buffer count %d got centre %s refined %s height %.7g elevation %.7g, alone: centre %s refined %s height %.7g elevation %.7g'
                % (i, tuple(peaks[i]), bc, outs[0][i].tolist(), outs[1][i].tolist(), outs[2][i], outs[3][i],
                   ref[0][i].tolist(), ref[1][i].tolist(), ref[2][i], ref[3][i]))
    return None


def batch_failure(seed, method, dt, upsample):
    """the batch entry points with more peaks than the default crop-buffer budget holds (several blocks), peak lists in random order, frames in a
    wide dtype on a pedestal: the result of a peak is the one it gets in a list that fits one block / when it is processed alone"""
    from libertem_blobfinder.common import correlation as cc, patterns as pat
    r = np.random.default_rng(seed)
    c = int(r.choice([24, 32]))
    pattern = pat.RadialGradient(radius=float(r.choice([6.0, 10.0])), search=float(c))
    per = int(blc.get_buf_count(c, 10 ** 6, np.dtype(np.result_type(np.dtype(dt), np.float32))))
    n = per + int(r.integers(1, 6))
    fy, fx = int(r.integers(2 * c + 40, 2 * c + 120)), int(r.integers(2 * c + 40, 2 * c + 120))
    base = 10 ** 9 if dt in ('float64', 'int64') else 0
    data = r.poisson(6.0, size=(2, fy, fx)).astype(np.int64)
    grid = [(y, x) for y in range(c, fy - c, max(1, (fy - 2 * c) // 8)) for x in range(c, fx - c, max(1, (fx - 2 * c) // 8))]
    peaks = np.array([grid[i] for i in r.permutation(len(grid))[:n]])
    for (py, px) in peaks:
        data[:, py - 2:py + 3, px - 2:px + 3] += 40
    frames = (data + base).astype(dt)
    fn = cc.process_frames_fast if method == 'fast' else cc.process_frames_full
    try:
        whole = fn(pattern, frames, peaks, upsample=upsample)
        k = int(r.integers(1, min(per, n) + 1))
        part = fn(pattern, frames, peaks[:k], upsample=upsample)          # a prefix that fits one block
        last = fn(pattern, frames, peaks[n - 1:n], upsample=upsample)      # the last peak alone
    except Exception as e:  # noqa
        return 'process_frames_%s raised %s: %s' % (method, type(e).__name__, e)
    sc = float(np.abs(part[2]).max()) + 1.0
    for name, sub, sl in (('the first %d peaks alone (one block)' % k, part, slice(0, k)), ('the last peak alone', last, slice(n - 1, n))):
        got = tuple(w[:, sl] for w in whole)
        if not cl.results_close(tuple(g[0] for g in got), tuple(s_[0] for s_ in sub), rtol=1e-5, scale=sc) or not cl.results_close(tuple(g[1] for g in got), tuple(s_[1] for s_ in sub), rtol=1e-5, scale=sc):
            j = int(np.argmax(np.abs(got[1].astype(float) - sub[1].astype(float)).max(axis=(0, 2))))
            return ('process_frames_%s (%s frames%s, crop size %d, upsample=%s): %d peaks in random order (more than the %d crop buffers of the default budget) vs %s: peak %s gets centre %s / refined %s, '
                    'otherwise centre %s / refined %s' % (method, dt, ' on a pedestal of 1e9' if base else '', c, upsample, n, per, name, peaks[sl][j].tolist(), got[0][0][j].tolist(), got[1][0][j].tolist(),
                                                         sub[0][0][j].tolist(), sub[1][0][j].tolist()))
    return None


FRESH_SRC = """
import json, sys, numpy as np
import corrlib as cl
a = json.loads(sys.argv[1])
r = np.random.default_rng(a['seed'])
pattern = cl.pattern_from_desc(a['desc'])
frame = r.poisson(4.0, size=(a['h'], a['w'])).astype(np.float32)
o = cl.run_full(pattern, frame, a['peaks'], upsample=a['ups'])
print('RESULT ' + json.dumps([np.asarray(x, dtype=float).tolist() for x in o]))
"""


def fresh_process_failure(desc, h, k, ups, seed):
    """the result for a frame of width 2k+1 in THIS process -- which first processes a frame of width 2k (same half-spectrum width) -- against
    the result a fresh interpreter gives for that frame alone: a peak's result depends on the frame, the pattern and its position only"""
    import subprocess
    import sys
    r = np.random.default_rng(seed)
    pattern = cl.pattern_from_desc(desc)
    c = pattern.get_crop_size()
    w = 2 * k + 1
    frame = r.poisson(4.0, size=(h, w)).astype(np.float32)            # the same draw as in FRESH_SRC
    peaks = [[int(h // 2), int(w // 3)], [int(h // 3), int(2 * w // 3)], [int(h // 4), int(w // 2)], [int(3 * h // 4), int(w // 4)], [int(h // 2), int(3 * w // 4)], [int(2 * h // 3), int(w // 2)]]
    other = np.random.default_rng(seed + 1).poisson(4.0, size=(h, 2 * k)).astype(np.float32)
    cl.run_full(pattern, other, peaks, upsample=ups)                  # the even width first
    here = cl.run_full(pattern, frame, peaks, upsample=ups)
    arg = json.dumps({'seed': int(seed), 'desc': desc, 'h': int(h), 'w': int(w), 'peaks': peaks, 'ups': ups})
    out = subprocess.run([sys.executable, '-W', 'ignore', '-c', FRESH_SRC, arg], capture_output=True, text=True, timeout=600)
    line = [ln for ln in out.stdout.splitlines() if ln.startswith('RESULT ')]
    if not line:
        raise core.Broken('fresh interpreter did not answer: ' + out.stderr[-300:])
    fresh = [np.array(x) for x in json.loads(line[0][7:])]
    for name, u, v in zip(('centres', 'refineds', 'heights', 'elevations'), here, fresh):
        if not np.allclose(np.asarray(u, dtype=float), v, rtol=1e-5, atol=1e-5 * (1.0 + float(np.abs(fresh[2]).max())), equal_nan=True):
            return ('process_frame_full(upsample=%s) on a %dx%d frame after a %dx%d frame was processed in the same interpreter: %s %s, in a fresh interpreter %s'
                    % (ups, h, w, h, 2 * k, name, np.asarray(u).tolist(), v.tolist()))
    return None


def mk_replay(desc, frame, peaks, method, bc, upsample, fail, cf=None):
    return {'kind': 'input', 'call': 'process_frame_%s' % method,
            'args': {'pattern': desc, 'frame': np.asarray(frame, dtype=np.float64).tolist(), 'peaks': [list(map(int, p)) for p in peaks],
                     'method': method, 'buffer_count': int(bc), 'upsample': upsample, 'crop_function': cf},
            'failure': fail}


def replay(body):
    if 'frame_ints' in body.get('args', {}):
        return cl.replay_case(body, 'C08')          # a failing input recorded by the model correspondence (cl.model_check)
    a = body['args']
    if body.get('call') == 'get_buf_count':
        r = blc.get_buf_count(a['crop_size'], a['n_peaks'], np.dtype(a['dtype']), a['limit'])
        fs = (2 * a['crop_size']) ** 2 * np.dtype(a['dtype']).itemsize
        ok = (1 <= r <= a['n_peaks']) and not (fs <= a['limit'] and r * fs > a['limit'])
        print(json.dumps({'replayed': a, 'result': int(r)}))
        if not ok:
            print('VIOLATION property=C08 replay=(given)')
        return 0 if ok else 1
    if 'fresh_process' in a:
        x = a['fresh_process']
        fail = fresh_process_failure(a['pattern'], x['h'], x['k'], x['upsample'], x['seed'])
        print(json.dumps({'failure_now': fail}, indent=1))
        if fail:
            print('VIOLATION property=C08 replay=(given)')
            return 1
        return 0
    if 'cross_shape' in a:
        from props import C09 as _c09
        x = a['cross_shape']
        fail = _c09.cross_shape_failure(a['pattern'], x['h'], x['k'], x['upsample'], x['seed'])
        print(json.dumps({'failure_now': fail}, indent=1))
        if fail:
            print('VIOLATION property=C08 replay=(given)')
            return 1
        return 0
    if 'batch_seed' in a:
        fail = batch_failure(a['batch_seed'], a['method'], a['dtype'], a['upsample'])
        print(json.dumps({'failure_now': fail}, indent=1))
        if fail:
            print('VIOLATION property=C08 replay=(given)')
            return 1
        return 0
    pattern = cl.pattern_from_desc(a['pattern'])
    frame = np.array(a['frame'], dtype=np.float32)
    fail = stmt_failure(a['method'], pattern, frame, a['peaks'], a['buffer_count'], a['upsample'], cf=a.get('crop_function'))
    print(json.dumps({'replayed': {k: a[k] for k in ('pattern', 'peaks', 'method', 'buffer_count', 'upsample')}, 'failure_now': fail}, indent=1, default=str))
    if fail:
        print('VIOLATION property=C08 replay=(given)')
        return 1
    return 0


DT = {1: 'uint8', 2: 'int16', 4: 'float32', 8: 'float64'}


def run(ctx):
    rng = ctx.rng
    ctx.check_theorems()
    ctx.check_generated(['blocks', 'kcalls', 'klog', 'kblocks', 'crop'])

    # (S0) before anything else has been processed in this interpreter: used vs fresh interpreter
    for i in range(ctx.n(2, 8)):
        pattern_, desc_ = cl.rand_pattern(rng, cmax=4, kinds=['Circular', 'RadialGradient', 'BackgroundSubtraction'])
        h_, k_, ups_, sd_ = int(rng.integers(24, 40)), 14 + i, [True, 10][i % 2], int(rng.integers(0, 2 ** 30))        # small widths (the last column of the half spectrum matters); this stream runs first
        fail = fresh_process_failure(desc_, h_, k_, ups_, sd_)
        if fail:
            ctx.violation('input', 'result depends on frames processed before: ' + fail, {'kind': 'history', 'call': 'process_frame_full in a used vs a fresh interpreter',
                          'args': {'pattern': desc_, 'fresh_process': {'h': h_, 'k': k_, 'upsample': ups_, 'seed': sd_}}, 'failure': fail})
            break

    # -------- (K1) get_buf_count vs Blocks.buf_count, exhaustive box --------
    box = []
    for c in (1, 2, 3, 4):
        for n in (1, 2, 3, 5, 8):
            for isz in (1, 2, 4, 8):
                fs = (2 * c) ** 2 * isz
                for lim in sorted(set([0, 1, fs - 1, fs, fs + 1, 2 * fs - 1, 2 * fs, 3 * fs + 2, n * fs - 1, n * fs, n * fs + 1, 10 * n * fs, 2 ** 19])):
                    box.append((c, n, isz, lim))
    impl = [int(blc.get_buf_count(c, n, np.dtype(DT[isz]), lim)) for (c, n, isz, lim) in box]
    mod = ctx.coq_eval('bufcount', 'Base.Util Model.Blocks',
                       ['map (fun q => match q with (c, n, i, l) => buf_count c n i l end) [%s]' % '; '.join('(%d, %d, %d, %d)' % q for q in box)])[0]
    bad = [(q, a, b) for q, a, b in zip(box, impl, mod) if a != b]
    ctx.count(len(box))
    ctx.obligation('K:C08 get_buf_count = Blocks.buf_count on %d argument tuples' % len(box), not bad, str(bad[:3]))
    for (c, n, isz, lim), r in zip(box, impl):
        fs = (2 * c) ** 2 * isz
        if not (1 <= r <= n) or (fs <= lim and r * fs > lim):
            ctx.violation('input', 'get_buf_count(%d, %d, %s, %d) = %d violates its bounds' % (c, n, DT[isz], lim, r),
                          {'kind': 'input', 'call': 'get_buf_count', 'args': {'crop_size': c, 'n_peaks': n, 'dtype': DT[isz], 'limit': lim}})
            break

    # -------- (K2) the block sequence of the real loops vs Blocks.blocks --------
    pattern, desc = cl.rand_pattern(rng, cmax=3, kinds=['RadialGradient'])
    c = pattern.get_crop_size()
    frame = cl.rand_frame(rng, 14, 17, 'blobs')[0].astype(np.float32)
    nmax = ctx.n(9, 20)
    combos = [(n, bc) for n in range(0, nmax + 1) for bc in range(1, n + 4)]
    mblocks = ctx.coq_eval('blocks', 'Base.Util Model.Blocks', ['map (fun q => blocks (fst q) (snd q)) [%s]' % '; '.join('(%d, %d)' % q for q in combos)])[0]
    nbad = 0
    for (n, bc), mb in zip(combos, mblocks):
        peaks = cl.rand_peaks(rng, 14, 17, c, n)
        for method in ('fast', 'full'):
            calls, _ = record_blocks(method, pattern, frame, peaks, bc)
            got = []
            pos = 0
            for (ln, nbuf, pk) in calls:
                got.append((pos, pos + ln))
                if pk != [tuple(p) for p in peaks[pos:pos + ln]] or nbuf != ln:
                    nbad += 1
                pos += ln
            want = [tuple(b) for b in mb]
            if got != want:
                nbad += 1
                ctx.obligation('K:C08 block sequence %s n=%d bc=%d' % (method, n, bc), False, 'impl %s model %s' % (got, want))
            ctx.count(1, key=('blocks', n, bc, method))
    ctx.obligation('K:C08 block sequences of process_frame_fast/full = Blocks.blocks for n=0..%d, bc=1..n+3 (%d runs)' % (nmax, 2 * len(combos)), nbad == 0, '%d mismatches' % nbad)

    # -------- (K3) model = implementation under permutation / duplication / different buffer counts --------
    items = []
    for k in range(ctx.n(6, 40)):
        pattern, desc = cl.rand_pattern(rng, cmax=3)
        c = pattern.get_crop_size()
        fy, fx = int(rng.integers(6, 12)), int(rng.integers(6, 12))
        ints, kind = cl.rand_frame(rng, fy, fx, str(rng.choice(['noise', 'blobs', 'structured'])))
        peaks = cl.rand_peaks(rng, fy, fx, c, 3)
        peaks = peaks + [peaks[0]]          # a duplicated peak
        perm = [peaks[i] for i in rng.permutation(len(peaks))]
        method = 'fast' if k % 2 == 0 else 'full'
        bc = int(rng.integers(1, len(perm) + 3))
        run_impl = cl.run_fast if method == 'fast' else cl.run_full
        outs = run_impl(pattern, ints.astype(np.float32), perm, bc=bc)
        items.append(dict(pattern=pattern, desc=desc, ints=ints, one=1, peaks=perm, method=method, outs=outs, note='permuted+duplicate bc=%d' % bc))
    cl.model_check(ctx, items, 'C08', 'result of a peak depends on buffer count / peak order')

    # -------- (S) the statement on the implementation --------
    nS = ctx.n(10, 40)
    nruns = 0
    found = False
    for rep in range(ctx.n(2, 6)):
        pattern, desc = cl.rand_pattern(rng, cmax=5)
        c = pattern.get_crop_size()
        fy, fx = int(rng.integers(2 * c + 4, 40)), int(rng.integers(2 * c + 4, 40))
        ints, kind = cl.rand_frame(rng, fy, fx, str(rng.choice(['noise', 'blobs', 'structured', 'negative'])))
        frame = (ints + rng.normal(0, 0.5, size=ints.shape)).astype(np.float32)
        allpeaks = cl.rand_peaks(rng, fy, fx, c, nS)
        for method in ('fast', 'full'):
            for upsample in ((False, 5) if rep % 2 == 0 else (False,)):
                refall = reference(method, pattern, frame, allpeaks, upsample)
                for n in range(1, nS + 1):
                    peaks = allpeaks[:n]
                    ref = tuple(r[:n] for r in refall)
                    bcs = range(1, n + 4) if (not upsample or n % 3 == 0) else (1, n, n + 1)
                    for bc in bcs:
                        for cf in ((None, 'slicing') if not upsample else (None,)):
                            nruns += 1
                            fail = stmt_failure(method, pattern, frame, peaks, bc, upsample, ref, cf)
                            if fail:
                                ctx.violation('input', 'result depends on the buffer count%s: ' % (' (slicing crop function)' if cf else '') + fail,
                                              mk_replay(desc, frame, peaks, method, bc, upsample, fail, cf))
                                found = True
                                break
                        if found:
                            break
                    if found:
                        break
                if found:
                    break
                # permutation, duplication, added peaks
                perm = [int(i) for i in rng.permutation(nS)]
                pp = [allpeaks[i] for i in perm] + [allpeaks[0], allpeaks[-1]]
                refp = tuple(np.concatenate([r[perm], r[[0, nS - 1]]]) for r in refall)
                for bc in (1, 3, len(pp)):
                    for cf in (None, 'slicing'):
                        nruns += 1
                        fail = stmt_failure(method, pattern, frame, pp, bc, upsample, refp, cf)
                        if fail:
                            ctx.violation('input', 'result depends on peak order / other peaks%s: ' % (' (slicing crop function)' if cf else '') + fail,
                                          mk_replay(desc, frame, pp, method, bc, upsample, fail, cf))
                            found = True
                            break
                    if found:
                        break
            if found:
                break
        if found:
            break
    # (S) the result of a peak does not depend on which other frames (of other shapes) the process has seen before
    from props import C09 as _c09
    for i in range(ctx.n(6, 30)):
        pattern_, desc_ = cl.rand_pattern(rng, cmax=4)
        h_, k_, ups_, sd_ = int(rng.integers(20, 40)), 60 + i, [4, True, 10][i % 3], int(rng.integers(0, 2 ** 31))       # widths 120+: used nowhere else in this check
        fail = _c09.cross_shape_failure(desc_, h_, k_, ups_, sd_)
        nruns += 4
        if fail:
            ctx.violation('input', 'result depends on frames processed before: ' + fail, {'kind': 'history', 'call': 'process_frame_full/fast over frames of several shapes',
                          'args': {'pattern': desc_, 'cross_shape': {'h': h_, 'k': k_, 'upsample': ups_, 'seed': sd_}}, 'failure': fail})
            break
    # (S) batch entry points beyond the default crop-buffer budget
    for k in range(ctx.n(8, 60)):
        sd = int(rng.integers(0, 2 ** 31))
        method, dt, ups = ['fast', 'full'][k % 2], ['float64', 'float32', 'int64', 'uint16'][(k // 2) % 4], [False, 4][(k // 8) % 2]
        fail = batch_failure(sd, method, dt, ups)
        nruns += 3
        ctx.hist('batch beyond the buffer budget', '%s/%s' % (method, dt))
        if fail:
            ctx.violation('input', 'result depends on the number of peaks / buffer budget: ' + fail, {'kind': 'input', 'call': 'process_frames_%s' % method,
                          'args': {'batch_seed': sd, 'method': method, 'dtype': dt, 'upsample': ups}, 'failure': fail})
            break
    ctx.count(nruns)
    ctx.extra['oracle_runs'] = nruns
    ctx.run_modes()
    return ctx.finish(
        LEVEL,
        explanation='Theorems: the block loop writes out[i] = f(peak i) for all n >= 0 and buffer counts >= 1 (tail block, bc > n), blocks cover every '
                    'index exactly once, get_buf_count bounds, per-peak locality of the fast/full pipeline models. Tie: get_buf_count and the block '
                    'sequence of the real loops (recorded with a wrapping crop function) against the model under vm_compute; pipeline model vs outputs '
                    'under permutation/duplication; oracle: every buffer count 1..n+3 vs each peak processed alone (1e-5 relative).',
        rule='(K1) exhaustive box of get_buf_count arguments; (K2) n=0..nmax x bc=1..n+3 x {fast, full}; (K3) random frames with permuted/duplicated peak '
             'lists; (S) n=1..N, every bc (upsampling: subset), both crop functions, permutations, duplicates (also first = last peak of a block); distinct by (n, bc, method) / (pattern, frame, peak).')
