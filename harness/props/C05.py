"""C05 - Fast matching keeps inliers, rejects outliers and weak peaks, never raises."""
import json
import math
from fractions import Fraction

import numpy as np

import core
from core import cq, cz
from latlib import F, qv, lq, lvec, rand_lattice
from libertem_blobfinder.common import gridmatching as grm

LEVEL = 'proof'


def gen(rng, adversarial=False):
    la, lb = rng.uniform(20, 40, 2)
    tight = rng.random() < 0.2
    if tight:
        # (see below) exact start, tolerance just above the worst-case error of a 0.3 px displacement: lattice constants in the ratio 1 : 2 and
        # every inlier displaced by 0.29 px in a random direction -- any mis-scaling of the error by the cell shape shows
        la, lb = [(20.0, 40.0), (40.0, 20.0), (25.0, 38.0)][int(rng.integers(0, 3))]
    ang = rng.uniform(0, 2 * np.pi)
    d = np.deg2rad(rng.uniform(60, 120)) * rng.choice([-1, 1])
    a = la * np.array([np.sin(ang), np.cos(ang)])
    b = lb * np.array([np.sin(ang + d), np.cos(ang + d)])
    zero = rng.uniform(40, 90, 2)
    n = int(rng.integers(4, 26)) if rng.random() < 0.85 else 3          # also exactly three inliers (a full-rank fit through 3 points)
    while True:
        cand = np.array([(i, j) for i in range(-4, 5) for j in range(-4, 5)])
        idx = cand[rng.permutation(len(cand))[:n]]
        if np.linalg.matrix_rank(np.hstack([np.ones((n, 1)), idx])) == 3:
            break
    noise = rng.uniform(0, 0.3)
    ang2 = rng.uniform(0, 2 * np.pi, n)
    rad = rng.uniform(0, noise, n) if not tight else np.full(n, 0.29)
    pos = zero + idx @ np.array([a, b]) + np.stack([rad * np.sin(ang2), rad * np.cos(ang2)], axis=1)
    w = rng.uniform(0.5, 3.0, n)
    kinds = ['inlier'] * n
    true_idx = [tuple(int(v) for v in ij) for ij in idx]
    # outliers half a cell away
    for _ in range(int(rng.integers(0, 7))):
        ij = rng.integers(-4, 5, 2) + np.array([0.5, rng.choice([0.0, 0.5])])[rng.permutation(2)]
        pos = np.vstack([pos, zero + ij @ np.array([a, b])])
        w = np.append(w, rng.uniform(0.5, 3.0))
        kinds.append('outlier')
        true_idx.append(None)
    # weak peaks on lattice positions
    mw = float(rng.choice([0.1, 0.3]))
    for _ in range(int(rng.integers(0, 4))):
        ij = rng.integers(-4, 5, 2)
        pos = np.vstack([pos, zero + ij @ np.array([a, b])])
        # a NaN elevation (flat correlation map) is not >= min_weight: it must be dropped like any weak peak
        w = np.append(w, rng.uniform(0, mw * 0.99) if rng.random() < 0.7 else np.nan)
        kinds.append('weak')
        true_idx.append(None)
    if rng.random() < 0.3:
        w[int(rng.integers(0, n))] = mw              # an elevation exactly at the threshold counts (>= min_weight)
    perm = rng.permutation(len(pos))
    pos, w = pos[perm], w[perm]
    kinds = [kinds[i] for i in perm]
    true_idx = [true_idx[i] for i in perm]
    def ball(rad):
        rr = rng.uniform(0, 1.0) * rad
        tt = rng.uniform(0, 2 * np.pi)
        return rr * np.array([np.sin(tt), np.cos(tt)])
    tol = float(rng.choice([1.5, 2.0, 3.0]))
    # half of the cases: start error small enough that the FIRST matching round provably catches every inlier (see `complete`);
    # the other half: the full 'about a pixel' range, where a far inlier may legitimately be missed by the first round
    sc = 1.0 if rng.random() < 0.5 else 0.18 * tol
    dz, da, db = ball(sc), ball(0.2 * sc if sc == 1.0 else 0.02 * tol), ball(0.2 * sc if sc == 1.0 else 0.02 * tol)
    if tight:
        # exact start parameters and a tolerance just above the largest error a 0.3 px displacement can have in a 60..120 degree cell
        # (sqrt(2) * 0.3 / sin 60 = 0.49): every inlier is owed, whatever the cell shape
        tol = float(rng.choice([0.5, 0.6, 0.8]))
        dz, da, db = np.zeros(2), np.zeros(2), np.zeros(2)
    start = (zero + dz, a + da, b + db)
    # worst-case first-round error of an inlier: (noise + |dz| + (|i|+|j|) max(|da|,|db|)) * sqrt(2) / sin(60 deg) must stay below the tolerance
    bound = 1.64 * (0.3 + np.linalg.norm(dz) + 8 * max(np.linalg.norm(da), np.linalg.norm(db)))
    mm = int(rng.integers(3, 6))
    # (tight cases: with 0.29 px on every inlier the refit between the rounds can push a far inlier over a 0.5 px tolerance: completeness is then
    #  decided by the exact model in the (K) stream -- "owed" --, not by this first-round bound)
    return dict(pos=pos, w=w, kinds=kinds, true_idx=true_idx, start=start, tol=tol, mw=mw, mm=mm, true=(zero, a, b), complete=bool(bound < tol) and not tight)


def gen_cloud(rng):
    """random cloud + random start lattice: only well-formedness is required (valid => >= min_match, lengths, weights)"""
    n = int(rng.integers(3, 14))
    pos = rng.uniform(0, 120, size=(n, 2))
    w = rng.uniform(0, 2, n)
    if rng.random() < 0.25:
        w[rng.random(n) < 0.3] = np.nan
    la, lb = rng.uniform(15, 40, 2)
    ang = rng.uniform(0, 2 * np.pi)
    d = np.deg2rad(rng.uniform(50, 130))
    a = la * np.array([np.sin(ang), np.cos(ang)])
    b = lb * np.array([np.sin(ang + d), np.cos(ang + d)])
    return dict(pos=pos, w=w, kinds=['random'] * n, true_idx=[None] * n, start=(rng.uniform(30, 90, 2), a, b), tol=float(rng.choice([3.0, 5.0, 8.0])),
                mw=float(rng.choice([0.1, 0.5])), mm=int(rng.integers(3, 6)), true=None)


def wellformed_failure(c):
    try:
        m = run_impl(c)
    except Exception as e:  # noqa
        return 'fastmatch raised %s: %s' % (type(e).__name__, e)
    if m.isnan():
        if m.selector.any() or len(m.indices) != 0 or not np.isinf(m.error):
            return 'invalid match is not (NaN lattice, empty selection, infinite error)'
        return None
    if int(m.selector.sum()) < c['mm']:
        return 'valid match with %d < min_match=%d selected peaks' % (int(m.selector.sum()), c['mm'])
    if len(m.indices) != int(m.selector.sum()):
        return 'valid match with %d indices but %d selected peaks' % (len(m.indices), int(m.selector.sum()))
    if not (c['w'][m.selector] >= c['mw']).all():
        return 'a selected peak has elevation below min_weight'
    return None


class InputModified(Exception):
    pass


def run_impl(c):
    mm = c['mm'] if not c.get('mm_type') else getattr(np, c['mm_type'])(c['mm'])        # min_match also as a NumPy integer scalar (typed parameter records)
    m = grm.Matcher(tolerance=c['tol'], min_weight=c['mw'], min_match=mm)
    # the production form: whole-pixel centres next to the sub-pixel refined positions (matching and fitting use the refined ones)
    cen = np.where(np.isfinite(c['pos']), np.rint(c['pos']), c['pos']) if c.get('int_centers') else c['pos'].copy()
    args = dict(centers=cen, refineds=c['pos'].copy(), peak_values=c['w'].copy(), peak_elevations=c['w'].copy(),
                zero=c['start'][0].copy(), a=c['start'][1].copy(), b=c['start'][2].copy())
    before = {k: v.copy() for k, v in args.items()}
    r = m.fastmatch(**args)
    for k in args:
        if not np.array_equal(args[k], before[k], equal_nan=True):
            raise InputModified('fastmatch modified its argument `%s` in place' % k)
    return r


def stmt_failure(c):
    try:
        m = run_impl(c)
    except Exception as e:  # noqa
        return 'fastmatch raised %s: %s' % (type(e).__name__, e)
    n_in = sum(1 for k in c['kinds'] if k == 'inlier')
    # completeness (every inlier selected, hence a valid match when there are >= min_match of them) is only owed when the start error
    # is small enough for the first round to catch every inlier at this tolerance; soundness is owed always
    complete = c.get('complete', True)
    owed = c.get('owed') or [False] * len(c['kinds'])
    if m.isnan():
        if n_in >= c['mm'] and complete:
            return 'invalid match although %d inliers >= min_match=%d exist' % (n_in, c['mm'])
        if sum(owed) >= c['mm']:
            return 'invalid match although the two-round matching of the documentation selects %d inliers >= min_match=%d from these start parameters' % (sum(owed), c['mm'])
        if m.selector.any() or len(m.indices) != 0 or not np.isinf(m.error):
            return 'invalid match is not (NaN lattice, empty selection, infinite error)'
        return None
    if len(m.indices) != int(m.selector.sum()):
        return 'valid match with %d indices but %d selected peaks' % (len(m.indices), int(m.selector.sum()))
    if int(m.selector.sum()) < c['mm']:
        return 'valid match with %d < min_match=%d selected peaks' % (int(m.selector.sum()), c['mm'])
    if not (c['w'][m.selector] >= c['mw']).all():
        return 'a selected peak has elevation below min_weight'
    sel = [k for k in range(len(c['pos'])) if m.selector[k]]
    for k, kind in enumerate(c['kinds']):
        if kind == 'inlier' and not m.selector[k] and (complete or owed[k]):
            return 'inlier #%d (within 0.3 px of lattice position %s) was not selected' % (k, c['true_idx'][k])
        if kind in ('outlier', 'weak') and m.selector[k]:
            return '%s peak #%d was selected' % (kind, k)
    for pos_in_sel, k in enumerate(sel):
        if tuple(int(v) for v in m.indices[pos_in_sel]) != c['true_idx'][k]:
            return 'peak #%d got index %s, true index %s' % (k, m.indices[pos_in_sel].tolist(), c['true_idx'][k])
    # lattice = weighted least-squares fit of the selected peaks
    idx = np.array([c['true_idx'][k] for k in sel], dtype=float)
    A = np.hstack([np.ones((len(sel), 1)), idx]) * np.sqrt(c['w'][sel])[:, None]
    x, *_ = np.linalg.lstsq(A, c['pos'][sel] * np.sqrt(c['w'][sel])[:, None], rcond=None)
    if not (np.allclose(m.zero, x[0], atol=1e-7) and np.allclose(m.a, x[1], atol=1e-7) and np.allclose(m.b, x[2], atol=1e-7)):
        return 'lattice is not the weighted least-squares fit of the selected peaks: zero %s vs %s' % (np.asarray(m.zero).tolist(), x[0].tolist())
    return None


def add_junk(c, rng):
    """a strong peak with a non-finite coordinate (a failed refinement): it lies on no lattice position, so it is an outlier like any other"""
    c = dict(c)
    junk = [(np.nan, np.nan), (np.nan, 40.0), (np.inf, np.inf), (55.0, -np.inf)][int(rng.integers(0, 4))]
    at = int(rng.integers(0, len(c['pos']) + 1))
    c['pos'] = np.insert(c['pos'], at, junk, axis=0)
    c['w'] = np.insert(c['w'], at, float(rng.uniform(0.5, 3.0)))
    c['kinds'] = c['kinds'][:at] + ['outlier'] + c['kinds'][at:]
    c['true_idx'] = c['true_idx'][:at] + [None] + c['true_idx'][at:]
    return c


def defaults_failure(c):
    """the optional arguments of fastmatch: refineds defaults to the centres, peak values and peak elevations default to ones -- a call that
    omits an argument must give the result of the call that passes the default explicitly"""
    n = len(c['pos'])
    full = dict(centers=c['pos'], refineds=c['pos'], peak_values=np.ones(n), peak_elevations=np.ones(n))
    given = dict(centers=c['pos'], refineds=c['pos'] + 0.0, peak_values=np.where(np.isnan(c['w']), 0.05, c['w']), peak_elevations=np.where(np.isnan(c['w']), 0.05, c['w']))
    for keys in (('centers',), ('centers', 'refineds'), ('centers', 'peak_values'), ('centers', 'peak_elevations'), ('centers', 'refineds', 'peak_values'),
                 ('centers', 'refineds', 'peak_elevations'), ('centers', 'peak_values', 'peak_elevations')):
        res = []
        for explicit in (False, True):
            kw = {k: (given[k] if k in keys else full[k]).copy() for k in (full if explicit else keys)}
            m = grm.Matcher(tolerance=c['tol'], min_weight=c['mw'], min_match=c['mm'])
            try:
                res.append(m.fastmatch(zero=c['start'][0].copy(), a=c['start'][1].copy(), b=c['start'][2].copy(), **kw))
            except Exception as e:  # noqa
                return 'fastmatch(%s) raised %s: %s' % (', '.join(keys), type(e).__name__, e)
        m0, m1 = res
        same = (m0.isnan() == m1.isnan()) and np.array_equal(m0.selector, m1.selector) and np.array_equal(m0.indices, m1.indices) and (
            m0.isnan() or (np.allclose(m0.zero, m1.zero, atol=1e-9) and np.allclose(m0.a, m1.a, atol=1e-9) and np.allclose(m0.b, m1.b, atol=1e-9)))
        if not same:
            return ('fastmatch called with only (%s) differs from the call that passes the documented defaults (refineds = centres, values = elevations = 1) explicitly: '
                    'selected %d vs %d peaks, zero %s vs %s' % (', '.join(keys), int(m0.selector.sum()), int(m1.selector.sum()), np.asarray(m0.zero).tolist(), np.asarray(m1.zero).tolist()))
    return None


def gen_pixel_positions(rng):
    """peak positions given as whole pixels in an integer dtype (the documented form of `centers` without `refineds`): a lattice whose
    positions are within 0.3 px of whole pixels for the indices used, exact start parameters, tolerance 1 px"""
    e1, e2, e3 = [float(v) for v in rng.choice([-0.05, -0.03, 0.03, 0.05], size=3)]
    a = np.array([e1, 30.0 + e2])
    b = np.array([30.0 + e3, 0.0])
    if rng.integers(0, 2):
        a, b = b, a
    zero = np.array([float(rng.integers(70, 100)), float(rng.integers(70, 100))])
    idx = np.array([(i, j) for i in range(-2, 3) for j in range(-2, 3)])
    idx = idx[rng.permutation(len(idx))[:int(rng.integers(6, 26))]]
    if np.linalg.matrix_rank(np.hstack([np.ones((len(idx), 1)), idx])) < 3:
        idx = np.array([(i, j) for i in range(-2, 3) for j in range(-2, 3)])
    exact = zero + idx @ np.array([a, b])
    pos = np.rint(exact)
    assert np.linalg.norm(pos - exact, axis=1).max() < 0.3        # 2 * 0.07 per term, two terms per component at most
    dt = ['int64', 'int32', 'uint16', 'float64', 'int16'][int(rng.integers(0, 5))]
    n = len(pos)
    return dict(pos=pos.astype(dt), w=rng.uniform(0.5, 3.0, n), kinds=['inlier'] * n, true_idx=[tuple(int(v) for v in ij) for ij in idx], start=(zero, a, b), tol=1.0, mw=0.1, mm=3,
                true=(zero, a, b), complete=True), dt


def covariance_failure(c, rng):
    m0 = run_impl(c)
    th = rng.uniform(0, 2 * np.pi)
    R = np.array([[np.cos(th), -np.sin(th)], [np.sin(th), np.cos(th)]])
    t = rng.uniform(-30, 30, 2)
    c2 = dict(c)
    c2['pos'] = c['pos'] @ R + t
    c2['start'] = (c['start'][0] @ R + t, c['start'][1] @ R, c['start'][2] @ R)
    m1 = run_impl(c2)
    if m0.isnan() != m1.isnan():
        return 'rotating/translating all inputs changes validity'
    if not m0.isnan():
        if not np.array_equal(m0.selector, m1.selector) or not np.array_equal(m0.indices, m1.indices):
            return 'rotating/translating all inputs changes the selection or the indices'
        if not (np.allclose(m1.zero, m0.zero @ R + t, atol=1e-6) and np.allclose(m1.a, m0.a @ R, atol=1e-6) and np.allclose(m1.b, m0.b @ R, atol=1e-6)):
            return 'result is not rotated/translated with the inputs'
    return None


def adversarial(rng):
    """returns list of (description, kwargs) that must return (never raise)"""
    out = []
    z, a, b = np.array([50., 50.]), np.array([20., 0.]), np.array([0., 20.])
    base = z + np.array([(i, j) for i in range(-1, 2) for j in range(-1, 2)]) @ np.array([a, b])
    w = np.ones(len(base))
    out.append(('empty', dict(centers=np.zeros((0, 2)), refineds=np.zeros((0, 2)), peak_values=np.zeros(0), peak_elevations=np.zeros(0), zero=z, a=a, b=b)))
    out.append(('parallel vectors', dict(centers=base, refineds=base, peak_values=w, peak_elevations=w, zero=z, a=a, b=2 * a)))
    out.append(('zero vector', dict(centers=base, refineds=base, peak_values=w, peak_elevations=w, zero=z, a=a, b=np.zeros(2))))
    nb = base.copy()
    nb[0, 0] = np.nan
    out.append(('NaN position', dict(centers=nb, refineds=nb, peak_values=w, peak_elevations=w, zero=z, a=a, b=b)))
    ib = base.copy()
    ib[1, 1] = np.inf
    out.append(('inf position', dict(centers=ib, refineds=ib, peak_values=w, peak_elevations=w, zero=z, a=a, b=b)))
    out.append(('NaN start', dict(centers=base, refineds=base, peak_values=w, peak_elevations=w, zero=np.array([np.nan, 0.]), a=a, b=b)))
    out.append(('duplicates', dict(centers=np.repeat(base[:2], 4, axis=0), refineds=np.repeat(base[:2], 4, axis=0), peak_values=np.ones(8), peak_elevations=np.ones(8), zero=z, a=a, b=b)))
    col = z + np.array([(i, 0) for i in range(-3, 4)]) @ np.array([a, b])
    out.append(('collinear', dict(centers=col, refineds=col, peak_values=np.ones(7), peak_elevations=np.ones(7), zero=z, a=a, b=b)))
    # a peak with a non-finite elevation (+inf passes the >= min_weight filter) on a far lattice position that only the second round picks up
    # (order 6 with a start vector 0.2 px too long: 6 * 0.2 / sqrt(6) = 0.49 > tolerance 0.45): the final fit fails -- invalid match, no exception
    far = np.vstack([base, z + 6 * a + 1 * b])
    wf_ = np.append(w, np.inf)
    out.append(('inf elevation picked up in round 2', dict(centers=far, refineds=far, peak_values=wf_, peak_elevations=wf_, zero=z, a=a + np.array([0.2, 0.0]), b=b, _matcher=dict(tolerance=0.45, min_weight=0.1, min_match=3))))
    far2 = np.vstack([base, z - 5 * b + 1 * a])
    out.append(('inf elevation picked up in round 2 (b)', dict(centers=far2, refineds=far2, peak_values=wf_, peak_elevations=wf_, zero=z, a=a, b=b + np.array([0.0, 0.22]), _matcher=dict(tolerance=0.45, min_weight=0.1, min_match=3))))
    # parameters given as an explicit zero are zeros, not "unset": min_weight = 0 admits every non-negative elevation, tolerance = 0 matches nothing
    wz = np.array([1, 1, 1, 0.02, 0.05, 0.08, 0.0999, 1, 0.0])
    out.append(('min_weight = 0', dict(centers=base, refineds=base, peak_values=wz, peak_elevations=wz, zero=z, a=a, b=b, _matcher=dict(tolerance=3, min_weight=0, min_match=3), _expect='all')))
    out.append(('min_weight = 0.0', dict(centers=base, refineds=base, peak_values=wz, peak_elevations=wz, zero=z, a=a, b=b, _matcher=dict(tolerance=3, min_weight=0.0, min_match=3), _expect='all')))
    out.append(('tolerance = 0', dict(centers=base, refineds=base, peak_values=w, peak_elevations=w, zero=z, a=a, b=b, _matcher=dict(tolerance=0, min_weight=0.1, min_match=3), _expect='invalid')))
    out.append(('zero weights', dict(centers=base, refineds=base, peak_values=w * 0, peak_elevations=w * 0, zero=z, a=a, b=b)))
    out.append(('too few', dict(centers=base[:2], refineds=base[:2], peak_values=w[:2], peak_elevations=w[:2], zero=z, a=a, b=b)))
    return out


def mk_replay(c, fail):
    return {'kind': 'input', 'call': 'Matcher.fastmatch', 'args': {'pos': c['pos'].tolist(), 'w': c['w'].tolist(), 'kinds': c['kinds'], 'true_idx': c['true_idx'],
            'start': [v.tolist() for v in c['start']], 'tol': c['tol'], 'mw': c['mw'], 'mm': c['mm'], 'complete': bool(c.get('complete', True)), 'owed': c.get('owed'), 'pos_dtype': str(c['pos'].dtype), 'mm_type': c.get('mm_type'), 'int_centers': bool(c.get('int_centers'))}, 'failure': fail}


def adversarial_failure(desc):
    for d, kw in adversarial(np.random.default_rng(0)):
        if d != desc:
            continue
        kw = dict(kw)
        mk = kw.pop('_matcher', dict(tolerance=3, min_weight=0.1, min_match=3))
        expect = kw.pop('_expect', None)
        try:
            m = grm.Matcher(**mk).fastmatch(**kw)
        except Exception as e:  # noqa
            return 'adversarial input (%s): fastmatch raised %s: %s' % (desc, type(e).__name__, e)
        okk = m.isnan() or (len(m.indices) == int(m.selector.sum()) and int(m.selector.sum()) >= 3)
        if desc in ('NaN position', 'inf position'):
            bad = ~np.isfinite(kw['refineds']).all(axis=1)
            okk = (not m.isnan()) and np.array_equal(m.selector, ~bad) and len(m.indices) == 8
        if expect == 'all':
            okk = (not m.isnan()) and bool(m.selector.all()) and len(m.indices) == len(kw['centers'])
        elif expect == 'invalid':
            okk = bool(m.isnan()) and not m.selector.any()
        return None if okk else 'adversarial input (%s): %s' % (desc, 'malformed result' if expect is None else 'expected %s, got %s with %d of %d peaks selected' % (
            'every peak selected' if expect == 'all' else 'an invalid match', 'an invalid match' if m.isnan() else 'a valid match', int(m.selector.sum()), len(m.selector)))
    return 'unknown adversarial case %s' % desc


def replay(body):
    a = body['args']
    if 'adversarial' in a:
        fail = adversarial_failure(a['adversarial'])
        print(json.dumps({'failure_now': fail}, indent=1))
        if fail:
            print('VIOLATION property=C05 replay=(given)')
            return 1
        return 0
    c = dict(pos=np.array(a['pos'], dtype=a.get('pos_dtype', 'float64')), w=np.array(a['w']), kinds=a['kinds'], true_idx=[None if t is None else tuple(t) for t in a['true_idx']],
             start=tuple(np.array(v) for v in a['start']), tol=a['tol'], mw=a['mw'], mm=a['mm'], complete=a.get('complete', True), owed=a.get('owed'), mm_type=a.get('mm_type'), int_centers=a.get('int_centers', False))
    fail = defaults_failure(c) if a.get('defaults') else stmt_failure(c)
    print(json.dumps({'failure_now': fail}, indent=1))
    if fail:
        print('VIOLATION property=C05 replay=(given)')
        return 1
    return 0


def run(ctx):
    rng = ctx.rng
    ctx.check_theorems()
    ctx.check_generated(['vmatch', 'vidx', 'vfit', 'vsrc', 'vdefaults'])
    # (K) model vs implementation
    exprs, meta = [], []
    for k in range(ctx.n(60, 600)):
        c = gen(rng) if k % 3 else gen_cloud(rng)
        if len(c['pos']) > 14:
            keep = list(range(14))
            c['pos'], c['w'] = c['pos'][keep], c['w'][keep]
            c['kinds'], c['true_idx'] = c['kinds'][:14], c['true_idx'][:14]
        if k % 5 == 4:
            c['mm'] = int(sum(1 for q in c['kinds'] if q == 'inlier') + rng.integers(0, 2))    # around the min_match threshold
        if k % 4 == 1 and c['true'] is not None:
            # tolerance of the order of the noise and of the start error: the accept/reject decisions are then close calls that
            # depend on |a|, |b| and on the sqrt(|index|) relaxation for indices of both signs (the exact model decides them)
            c['tol'] = float(rng.choice([0.2, 0.35, 0.5, 0.8]))
            c['complete'] = False        # completeness (every inlier selected) was derived for the generator's tolerance; soundness is still owed
            # ... or a tolerance placed BETWEEN the first-round errors of two peaks (documented error formula, used here only to
            # choose the input): whatever changes the error of a peak by more than the gap flips a decision
            A = np.array([c['start'][1], c['start'][2]]).T
            ij = np.linalg.solve(A, (c['pos'] - c['start'][0]).T).T
            dd = np.abs(ij - np.around(ij)) * np.array([np.linalg.norm(c['start'][1]), np.linalg.norm(c['start'][2])]) / np.sqrt(np.maximum(1, np.abs(ij)))
            ee = np.sort(np.linalg.norm(dd, axis=1))
            ee = ee[(ee > 1e-3) & (ee < 3.0)]
            gaps = [(ee[i + 1] / ee[i], i) for i in range(len(ee) - 1) if ee[i + 1] / ee[i] > 1.02]
            if gaps and k % 8 != 1:
                _, i = gaps[int(rng.integers(0, len(gaps)))]
                c['tol'] = float(np.sqrt(ee[i] * ee[i + 1]))
        pk = '[' + '; '.join('(%s, %s)' % ('ENaN' if np.isnan(w) else 'EVal ' + cq(F(w)), qv(p)) for w, p in zip(c['w'], c['pos'])) + ']'
        ctx.hist('NaN elevations', int(np.isnan(c['w']).sum()))
        exprs.append('match fastmatch_f %s %s %d %s %s %s %s with Valid m z a b => (1, mout m, vl z, vl a, vl b) | Invalid r => (0 - r, [], vl vzero, vl vzero, vl vzero) end'
                     % (cq(F(c['tol']) ** 2), cq(F(c['mw'])), c['mm'], qv(c['start'][0]), qv(c['start'][1]), qv(c['start'][2]), pk))
        meta.append(c)
        ctx.hist('points', len(c['pos']))
        ctx.hist('min_match', c['mm'])
    vals = ctx.coq_eval('k', 'Model.Lattice Model.WLS Model.Match', exprs, shard=3, timeout=1500)
    ndis = 0
    nvalid = 0
    for mv, c in zip(vals, meta):
        ok, mm_, z, a, b = mv
        try:
            m = run_impl(c)
        except Exception as e:  # noqa
            fail = 'fastmatch raised %s: %s' % (type(e).__name__, e)
            ctx.violation('input', fail, mk_replay(c, fail))
            ndis += 1
            continue
        problems = []
        ctx.hist('model_result', {1: 'valid', -1: 'singular start', -2: 'few in round 1', -3: 'round-1 fit singular', -4: 'fitted lattice singular',
                                  -5: 'few in round 2', -6: 'round-2 fit singular'}.get(ok, ok))
        if ok in (-3, -4, -6):
            # rank-deficient index set: lstsq returns a minimum-norm solution where the model has none; outside 'rank 3' domain:
            # only well-formedness is required of the implementation
            wf = wellformed_failure(c)
            if wf:
                problems.append(wf)
        elif (ok == 1) != (not m.isnan()):
            problems.append('validity: model %s, implementation %s' % ('valid' if ok else 'invalid', 'invalid' if m.isnan() else 'valid'))
        elif ok == 1:
            nvalid += 1
            msel = np.array([e[0] == 1 for e in mm_])
            midx = np.array([[e[1], e[2]] for e in mm_ if e[0] == 1])
            if not np.array_equal(msel, m.selector):
                problems.append('selection: model %s impl %s' % (msel.astype(int).tolist(), m.selector.astype(int).tolist()))
            elif not np.array_equal(midx, m.indices):
                problems.append('indices differ')
            else:
                for nm, q, iv in (('zero', z, m.zero), ('a', a, m.a), ('b', b, m.b)):
                    if np.abs(lvec(q) - iv).max() > 1e-7:
                        problems.append('%s model %s impl %s' % (nm, lvec(q).tolist(), np.asarray(iv).tolist()))
        ctx.count(1, key=(c['pos'].tolist(), c['w'].tolist(), c['tol'], c['mm']))
        if len(ctx.cov['samples']) < 3:
            ctx.sample({'n_points': len(c['pos']), 'kinds': c['kinds'], 'tolerance': c['tol'], 'min_weight': c['mw'], 'min_match': c['mm'],
                        'impl_valid': not m.isnan(), 'model_valid': bool(ok), 'impl_selector': m.selector.astype(int).tolist()})
        if problems:
            ndis += 1
            if c['true'] is not None and ok == 1:
                # completeness is owed wherever the two-round algorithm of the documentation, run in exact arithmetic, achieves it: an inlier
                # that the model selects from these start parameters at this tolerance must be selected (and the match must be valid)
                c['owed'] = [bool(e[0] == 1 and kd == 'inlier') for e, kd in zip(mm_, c['kinds'])]
            fail = stmt_failure(c) if c['true'] is not None else wellformed_failure(c)
            if fail:
                ctx.violation('input', fail, mk_replay(c, fail), signature='fastmatch: valid match with fewer than min_match points' if 'min_match' in fail and 'valid match with' in fail else fail)
            else:
                ctx.obligation('K:C05 case', False, '; '.join(problems)[:500])
    ctx.obligation('K:C05 correspondence Match.fastmatch (exact rationals) vs Matcher.fastmatch (%d clouds, %d valid)' % (len(vals), nvalid), ndis == 0, '%d disagreements' % ndis)

    # (S) statement + covariance + adversarial
    for k in range(ctx.n(300, 10000)):
        c = gen(rng)
        if k % 3 == 2:
            c['int_centers'] = True
        if k % 6 == 1:
            c['mm_type'] = ['uint8', 'int64', 'uint16', 'int32', 'uint64'][(k // 6) % 5]
        if k % 7 == 3:
            c = add_junk(c, rng)
            ctx.hist('non-finite junk peak', 1)
        fail = stmt_failure(c)
        ctx.count(1)
        if not fail and k % 4 == 0 and k % 7 != 3:
            fail = covariance_failure(c, rng)
        if not fail and k % 5 == 0 and k % 7 != 3:
            fail = defaults_failure(c)
            if fail:
                r = mk_replay(c, fail)
                r['args']['defaults'] = True
                ctx.violation('input', fail, r)
                break
        if fail:
            ctx.violation('input', fail, mk_replay(c, fail), signature='fastmatch: valid match with fewer than min_match points' if 'min_match' in fail and 'valid match with' in fail else fail)
            break
    # whole-pixel positions in integer dtypes
    for k in range(ctx.n(40, 400)):
        c, dt = gen_pixel_positions(rng)
        fail = stmt_failure(c)
        ctx.count(1)
        ctx.hist('pixel positions dtype', dt)
        if fail:
            fail = 'peak positions given as %s: %s' % (dt, fail)
            ctx.violation('input', fail, mk_replay(c, fail))
            break
    # min_match threshold stream: few inliers, many near-misses
    for k in range(ctx.n(300, 3000)):
        c = gen(rng)
        n_in = sum(1 for q in c['kinds'] if q == 'inlier')
        c['mm'] = n_in + int(rng.integers(-1, 2))
        c['tol'] = float(rng.choice([0.5, 1.0, 1.5]))
        c['start'] = (c['start'][0] + rng.uniform(-1, 1, 2), c['start'][1], c['start'][2])
        try:
            m = run_impl(c)
        except Exception as e:  # noqa
            ctx.violation('input', 'fastmatch raised %s' % type(e).__name__, mk_replay(c, 'raised'))
            break
        ctx.count(1)
        if not m.isnan() and (int(m.selector.sum()) < c['mm'] or len(m.indices) != int(m.selector.sum()) or not (c['w'][m.selector] >= c['mw']).all()):
            fail = 'valid match with %d < min_match=%d selected peaks' % (int(m.selector.sum()), c['mm'])
            ctx.violation('input', fail, mk_replay(c, fail), signature='fastmatch: valid match with fewer than min_match points')
            break
    for k in range(ctx.n(3000, 30000)):
        c = gen_cloud(rng)
        fail = wellformed_failure(c)
        ctx.count(1)
        if fail:
            ctx.violation('input', fail, mk_replay(c, fail), signature='fastmatch: valid match with fewer than min_match points' if 'min_match' in fail and 'valid match with' in fail else fail)
            break
    for desc, kw in adversarial(rng):
        fail = adversarial_failure(desc)
        if fail:
            ctx.violation('input', fail, {'kind': 'input', 'call': 'Matcher.fastmatch', 'args': {'adversarial': desc}, 'failure': fail})
        ctx.count(1, key=('adv', desc))
    return ctx.finish(
        LEVEL,
        explanation='Theorems over Q: a valid match has >= min_match selected peaks, all >= min_weight, one index per selected peak and the weighted fit of exactly '
                    'those peaks; a peak on a lattice position is matched with its true index for every tolerance > 0; a peak half a cell off is rejected for '
                    'tolerance^2 <= |a|^2/(4 max(1,|i|)); parallel/zero vectors give Invalid; matching is translation invariant and the whole fastmatch is covariant '
                    'under rational orthogonal maps; peaks below min_weight and NaN elevations influence nothing. Tie: _match_all error/decision, get_indices and the '
                    'lstsq row weights regenerated from the source text (bridge lemmas) and the whole two-round '
                    'fastmatch in exact rationals vs Matcher.fastmatch on the same floats (selection, indices, lattice, validity).',
        rule='lattices |a|,|b| 20..40 px at 60..120 degrees, 4..25 inliers of rank 3 with noise <= 0.3 px, 0..6 half-cell outliers, 0..3 weak peaks (30 % of them with NaN elevation), permuted, start '
             'perturbed by up to 1 px / 0.2 px (completeness demanded only when the worst-case first-round error stays below the tolerance), tolerances, min_match (also at the threshold); adversarial stream (empty, parallel, zero, NaN, inf, duplicates, collinear, zero weights); strong junk peaks with non-finite coordinates; optional arguments omitted vs documented defaults passed explicitly.')
