"""C15 - Frame dtype does not matter."""
import json

import numpy as np

import core
from core import cz, clist2
import corrlib as cl
from libertem_blobfinder.base import correlation as blc
from libertem_blobfinder.common import correlation as cc

LEVEL = 'proof'
DTYPES = ['u1', 'u2', 'u4', 'u8', 'i1', 'i2', 'i4', 'i8', 'f4', 'f8']


def values_for(rng, dt, shape):
    d = np.dtype(dt)
    if d.kind in 'iu' and d.itemsize <= 2:
        info = np.iinfo(d)
        v = rng.integers(info.min, int(info.max) + 1, size=shape)
        v.flat[0] = info.min
        v.flat[-1] = info.max
    elif d.kind == 'u':
        v = rng.integers(0, 2 ** 24 + 1, size=shape)
        v.flat[0], v.flat[-1] = 0, 2 ** 24
    else:
        v = rng.integers(-2 ** 24, 2 ** 24 + 1, size=shape)
        v.flat[0], v.flat[-1] = -2 ** 24, 2 ** 24
    return v.astype(np.int64)


def stmt_failure(desc, ints, peaks, dt, upsample=False):
    pattern = cl.pattern_from_desc(desc)
    frames = ints.astype(dt)[np.newaxis] if ints.ndim == 2 else ints.astype(dt)          # (fy, fx) or a stack (n, fy, fx)
    ref_frames = frames.astype('f8')
    frames0 = frames.copy()
    # call history on ONE typed array (full, then fast, then full again): no call may depend on an earlier one, and the frames
    # passed in must not be modified (np.asarray does not copy an array that already has the requested dtype)
    for name, fn in (('process_frames_full', cc.process_frames_full), ('process_frames_fast', cc.process_frames_fast), ('process_frames_full', cc.process_frames_full)):
        try:
            a = fn(pattern, frames, np.asarray(peaks), upsample=upsample)
            if not np.array_equal(frames, frames0):
                return '%s modified the %s frames passed in' % (name, dt)
        except Exception as e:  # noqa
            return '%s raised %s for dtype %s: %s' % (name, type(e).__name__, dt, str(e)[:200])
        try:
            b = fn(pattern, ref_frames, np.asarray(peaks), upsample=upsample)
        except Exception as e:  # noqa
            return '%s raised %s for the same pixel values as float64: %s' % (name, type(e).__name__, str(e)[:200])
        sc = float(np.abs(b[2]).max()) + 1.0
        for nm, x in zip(('refineds', 'heights', 'elevations'), a[1:]):
            if not np.isfinite(x).all():
                return '%s: %s not finite for dtype %s (overflow / wrap-around): %s' % (name, nm, dt, np.asarray(x).tolist())
        same = (a[0] == b[0]).all(axis=2)               # (frame, peak): centres agree; the other outputs of those peaks are compared below
        if not same.all() and ints.ndim == 3:
            nf = int(np.argwhere((a[0] != b[0]).any(axis=(1, 2)))[0][0])
            if not np.allclose(a[2][nf], b[2][nf], rtol=2e-4, atol=2e-4 * sc):
                return '%s: frame #%d of a stack: centres for dtype %s %s differ from float64 %s (heights %s vs %s)' % (
                    name, nf, dt, a[0][nf].tolist(), b[0][nf].tolist(), a[2][nf].tolist(), b[2][nf].tolist())
        elif not same.all():
            # centres may differ only on near ties
            maps, scale = cl.oracle_maps(pattern, ints.astype(np.float64), [peaks[i] for i in range(len(peaks)) if not same[0][i]], 'fast' if 'fast' in name else 'full')
            c = pattern.get_crop_size()
            for cm, i in zip(maps, [i for i in range(len(peaks)) if not same[0][i]]):
                p = peaks[i]
                u = a[0][0][i] - np.array(p) + c
                w = b[0][0][i] - np.array(p) + c
                if not (0 <= u[0] < 2 * c and 0 <= u[1] < 2 * c) or abs(cm[u[0], u[1]] - cm[w[0], w[1]]) > 3e-4 * scale + 2e-3:
                    return '%s: centres for dtype %s %s differ from float64 %s' % (name, dt, a[0].tolist(), b[0].tolist())
        a = (a[0], a[1][same], a[2], a[3][same])        # heights are comparable for every peak; refined positions and elevations where the centres agree
        b = (b[0], b[1][same], b[2], b[3][same])
        # with DFT upsampling the refined position is a point of a grid of spacing 1/u: near-equal grid values may resolve to neighbouring points
        tol_ref = 2e-3 if not upsample else 1.0 / (20 if upsample is True else int(upsample)) + 2e-3
        for nm, x, y, tol, s in (('refineds', a[1], b[1], tol_ref, 1.0), ('heights', a[2], b[2], 2e-5, sc), ('elevations', a[3], b[3], 1e-3, sc)):
            # refined positions: an absolute tolerance in pixels (not relative to the coordinate); heights and elevations: relative to the largest height
            if not np.allclose(x, y, rtol=0 if nm == 'refineds' else tol, atol=tol * s):
                return '%s: %s for dtype %s %s differ from float64 %s' % (name, nm, dt, np.asarray(x).tolist(), np.asarray(y).tolist())
    return None


def byteorder_failure(desc, ints, peaks, dt):
    """the same values in the non-native byte order of a dtype (big-endian detector / MRC / FITS data): process_frames_full gives what the
    native array gives (process_frames_fast hands the frames to numba, which rejects non-native arrays at HEAD: not exercised)"""
    pattern = cl.pattern_from_desc(desc)
    native = ints.astype(dt)[np.newaxis]
    swapped = native.astype(native.dtype.newbyteorder('S'))
    if not np.array_equal(native, swapped):
        return None
    try:
        a = cc.process_frames_full(pattern, swapped, np.asarray(peaks))
        b = cc.process_frames_full(pattern, native, np.asarray(peaks))
    except Exception as e:  # noqa
        return 'process_frames_full raised %s for dtype %s: %s' % (type(e).__name__, swapped.dtype.str, str(e)[:200])
    for nm, x, y in zip(('centres', 'refineds', 'heights', 'elevations'), a, b):
        if not np.array_equal(x, y, equal_nan=True):
            return 'process_frames_full: %s for byte-swapped dtype %s %s differ from the native-order result %s' % (nm, swapped.dtype.str, np.asarray(x).tolist(), np.asarray(y).tolist())
    return None


def mk_replay(desc, ints, peaks, dt, fail, upsample=False):
    return {'kind': 'input', 'call': 'process_frames_fast/full', 'args': {'pattern': desc, 'ints': np.asarray(ints).tolist(), 'peaks': [list(map(int, p)) for p in peaks], 'dtype': dt, 'upsample': upsample}, 'failure': fail}


def replay(body):
    a = body['args']
    if a.get('byteorder'):
        fail = byteorder_failure(a['pattern'], np.array(a['ints'], dtype=np.int64), [tuple(p) for p in a['peaks']], a['dtype'])
    else:
        fail = stmt_failure(a['pattern'], np.array(a['ints'], dtype=np.int64), [tuple(p) for p in a['peaks']], a['dtype'], a.get('upsample', False))
    print(json.dumps({'failure_now': fail}, indent=1))
    if fail:
        print('VIOLATION property=C15 replay=(given)')
        return 1
    return 0


def run(ctx):
    rng = ctx.rng
    ctx.check_theorems()
    ctx.check_generated(['blocks', 'klog', 'dcommon', 'kcalls', 'kups'])      # the number of crop buffers (hence the block structure) depends on the buffer itemsize
    # (K) argument of the logarithm: Prelog.prelog_code true <dtype> vs exp(log_scale(x)) and exp(log_scale_cropbufs_inplace(x))
    exprs, impl = [], []
    meta = []
    for dt in DTYPES:
        d = np.dtype(dt)
        for rep in range(ctx.n(2, 10)):
            ints = values_for(rng, dt, (3, 4))
            arr = ints.astype(dt)
            out = blc.log_scale(arr, out=None)
            a1 = np.exp(np.asarray(out, dtype=np.float64))
            dtc = np.result_type(d, np.float32)
            buf = arr.astype(dtc)[np.newaxis].copy()
            blc.log_scale_cropbufs_inplace(buf)
            a2 = np.exp(buf[0].astype(np.float64))
            coqdt = 'DFloat' if d.kind == 'f' else '(DInt %d %s)' % (d.itemsize * 8, 'true' if d.kind == 'i' else 'false')
            exprs.append('prelog_code true %s %s' % (coqdt, clist2(ints.tolist())))
            impl.append((a1, a2, str(out.dtype)))
            meta.append((dt, ints))
    mods = ctx.coq_eval('prelog', 'Base.Util Model.Prelog', exprs)
    nbad = 0
    for (dt, ints), m, (a1, a2, odt) in zip(meta, mods, impl):
        m = np.array(m, dtype=np.float64)
        ctx.count(1, key=(dt, ints.tolist()))
        rt = 3e-6 if np.dtype(dt).itemsize <= 2 or dt == 'f4' else 1e-9
        for nm, a in (('log_scale', a1), ('log_scale_cropbufs_inplace', a2)):
            if not (np.isfinite(a).all() and np.allclose(a, m, rtol=max(rt, 3e-6), atol=0)):
                nbad += 1
                fail = stmt_failure({'kind': 'RadialGradient', 'radius': 1.5, 'search': 2.0}, np.tile(ints, (3, 3)), [(4, 5)], dt)
                if fail:
                    ctx.violation('input', fail, mk_replay({'kind': 'RadialGradient', 'radius': 1.5, 'search': 2.0}, np.tile(ints, (3, 3)), [(4, 5)], dt, fail),
                                  signature='log_scale wraps around in 8/16 bit integer dtypes' if 'finite' in fail else fail)
                else:
                    ctx.obligation('K:C15 %s argument for dtype %s' % (nm, dt), False, 'exp(out)=%s model x-min+1=%s' % (a.tolist(), m.tolist()))
        if len(ctx.cov['samples']) < 4 and dt in ('u1', 'i2', 'i8', 'f4'):
            ctx.sample({'dtype': dt, 'values': ints.tolist(), 'model_log_argument': m.tolist(), 'log_scale_out_dtype': odt})
    ctx.obligation('K:C15 argument of the logarithm: Prelog.prelog_code true = exp(log_scale) = exp(log_scale_cropbufs_inplace) for %d arrays in 10 dtypes' % len(meta),
                   nbad == 0, '%d mismatches' % nbad)

    # (S) same pixel values in every dtype vs float64, both batch entry points
    nS = ctx.n(6, 60)
    found = False
    nBig = ctx.n(1, 4)
    nEdge = ctx.n(4, 20)
    for k in range(nS + nBig + 1 + nEdge):
        if k > nS + nBig:
            # non-square frames (tall and wide), windows overhanging exactly one edge by a few pixels, always as a stack of frames
            pattern, desc = cl.rand_pattern(rng, cmax=5, kinds=['Circular', 'RadialGradient', 'BackgroundSubtraction'])
            c = pattern.get_crop_size()
            a_, b_ = int(rng.integers(2 * c + 4, 30)), int(rng.integers(8, 34))
            fy, fx = (a_ + b_, a_) if k % 2 else (a_, a_ + b_)
            d = int(rng.integers(1, c + 1))
            peaks = [(int(rng.integers(c, fy - c)), fx - c + d), (fy - c + d, int(rng.integers(c, fx - c))), (int(rng.integers(c, fy - c)), c - d), (c - d, int(rng.integers(c, fx - c)))]
            # always the overhang across the LONG axis' far edge... of the short axis: right edge for tall, bottom edge for wide frames
            first = peaks[0] if fy > fx else peaks[1]
            peaks = [first] + [peaks[i] for i in rng.permutation(4)[:int(rng.integers(0, 3))] if peaks[i] != first]
        elif k == nS + nBig:
            # one window larger than the crop-buffer budget for float64 buffers but not for float32 buffers
            c = 130
            desc = {'kind': 'Circular', 'radius': 3.0, 'search': float(c), 'radius_outer': None}
            pattern = cl.pattern_from_desc(desc)
            fy, fx = 30, 36
            peaks = [(15, 18)]
        elif k < nS:
            pattern, desc = cl.rand_pattern(rng, cmax=5, kinds=['Circular', 'RadialGradient', 'BackgroundSubtraction', 'RadialGradientBackgroundSubtraction'])
            c = pattern.get_crop_size()
            fy, fx = int(rng.integers(2 * c + 2, 40)), int(rng.integers(2 * c + 2, 40))
            peaks = cl.rand_peaks(rng, fy, fx, c, int(rng.integers(1, 4)))
        else:
            # large windows and many peaks: the number of crop buffers depends on the buffer itemsize, i.e. on the frame dtype
            # (float32 buffers: one block; float64 buffers: several blocks with a tail block)
            c = int(rng.integers(30, 41))
            desc = {'kind': 'Circular', 'radius': float(rng.integers(4, 9)), 'search': float(c), 'radius_outer': None}
            pattern = cl.pattern_from_desc(desc)
            fy, fx = int(rng.integers(2 * c + 20, 2 * c + 80)), int(rng.integers(2 * c + 20, 2 * c + 80))
            b64 = blc.get_buf_count(c, 100, np.dtype('f8'))
            npk = int(rng.integers(b64 + 1, 2 * b64))
            peaks = [(int(rng.integers(c, fy - c)), int(rng.integers(c, fx - c))) for _ in range(npk)]
            ctx.hist('blocks for float64 buffers / float32 buffers', '%d/%d' % (-(-npk // b64), -(-npk // blc.get_buf_count(c, npk, np.dtype('f4')))))
        stack = (k % 3 == 1) or k > nS + nBig
        # DFT upsampling on: every case with more peaks than float64 crop buffers, and every fourth of the others
        ups = True if (nS <= k < nS + nBig or k % 4 == 3) else False
        ctx.hist('upsample', ups)
        for dt in DTYPES:
            ints = values_for(rng, dt, (fy, fx))
            # a few bright disks so that the maxima are well defined
            yy, xx = np.mgrid[0:fy, 0:fx]
            hi = int(ints.max())
            for p in peaks:
                ints = np.where((yy - p[0]) ** 2 + (xx - p[1]) ** 2 <= max(1.0, (min(c, 8) / 2.0)) ** 2, hi, ints)
            if stack:
                # a stack of three frames with different content (the batch helpers re-use their buffers from frame to frame)
                ints = np.stack([ints, np.roll(ints, 3, axis=0)[::-1], np.roll(ints, -2, axis=1)])
            fail = stmt_failure(desc, ints, peaks, dt, ups)
            if not fail and ints.ndim == 2 and np.dtype(dt).itemsize > 1 and k % 2 == 0:
                fail = byteorder_failure(desc, ints, peaks, dt)
                if fail:
                    r_ = mk_replay(desc, ints, peaks, dt, fail, ups)
                    r_['args']['byteorder'] = True
                    ctx.violation('input', fail, r_)
                    found = True
                    break
            ctx.count(2 * len(peaks), key=(desc, fy, fx, peaks, dt, stack, ups))
            ctx.hist('dtype', dt)
            if fail:
                sig = fail
                if 'UFuncTypeError' in fail:
                    sig = 'process_frames_fast raises UFuncTypeError for integer frames'
                elif 'finite' in fail:
                    sig = 'log_scale wraps around in 8/16 bit integer dtypes'
                ctx.violation('input', fail, mk_replay(desc, ints, peaks, dt, fail, ups), signature=sig)
                found = True
                break
        if found:
            break
    return ctx.finish(
        LEVEL,
        explanation='Theorem: with promotion before the subtraction the argument of the logarithm is exactly x-min+1 for every dtype; the un-promoted '
                    'integer arithmetic is refuted with witnesses (the repaired defect). Tie: the model argument vs exp() of what log_scale and '
                    'log_scale_cropbufs_inplace return for arrays containing the dtype extremes; oracle: both batch entry points for 10 dtypes vs float64.',
        rule='values incl. dtype extremes for 8/16-bit types, +-2^24 for wider types; 10 dtypes; random patterns/shapes/peaks, plus cases with crop size 30..40 and more peaks than float64 crop buffers (several blocks for wide dtypes, one for narrow ones; DFT upsampling on); distinct by (pattern, shape, peaks, dtype).')
