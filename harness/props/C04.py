"""C04 - Results stay in the search window and are well-formed for arbitrary data."""
import json

import numpy as np

import core
from core import cz
import corrlib as cl
from libertem_blobfinder.base import correlation as blc
from libertem_blobfinder.common import correlation as cc

LEVEL = 'proof'


def guarded(frame, guard=8):
    """frame as a view into a larger NaN array: out-of-bounds reads of the unchecked kernels become visible as NaN"""
    fy, fx = frame.shape
    big = np.full((fy + 2 * guard, fx + 2 * guard), np.nan, dtype=frame.dtype)
    big[guard:guard + fy, guard:guard + fx] = frame
    return big[guard:guard + fy, guard:guard + fx]


def rand_data(rng, fy, fx):
    kind = str(rng.choice(['poisson', 'gauss', 'constant', 'zero', 'hot', 'negative', 'huge']))
    if kind == 'poisson':
        v = rng.poisson(rng.uniform(0.1, 50), size=(fy, fx)).astype(np.float64)
    elif kind == 'gauss':
        v = rng.normal(0, rng.uniform(0.1, 1000), size=(fy, fx))
    elif kind == 'constant':
        v = np.full((fy, fx), float(rng.uniform(-1e6, 1e6)))
    elif kind == 'zero':
        v = np.zeros((fy, fx))
    elif kind == 'hot':
        v = np.zeros((fy, fx))
        v[int(rng.integers(0, fy)), int(rng.integers(0, fx))] = float(rng.uniform(1, 1e6))
    elif kind == 'negative':
        v = -rng.uniform(0, 1e6, size=(fy, fx))
    else:
        v = rng.choice([-1e6, 1e6, 0.0, 1.0], size=(fy, fx))
    return np.clip(v, -1e6, 1e6).astype(np.float32), kind


def well_formed(outs, peaks, c, upsample, label):
    """the statement on one result tuple"""
    cen, ref, hei, ele = outs
    peaks = np.asarray(peaks)
    if (cen == -99).any():
        return '%s: a centre entry was not written' % label
    for name, a in (('refined', ref), ('height', hei), ('elevation', ele)):
        if not np.isfinite(a).all():
            i = int(np.argwhere(~np.isfinite(np.asarray(a).reshape(len(a), -1)).all(axis=1))[0][0])
            return '%s: %s of peak %s is not finite: %s' % (label, name, peaks[i].tolist(), np.asarray(a)[i].tolist())
    lo, hi = peaks - c, peaks + c - 1
    cen64 = cen.astype(np.int64)
    if not ((cen64 >= lo) & (cen64 <= hi)).all():
        i = int(np.argwhere(~((cen64 >= lo) & (cen64 <= hi)).all(axis=1))[0][0])
        return '%s: centre %s of peak %s outside [peak-c, peak+c-1] (c=%d)' % (label, cen64[i].tolist(), peaks[i].tolist(), c)
    u = 20 if upsample is True else int(upsample)
    bound = 2.0 + 1e-3 if u <= 1 else 0.75 + 0.5 / u + 1e-3
    d = np.abs(ref.astype(np.float64) - cen64)
    if not (d <= bound).all():
        i = int(np.argwhere(~(d <= bound).all(axis=1))[0][0])
        return '%s: refined %s is %.4f px from centre %s (bound %.4f, upsample=%s)' % (label, ref[i].tolist(), float(d[i].max()), cen64[i].tolist(), bound, upsample)
    if (ele < 0).any():
        return '%s: negative elevation' % label
    return None


def stmt_failure(pattern, frame, peaks, upsample):
    c = pattern.get_crop_size()
    g = guarded(frame)
    res = {}
    for method, run in (('fast', cl.run_fast), ('full', cl.run_full)):
        for ups in (False, upsample):
            try:
                bc = max(1, len(peaks) // 2)
                res[(method, ups)] = run(pattern, g, peaks, bc=bc, upsample=ups)
            except Exception as e:  # noqa
                return 'process_frame_%s(upsample=%s) raised %s: %s' % (method, ups, type(e).__name__, e)
            f = well_formed(res[(method, ups)], peaks, c, ups, 'process_frame_%s(upsample=%s)' % (method, ups))
            if f:
                return f
        a, b = res[(method, False)], res[(method, upsample)]
        if not (np.array_equal(a[0], b[0]) and np.array_equal(a[2], b[2]) and np.array_equal(a[3], b[3])):
            return 'process_frame_%s: enabling upsampling=%s changed centres/heights/elevations' % (method, upsample)
    # the alternative (slicing) crop back-end: completes without error for the same peaks and gives the same outputs
    from libertem_blobfinder.base.correlation import crop_disks_from_frame_slicing
    for method, run in (('fast', cl.run_fast), ('full', cl.run_full)):
        try:
            o = run(pattern, g, peaks, bc=max(1, len(peaks) // 2), upsample=False, crop_function=crop_disks_from_frame_slicing)
        except Exception as e:  # noqa
            return 'process_frame_%s(crop_function=crop_disks_from_frame_slicing) raised %s: %s' % (method, type(e).__name__, e)
        f = well_formed(o, peaks, c, False, 'process_frame_%s(slicing crop)' % method)
        if f:
            return f
        a = res[(method, False)]
        if not all(np.array_equal(x, y, equal_nan=True) for x, y in zip(a, o)):
            return 'process_frame_%s: the slicing crop back-end changes the outputs' % method
    # high-level entry points
    for name, fn in (('process_frames_fast', cc.process_frames_fast), ('process_frames_full', cc.process_frames_full)):
        for ups in (False, upsample):
            try:
                o = fn(pattern, g[np.newaxis], np.asarray(peaks), upsample=ups)
            except Exception as e:  # noqa
                return '%s(upsample=%s) raised %s: %s' % (name, ups, type(e).__name__, e)
            o0 = tuple(x[0] for x in o)
            f = well_formed(o0, peaks, c, ups, '%s(upsample=%s)' % (name, ups))
            if f:
                return f + ' [centres dtype %s]' % o[0].dtype
            low = res[('fast' if 'fast' in name else 'full', ups)]
            if not np.array_equal(o0[0].astype(np.int64), low[0].astype(np.int64)):
                return '%s: centres %s differ from the low-level result %s (dtype %s: wrap-around?)' % (name, o0[0].tolist(), low[0].tolist(), o[0].dtype)
    return None


def mk_replay(desc, frame, peaks, upsample, fail):
    return {'kind': 'input', 'call': 'process_frame(s)_fast/full', 'args': {'pattern': desc, 'frame': np.asarray(frame, dtype=np.float64).tolist(),
            'peaks': [list(map(int, p)) for p in peaks], 'upsample': upsample}, 'failure': fail}


def replay(body):
    if 'frame_ints' in body.get('args', {}):
        return cl.replay_case(body, 'C04')          # a failing input recorded by the model correspondence (cl.model_check)
    a = body['args']
    if 'huge_window' in a:
        from libertem_blobfinder.common import patterns as pat
        h = a['huge_window']
        pattern = pat.Circular(radius=3, search=h['search'])
        fn = cc.process_frames_fast if 'fast' in body.get('call', '') else cc.process_frames_full
        try:
            o = fn(pattern, np.array(h['frames'], dtype=h['dtype']), np.asarray(h['peaks']))
            fail = well_formed(tuple(x[0] for x in o), h['peaks'], pattern.get_crop_size(), False, body.get('call', ''))
        except Exception as e:  # noqa
            fail = 'raised %s: %s' % (type(e).__name__, e)
        print(json.dumps({'failure_now': fail}, indent=1))
        if fail:
            print('VIOLATION property=C04 replay=(given)')
            return 1
        return 0
    pattern = cl.pattern_from_desc(a['pattern'])
    fail = stmt_failure(pattern, np.array(a['frame'], dtype=np.float32), a['peaks'], a['upsample'])
    print(json.dumps({'failure_now': fail}, indent=1))
    if fail:
        print('VIOLATION property=C04 replay=(given)')
        return 1
    return 0


def run(ctx):
    rng = ctx.rng
    ctx.check_theorems()
    ctx.check_generated(['eval', 'qpat', 'qus', 'k', 'kelev', 'kcrop', 'ksrceval', 'ksrccrop', 'blocks', 'dcommon', 'crop', 'kcalls', 'kups'])

    # (K1) integer output buffers: Eval.store_int vs numpy for the dtypes the batch helpers return
    pattern, desc = cl.rand_pattern(rng, cmax=3, kinds=['RadialGradient'])
    fr = np.zeros((1, 12, 12), dtype=np.float32)
    dts = {'process_frames_fast': cc.process_frames_fast(pattern, fr, np.array([[3, 3]]))[0].dtype,
           'process_frames_full': cc.process_frames_full(pattern, fr, np.array([[3, 3]]))[0].dtype}
    vals = [-40000, -32769, -32768, -13, -1, 0, 1, 127, 128, 255, 256, 32767, 32768, 65523, 65535, 65536]
    exprs, want = [], []
    for name, dt in dts.items():
        bits, signed = dt.itemsize * 8, dt.kind == 'i'
        exprs.append('map (store_int %d %s) [%s]' % (bits, 'true' if signed else 'false', '; '.join(cz(v) for v in vals)))
        want.append([int(np.array([v], dtype=np.int64).astype(dt)[0]) for v in vals])
    got = ctx.coq_eval('store', 'Base.Util Model.Eval', exprs)
    ctx.obligation('K:C04 Eval.store_int = numpy integer store for the centre dtypes %s' % {k: str(v) for k, v in dts.items()}, got == want, str((got, want))[:300])
    for name, dt in dts.items():
        if dt.kind != 'i':
            ctx.obligation('K:C04 %s returns centres in a signed dtype (theorem C04_signed_centre_buffer_exact applies)' % name, False, 'dtype is %s' % dt)
    ctx.count(len(vals) * 2)

    # (K2) upsampling index skeleton: region size and offsets passed to _upsampled_dft vs Model.Upsample
    rec = []
    orig = blc._upsampled_dft

    def spy(corrspecs, frequencies, upsampled_region_size, axis_offsets):
        rec.append((float(upsampled_region_size), [float(v) for v in np.asarray(axis_offsets)]))
        return orig(corrspecs=corrspecs, frequencies=frequencies, upsampled_region_size=upsampled_region_size, axis_offsets=axis_offsets)
    blc._upsampled_dft = spy
    try:
        us = [2, 3, 4, 5, 7, 10, 15, 20, 23, 31, 50]
        frame = cl.rand_frame(rng, 16, 16, 'blobs')[0].astype(np.float32)
        got_regions = []
        for u in us:
            rec.clear()
            cl.run_fast(pattern, frame, [(8, 8)], upsample=u)
            got_regions.append(int(rec[0][0]) if rec else None)       # None: the upsampling step did not run for this factor
    finally:
        blc._upsampled_dft = orig
    mreg = ctx.coq_eval('ups', 'Model.Upsample', ['map us_region [%s]' % '; '.join(str(u) for u in us)])[0]
    ctx.obligation('K:C04 upsampled_region_size = Upsample.us_region for u in %s' % us, got_regions == mreg, 'impl %s model %s' % (got_regions, mreg))
    ctx.count(len(us))

    # (K3) pipeline model vs implementation for crop sizes >= 2, peaks anywhere in [-2c, shape+2c]
    items = []
    for k in range(ctx.n(10, 60)):
        pattern, desc = cl.rand_pattern(rng, cmax=3)
        c = pattern.get_crop_size()
        fy, fx = int(rng.integers(4, 11)), int(rng.integers(4, 11))
        ints, kind = cl.rand_frame(rng, fy, fx)
        peaks = cl.rand_peaks(rng, fy, fx, c, 2, where='outside')
        method = 'fast' if k % 2 == 0 else 'full'
        outs = (cl.run_fast if method == 'fast' else cl.run_full)(pattern, ints.astype(np.float32), peaks)
        items.append(dict(pattern=pattern, desc=desc, ints=ints, one=1, peaks=peaks, method=method, outs=outs, note='peaks anywhere'))
    cl.model_check(ctx, items, 'C04', 'output differs from its definition')

    # (S) well-formedness on arbitrary data
    nS = ctx.n(120, 1500)
    for k in range(nS):
        pattern, desc = cl.rand_pattern(rng, cmax=7)
        c = pattern.get_crop_size()
        fy, fx = int(rng.integers(2, 48)), int(rng.integers(2, 48))
        if k % 6 == 5:
            # frames smaller than the pattern (the balancing ring of a background-subtracting pattern may miss the frame entirely)
            fy, fx = int(rng.integers(2, max(3, c))), int(rng.integers(2, max(3, c)))
        frame, kind = rand_data(rng, fy, fx)
        n = int(rng.integers(1, 8))
        peaks = [(int(rng.integers(-2 * c, fy + 2 * c + 1)), int(rng.integers(-2 * c, fx + 2 * c + 1))) for _ in range(n)]
        upsample = [True, 2, 3, 5, 7, 10, 15, 20, 31, 50][int(rng.integers(0, 10))]
        if k % 5 == 4:
            # plateaus: isolated events under a flat-topped pattern give a correlation map with a flat maximum; the first maximum is on the
            # rim of the plateau and the centre of mass of its neighbourhood about a pixel away (the upsampled bound is tighter than that)
            pr = float(rng.choice([2.5, 3.5, 2.5, 1.5, 3.0, 5.0]))       # half-integer radii: the rim of the plateau is sharpest
            desc = {'kind': 'Circular', 'radius': pr, 'search': float(rng.choice([pr + 1.0, 2 * pr])), 'radius_outer': None}
            pattern = cl.pattern_from_desc(desc)
            c = pattern.get_crop_size()
            fy, fx = int(rng.integers(2 * c + 1, 48)), int(rng.integers(2 * c + 1, 48))
            frame, kind = np.zeros((fy, fx), dtype=np.float32), 'events'
            ev = [(int(rng.integers(0, fy)), int(rng.integers(0, fx))) for _ in range(int(rng.integers(1, 4)))]
            for (ey, ex) in ev:
                frame[ey, ex] = float(rng.choice([1.0, 1.0, 30.0]))
            peaks = [(ey + int(rng.integers(-1, 2)), ex + int(rng.integers(-1, 2))) for (ey, ex) in ev]
            upsample = [True, 2, 3, True][int(rng.integers(0, 4))]
        ctx.hist('data', kind)
        ctx.hist('pattern', desc['kind'])
        ctx.hist('upsample', upsample)
        fail = stmt_failure(pattern, frame, peaks, upsample)
        ctx.count(8 * n, key=(desc, fy, fx, peaks, upsample, kind))
        if len(ctx.cov['samples']) < 7 and k % 20 == 0:
            ctx.sample({'oracle_case': {'pattern': desc['kind'], 'crop_size': c, 'shape': [fy, fx], 'data': kind, 'peaks': peaks, 'upsample': upsample}})
        if fail:
            sig = 'process_frames_full: uint16 centers wrap around' if 'wrap-around' in fail and 'process_frames_full' in fail else fail
            ctx.violation('input', fail, mk_replay(desc, frame, peaks, upsample, fail), signature=sig)
            break
    # a single window larger than the 1/2 MB crop-buffer budget (one buffer must still be allocated): float64 frames with
    # crop size >= 129, float32 frames with crop size >= 182, through the batch entry points
    from libertem_blobfinder.common import patterns as pat
    for dt, search in (('float64', 129.0), ('float32', 182.0), ('float64', 128.0)):
        pattern = pat.Circular(radius=3, search=search)
        c = pattern.get_crop_size()
        frames = rng.poisson(3, size=(1, 30, 36)).astype(dt)
        peaks = [(15, 18), (4, 30)]
        for name, fn in (('process_frames_fast', cc.process_frames_fast), ('process_frames_full', cc.process_frames_full)):
            try:
                o = fn(pattern, frames, np.asarray(peaks))
                fail = well_formed(tuple(x[0] for x in o), peaks, c, False, '%s(search=%s, %s frames)' % (name, search, dt))
            except Exception as e:  # noqa
                fail = '%s(search=%s, %s frames) raised %s: %s' % (name, search, dt, type(e).__name__, e)
            ctx.count(2, key=('huge window', name, dt, search))
            if fail:
                ctx.violation('input', fail, {'kind': 'input', 'call': name, 'args': {'huge_window': {'dtype': dt, 'search': search, 'frames': frames.tolist(), 'peaks': peaks}}, 'failure': fail})
    ctx.extra['oracle_cases'] = nS
    ctx.run_modes()
    return ctx.finish(
        LEVEL,
        explanation='Theorems: centre in the window for any peak, signed storage exact, |refined-centre| <= r <= 2 (centre of mass of non-negative '
                    'weights), positive denominator at the first maximum (no 0/0), in-bounds reads, elevation finite for maps >= 4x4, upsampled grid bound '
                    '0.75+0.5/u. Tie: store_int vs numpy for the dtypes the batch helpers actually return, upsampled region size spied from the running '
                    'code, pipeline model vs outputs; oracle: the statement on NaN-guarded frames of 7 data kinds, |values| <= 1e6.',
        rule='(S) random patterns (5 classes, crop size 2..7), shapes 2..47 (every sixth frame smaller than the pattern; every fifth case isolated events under a flat-topped pattern: plateaus), 1..7 peaks in [-2c, shape+2c], upsample in {True,2..50}, low-level (both crop back-ends) and high-level '
             'entry points, upsampling on/off compared; distinct by (pattern, shape, peaks, upsample, data kind).')
