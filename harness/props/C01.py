"""C01 - Pixel-centred matched disk is located exactly, for every pattern and shape."""
import json
import math

import numpy as np

import core
from core import cz, clist2
import corrlib as cl
from libertem_blobfinder.base import masks
from libertem_blobfinder.common import correlation as cc, patterns as pat

LEVEL = 'proof'
KINDS = ['Circular', 'RadialGradient', 'BackgroundSubtraction', 'RadialGradientBackgroundSubtraction', 'UserTemplate']


def make(kind, radius, search, ro, ut_shape=None):
    if kind == 'UserTemplate':
        ty, tx = ut_shape
        t = cl.render_disk(ty // 2, tx // 2, ty, tx, radius, True).astype(np.float64)
        return pat.UserTemplate(template=t, search=search), {'kind': kind, 'template': t.tolist(), 'search': search}
    p = cl.make_pattern(kind, radius, search=search, radius_outer=ro)
    return p, {'kind': kind, 'radius': radius, 'search': search, 'radius_outer': ro}


def gen(rng, small=False, wide=False):
    kind = KINDS[int(rng.integers(0, 5))]
    radius = float(rng.choice([2, 2.5, 3, 3.3]) if small else rng.choice([2, 2.5, 3, 3.7, 4, 5, 6.5, 8, 10.25, 14]))
    sf = float(rng.uniform(1.25, 2.5)) if not small else float(rng.choice([1.3, 1.5, 2.0]))
    search = max(radius * sf, radius + 2.0)
    if small:
        search = min(search, 5.0) if radius <= 3 else search
    ro = float(min(radius * rng.choice([1.3, 1.5]), search)) if kind in ('BackgroundSubtraction', 'RadialGradientBackgroundSubtraction') else None
    if ro is not None and ro <= radius:
        ro = radius + 0.5
        search = max(search, ro)
    ut = None
    if kind == 'UserTemplate':
        s0 = int(2 * math.ceil(radius) + 1)
        ut = (s0 + int(rng.integers(0, 3)), s0 + int(rng.integers(0, 3)))
    pattern, desc = make(kind, radius, search, ro, ut)
    c = pattern.get_crop_size()
    lim = 12 if small else 70
    fy, fx = int(rng.integers(2 * c + 2, max(2 * c + 3, lim))), int(rng.integers(2 * c + 2, max(2 * c + 3, lim)))
    cap = max(0, c - int(math.ceil(radius)) - 1)
    # disk centre p; peak (start position) = p + offset, window [peak-c, peak+c-1] inside the frame
    off = (int(rng.integers(-cap, cap + 1)), int(rng.integers(-cap, cap + 1))) if cap else (0, 0)
    lo_y, hi_y = c - min(off[0], 0) , fy - c - max(off[0], 0)
    lo_x, hi_x = c - min(off[1], 0), fx - c - max(off[1], 0)
    lo_y, lo_x = max(lo_y, c - off[0], int(math.ceil(radius)) + 1), max(lo_x, c - off[1], int(math.ceil(radius)) + 1)
    hi_y, hi_x = min(hi_y, fy - c - off[0], fy - int(math.ceil(radius)) - 2), min(hi_x, fx - c - off[1], fx - int(math.ceil(radius)) - 2)
    if hi_y < lo_y or hi_x < lo_x:
        return None
    p = (int(rng.integers(lo_y, hi_y + 1)), int(rng.integers(lo_x, hi_x + 1)))
    amp = int(rng.choice([1, 3, 20, 400]))
    bg = int(rng.choice([0, 2, 50]))
    aa = bool(rng.integers(0, 2))
    if rng.random() < 0.12:
        # a background beyond the float32 integer range (2**24): sharp disk with an even amplitude, so that every pixel value is
        # exactly representable in float32 and the premise 'flat disk on a uniform background' holds exactly
        bg, amp, aa = int(rng.choice([30000000, -30000000, 2 ** 25])), int(rng.choice([20, 400])), False
        if wide and rng.random() < 0.5:
            # ... or a pedestal that only a wider dtype holds: the frame is then passed in that dtype
            bg, fdt = [(10 ** 9, 'float64'), (2 ** 33, 'int64'), (3 * 2 ** 30, 'uint32'), (-10 ** 9, 'float64')][int(rng.integers(0, 4))]
            return dict(desc=desc, radius=radius, shape=(fy, fx), p=p, off=off, amp=amp, bg=bg, aa=aa, fdtype=fdt)
    return dict(desc=desc, radius=radius, shape=(fy, fx), p=p, off=off, amp=amp, bg=bg, aa=aa)


def render(c):
    """frame whose log-scaled intensity log(x - min + 1) is  amp' * disk  (flat disk on a uniform background)"""
    fy, fx = c['shape']
    D = cl.render_disk(c['p'][0], c['p'][1], fy, fx, c['radius'], c['aa']).astype(np.float64)
    if not c['aa']:
        return (c['bg'] + c['amp'] * D)          # sharp disk: log(x - min + 1) = log(1 + amp) * D, integer data
    # antialiased disk: make the LOG-scaled intensity the flat disk: x = bg + exp(a D) - 1  =>  log(x - min + 1) = a D
    a = math.log(1.0 + c['amp'])
    return c['bg'] + np.exp(a * D) - 1.0


def stmt_failure(c, upsample=False):
    pattern = cl.pattern_from_desc(c['desc'])
    x = render(c)
    peak = (c['p'][0] + c['off'][0], c['p'][1] + c['off'][1])
    frames = x[np.newaxis].astype(c.get('fdtype', 'float32'))
    for name, fn in (('process_frames_fast', cc.process_frames_fast), ('process_frames_full', cc.process_frames_full)):
        try:
            cen, ref, hei, ele = fn(pattern, frames, np.array([peak]), upsample=upsample)
        except Exception as e:  # noqa
            return '%s raised %s: %s' % (name, type(e).__name__, e)
        if cen[0, 0].tolist() != list(c['p']):
            return '%s: disk centred on pixel %s (radius %s, frame %s, start %s, %s): integer centre %s' % (name, c['p'], c['radius'], c['shape'], peak, c['desc']['kind'], cen[0, 0].tolist())
        err = float(np.abs(ref[0, 0].astype(np.float64) - np.array(c['p'])).max())
        bound = 0.01 if not upsample else 1.5 / (20 if upsample is True else upsample)
        if err > bound:
            return '%s: disk centred on pixel %s (radius %s, frame %s, start %s, %s, upsample=%s): refined %s is %.4f px off (bound %.4f)' % (
                name, c['p'], c['radius'], c['shape'], peak, c['desc']['kind'], upsample, ref[0, 0].tolist(), err, bound)
    return None


def gen_starts(rng, c):
    '''several distinct start positions inside the capture range of the one disk, windows inside the frame'''
    pattern = cl.pattern_from_desc(c['desc'])
    cs = pattern.get_crop_size()
    cap = max(0, cs - int(math.ceil(c['radius'])) - 1)
    fy, fx = c['shape']
    cand = [(c['p'][0] + dy, c['p'][1] + dx) for dy in range(-cap, cap + 1) for dx in range(-cap, cap + 1)]
    cand = [q for q in cand if cs <= q[0] <= fy - cs and cs <= q[1] <= fx - cs]
    first = (c['p'][0] + c['off'][0], c['p'][1] + c['off'][1])
    rest = [q for q in cand if q != first]
    k = min(len(rest), int(rng.integers(1, 9)))
    return [first] + [rest[i] for i in rng.permutation(len(rest))[:k]]


def multi_failure(c, upsample, starts, nb):
    '''the same disk looked for from several start positions in ONE call of the crop-based kernel with nb <= len(starts) crop
    buffers (several blocks): every start must report the disk centre'''
    from libertem_blobfinder.base import correlation as bc
    pattern = cl.pattern_from_desc(c['desc'])
    cs = pattern.get_crop_size()
    frame = render(c).astype(np.float32)
    peaks = np.array(starts, dtype=np.int32)
    n = len(peaks)
    cen, ref = np.zeros((n, 2), dtype=np.int16), np.zeros((n, 2), dtype=np.float32)
    hei, ele = np.zeros(n, dtype=np.float32), np.zeros(n, dtype=np.float32)
    try:
        bc.process_frame_fast(template=pattern.get_template(sig_shape=(2 * cs, 2 * cs)), crop_size=cs, frame=frame, peaks=peaks, out_centers=cen, out_refineds=ref,
                              out_heights=hei, out_elevations=ele, crop_bufs=np.zeros((nb, 2 * cs, 2 * cs), dtype=np.float32), upsample=upsample)
    except Exception as e:  # noqa
        return 'process_frame_fast raised %s: %s' % (type(e).__name__, e)
    bound = 0.01 if not upsample else 1.5 / (20 if upsample is True else upsample)
    for k in range(n):
        err = float(np.abs(ref[k].astype(np.float64) - np.array(c['p'])).max())
        if cen[k].tolist() != list(c['p']) or err > bound:
            return 'process_frame_fast with %d start positions in %d crop buffers: disk centred on pixel %s (radius %s, frame %s, %s, upsample=%s): start %s gives centre %s refined %s (%.4f px off, bound %.4f)' % (
                n, nb, c['p'], c['radius'], c['shape'], c['desc']['kind'], upsample, peaks[k].tolist(), cen[k].tolist(), ref[k].tolist(), err, bound)
    return None


def edge_failure(c, starts, crop_function, nb, prefill):
    """a disk inside the frame but so close to the border that the search windows overhang the frame (zero background, so that the
    zero padding continues the uniform background), looked for from several start positions through one call of each kernel with
    the given crop function; the crop buffers have been used before (for a noise frame) when prefill is set"""
    from libertem_blobfinder.base import correlation as bc
    pattern = cl.pattern_from_desc(c['desc'])
    cs = pattern.get_crop_size()
    frame = render(c).astype(np.float32)
    fn = {'numba': bc.crop_disks_from_frame, 'slicing': bc.crop_disks_from_frame_slicing}[crop_function]
    for method in ('fast', 'full'):
        try:
            if method == 'fast':
                bufs = np.zeros((nb, 2 * cs, 2 * cs), dtype=np.float32)
                if prefill:
                    noise = (np.arange(frame.size, dtype=np.float32).reshape(frame.shape) * 7.0) % 13.0
                    cl.run_fast(pattern, noise, starts, crop_function=fn, crop_bufs=bufs)
                o = cl.run_fast(pattern, frame, starts, crop_function=fn, crop_bufs=bufs)
            else:
                o = cl.run_full(pattern, frame, starts, bc=nb, crop_function=fn)
        except Exception as e:  # noqa
            return 'process_frame_%s raised %s: %s' % (method, type(e).__name__, e)
        for k in range(len(starts)):
            err = float(np.abs(o[1][k].astype(np.float64) - np.array(c['p'])).max())
            if o[0][k].tolist() != list(c['p']) or not err <= 0.01:
                return ('process_frame_%s (%s crop function, %d crop buffers%s): disk centred on pixel %s close to the border of frame %s (radius %s, %s): start %s gives centre %s '
                        'refined %s (%.4f px off, bound 0.01)' % (method, crop_function, nb, ' used before' if prefill else '', c['p'], c['shape'], c['radius'], c['desc']['kind'],
                                                                  list(starts[k]), o[0][k].tolist(), o[1][k].tolist(), err))
    return None


def gen_edge(rng, turn=None):
    """disk touching distance from one or two borders (turn: which one, enumerated by the caller); start positions anywhere in the capture range"""
    for _ in range(50):
        c = gen(rng)
        if c is None or c['desc']['kind'] == 'UserTemplate' and False:
            continue
        pattern = cl.pattern_from_desc(c['desc'])
        cs = pattern.get_crop_size()
        R = int(math.ceil(c['radius'])) + 1
        fy, fx = c['shape']
        if fy < 2 * R + 2 or fx < 2 * R + 2:
            continue
        side = int(rng.integers(0, 8)) if turn is None else turn % 8
        py = {0: R, 1: fy - R - 1}.get(side % 4 if side < 4 else side - 4, int(rng.integers(R, fy - R)))
        px = {2: R, 3: fx - R - 1}.get(side % 4, int(rng.integers(R, fx - R)))
        if side >= 4:          # corners
            py, px = (R, fy - R - 1)[side & 1], (R, fx - R - 1)[(side >> 1) & 1]
        c = dict(c, p=(int(py), int(px)), bg=0, off=(0, 0))
        if abs(c['amp']) > 1000:
            c['amp'] = 20
        cap = max(0, cs - int(math.ceil(c['radius'])) - 1)
        cand = [(c['p'][0] + dy, c['p'][1] + dx) for dy in range(-cap, cap + 1) for dx in range(-cap, cap + 1)]
        k = min(len(cand), int(rng.integers(2, 6)))
        starts = [cand[i] for i in rng.permutation(len(cand))[:k]]
        return c, starts
    return None, None


def extreme_starts(c):
    """start positions at the very limit of the capture range: the window [start - cs, start + cs - 1] just contains the disk"""
    cs = int(math.ceil(c['desc']['search']))      # the documented window half-size, computed independently of get_crop_size()
    R = int(math.ceil(c['radius']))
    lo, hi = -(cs - 1 - R), cs - R          # offsets start - p for which p - R >= start - cs and p + R <= start + cs - 1
    fy, fx = c['shape']
    out = []
    for dy in (lo, 0, hi):
        for dx in (lo, 0, hi):
            q = (c['p'][0] + dy, c['p'][1] + dx)
            if (dy, dx) != (0, 0) and cs <= q[0] <= fy - cs and cs <= q[1] <= fx - cs:
                out.append(q)
    return out


def stack_failure(c, shifts, upsample=False):
    """a stack of frames in which the one disk sits on a different pixel in every frame (same pattern, same start position relative to the
    disk), through the batch entry points: every frame is evaluated on its own merits"""
    pattern = cl.pattern_from_desc(c['desc'])
    frames, ps = [], []
    for (dy, dx) in shifts:
        cc_ = dict(c, p=(c['p'][0] + dy, c['p'][1] + dx))
        frames.append(render(cc_))
        ps.append(cc_['p'])
    stack = np.array(frames, dtype=np.float32)
    start = np.array([[c['p'][0] + c['off'][0], c['p'][1] + c['off'][1]]])
    for name, fn in (('process_frames_full', cc.process_frames_full), ('process_frames_fast', cc.process_frames_fast)):
        try:
            cen, ref, hei, ele = fn(pattern, stack, start, upsample=upsample)
        except Exception as e:  # noqa
            return '%s raised %s: %s' % (name, type(e).__name__, e)
        bound = 0.01 if not upsample else 1.5 / (20 if upsample is True else upsample)
        for k, p in enumerate(ps):
            err = float(np.abs(ref[k, 0].astype(np.float64) - np.array(p)).max())
            if cen[k, 0].tolist() != list(p) or not err <= bound:
                return '%s: frame #%d of a stack (disk on pixel %s, in the other frames on %s; radius %s, frame %s, %s, upsample=%s): centre %s refined %s (%.4f px off, bound %.4f)' % (
                    name, k, p, [q for q in ps if q != p], c['radius'], c['shape'], c['desc']['kind'], upsample, cen[k, 0].tolist(), ref[k, 0].tolist(), err, bound)
    return None


def consecutive_failure(desc, radius, h, m, ups, seed):
    """the disk located in a frame of even width 2m and, immediately afterwards (no other call in between), in a frame of odd width 2m+1 --
    the two have half spectra of the same width -- and then in the even one again, through the full-frame batch function with DFT upsampling"""
    r = np.random.default_rng(seed)
    for w in (2 * m, 2 * m + 1, 2 * m, 2 * m + 1):
        cs = cl.pattern_from_desc(desc).get_crop_size()
        p = (int(r.integers(cs + 1, h - cs - 1)), int(r.integers(cs + 1, w - cs - 1)))
        c = dict(desc=desc, radius=radius, shape=(h, w), p=p, off=(int(r.integers(-1, 2)), int(r.integers(-1, 2))), amp=20, bg=2, aa=True)
        x = render(c)[np.newaxis].astype(np.float32)
        peak = np.array([[p[0] + c['off'][0], p[1] + c['off'][1]]])
        cen, ref, hei, ele = cc.process_frames_full(cl.pattern_from_desc(desc), x, peak, upsample=ups)
        err = float(np.abs(ref[0, 0].astype(np.float64) - np.array(p)).max())
        bound = 1.5 / (20 if ups is True else ups)
        if cen[0, 0].tolist() != list(p) or not err <= bound:
            return 'process_frames_full(upsample=%s) on a %dx%d frame right after a %dx%d frame: disk on pixel %s: centre %s refined %s (%.4f px off, bound %.4f)' % (
                ups, h, w, h, (2 * m if w % 2 else 2 * m + 1), p, cen[0, 0].tolist(), ref[0, 0].tolist(), err, bound)
    return None


def narrow_centres_failure(c, ups):
    """the full-frame kernel with the centres written into the narrowest integer dtype that holds the coordinates: coordinate x upsampling factor
    does not fit that dtype, so no intermediate may be computed in it"""
    fy, fx = c['shape']
    pattern = cl.pattern_from_desc(c['desc'])
    cs = pattern.get_crop_size()
    frame = render(c).astype(np.float32)
    peak = (c['p'][0] + c['off'][0], c['p'][1] + c['off'][1])
    for dtc in (np.int8, np.uint8, np.int16):
        if max(fy, fx) + cs > np.iinfo(dtc).max:
            continue
        outs = (np.full((1, 2), 0, dtype=dtc), np.full((1, 2), np.nan, dtype=np.float32), np.full((1,), np.nan, dtype=np.float32), np.full((1,), np.nan, dtype=np.float32))
        cl.run_full(pattern, frame, [peak], upsample=ups, outs=outs)
        err = float(np.abs(outs[1][0].astype(np.float64) - np.array(c['p'])).max())
        bound = 1.5 / (20 if ups is True else ups)
        if outs[0][0].tolist() != list(c['p']) or not err <= bound:
            return 'process_frame_full(upsample=%s, out_centers dtype %s): disk on pixel %s (frame %s, radius %s, %s): centre %s refined %s (%.4f px off, bound %.4f)' % (
                ups, np.dtype(dtc).name, c['p'], c['shape'], c['radius'], c['desc']['kind'], outs[0][0].tolist(), outs[1][0].tolist(), err, bound)
    return None


def replay(body):
    if 'frame_ints' in body.get('args', {}):
        return cl.replay_case(body, 'C01')          # a failing input recorded by the model correspondence (cl.model_check)
    a = body['args']
    if 'consecutive' in a:
        q = a['consecutive']
        fail = consecutive_failure(q['desc'], q['radius'], q['h'], q['m'], q['upsample'], q['seed'])
    elif a.get('narrow_centres'):
        fail = narrow_centres_failure(a['case'], a['upsample'])
    elif 'stack_shifts' in a:
        fail = stack_failure(a['case'], [tuple(x) for x in a['stack_shifts']], a.get('upsample', False))
    elif 'edge' in a:
        fail = edge_failure(a['case'], a['starts'], a['edge']['crop_function'], a['edge']['nb'], a['edge']['prefill'])
    elif 'starts' in a:
        fail = multi_failure(a['case'], a.get('upsample', False), a['starts'], a['nb'])
    else:
        fail = stmt_failure(a['case'], a.get('upsample', False))
    print(json.dumps({'failure_now': fail}, indent=1))
    if fail:
        print('VIOLATION property=C01 replay=(given)')
        return 1
    return 0


def classify(fail, c):
    if c['desc']['kind'] == 'UserTemplate' and 'integer centre' in fail:
        return 'UserTemplate odd size: disk located 1 px off'
    if 'upsample=' in fail and 'upsample=False' not in fail:
        return 'upsampled refinement far from the disk centre (envelope of the half spectrum)'
    if c['desc']['kind'] == 'RadialGradientBackgroundSubtraction':
        return 'RadialGradientBackgroundSubtraction fractional outer radius: refined position biased'
    return fail


def run(ctx):
    rng = ctx.rng
    ctx.check_theorems()
    ctx.check_generated(['padcrop', 'eval', 'kcalls', 'qpat', 'crop', 'kups'])

    # (K) the model pipeline on sharp flat disks (integer data): argmax = disk centre, centre of mass EXACTLY symmetric, and the
    #     hypotheses of the theorems checked by computation on the implementation's actual mask
    items, hyp_exprs, hyp_meta = [], [], []
    tries = 0
    while len(items) < ctx.n(16, 120) and tries < 2000:
        tries += 1
        c = gen(rng, small=True)
        if c is None or c.get('fdtype'):          # (the kernels of this stage take float32 frames: pedestals beyond float32 go through the batch functions below)
            continue
        c['aa'] = False
        pattern = cl.pattern_from_desc(c['desc'])
        cs = pattern.get_crop_size()
        if cs > 5:
            continue
        ints = np.rint(render(c)).astype(np.int64)
        peak = (c['p'][0] + c['off'][0], c['p'][1] + c['off'][1])
        method = 'fast' if len(items) % 2 == 0 else 'full'
        outs = (cl.run_fast if method == 'fast' else cl.run_full)(pattern, ints.astype(np.float32), [peak])
        items.append(dict(pattern=pattern, desc=c['desc'], ints=ints, one=1, peaks=[peak], method=method, outs=outs, note='disk at %s' % (c['p'],), case=c))
        # hypotheses on the (2c x 2c) mask: centro-symmetry; bathtub / sign condition relative to the centred sharp disk
        N = 2 * cs
        mq = cl.quant(np.asarray(pattern.get_mask((N, N)), dtype=np.float64))
        yy, xx = np.mgrid[0:N, 0:N]
        disk = ((yy - cs) ** 2 + (xx - cs) ** 2 <= c['radius'] ** 2)
        inside = mq[disk]
        tau = int(inside.min())
        hyp_exprs.append('(csymb %d %d (Corr.of_list2 %s), forallb (fun p => match p with (a, b) => if b =? 1 then %s <=? a else a <=? %s end) %s, '
                         'forallb (fun p => match p with (a, b) => if b =? 1 then 0 <=? a else a <=? 0 end) %s)'
                         % (N, N, clist2(mq.tolist()), cz(tau), cz(tau), '[' + '; '.join('(%s, %d)' % (cz(v), int(d)) for v, d in zip(mq.flat, disk.flat)) + ']',
                            '[' + '; '.join('(%s, %d)' % (cz(v), int(d)) for v, d in zip(mq.flat, disk.flat)) + ']'))
        hyp_meta.append(c['desc']['kind'])
    cl.model_check(ctx, items, 'C01', 'matched disk not located exactly')
    # exactness in the model: re-evaluate report at the TRUE disk centre and require sy = r*s, sx = r*s and argmax = centre
    exprs = []
    for it in items:
        c = it['case']
        pattern = it['pattern']
        cs = pattern.get_crop_size()
        peak = it['peaks'][0]
        mask = pattern.get_mask((2 * cs, 2 * cs)) if it['method'] == 'fast' else pattern.get_mask(it['ints'].shape)
        q = (c['p'][0] - peak[0] + cs, c['p'][1] - peak[1] + cs)
        exprs.append(cl.coq_case(it['method'], it['ints'], 1, cl.quant(mask), cs, peak, q))
    vals = ctx.coq_eval('exact', cl.COQ_IMPORTS, exprs, shard=6, timeout=1500)
    nbad = 0
    for mv, it in zip(vals, items):
        c = it['case']
        cs = it['pattern'].get_crop_size()
        peak = it['peaks'][0]
        q = (c['p'][0] - peak[0] + cs, c['p'][1] - peak[1] + cs)
        y, x, vmax, vic, (r, sy, sx, s), elev = mv
        if (y, x) != q or (r > 0 and (sy != r * s or sx != r * s)):
            nbad += 1
            fail = stmt_failure(c)
            if fail:
                ctx.violation('input', fail, {'kind': 'input', 'call': 'process_frames_fast/full', 'args': {'case': c}, 'failure': fail}, signature=classify(fail, c))
            else:
                ctx.obligation('K:C01 exactness in the model', False, 'argmax %s (disk centre %s), com r=%s sy=%s sx=%s s=%s; %s' % ((y, x), q, r, sy, sx, s, json.dumps(c['desc'])[:200]))
    ctx.obligation('K:C01 in the model the disk centre is the argmax and the centre of mass is exactly symmetric (sy = r s, sx = r s) for %d disks' % len(vals), nbad == 0, '%d exceptions' % nbad)
    hv = ctx.coq_eval('hyp', 'Base.Util Model.Corr', hyp_exprs, shard=30)
    nsym = sum(1 for h in hv if h[0])
    cover = {}
    for h, kind in zip(hv, hyp_meta):
        key = kind + ': ' + ('bathtub' if h[1] else ('sign' if h[2] else 'neither'))
        cover[key] = cover.get(key, 0) + 1
    ctx.extra['theorem_hypotheses_checked_by_computation'] = {'masks_centro_symmetric': '%d of %d' % (nsym, len(hv)), 'maximum_lemma_applicable': cover}
    ctx.obligation('K:C01 csymb (hypothesis of C01_fft_product_is_cross_correlation) holds for the implementation\'s mask in all %d sampled cases' % len(hv), nsym == len(hv), '%d fail' % (len(hv) - nsym))

    # (S) fixed grid for the upsampling clause: every pattern class x small radii x upsampling factors, disk well inside
    for kind in KINDS:
        for radius in (3.0, 4.0, 5.5):
            for ups in (True, 5, 10, 20):
                search = radius + 2.5
                ro = radius * 1.5 if kind in ('BackgroundSubtraction', 'RadialGradientBackgroundSubtraction') else None
                if ro is not None:
                    search = max(search, ro)
                ut = (int(2 * math.ceil(radius) + 1),) * 2 if kind == 'UserTemplate' else None
                pattern, desc = make(kind, radius, search, ro, ut)
                cs = pattern.get_crop_size()
                c = dict(desc=desc, radius=radius, shape=(4 * cs + 7, 4 * cs + 10), p=(2 * cs + 3, 2 * cs + 4), off=(1, -1), amp=20, bg=2, aa=True)
                fail = stmt_failure(c, ups)
                ctx.count(2, key=('grid', kind, radius, ups))
                if fail:
                    ctx.violation('input', fail, {'kind': 'input', 'call': 'process_frames_fast/full', 'args': {'case': c, 'upsample': ups}, 'failure': fail}, signature=classify(fail, c))
    # (S) the statement
    n = 0
    tries = 0
    while n < ctx.n(150, 3000) and tries < 20000:
        tries += 1
        c = gen(rng, wide=True)
        if c is None:
            continue
        n += 1
        ups = False
        if n % 4 == 0:
            ups = [True, 2, 5, 10, 50][int(rng.integers(0, 5))]
        fail = stmt_failure(c, ups)
        ctx.count(2, key=(json.dumps(c['desc'])[:200], c['shape'], c['p'], c['off'], c['amp'], c['bg'], ups))
        ctx.hist('pattern', c['desc']['kind'])
        ctx.hist('parity', '%d%d' % (c['shape'][0] % 2, c['shape'][1] % 2))
        ctx.hist('upsample', ups)
        if len(ctx.cov['samples']) < 7 and n % 30 == 0:
            ctx.sample({'oracle_case': {k: v for k, v in c.items() if k != 'desc'}, 'pattern': c['desc']['kind']})
        if fail:
            nv = len(ctx.violations)
            ctx.violation('input', fail, {'kind': 'input', 'call': 'process_frames_fast/full', 'args': {'case': c, 'upsample': ups}, 'failure': fail}, signature=classify(fail, c))
            if len(ctx.violations) > nv:
                break
        if n % 3 == 0 and not c.get('fdtype'):          # (the stand-alone kernel below is run on float32 frames)
            starts = gen_starts(rng, c)
            nb = int(rng.integers(1, len(starts) + 1))
            ups2 = [False, True, 2, 4, 10][int(rng.integers(0, 5))]
            fail = multi_failure(c, ups2, starts, nb)
            ctx.count(1, key=('multi', json.dumps(c['desc'])[:200], c['shape'], c['p'], starts, nb, ups2))
            ctx.hist('multi-start blocks', -(-len(starts) // nb))
            if fail:
                nv = len(ctx.violations)
                ctx.violation('input', fail, {'kind': 'input', 'call': 'base.correlation.process_frame_fast', 'args': {'case': c, 'upsample': ups2, 'starts': starts, 'nb': nb}, 'failure': fail},
                              signature=classify(fail, c))
                if len(ctx.violations) > nv:
                    break
    # (S) start positions at the very limit of the capture range (the window just contains the disk), search sizes with every fractional part
    n = 0
    tries = 0
    while n < ctx.n(40, 500) and tries < 5000:
        tries += 1
        c = gen(rng)
        if c is None or c['desc']['kind'] == 'UserTemplate':
            continue
        n += 1
        for q in extreme_starts(c):
            c2 = dict(c, off=(q[0] - c['p'][0], q[1] - c['p'][1]))
            fail = stmt_failure(c2, False)
            ctx.count(2, key=('extreme', json.dumps(c['desc'])[:200], c['shape'], c['p'], c2['off'], c['amp'], c['bg']))
            ctx.hist('extreme start: fractional part of search', '%.1f' % (c['desc']['search'] % 1.0))
            if fail:
                ctx.violation('input', fail, {'kind': 'input', 'call': 'process_frames_fast/full', 'args': {'case': c2, 'upsample': False}, 'failure': fail}, signature=classify(fail, c2))
                break
        if ctx.violations:
            break
    # (S) frames of even and odd width one right after the other with upsampling (state keyed by the half-spectrum shape); narrow centre dtypes
    for i in range(ctx.n(10, 60)):
        kind = KINDS[i % 4]
        radius = float(rng.choice([3.0, 4.0, 5.5]))
        ro = radius * 1.5 if 'Background' in kind else None
        _, desc = make(kind, radius, max(radius + 2.5, ro or 0), ro)
        h, m, ups, sd = int(rng.integers(30, 50)), 200 + i, [4, 10, True, 20][i % 4], int(rng.integers(0, 2 ** 31))     # widths 400+: used nowhere else in this check
        fail = consecutive_failure(desc, radius, h, m, ups, sd)
        ctx.count(4, key=('consecutive', kind, radius, h, m, ups, sd))
        if fail:
            ctx.violation('input', fail, {'kind': 'history', 'call': 'process_frames_full on frames of width 2m, 2m+1', 'args': {'consecutive': {'desc': desc, 'radius': radius, 'h': h, 'm': m, 'upsample': ups, 'seed': sd}}, 'failure': fail})
            break
    n = tries = 0
    while n < ctx.n(20, 200) and tries < 2000:
        tries += 1
        c = gen(rng)
        if c is None:
            continue
        n += 1
        ups = [4, 10, 50, True][n % 4]
        fail = narrow_centres_failure(c, ups)
        ctx.count(1, key=('narrow centres', json.dumps(c['desc'])[:200], c['shape'], c['p'], c['off'], ups))
        if fail:
            ctx.violation('input', fail, {'kind': 'input', 'call': 'base.correlation.process_frame_full', 'args': {'case': c, 'upsample': ups, 'narrow_centres': True}, 'failure': fail}, signature=classify(fail, c))
            break
    # (S) stacks of frames with the disk on a different pixel in every frame (the batch helpers re-use their buffers from frame to frame)
    n = tries = 0
    while n < ctx.n(30, 300) and tries < 3000:
        tries += 1
        c = gen(rng)
        if c is None or c['desc']['kind'] == 'UserTemplate':
            continue
        cs = cl.pattern_from_desc(c['desc']).get_crop_size()
        cap = max(0, cs - int(math.ceil(c['radius'])) - 1)
        room = min(cap - abs(c['off'][0]), cap - abs(c['off'][1]), 8)
        if room < 1:
            continue
        # the disk moves by up to `room` pixels around p while the start position stays: it remains inside the search window
        shifts = [(0, 0)] + [(int(rng.integers(-room, room + 1)), int(rng.integers(-room, room + 1))) for _ in range(int(rng.integers(1, 3)))]
        n += 1
        ups = [False, False, 4][n % 3]
        fail = stack_failure(c, shifts, ups)
        ctx.count(2 * len(shifts), key=('stack', json.dumps(c['desc'])[:200], c['shape'], c['p'], c['off'], tuple(shifts), ups))
        if fail:
            ctx.violation('input', fail, {'kind': 'input', 'call': 'process_frames_fast/full on a stack', 'args': {'case': c, 'stack_shifts': [list(x) for x in shifts], 'upsample': ups}, 'failure': fail},
                          signature=classify(fail, c))
            break
    # (S) disks close to the frame border (windows overhang the frame), both crop functions, fresh and used crop buffers
    for k in range(ctx.n(60, 600)):
        # every border / corner in turn, each with both crop functions, one or several crop buffers, fresh or used buffers
        c, starts = gen_edge(rng, turn=k // 2)
        if c is None:
            continue
        cf = ('numba', 'slicing')[k % 2]
        nb = 1 if (k // 16) % 2 == 0 else int(rng.integers(1, len(starts) + 1))
        prefill = bool((k // 32) % 2) or nb > 1
        fail = edge_failure(c, starts, cf, nb, prefill)
        ctx.count(2 * len(starts), key=('edge', json.dumps(c['desc'])[:200], c['shape'], c['p'], starts, cf, nb, prefill))
        ctx.hist('edge disk: crop function', cf)
        if fail:
            ctx.violation('input', fail, {'kind': 'input', 'call': 'base.correlation.process_frame_fast/full', 'args': {'case': c, 'starts': [list(q) for q in starts],
                                                                                                                  'edge': {'crop_function': cf, 'nb': nb, 'prefill': prefill}}, 'failure': fail},
                          signature=classify(fail, c))
            break
    return ctx.finish(
        LEVEL,
        explanation='Theorems: FFT product = cross-correlation for centro-symmetric masks of any parity; radial masks are centro-symmetric and user templates keep their centre; map of '
                    'background + amplitude*disk decomposes; bathtub / sign lemmas bound the weight of every displaced disk by the centred one; the map of point-symmetric data is point '
                    'symmetric about the disk centre; a symmetric neighbourhood refines to its centre exactly. Tie: model pipeline vs implementation on integer-valued sharp disks, the '
                    'model giving argmax = centre and sy = r s exactly; the theorems\' hypotheses (csymb, bathtub/sign) evaluated in Coq on the implementation\'s actual masks.',
        rule='(S) 5 pattern classes (user templates: antialiased disks of odd/even/non-square shape centred on shape//2), radii 2..14 fractional, search 1.25..2.5 radius, frame '
             'shapes of all parities up to 69, disk position anywhere the window fits, start offsets up to the capture range, amplitudes 1..400, backgrounds, sharp and antialiased '
             'disks, upsample in {False, True, 2, 5, 10, 50}; every third case additionally from 2..9 start positions in one call with 1..n crop buffers (several blocks); start positions at the very limit of the capture range; disks close to the frame border (overhanging windows) with both crop functions and used crop buffers; (K) the same with crop size <= 5 and frames <= 11.')
