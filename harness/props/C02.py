"""C02 - Sub-pixel accuracy bound for refined positions.   Level: other (partial) -- the accuracy figures are sampled, not proved."""
import json
import math

import numpy as np
import scipy.ndimage
from scipy.ndimage import fourier_shift

import core
import corrlib as cl
from libertem_blobfinder.base import masks, correlation as blc
from libertem_blobfinder.common import correlation as cc, patterns as pat

LEVEL = 'other'
KINDS = ['Circular', 'RadialGradient', 'BackgroundSubtraction', 'RadialGradientBackgroundSubtraction']


def gen_linear(rng):
    kind = KINDS[int(rng.integers(0, 4))]
    radius = float(rng.choice([3, 4, 5, 6.5, 8, 11, 14]))
    search = radius * float(rng.uniform(1.6, 2.3))
    ro = radius * 1.5 if kind in ('BackgroundSubtraction', 'RadialGradientBackgroundSubtraction') else None
    pattern = cl.make_pattern(kind, radius, search=search, radius_outer=ro)
    c = pattern.get_crop_size()
    cap = max(0, c - int(math.ceil(radius)) - 2)
    off = (int(rng.integers(-cap, cap + 1)), int(rng.integers(-cap, cap + 1))) if cap else (0, 0)
    fy = int(rng.integers(2 * c + 8 + 2 * abs(off[0]), 2 * c + 52 + 2 * abs(off[0])))
    fx = int(rng.integers(2 * c + 8 + 2 * abs(off[1]), 2 * c + 52 + 2 * abs(off[1])))
    py = float(rng.uniform(c + 1 + abs(off[0]), fy - c - 2 - abs(off[0])))
    px = float(rng.uniform(c + 1 + abs(off[1]), fx - c - 2 - abs(off[1])))
    contrast = float(rng.choice([1, 3, 10, 100, 1000]))
    bg = float(rng.choice([1, 10, 100]))
    return dict(desc={'kind': kind, 'radius': radius, 'search': search, 'radius_outer': ro}, shape=(fy, fx), true=(py, px), off=off, contrast=contrast, bg=bg)


def linear_failure(c):
    pattern = cl.pattern_from_desc(c['desc'])
    fy, fx = c['shape']
    D = cl.render_disk(c['true'][0], c['true'][1], fy, fx, c['desc']['radius'], True).astype(np.float64)
    frame = (c['bg'] * (1 + c['contrast'] * D))[np.newaxis].astype(np.float32)
    start = (int(round(c['true'][0])) + c['off'][0], int(round(c['true'][1])) + c['off'][1])
    # all start positions of a grid within the capture range are passed in ONE call (several blocks for large crops)
    cs = pattern.get_crop_size()
    cap = max(0, cs - int(math.ceil(c['desc']['radius'])) - 2)
    g = min(cap, 3)
    r0 = (int(round(c['true'][0])), int(round(c['true'][1])))
    starts = [start] + [(r0[0] + dy, r0[1] + dx) for dy in range(-g, g + 1) for dx in range(-g, g + 1)
                        if cs <= r0[0] + dy <= fy - cs and cs <= r0[1] + dx <= fx - cs]
    for name, fn in (('process_frames_fast', cc.process_frames_fast), ('process_frames_full', cc.process_frames_full)):
        try:
            cen, ref, hei, ele = fn(pattern, frame, np.array(starts))
        except Exception as e:  # noqa
            return '%s raised %s: %s' % (name, type(e).__name__, e)
        dcs = np.abs(cen[0].astype(np.float64) - np.array(c['true'])).max(axis=1)
        drs = np.abs(ref[0].astype(np.float64) - np.array(c['true'])).max(axis=1)
        k = int(np.argmax(np.maximum(dcs - 1.0, drs - 0.5)))
        start = starts[k]
        cen, ref = cen[:, k:k + 1], ref[:, k:k + 1]
        dc = float(dcs[k])
        dr = float(drs[k])
        if dc > 1.0 + 1e-6:
            return '%s: integer centre %s is %.3f px from the true centre %s (%s radius %s, contrast %s, start %s)' % (name, cen[0, 0].tolist(), dc, c['true'], c['desc']['kind'], c['desc']['radius'], c['contrast'], start)
        if dr > 0.5:
            return '%s: refined %s is %.3f px from the true centre %s (%s radius %s, contrast %s, start %s)' % (name, ref[0, 0].tolist(), dr, c['true'], c['desc']['kind'], c['desc']['radius'], c['contrast'], start)
    # full-frame pipeline: the window is cut out of the correlation map of the whole frame, so the peak is intact even when the start
    # is off by crop_size - 1 and the maximum sits one pixel from the window edge (the centre-of-mass window then shrinks to 3x3)
    far = [q for q in ((r0[0] + cs - 1, r0[1]), (r0[0], r0[1] - (cs - 1)), (r0[0] - (cs - 1), r0[1] + cs - 1)) if cs <= q[0] <= fy - cs and cs <= q[1] <= fx - cs]
    if far:
        cen, ref, hei, ele = cc.process_frames_full(pattern, frame, np.array(far))
        for k, q in enumerate(far):
            dc = float(np.abs(cen[0, k].astype(np.float64) - np.array(c['true'])).max())
            dr = float(np.abs(ref[0, k].astype(np.float64) - np.array(c['true'])).max())
            idx = cen[0, k].astype(np.int64) - (np.array(q) - cs)
            idt = np.rint(np.array(c['true'])).astype(np.int64) - (np.array(q) - cs)
            if (idx <= 0).any() or (idx >= 2 * cs - 1).any() or (idt <= 0).any() or (idt >= 2 * cs - 1).any():
                continue                      # maximum (found or true) on the window edge itself: no neighbourhood to refine in
            # one pixel from the window edge the centre of mass is taken over 3x3 pixels only: it cannot follow a disk centre half a pixel away from
            # the integer maximum as far as the 5x5 one (0.504 px seen at soak seed 97): 0.6 px there, 0.5 px with the full neighbourhood
            lim = 0.6 if ((idx == 1).any() or (idx == 2 * cs - 2).any()) else 0.5
            if dc > 1.0 + 1e-6 or dr > lim:
                return 'process_frames_full: start %s (crop_size - 1 = %d px off): centre %s / refined %s are %.3f / %.3f px from the true centre %s (%s radius %s)' % (
                    q, cs - 1, cen[0, k].tolist(), ref[0, k].tolist(), dc, dr, c['true'], c['desc']['kind'], c['desc']['radius'])
    # a stack of frames in which the disk moves by a few pixels on an exactly flat background: every frame on its own merits
    if cap >= 3:
        moves = [(0.0, 0.0), (2.3, -1.6), (-1.2, 2.7)]
        fr = []
        for (my, mx) in moves:
            Dm = cl.render_disk(c['true'][0] + my, c['true'][1] + mx, fy, fx, c['desc']['radius'], True).astype(np.float64)
            fr.append(c['bg'] * (1 + c['contrast'] * Dm))
        stack = np.array(fr, dtype=np.float32)
        for name, fn in (('process_frames_full', cc.process_frames_full), ('process_frames_fast', cc.process_frames_fast)):
            cen, ref, hei, ele = fn(pattern, stack, np.array([r0]))
            for k, (my, mx) in enumerate(moves):
                tr = np.array([c['true'][0] + my, c['true'][1] + mx])
                dr = float(np.abs(ref[k, 0].astype(np.float64) - tr).max())
                if dr > 0.5:
                    return '%s: frame #%d of a stack (disk moved by %s): refined %s is %.3f px from the true centre %s (%s radius %s)' % (
                        name, k, (my, mx), ref[k, 0].tolist(), dr, tr.tolist(), c['desc']['kind'], c['desc']['radius'])
    return None


def gen_band(rng):
    shape = (int(rng.integers(40, 91)), int(rng.integers(40, 91)))
    shift = (float(rng.uniform(-10, 10)), float(rng.uniform(-10, 10)))
    # the shifted disk must stay inside the frame (the Fourier shift is cyclic; the true centre is the centre of mass)
    room = min(shape[0] // 2 - abs(shift[0]), shape[1] // 2 - abs(shift[1])) - 3
    radius = float(min(13, max(4, int(room))))
    if room < 4:
        shift = (shift[0] * 0.3, shift[1] * 0.3)
        radius = 6.0
    return dict(shape=shape, shift=shift, u=int(rng.choice([2, 3, 5, 10, 20, 25, 50])), radius=radius, kind=str(rng.choice(['Circular', 'BackgroundSubtraction'])))


def band_failure(c):
    """band-limited (Fourier-shifted) disk: upsampled refinement of the correlation peak (same protocol as the repository's own test)"""
    fft = blc.fft
    pattern = pat.Circular(c['radius']) if c['kind'] == 'Circular' else pat.BackgroundSubtraction(radius=c['radius'])
    frame = pat.Circular(c['radius']).get_mask(c['shape']).astype(np.float32)
    template = pattern.get_template(c['shape'])
    fs = fft.ifft2(fourier_shift(fft.fft2(frame), shift=c['shift'])).real
    corrs, specs = blc.do_correlations(template[np.newaxis], fs[np.newaxis], with_specs=True)
    corr = corrs[0]
    am = np.unravel_index(corr.argmax(), corr.shape)
    centre = np.ceil(np.asarray(corr.shape) / 2, dtype=np.float32)
    freq = (fft.fftfreq(corr.shape[0], c['u']), fft.rfftfreq(corr.shape[1], c['u']))
    try:
        refined = blc.refine_center_upsampling(centre, am, specs[0], freq, c['u'])
    except Exception as e:  # noqa
        return 'refine_center_upsampling raised %s: %s' % (type(e).__name__, e)
    true = scipy.ndimage.center_of_mass(fs)
    d = float(np.abs(np.asarray(refined, dtype=np.float64) - np.array(true)).max())
    if d > 1.0 / c['u'] + 0.03:
        return 'band-limited disk shifted by %s in frame %s, upsample %d (%s): refined %s is %.4f px from the true centre %s (bound %.4f)' % (
            c['shift'], c['shape'], c['u'], c['kind'], np.asarray(refined).tolist(), d, tuple(round(float(t), 4) for t in true), 1.0 / c['u'] + 0.03)
    # the same through both pipelines; low contrast keeps the log scaling log(x - min + 1) in its linear range
    frame2 = (0.01 * fs)[np.newaxis].astype(np.float32)
    p2 = pat.Circular(radius=c['radius'], search=2 * c['radius'])
    cs = p2.get_crop_size()
    st = (int(round(true[0])), int(round(true[1])))
    if cs <= st[0] <= c['shape'][0] - cs and cs <= st[1] <= c['shape'][1] - cs:
        for name, fn in (('process_frames_full', cc.process_frames_full), ('process_frames_fast', cc.process_frames_fast)):
            cen, ref, hei, ele = fn(p2, frame2, np.array([st]), upsample=c['u'])
            d = float(np.abs(ref[0, 0].astype(np.float64) - np.array(true)).max())
            if d > 1.0 / c['u'] + 0.03:
                return '%s(upsample=%d) on a low-contrast Fourier-shifted disk (radius %s) in frame %s: refined %s is %.4f px from the true centre %s (bound %.4f)' % (
                    name, c['u'], c['radius'], c['shape'], ref[0, 0].tolist(), d, tuple(round(float(t), 4) for t in true), 1.0 / c['u'] + 0.03)
        # the stand-alone kernels: the documented flag value upsample=True (factor 20) and the given factor, from a grid of start positions
        # in one call with fewer crop buffers than start positions (several blocks)
        starts = [(st[0] + dy, st[1] + dx) for dy in (-2, 0, 2) for dx in (-2, 0, 2)]
        starts = [q for q in starts if cs <= q[0] <= c['shape'][0] - cs and cs <= q[1] <= c['shape'][1] - cs]
        for ups in (True, c['u'], np.int64(c['u']), np.int32(c['u'])):          # the factor also as a NumPy integer (an element of an array of factors)
            uf = 20 if ups is True else int(ups)
            for name, fn in (('process_frame_fast', cl.run_fast), ('process_frame_full', cl.run_full)):
                o = fn(p2, frame2[0], starts, bc=2, upsample=ups)
                ds = np.abs(o[1].astype(np.float64) - np.array(true)).max(axis=1)
                k = int(np.argmax(ds))
                if not ds[k] <= 1.0 / uf + 0.03:
                    return '%s(upsample=%r, %d start positions in 2 buffers) on a low-contrast Fourier-shifted disk (radius %s) in frame %s: start %s gives refined %s, %.4f px from the true centre %s (bound %.4f)' % (
                        name, ups, len(starts), c['radius'], c['shape'], list(starts[k]), o[1][k].tolist(), float(ds[k]), tuple(round(float(t), 4) for t in true), 1.0 / uf + 0.03)
        # the low-level full-frame routine with the centres output in the narrowest integer dtype that holds the coordinates
        # (coordinate x upsampling factor does not fit that dtype: no intermediate may be computed in it)
        for dtc in (np.int8, np.uint8, np.int16, np.int64):
            if max(c['shape']) + cs > np.iinfo(dtc).max:
                continue
            outs = (np.full((1, 2), 0, dtype=dtc), np.full((1, 2), np.nan, dtype=np.float32), np.full((1,), np.nan, dtype=np.float32), np.full((1,), np.nan, dtype=np.float32))
            cl.run_full(p2, frame2[0], [st], upsample=c['u'], outs=outs)
            d = float(np.abs(outs[1][0].astype(np.float64) - np.array(true)).max())
            if d > 1.0 / c['u'] + 0.03:
                return 'process_frame_full(upsample=%d, out_centers dtype %s) on a low-contrast Fourier-shifted disk (radius %s) in frame %s: refined %s is %.4f px from the true centre %s (bound %.4f)' % (
                    c['u'], np.dtype(dtc).name, c['radius'], c['shape'], outs[1][0].tolist(), d, tuple(round(float(t), 4) for t in true), 1.0 / c['u'] + 0.03)
    return None


def replay(body):
    if 'frame_ints' in body.get('args', {}):
        return cl.replay_case(body, 'C02')          # a failing input recorded by the model correspondence (cl.model_check)
    a = body['args']
    fail = linear_failure(a['case']) if body.get('call') == 'linear' else band_failure(a['case'])
    print(json.dumps({'failure_now': fail}, indent=1))
    if fail:
        print('VIOLATION property=C02 replay=(given)')
        return 1
    return 0


def run(ctx):
    rng = ctx.rng
    ctx.check_theorems()
    ctx.check_generated(['qus', 'k', 'kcalls', 'kups'])
    # (K) the model pipeline agrees with the implementation on small sub-pixel disks (integer-rounded intensities)
    items = []
    tries = 0
    while len(items) < ctx.n(12, 80) and tries < 500:
        tries += 1
        kind = KINDS[int(rng.integers(0, 4))]
        radius = float(rng.choice([2.0, 2.5, 3.0]))
        pattern = cl.make_pattern(kind, radius, search=5.0, radius_outer=radius * 1.5 if 'Sub' in kind else None)
        cs = pattern.get_crop_size()
        fy, fx = int(rng.integers(2 * cs + 1, 13)), int(rng.integers(2 * cs + 1, 13))
        true = (float(rng.uniform(cs, fy - cs)), float(rng.uniform(cs, fx - cs)))
        D = cl.render_disk(true[0], true[1], fy, fx, radius, True)
        ints = np.rint(10 + 200 * D).astype(np.int64)
        start = (int(round(true[0])), int(round(true[1])))
        method = 'fast' if len(items) % 2 == 0 else 'full'
        outs = (cl.run_fast if method == 'fast' else cl.run_full)(pattern, ints.astype(np.float32), [start])
        items.append(dict(pattern=pattern, desc={'kind': kind, 'radius': radius, 'search': pattern.search, 'radius_outer': radius * 1.5 if 'Sub' in kind else None}, ints=ints, one=1,
                          peaks=[start], method=method, outs=outs, note='sub-pixel disk at %s' % (tuple(round(t, 2) for t in true),)))
    cl.model_check(ctx, items, 'C02', 'output differs from its definition')

    nlin = nband = 0
    worst_c, worst_r, worst_b = 0.0, 0.0, 0.0
    for k in range(ctx.n(150, 4000)):
        c = gen_linear(rng)
        fail = linear_failure(c)
        nlin += 1
        ctx.count(2, key=('lin', json.dumps(c['desc']), c['shape'], c['true'], c['off'], c['contrast']))
        ctx.hist('pattern', c['desc']['kind'])
        ctx.hist('contrast', c['contrast'])
        if len(ctx.cov['samples']) < 6 and k % 40 == 0:
            ctx.sample({'linear_disk': {k2: v for k2, v in c.items() if k2 != 'desc'}, 'pattern': c['desc']})
        if fail:
            ctx.violation('input', fail, {'kind': 'input', 'call': 'linear', 'args': {'case': c}, 'failure': fail})
            break
    for k in range(ctx.n(60, 1500)):
        c = gen_band(rng)
        fail = band_failure(c)
        nband += 1
        ctx.count(1, key=('band', c['shape'], c['shift'], c['u'], c['radius'], c['kind']))
        ctx.hist('upsample', c['u'])
        ctx.hist('band_parity', '%d%d' % (c['shape'][0] % 2, c['shape'][1] % 2))
        if fail:
            ctx.violation('input', fail, {'kind': 'input', 'call': 'band', 'args': {'case': c}, 'failure': fail})
            break
    ctx.extra['sampled_accuracy_cases'] = {'linear_disks': nlin, 'band_limited_disks': nband}
    ctx.extra['unproved_clauses'] = ['integer centre within 1 px', 'centre-of-mass refined position within 0.5 px', 'upsampled refinement within 1/upsample + 0.03 px']
    return ctx.finish(
        LEVEL,
        explanation='PARTIAL. The three accuracy figures of this property are statements about float FFT/log numerics over a continuum of sub-pixel offsets; they are NOT proved. '
                    'Proved (Props/C02.v, all named ..._partial...): the refined position lies in the (2r+1)^2 neighbourhood of the integer centre (r <= 2), the upsampled grid has '
                    'spacing 1/u, contains the integer position and covers +-(3/4 - 1/(2u)) px with |offset| <= 3/4 + 1/(2u), and translation equivariance reduces all positions to '
                    'one unit cell of sub-pixel offsets. The accuracy clauses themselves are checked by sampling on the implementation (this run: see sampled_accuracy_cases) and the '
                    'model pipeline is compared with the implementation on sub-pixel disks.',
        rule='linear disks: 4 built-in patterns, radii 3..14, search 1.6..2.3 radius, contrasts 1..1000 over backgrounds 1..100, random sub-pixel centres, start offsets within the '
             'capture range, frames up to 2c+50; band-limited disks: shapes 40..90 (all parities), shifts in [-10,10]^2, upsample 2..50, protocol of the repository\'s own test.')
