"""C16 - Pattern masks are centred, symmetric, bounded and balanced at every size."""
import itertools
import json
import math
from fractions import Fraction

import numpy as np

import core
from core import cq, cz
import corrlib as cl
from libertem_blobfinder.base import masks
from libertem_blobfinder.common import patterns as pat

LEVEL = 'proof'
F = lambda x: Fraction(*float(x).as_integer_ratio())  # noqa


def make(kind, radius, search, ro):
    if kind == 'Circular':
        return pat.Circular(radius=radius, search=search)
    if kind == 'RadialGradient':
        return pat.RadialGradient(radius=radius, search=search)
    if kind == 'BackgroundSubtraction':
        return pat.BackgroundSubtraction(radius=radius, search=search, radius_outer=ro)
    return pat.RadialGradientBackgroundSubtraction(radius=radius, search=search, radius_outer=ro)


def outer_radius(kind, radius, ro):
    return radius if kind in ('Circular', 'RadialGradient') else ro


def stmt_failure(kind, radius, search, ro, shape):
    try:
        p = make(kind, radius, search, ro)
    except ValueError as e:
        return 'constructor rejected consistent parameters: %s' % e
    if p.get_crop_size() != math.ceil(search):
        return 'crop size %s != ceil(search=%s)' % (p.get_crop_size(), search)
    cy, cx = shape[0] // 2, shape[1] // 2
    empty_ring = False
    if kind == 'BackgroundSubtraction':
        # premise of the theorem C16_background_subtraction_balanced (sum of the ring != 0): the balancing ring must
        # intersect the requested array at all; otherwise there is nothing to balance against and the mask is the disk
        # itself (C16_background_subtraction_empty_ring; it used to be 0/0 = NaN, finding F17): zero sum not demanded
        # (decided with the harness' own disk renderer, not with the library's ring())
        empty_ring = float(np.abs(cl.render_disk(cy, cx, shape[0], shape[1], ro, True) - cl.render_disk(cy, cx, shape[0], shape[1], radius, True)).sum()) == 0.0
    m = np.asarray(p.get_mask(shape), dtype=np.float64)
    if m.shape != tuple(shape):
        return 'mask shape %s != requested %s' % (m.shape, shape)
    if not np.isfinite(m).all():
        return 'mask contains non-finite values'
    # point symmetry about shape//2 (on the pixels that have a mirror image inside the array)
    for y in range(shape[0]):
        for x in range(shape[1]):
            yy, xx = 2 * cy - y, 2 * cx - x
            if 0 <= yy < shape[0] and 0 <= xx < shape[1] and abs(m[y, x] - m[yy, xx]) > 1e-12:
                return 'mask not point symmetric about %s: m%s=%.6g m%s=%.6g' % ((cy, cx), (y, x), m[y, x], (yy, xx), m[yy, xx])
    yy, xx = np.mgrid[0:shape[0], 0:shape[1]]
    r = np.hypot(yy - cy, xx - cx)
    R = outer_radius(kind, radius, ro)
    far = r > R + 1 + 1e-9
    if far.any() and np.abs(m[far]).max() > 1e-12:
        i = np.argwhere(far & (np.abs(m) > 1e-12))[0]
        return 'mask value %.6g at pixel %s, distance %.3f > outer radius %.3f + 1' % (m[tuple(i)], tuple(i), r[tuple(i)], R)
    if m.max() > 1 + 1e-12:
        return 'mask exceeds 1: %.6g' % m.max()
    if empty_ring and not np.allclose(m, cl.render_disk(cy, cx, shape[0], shape[1], radius, True), rtol=0, atol=1e-12):
        return 'BackgroundSubtraction mask for shape %s (ring entirely outside) is not the disk' % (shape,)
    if kind == 'BackgroundSubtraction' and min(cy, cx, shape[0] - 1 - cy, shape[1] - 1 - cx) >= R + 1:
        if abs(m.sum()) > 1e-9 * max(1.0, np.abs(m).sum()):
            return 'background-subtracting mask sums to %.6g, not 0' % m.sum()
    t = p.get_template(shape)
    if not np.allclose(t, np.fft.rfft2(p.get_mask(shape)), atol=1e-12):
        return 'template is not the real FFT of the mask'
    return None


def guards_failure(rng):
    # a search size of exactly zero (of any numeric type) or below is smaller than every radius: rejected like any other inconsistent value
    for kind in ('Circular', 'RadialGradient', 'BackgroundSubtraction', 'RadialGradientBackgroundSubtraction'):
        for s0 in (0, 0.0, np.float64(0.0), np.int64(0), -1.0, 1e-9):
            try:
                make(kind, 2.5, s0, 4.0)
                return '%s(radius=2.5, search=%r%s) accepted' % (kind, s0, ', radius_outer=4.0' if 'Background' in kind else '')
            except ValueError:
                pass
    # the same guards with a user-supplied radial map (odd, even and non-square maps in pixel units): supplying the map changes nothing about
    # which radii / search sizes are consistent
    for (my, mx) in ((16, 16), (17, 17), (16, 21)):
        rmap = masks.polar_map(centerX=mx // 2, centerY=my // 2, imageSizeX=mx, imageSizeY=my)[0]
        for radius, ro, search in ((5.0, 7.0, 6.8), (5.0, 7.0, 7.0), (5.0, 4.0, 8.0), (5.0, 5.0, 8.0), (3.0, 6.0, 5.9), (3.0, 6.0, 6.5), (5.0, None, 7.0), (5.0, None, 8.0)):
            ok = (ro is None or ro > radius) and (search >= (ro if ro is not None else 1.5 * radius))
            try:
                pat.RadialGradientBackgroundSubtraction(radius=radius, radius_outer=ro, search=search, radial_map=rmap)
                acc = True
            except ValueError:
                acc = False
            if acc != ok:
                return 'RadialGradientBackgroundSubtraction(radius=%s, radius_outer=%s, search=%s, radial_map=<%dx%d map>) %s' % (radius, ro, search, my, mx, 'accepted' if acc else 'rejected')
    for _ in range(60):
        radius = float(rng.choice([1.5, 2.0, 3.25, 5.0]))
        ro = float(radius + rng.choice([-1.0, 0.0, 0.5, 2.0]))
        search = float(ro + rng.choice([-0.5, 0.0, 0.25, 3.0]))
        for kind in ('BackgroundSubtraction', 'RadialGradientBackgroundSubtraction'):
            ok = (ro > radius) and (search >= ro)
            try:
                make(kind, radius, search, ro)
                acc = True
            except ValueError:
                acc = False
            if acc != ok:
                return '%s(radius=%s, radius_outer=%s, search=%s) %s' % (kind, radius, ro, search, 'accepted' if acc else 'rejected')
        for kind in ('Circular', 'RadialGradient'):
            s2 = float(radius + rng.choice([-0.5, 0.0, 1.0]))
            ok = s2 >= radius
            try:
                make(kind, radius, s2, None)
                acc = True
            except ValueError:
                acc = False
            if acc != ok:
                return '%s(radius=%s, search=%s) %s' % (kind, radius, s2, 'accepted' if acc else 'rejected')
    return None


def user_failure(sy, sx, ty, tx):
    t = (np.arange(sy)[:, None] + 1) * 100.0 + (np.arange(sx)[None, :] + 1)
    m = pat.UserTemplate(t).get_mask((ty, tx))
    if m.shape != (ty, tx):
        return 'shape %s' % (m.shape,)
    exp = np.zeros((ty, tx))
    for y in range(ty):
        for x in range(tx):
            i, j = y + sy // 2 - ty // 2, x + sx // 2 - tx // 2
            if 0 <= i < sy and 0 <= j < sx:
                exp[y, x] = t[i, j]
    if not np.array_equal(m, exp):
        return 'UserTemplate source (%d,%d) -> target (%d,%d): values/centre not preserved (source centre pixel %s found at %s, expected %s)' % (
            sy, sx, ty, tx, t[sy // 2, sx // 2], [tuple(int(v) for v in w) for w in np.argwhere(m == t[sy // 2, sx // 2])], (ty // 2, tx // 2))
    return None


def delta_failure(radius, ro, delta, shape):
    """RadialGradientBackgroundSubtraction with a transition width other than the default"""
    p = pat.RadialGradientBackgroundSubtraction(radius=radius, radius_outer=ro, delta=delta, search=ro + 1)
    m = np.asarray(p.get_mask(shape), dtype=np.float64)
    cy, cx = shape[0] // 2, shape[1] // 2
    yy, xx = np.mgrid[0:shape[0], 0:shape[1]]
    r = np.hypot(yy - cy, xx - cx)
    fail = None
    if m.shape != tuple(shape) or not np.isfinite(m).all():
        fail = 'shape / finiteness'
    elif m.max() > 1 + 1e-12:
        fail = 'mask exceeds 1: %.6g' % m.max()
    elif np.abs(m[r > ro + 1]).max(initial=0) > 1e-12:
        fail = 'mask is non-zero beyond radius_outer + 1'
    elif not np.allclose(m[(r < radius - delta / 2)], (r / radius)[(r < radius - delta / 2)], atol=1e-12):
        fail = 'mask is not r / radius inside radius - delta/2'
    elif not np.allclose(m[(r >= radius + delta / 2) & (r <= ro)], -1.0):
        fail = 'mask is not -1 on the ring [radius + delta/2, radius_outer]'
    return fail


def requery_failure(desc, shapes, order):
    """a pattern object queried for several shapes in the given order -- after polar maps for the same geometries have been scaled in place
    by the caller -- returns what a fresh object returns"""
    pattern = cl.pattern_from_desc(desc)
    ref = {s: np.array(cl.pattern_from_desc(desc).get_mask(s), copy=True) for s in shapes}
    for s in shapes:
        for pm in (masks.polar_map(s[1] // 2, s[0] // 2, s[1], s[0]), masks.polar_map(centerX=s[1] // 2, centerY=s[0] // 2, imageSizeX=s[1], imageSizeY=s[0])):
            pm[0][...] = pm[0] * 0.4 + 1.0
        pattern.get_mask(s)
    for s in order:
        m1 = pattern.get_mask(s)
        if not np.array_equal(m1, ref[s], equal_nan=True) or not np.array_equal(pattern.get_template(s), np.fft.rfft2(ref[s]), equal_nan=True):
            return 'pattern re-queried for shape %s gives a different mask/template than a fresh object' % (s,)
        # the returned mask is the caller's: normalising it in place must not reach the pattern (the library hands out fresh arrays)
        m1 = np.asarray(m1)
        if m1.flags.writeable:
            m1[...] = m1 * 0.25 - 1.0
    return None


def replay(body):
    a = body['args']
    if body.get('call') == 'UserTemplate.get_mask':
        fail = user_failure(*a['source'], *a['target'])
    elif 'attr_change' in a:
        q = a['attr_change']
        p_ = make(q['kind'], q['r1'], q['ro1'] + 1.0, q['ro1'])
        p_.get_mask(tuple(q['shape']))
        for attr, val in q['changes']:
            setattr(p_, attr, val)
        fresh = make(q['kind'], p_.radius, q['ro1'] + 1.0, getattr(p_, 'radius_outer', None))
        fail = None if np.allclose(np.asarray(p_.get_mask(tuple(q['shape'])), dtype=float), np.asarray(fresh.get_mask(tuple(q['shape'])), dtype=float), atol=1e-12) else 'mask after the attribute change differs from a fresh object'
    elif body.get('kind') == 'history':
        fail = requery_failure(a['pattern'], [tuple(x) for x in a['shapes']], [tuple(x) for x in a.get('order', a['shapes'])])
    elif 'delta' in a:
        fail = delta_failure(a['radius'], a['radius_outer'], a['delta'], tuple(a['shape']))
    elif body.get('call') == 'constructor':
        fail = guards_failure(np.random.default_rng(a.get('seed', 0)))
    else:
        fail = stmt_failure(a['kind'], a['radius'], a['search'], a.get('radius_outer'), tuple(a['shape']))
    print(json.dumps({'failure_now': fail}, indent=1))
    if fail:
        print('VIOLATION property=C16 replay=(given)')
        return 1
    return 0


def run(ctx):
    rng = ctx.rng
    ctx.check_theorems()
    ctx.check_generated(['padcrop', 'qpat', 'qbin', 'qbgmask'])

    # (K1) UserTemplate: index maps of the model vs the implementation, exhaustive source x target 1..12 per axis
    N = 12
    pairs = [(s, t) for s in range(1, N + 1) for t in range(1, N + 1)]
    mm = ctx.coq_eval('padcrop', 'Base.Util Model.PadCrop',
                      ['map (fun q => map (padcrop_src (fst q) (snd q)) (zseq (snd q))) [%s]' % '; '.join('(%d, %d)' % q for q in pairs)])[0]
    maps = {}
    for (s, t), m in zip(pairs, mm):
        maps[(s, t)] = [None if e is None else e[1] for e in m]
    nbad = 0
    nuser = 0
    first = None
    axes = list(range(1, N + 1)) if not ctx.quick else [1, 2, 3, 4, 5, 7, 8, 12]
    for sy, ty in pairs:
        for sx, tx in itertools.product(axes, axes):
            t = (np.arange(sy)[:, None] + 1) * 100.0 + (np.arange(sx)[None, :] + 1)
            m = pat.UserTemplate(t).get_mask((ty, tx))
            nuser += 1
            my, mx = maps[(sy, ty)], maps[(sx, tx)]
            exp = np.zeros((ty, tx))
            for y in range(ty):
                for x in range(tx):
                    if my[y] is not None and mx[x] is not None:
                        exp[y, x] = t[my[y], mx[x]]
            if m.shape != (ty, tx) or not np.array_equal(m, exp):
                nbad += 1
                if first is None:
                    first = (sy, sx, ty, tx)
    ctx.count(nuser, key='user-exhaustive')
    if first:
        fail = user_failure(*first)
        if fail:
            ctx.violation('input', fail, {'kind': 'input', 'call': 'UserTemplate.get_mask', 'args': {'source': first[:2], 'target': first[2:]}, 'failure': fail},
                          signature='UserTemplate.get_mask: centre off by one for odd->even pad / even->odd crop')
    ctx.obligation('K:C16 PadCrop.padcrop_src index maps = UserTemplate.get_mask for %d (source, target) shape pairs' % nuser, nbad == 0, '%d mismatches, first %s' % (nbad, first))
    ctx.extra['exhaustive'] = not ctx.quick
    ctx.extra['user_template_pairs'] = nuser

    # (K2) crop size / default radial map vs model
    vals = [0.5, 1.0, 1.2, 2.0, 2.5, 3.0, 4.5, 7.75, 9.0, 13.1, 7.004, 21.003, 3.0000001, 5.999999, 12.0049, 2.0 + 2.0 ** -40]
    fr = [F(v) for v in vals]
    got = ctx.coq_eval('ceil', 'Base.Util Model.PadCrop', ['map (fun q => (crop_size (fst q) (snd q), rmap_size (fst q) (snd q), rmap_centre (fst q) (snd q))) [%s]'
                                                          % '; '.join('(%d, %d)' % (f.numerator, f.denominator) for f in fr)])[0]
    bad = []
    for v, g in zip(vals, got):
        cs = pat.Circular(radius=0.1, search=v).get_crop_size()
        p = pat.RadialGradientBackgroundSubtraction(radius=v / 1.5, radius_outer=v, search=v + 1)
        size = p.radial_map.shape[0]
        cpx = tuple(int(k) for k in np.unravel_index(np.argmin(p.radial_map), p.radial_map.shape))
        if (cs, size, cpx) != (g[0], g[1], (g[2], g[2])) or p.radial_map.min() != 0:
            bad.append((v, (cs, size, cpx, float(p.radial_map.min())), g))
    ctx.count(len(vals))
    ctx.obligation('K:C16 get_crop_size / default radial map size and centre = PadCrop.crop_size / rmap_size / rmap_centre', not bad, str(bad[:2]))
    if bad:
        v = bad[0][0]
        fail = stmt_failure('RadialGradientBackgroundSubtraction', v / 1.5, v + 1, v, (int(2 * v + 7), int(2 * v + 8)))
        if fail:
            ctx.violation('input', fail, {'kind': 'input', 'call': 'get_mask', 'args': {'kind': 'RadialGradientBackgroundSubtraction', 'radius': v / 1.5, 'search': v + 1, 'radius_outer': v,
                                                                                     'shape': [int(2 * v + 7), int(2 * v + 8)]}},
                          signature='RadialGradientBackgroundSubtraction default radial map centred on a half pixel')

    # (K3) built-in masks at sample pixels vs the Masks model on the harness' own radius map (centre shape//2)
    exprs, meta = [], []
    for k in range(ctx.n(30, 300)):
        kind = ['Circular', 'RadialGradient', 'BackgroundSubtraction', 'RadialGradientBackgroundSubtraction'][k % 4]
        radius = float(rng.choice([1.5, 2.0, 2.75, 3.5, 5.0, 6.25]))
        ro = radius + float(rng.choice([1.0, 1.5, 2.25]))
        search = ro + float(rng.choice([0.0, 0.5, 2.0]))
        shape = (int(rng.integers(2, 31)), int(rng.integers(2, 31)))
        p = make(kind, radius, search, ro)
        m = np.asarray(p.get_mask(shape), dtype=np.float64)
        cy, cx = shape[0] // 2, shape[1] // 2
        rmap, _ = masks.polar_map(cx, cy, shape[1], shape[0])
        pix = {(cy, cx)} | {(int(rng.integers(0, shape[0])), int(rng.integers(0, shape[1]))) for _ in range(6)}
        if kind == 'BackgroundSubtraction':
            m1 = np.asarray(masks.circular(cx, cy, shape[1], shape[0], radius, antialiased=True), dtype=np.float64)
            m2 = np.asarray(masks.ring(cx, cy, shape[1], shape[0], ro, radius, antialiased=True), dtype=np.float64)
            s1, s2 = F(m1.sum()), F(m2.sum())
            ctx.hist('BackgroundSubtraction ring', 'entirely outside the requested shape' if m2.sum() == 0 else 'intersects the requested shape')
        for (y, x) in sorted(pix):
            r = cq(F(rmap[y, x]))
            near = 'true' if (y, x) == (cy, cx) else 'false'
            if kind == 'Circular':
                e = 'qout (disk_aa %s %s %s)' % (cq(F(radius)), near, r)
            elif kind == 'RadialGradient':
                e = 'qout (rgbs %s %s 0 1)' % (r, cq(F(radius)))
            elif kind == 'BackgroundSubtraction':
                e = 'qout (bgsub_px (disk_aa %s %s %s) (ring_aa %s %s %s %s) %s %s)' % (cq(F(radius)), near, r, cq(F(ro)), cq(F(radius)), near, r, cq(s1), cq(s2))
            else:
                # template pixel the target pixel is taken from, per axis, by the PadCrop model; radius from the template's own map
                ts = p.radial_map.shape[0]
                tc = ts // 2
                iy, ix = y + ts // 2 - shape[0] // 2, x + ts // 2 - shape[1] // 2
                if not (0 <= iy < ts and 0 <= ix < ts):
                    e = 'qout 0'
                else:
                    rt = math.hypot(iy - tc, ix - tc)
                    e = 'qout (rgbs %s %s %s 1)' % (cq(F(rt)), cq(F(radius)), cq(F(ro)))
            exprs.append(e)
            meta.append((kind, radius, search, ro, shape, y, x, float(m[y, x])))
        ctx.hist('pattern', kind)
        ctx.hist('shape_parity', '%d%d' % (shape[0] % 2, shape[1] % 2))
    vals = ctx.coq_eval('masks', 'Model.Masks', exprs, shard=100)
    ndis = 0
    for (a, b), (kind, radius, search, ro, shape, y, x, iv) in zip(vals, meta):
        mvv = a / b
        ctx.count(1, key=(kind, radius, ro, shape, y, x))
        if len(ctx.cov['samples']) < 5 and (y, x) == (shape[0] // 2, shape[1] // 2):
            ctx.sample({'pattern': kind, 'radius': radius, 'radius_outer': ro, 'shape': list(shape), 'pixel': [y, x], 'impl': iv, 'model': mvv})
        if abs(mvv - iv) > 1e-9:
            ndis += 1
            fail = stmt_failure(kind, radius, search, ro, shape)
            if fail:
                ctx.violation('input', fail, {'kind': 'input', 'call': 'get_mask', 'args': {'kind': kind, 'radius': radius, 'search': search, 'radius_outer': ro, 'shape': list(shape)}, 'failure': fail})
            else:
                ctx.obligation('K:C16 %s pixel (%d,%d) shape %s' % (kind, y, x, shape), False, 'model %.12g impl %.12g (radius %s, outer %s)' % (mvv, iv, radius, ro))
    ctx.obligation('K:C16 built-in masks = Masks model (disk_aa, rgbs, bgsub_px) at %d pixels, centre shape//2' % len(vals), ndis == 0, '%d disagreements' % ndis)

    # (S) statement
    gseed = int(rng.integers(0, 2 ** 31))
    g = guards_failure(np.random.default_rng(gseed))
    if g:
        ctx.violation('input', 'constructor guard: ' + g, {'kind': 'input', 'call': 'constructor', 'args': {'what': g, 'seed': gseed}})
    nS = ctx.n(150, 2000)
    for k in range(nS):
        kind = ['Circular', 'RadialGradient', 'BackgroundSubtraction', 'RadialGradientBackgroundSubtraction'][k % 4]
        radius = float(rng.uniform(1.5, 15)) if k % 3 else float(rng.integers(2, 15))
        ro = radius * float(rng.uniform(1.1, 2.0)) if k % 5 else radius * 1.5
        search = ro * float(rng.uniform(1.0, 1.5))
        shape = (int(rng.integers(2, 91)), int(rng.integers(2, 91)))
        if kind in ('Circular', 'RadialGradient'):
            search = max(radius, search)
        if rng.random() < 0.15:
            search = float(math.ceil(search) + rng.choice([0.004, 0.0004, 1e-7]))      # just above an integer: ceil must go up
        fail = stmt_failure(kind, radius, search, ro if kind not in ('Circular', 'RadialGradient') else None, shape)
        ctx.count(1, key=(kind, radius, ro, shape))
        if fail:
            sig = fail
            if kind == 'RadialGradientBackgroundSubtraction' and 'symmetric' in fail:
                sig = 'RadialGradientBackgroundSubtraction default radial map centred on a half pixel'
            ctx.violation('input', fail, {'kind': 'input', 'call': 'get_mask', 'args': {'kind': kind, 'radius': radius, 'search': search, 'radius_outer': ro, 'shape': list(shape)}, 'failure': fail}, signature=sig)
            break
    # frames smaller than the pattern, every parity, radii on a fine grid: the balancing ring may touch, miss or just miss the array
    small = [(fy, fx) for fy in range(2, ctx.n(7, 10)) for fx in range(2, ctx.n(7, 10))]
    done = False
    for shape in small:
        for r4 in range(4, ctx.n(26, 40)):
            radius = r4 / 4.0
            for ro in (radius * 1.2, radius + 0.4):
                fail = stmt_failure('BackgroundSubtraction', radius, ro + 1.0, ro, shape)
                ctx.count(1, key=('small', radius, ro, shape))
                if fail:
                    ctx.violation('input', fail, {'kind': 'input', 'call': 'get_mask', 'args': {'kind': 'BackgroundSubtraction', 'radius': radius, 'search': ro + 1.0, 'radius_outer': ro, 'shape': list(shape)}, 'failure': fail})
                    done = True
                    break
            if done:
                break
        if done:
            break
    # RadialGradientBackgroundSubtraction with a transition width other than the default 1
    for k in range(ctx.n(12, 80)):
        radius = float(rng.choice([3.0, 4.5, 6.0, 8.0]))
        ro = radius + float(rng.choice([2.0, 3.0, 4.5]))
        delta = float(rng.choice([0.5, 2.0, 3.0, 1.5]))
        shape = (int(rng.integers(2 * int(ro) + 6, 60)), int(rng.integers(2 * int(ro) + 6, 60)))
        fail = delta_failure(radius, ro, delta, shape)
        ctx.count(1, key=('delta', radius, ro, delta, shape))
        if fail:
            fail = 'RadialGradientBackgroundSubtraction(radius=%s, radius_outer=%s, delta=%s) on shape %s: %s' % (radius, ro, delta, shape, fail)
            ctx.violation('input', fail, {'kind': 'input', 'call': 'get_mask', 'args': {'kind': 'RadialGradientBackgroundSubtraction', 'radius': radius, 'radius_outer': ro,
                                                                                         'delta': delta, 'search': ro + 1, 'shape': list(shape)}, 'failure': fail})
            break
    # public attributes of one pattern object changed between queries (the classes re-read them): what comes back is what a fresh object with
    # the new values gives -- in particular after SHRINKING a radius
    for k in range(ctx.n(12, 80)):
        kind = ['RadialGradientBackgroundSubtraction', 'BackgroundSubtraction', 'Circular', 'RadialGradient'][k % 4]
        r1 = float(rng.choice([3.0, 4.0, 5.0]))
        ro1 = r1 + float(rng.choice([3.0, 4.0]))
        shape = (int(rng.integers(2 * int(ro1) + 8, 50)), int(rng.integers(2 * int(ro1) + 8, 50)))
        p_ = make(kind, r1, ro1 + 1.0, ro1)
        p_.get_mask(shape)
        changes = [('radius_outer', ro1 - float(rng.choice([1.0, 2.0])))] if 'Background' in kind else [('radius', r1 - 1.0)]
        if rng.integers(0, 2):
            changes.append(('radius', r1 - float(rng.choice([0.5, 1.0]))))
        for attr, val in changes:
            setattr(p_, attr, val)
        now = {'radius': getattr(p_, 'radius'), 'radius_outer': getattr(p_, 'radius_outer', None)}
        fresh = make(kind, now['radius'], ro1 + 1.0, now['radius_outer'])
        m1, m2 = np.asarray(p_.get_mask(shape), dtype=float), np.asarray(fresh.get_mask(shape), dtype=float)
        ctx.count(1, key=('attr', kind, r1, ro1, tuple(changes), shape))
        if not np.allclose(m1, m2, atol=1e-12):
            i = np.unravel_index(np.argmax(np.abs(m1 - m2)), m1.shape)
            fail = '%s built with radius %s / radius_outer %s, then %s: mask for shape %s differs from a fresh object with these values (%.4g instead of %.4g at pixel %s)' % (
                kind, r1, ro1, ', '.join('%s = %s' % cv for cv in changes), shape, m1[i], m2[i], tuple(int(v) for v in i))
            ctx.violation('input', fail, {'kind': 'history', 'call': 'attribute change', 'args': {'attr_change': {'kind': kind, 'r1': r1, 'ro1': ro1, 'changes': [[a_, float(v_)] for a_, v_ in changes], 'shape': list(shape)}}, 'failure': fail})
            break
    # re-query order
    for k in range(ctx.n(10, 60)):
        pattern, desc = cl.rand_pattern(rng, cmax=6, kinds=[cl.PATTERN_KINDS[k % len(cl.PATTERN_KINDS)]])      # every class in turn
        shapes = [(int(rng.integers(2, 40)), int(rng.integers(2, 40))) for _ in range(3)]
        # neighbours that share the shape of their real FFT (same height, widths 2k and 2k+1) and transposes
        shapes += [(shapes[0][0], shapes[0][1] ^ 1), (shapes[1][0], shapes[1][1] ^ 1), (shapes[0][1], shapes[0][0])]
        if desc['kind'] == 'UserTemplate':
            # shapes that need no padding on either axis (the template's own shape and smaller ones): get_mask then only crops
            ty, tx = np.array(desc['template']).shape
            shapes += [(ty, tx), (max(1, ty - 1), max(1, tx - 2)), (ty, max(1, tx - 1))]
        shapes = [sh for sh in shapes if min(sh) >= 1]
        order = [shapes[i] for i in rng.permutation(len(shapes))] + shapes[::-1] + shapes
        fail = requery_failure(desc, shapes, order)
        if fail:
            ctx.violation('input', fail, {'kind': 'history', 'call': 'get_mask', 'args': {'pattern': desc, 'shapes': [list(x) for x in shapes], 'order': [list(x) for x in order]}, 'failure': fail})
        ctx.count(10)
    return ctx.finish(
        LEVEL,
        explanation='Theorems: pad/crop = alignment of source s//2 on target t//2 for all s,t (and the old rule refuted / partially right), radial masks '
                    'cyclically point symmetric for every shape, default radial map pixel centred, crop size = ceiling, guards, value bounds, balanced '
                    'background subtraction. Tie: generated before/after arithmetic = model (G); exhaustive index maps vs UserTemplate.get_mask; built-in '
                    'masks vs the Masks model in exact rationals on radius maps the harness computes for centre shape//2.',
        rule='(K1) source x target shapes 1..12 per axis (quick: 8 sizes on the second axis); (K3) 4 built-in classes, shapes 2..30 both parities, centre pixel + '
             '6 random pixels; (S) radii 1.5..15 fractional, outer radii, search, shapes 2..90, constructor guards, re-query orders.')
