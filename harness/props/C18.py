"""C18 - Antialiased radial masks form a partition of unity."""
import json
import math
from fractions import Fraction

import numpy as np

import core
from core import cq
import corrlib as cl
from libertem_blobfinder.base import masks

LEVEL = 'proof'


def dense(a):
    return a.todense() if hasattr(a, 'todense') else np.asarray(a)


def dtype_failure(cfg, dt):
    """the optional dtype of the result: the values are the float64 ones rounded to that dtype (so the partition of unity holds to the
    resolution of the dtype), for dense and sparse results"""
    kw = dict(centerX=cfg['centerX'], centerY=cfg['centerY'], imageSizeX=cfg['imageSizeX'], imageSizeY=cfg['imageSizeY'], radius=cfg['radius'],
              radius_inner=cfg['radius_inner'], n_bins=cfg['n_bins'])
    ref = dense(masks.radial_bins(use_sparse=False, **kw)).astype(np.float64)
    eps = float(np.finfo(dt).eps)
    for sp in (False, True):
        try:
            b = dense(masks.radial_bins(use_sparse=sp, dtype=dt, **kw))
        except Exception as e:  # noqa
            return 'radial_bins(dtype=%s, use_sparse=%s) raised %s: %s' % (np.dtype(dt).name, sp, type(e).__name__, e)
        if b.dtype != np.dtype(dt):
            return 'radial_bins(dtype=%s, use_sparse=%s) returned dtype %s' % (np.dtype(dt).name, sp, b.dtype)
        d = np.abs(b.astype(np.float64) - ref)
        if d.max() > 2 * eps:
            i = np.unravel_index(np.argmax(d), d.shape)
            return 'radial_bins(dtype=%s, use_sparse=%s): value %.8g at bin/pixel %s differs from the float64 value %.8g by more than the resolution of the dtype' % (
                np.dtype(dt).name, sp, float(b[i]), tuple(int(v) for v in i), float(ref[i]))
    return None


def stmt_failure(cfg):
    """the statement on the implementation for one configuration"""
    cx, cy, sx, sy, radius, ri, n = cfg['centerX'], cfg['centerY'], cfg['imageSizeX'], cfg['imageSizeY'], cfg['radius'], cfg['radius_inner'], cfg['n_bins']
    yy, xx = np.mgrid[0:sy, 0:sx]
    r = np.hypot(yy - cy, xx - cx)
    res = {}
    for sp in (None, True, False):
        try:
            b = dense(masks.radial_bins(centerX=cx, centerY=cy, imageSizeX=sx, imageSizeY=sy, radius=radius, radius_inner=ri, n_bins=n, use_sparse=sp))
        except Exception as e:  # noqa
            return 'radial_bins(use_sparse=%s) raised %s: %s' % (sp, type(e).__name__, e)
        res[sp] = b
        if b.shape != (n, sy, sx):
            return 'radial_bins(use_sparse=%s) returned shape %s, expected %s' % (sp, b.shape, (n, sy, sx))
        if (b < -1e-12).any():
            return 'negative bin value (use_sparse=%s)' % sp
        s = b.sum(axis=0)
        if (s > 1 + 1e-9).any():
            i = np.unravel_index(np.argmax(s), s.shape)
            return 'bins sum to %.6g > 1 at pixel %s (r=%.4f) (use_sparse=%s)' % (s[i], i, r[i], sp)
        inside = (r >= ri + 0.5 + 1e-9) & (r <= radius - 0.5 - 1e-9)
        if ri == 0:
            inside |= (r <= radius - 0.5 - 1e-9)
        if inside.any() and np.abs(s[inside] - 1).max() > 1e-9:
            i = np.argwhere(inside & (np.abs(s - 1) > 1e-9))[0]
            return 'bins sum to %.6g instead of 1 at pixel %s (r=%.4f) inside [ri+0.5, radius-0.5] (use_sparse=%s)' % (s[tuple(i)], tuple(i), r[tuple(i)], sp)
        outside = (r >= radius + 0.5 + 1e-9) | (r <= ri - 0.5 - 1e-9) | ((r == 0) & (ri >= 0.5))       # r = 0 is exact: the centre pixel is 0.5 px outside an inner radius of 0.5
        if outside.any() and np.abs(s[outside]).max() > 1e-9:
            i = np.argwhere(outside & (np.abs(s) > 1e-9))[0]
            return 'bins sum to %.6g instead of 0 at pixel %s (r=%.4f) outside (use_sparse=%s)' % (s[tuple(i)], tuple(i), r[tuple(i)], sp)
    if not (np.allclose(res[True], res[False], atol=1e-12) and np.allclose(res[None], res[False], atol=1e-12)):
        return 'dense and sparse results differ'
    for sp in (True, False):
        bn = dense(masks.radial_bins(centerX=cx, centerY=cy, imageSizeX=sx, imageSizeY=sy, radius=radius, radius_inner=ri, n_bins=n, use_sparse=sp, normalize=True))
        for k in range(n):
            if res[False][k].sum() > 1e-6 and abs(bn[k].sum() - 1) > 1e-9:
                return 'normalize=True: bin %d sums to %.6g instead of 1 (use_sparse=%s)' % (k, bn[k].sum(), sp)
    if ri >= 1 and radius - ri >= 1:
        ring = masks.ring(cx, cy, sx, sy, radius, ri, antialiased=True)
        inner = masks.circular(cx, cy, sx, sy, ri, antialiased=True)
        outer = masks.circular(cx, cy, sx, sy, radius, antialiased=True)
        if np.abs(ring + inner - outer).max() > 1e-9:
            return 'antialiased ring + inner disk != outer disk (max dev %.3g)' % np.abs(ring + inner - outer).max()
    if ri == 0 and radius >= 1:
        disk = masks.circular(cx, cy, sx, sy, radius, antialiased=True)
        if disk.min() < -1e-12 or disk.max() > 1 + 1e-12:
            return 'antialiased disk outside [0,1]'
        if (r.max() > radius + 1) and 0 <= cx - radius - 1 and cx + radius + 1 <= sx - 1 and 0 <= cy - radius - 1 and cy + radius + 1 <= sy - 1:
            if abs(disk.sum() - math.pi * radius ** 2) > 2 * math.pi * radius + 1:
                return 'disk total %.4f not within the perimeter of pi r^2 = %.4f' % (disk.sum(), math.pi * radius ** 2)
    return None


def default_layout_failure(cfg):
    """the all-default layout (radius=None: a radius covering the whole image, n_bins=None: bins about one pixel wide, inner radius 0):
    every pixel of the image then lies inside the covered range, so the bins sum to exactly 1 everywhere"""
    cx, cy, sx, sy = cfg['centerX'], cfg['centerY'], cfg['imageSizeX'], cfg['imageSizeY']
    res = {}
    for sp in (True, False):
        try:
            b = dense(masks.radial_bins(centerX=cx, centerY=cy, imageSizeX=sx, imageSizeY=sy, use_sparse=sp))
        except Exception as e:  # noqa
            return 'radial_bins(default layout, use_sparse=%s) raised %s: %s' % (sp, type(e).__name__, e)
        res[sp] = b
        if b.ndim != 3 or b.shape[1:] != (sy, sx):
            return 'radial_bins(default layout) returned shape %s for a %dx%d image' % (b.shape, sy, sx)
        if (b < -1e-12).any():
            return 'negative bin value (default layout)'
        s = b.sum(axis=0)
        if np.abs(s - 1).max() > 1e-9:
            i = np.unravel_index(np.argmax(np.abs(s - 1)), s.shape)
            return 'default layout (radius=None, n_bins=None): bins sum to %.6g instead of 1 at pixel %s (use_sparse=%s)' % (s[i], tuple(int(v) for v in i), sp)
    if res[True].shape != res[False].shape or not np.allclose(res[True], res[False], atol=1e-12):
        return 'dense and sparse results differ (default layout)'
    return None


# layouts whose bin width is not exactly representable (np.arange / linspace end-point effects), always checked first
FIXED_CFGS = [dict(centerX=20.0, centerY=19.0, imageSizeX=44, imageSizeY=41, radius=r, radius_inner=ri, n_bins=n)
              for (r, ri, n) in ((9.0, 0.5, 7), (15.0, 0.0, 13), (17.0, 0.0, 7), (17.0, 0.0, 14), (10.0, 0.75, 9), (19.0, 1.0, 11))]


def rand_cfg(rng):
    sx, sy = int(rng.integers(1, 61)), int(rng.integers(1, 61))
    mode = int(rng.integers(0, 4))
    if mode == 0:
        cx, cy = float(rng.integers(-5, sx + 6)), float(rng.integers(-5, sy + 6))
    elif mode == 1:
        cx, cy = float(rng.integers(-5, sx + 6)) + 0.5, float(rng.integers(-5, sy + 6)) + float(rng.choice([0.0, 0.5]))
    else:
        cx, cy = float(rng.uniform(-5, sx + 5)), float(rng.uniform(-5, sy + 5))
    ri = float(rng.choice([0.0, 0.0, 0.5, 0.6, 0.75, 0.9, 1.0, 2.25, 3.0]))     # incl. inner radii between the patch threshold 0.5 and 1
    n = int(rng.integers(1, 9))
    width = float(rng.choice([1.0, 1.0, 1.25, 1.5, 2.0, 3.5, 4.0 / 3.0, 9.0 / 7.0, 17.0 / 13.0]))
    radius = ri + n * width
    if rng.integers(0, 5) == 0:
        radius = float(np.round(radius))
        if (radius - ri) / n < 1:
            radius = ri + n
    return {'centerX': cx, 'centerY': cy, 'imageSizeX': sx, 'imageSizeY': sy, 'radius': radius, 'radius_inner': ri, 'n_bins': n}


def replay(body):
    a_ = body['args']
    if a_.get('omitted_n_bins'):
        b = dense(masks.radial_bins(centerX=a_['centerX'], centerY=a_['centerY'], imageSizeX=a_['imageSizeX'], imageSizeY=a_['imageSizeY'], radius=a_['radius'], radius_inner=a_['radius_inner']))
        fail = ('%d bins instead of %d' % (b.shape[0], a_['n_bins'])) if b.shape[0] != a_['n_bins'] else stmt_failure(a_)
        print(json.dumps({'failure_now': fail}, indent=1))
        if fail:
            print('VIOLATION property=C18 replay=(given)')
            return 1
        return 0
    fail = dtype_failure(a_, a_['dtype']) if a_.get('dtype') else (default_layout_failure(a_) if a_.get('default_layout') else stmt_failure(a_))
    print(json.dumps({'failure_now': fail}, indent=1))
    if fail:
        print('VIOLATION property=C18 replay=(given)')
        return 1
    return 0


def run(ctx):
    rng = ctx.rng
    ctx.check_theorems()
    ctx.check_generated(['qbin', 'qbindef'])
    # (K) model bins (exact rationals, the implementation's own radius map as input) vs implementation, pixel by pixel
    exprs, meta = [], []
    for k in range(ctx.n(40, 400)):
        cfg = rand_cfg(rng)
        cfg['imageSizeX'] = min(cfg['imageSizeX'], 24)
        cfg['imageSizeY'] = min(cfg['imageSizeY'], 24)
        cx, cy, sx, sy, radius, ri, n = cfg['centerX'], cfg['centerY'], cfg['imageSizeX'], cfg['imageSizeY'], cfg['radius'], cfg['radius_inner'], cfg['n_bins']
        try:
            b = dense(masks.radial_bins(centerX=cx, centerY=cy, imageSizeX=sx, imageSizeY=sy, radius=radius, radius_inner=ri, n_bins=n, use_sparse=bool(k % 2)))
        except Exception as e:  # noqa
            ctx.violation('input', 'radial_bins raised %s: %s' % (type(e).__name__, e), {'kind': 'input', 'call': 'radial_bins', 'args': cfg})
            continue
        rmap, _ = masks.polar_map(cx, cy, sx, sy)
        ny, nx = int(np.round(cy)), int(np.round(cx))
        pix = set()
        if 0 <= ny < sy and 0 <= nx < sx:
            pix.add((ny, nx))
        for _ in range(8):
            pix.add((int(rng.integers(0, sy)), int(rng.integers(0, sx))))
        # pixels near the edges of the covered range
        cand = np.argwhere((np.abs(rmap - ri) < 1.0) | (np.abs(rmap - radius) < 1.0))
        for i in rng.permutation(len(cand))[:6]:
            pix.add(tuple(int(v) for v in cand[i]))
        for (y, x) in sorted(pix):
            r = Fraction(*float(rmap[y, x]).as_integer_ratio())
            near = (y, x) == (ny, nx)
            exprs.append('map qout (radial_bins_px %d %s %s %s %s)' % (n, cq(Fraction(*radius.as_integer_ratio())), cq(Fraction(*ri.as_integer_ratio())),
                                                                      'true' if near else 'false', cq(r)))
            meta.append((cfg, y, x, b[:, y, x].astype(np.float64), near))
        ctx.hist('n_bins', n)
        ctx.hist('centre', 'integer' if cx == int(cx) and cy == int(cy) else ('half' if (2 * cx) == int(2 * cx) and (2 * cy) == int(2 * cy) else 'fractional'))
        ctx.hist('radius_inner', ri)
    vals = ctx.coq_eval('k', 'Model.Masks', exprs, shard=150)
    ndis = 0
    for mv, (cfg, y, x, iv, near) in zip(vals, meta):
        m = np.array([a / b for (a, b) in mv], dtype=np.float64)
        ctx.count(1, key=(json.dumps(cfg, sort_keys=True), y, x))
        if len(ctx.cov['samples']) < 4 and near:
            ctx.sample({'cfg': cfg, 'pixel': [y, x], 'nearest_to_centre': near, 'impl_bins': iv.tolist(), 'model_bins': m.tolist()})
        if not np.allclose(m, iv, atol=1e-9):
            ndis += 1
            fail = stmt_failure(cfg)
            if fail:
                ctx.violation('input', fail, {'kind': 'input', 'call': 'radial_bins', 'args': cfg, 'failure': fail},
                              signature='radial_bins centre patch applied at r >= 0.5' if 'sum to' in fail and '> 1' in fail else fail)
            else:
                ctx.obligation('K:C18 pixel (%d,%d)' % (y, x), False, 'model %s impl %s cfg %s' % (m.tolist(), iv.tolist(), cfg))
    ctx.obligation('K:C18 correspondence Masks.radial_bins_px vs radial_bins at %d pixels' % len(vals), ndis == 0, '%d disagreements' % ndis)
    ctx.extra['traces_validated_against_impl'] = len(vals)

    # (S) the statement on the implementation
    nS = ctx.n(150, 3000)
    for k in range(nS):
        cfg = dict(FIXED_CFGS[k]) if k < len(FIXED_CFGS) else rand_cfg(rng)
        fail = stmt_failure(cfg)
        ctx.count(1, key=json.dumps(cfg, sort_keys=True))
        if fail:
            sig = fail
            if 'normalize=True' in fail:
                sig = 'radial_bins normalize=True: first bin does not sum to 1 (centre patch after normalisation)'
            elif '> 1' in fail:
                sig = 'radial_bins centre patch applied at r >= 0.5'
            ctx.violation('input', fail, {'kind': 'input', 'call': 'radial_bins', 'args': cfg, 'failure': fail}, signature=sig)
            break
    # (S) centres with one-decimal coordinates outside the image on every side (coordinates whose float differences round unluckily), tiny to
    # small images, explicit one-bin and multi-bin layouts and the all-default layout
    found = False
    for k10 in range(1, ctx.n(100, 160)):
        for size in (1, 3, 7, 10):
            for side in range(4):
                off = -k10 / 10.0 if side < 2 else size + k10 / 10.0
                other = float(rng.choice([size / 2.0, 0.3 * size, -0.7, 1.0]))
                cx, cy = (off, other) if side % 2 else (other, off)
                cfg = {'centerX': cx, 'centerY': cy, 'imageSizeX': size, 'imageSizeY': int(size + rng.integers(0, 3)), 'radius': 3.0 + k10 / 10.0, 'radius_inner': 0.0, 'n_bins': int(rng.integers(1, 4))}
                fail = stmt_failure(cfg)
                dflt = False
                if not fail:
                    fail, dflt = default_layout_failure(cfg), True
                ctx.count(2, key=('decimal centre', json.dumps(cfg, sort_keys=True)))
                if fail:
                    args = dict(cfg, default_layout=True) if dflt else cfg
                    ctx.violation('input', fail, {'kind': 'input', 'call': 'radial_bins', 'args': args, 'failure': fail})
                    found = True
                    break
            if found:
                break
        if found:
            break
    for k in range(ctx.n(40, 400)):
        cfg = rand_cfg(rng)
        if k % 2:
            cfg.update(radius=cfg['radius'] + 20.0, imageSizeX=cfg['imageSizeX'] + 30, imageSizeY=cfg['imageSizeY'] + 30)     # distances of tens of pixels
        dt = ['float32', 'float16'][k % 2 if k % 4 else 0]
        fail = dtype_failure(cfg, dt)
        ctx.count(2, key=('dtype', dt, json.dumps(cfg, sort_keys=True)))
        if fail:
            ctx.violation('input', fail, {'kind': 'input', 'call': 'radial_bins', 'args': dict(cfg, dtype=dt), 'failure': fail})
            break
    # n_bins omitted with an explicit radius: the documented default is round(radius - radius_inner) bins (half to even); where that layout has
    # bins at least one pixel wide (radius - radius_inner = k + 1/2 with k even, or near an integer) the partition of unity holds for it
    for k in range(ctx.n(40, 300)):
        cfg = rand_cfg(rng)
        kk = 2 * int(rng.integers(1, 8))
        span = float(kk) + float(rng.choice([0.5, 0.5, 0.25, 0.0, 0.49]))
        cfg['radius'] = cfg['radius_inner'] + span
        nb = int(np.round(span))
        if span / nb < 1.0:
            continue
        try:
            b = dense(masks.radial_bins(centerX=cfg['centerX'], centerY=cfg['centerY'], imageSizeX=cfg['imageSizeX'], imageSizeY=cfg['imageSizeY'], radius=cfg['radius'], radius_inner=cfg['radius_inner']))
        except Exception as e:  # noqa
            b = None
            fail = 'radial_bins(n_bins omitted) raised %s: %s' % (type(e).__name__, e)
        if b is not None:
            fail = None
            if b.shape[0] != nb:
                fail = 'radial_bins(radius=%s, radius_inner=%s, n_bins omitted) made %d bins, the documented default round(radius - radius_inner) is %d (bins narrower than a pixel)' % (cfg['radius'], cfg['radius_inner'], b.shape[0], nb)
            else:
                fail = stmt_failure(dict(cfg, n_bins=nb))
        ctx.count(1, key=('omitted n_bins', json.dumps(cfg, sort_keys=True)))
        if fail:
            ctx.violation('input', fail, {'kind': 'input', 'call': 'radial_bins', 'args': dict(cfg, n_bins=nb, omitted_n_bins=True), 'failure': fail})
            break
    for k in range(ctx.n(60, 600)):
        cfg = rand_cfg(rng)
        fail = default_layout_failure(cfg)
        ctx.count(1, key=('default layout', cfg['centerX'], cfg['centerY'], cfg['imageSizeX'], cfg['imageSizeY']))
        if fail:
            ctx.violation('input', fail, {'kind': 'input', 'call': 'radial_bins', 'args': dict(cfg, default_layout=True), 'failure': fail})
            break
    ctx.extra['oracle_configs'] = nS
    return ctx.finish(
        LEVEL,
        explanation='Theorems over Q for every number of bins, width >= 1, inner radius and radius value: telescoping sum, exactly 1 inside / 0 outside / '
                    'in [0,1] everywhere, ring+disk=disk, patch only at r<1/2 and patched sum 1-ri, normalised bins sum to 1. Tie: the model evaluated in '
                    'exact rational arithmetic on the implementation\'s own polar_map radii, pixel by pixel incl. the nearest-to-centre pixel (dense and sparse).',
        rule='centres integer / half-integer / fractional in [-5,size+5]^2, sizes 1..60 (K: <=24), inner radius in {0,0.5,1,2.25,3}, 1..8 bins of width '
             '1..4 (incl. non-representable widths 4/3, 9/7, 17/13), use_sparse None/True/False, normalize on/off; one-decimal centres outside the image on every side; the all-default layout (radius=None, n_bins=None); distinct by configuration (and pixel).')
