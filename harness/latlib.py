"""helpers for the lattice / fitting properties (C05, C06, C17, C20, C11, C12): exact rationals <-> Gallina."""
from fractions import Fraction

import numpy as np

from core import cq


def F(x):
    return Fraction(*float(x).as_integer_ratio())


def qv(v):
    return '(%s, %s)' % (cq(F(v[0])), cq(F(v[1])))


def qlist(vs):
    return '[' + '; '.join(qv(v) for v in vs) + ']'


def fq(pair):
    """(num, den) as printed by qpair -> float"""
    return pair[0] / pair[1]


def lq(p):
    """[num, den] as printed by ql -> float"""
    return p[0] / p[1]


def lvec(v):
    return np.array([lq(v[0]), lq(v[1])], dtype=np.float64)


def fvec(v):
    """vout prints ((n1, d1), (n2, d2)); Coq shows left-nested pairs flat: (n1, d1, (n2, d2))"""
    if len(v) == 3 and not isinstance(v[0], tuple):
        v = ((v[0], v[1]), v[2])
    return np.array([fq(v[0]), fq(v[1])], dtype=np.float64)


def pts(weights, indices, positions):
    """Gallina list of WLS.pt records"""
    return '[' + '; '.join('Build_pt %s %s %s %s %s' % (cq(F(w)), cq(F(i[0])), cq(F(i[1])), cq(F(p[0])), cq(F(p[1])))
                           for w, i, p in zip(weights, indices, positions)) + ']'


def rand_lattice(rng, integer=False, lmin=1.0, lmax=100.0):
    while True:
        if integer:
            a = rng.integers(-12, 13, 2).astype(float)
            b = rng.integers(-12, 13, 2).astype(float)
            zero = rng.integers(-5, 40, 2).astype(float)
        else:
            la, lb = rng.uniform(lmin, lmax, 2)
            ang = rng.uniform(0, 2 * np.pi)
            d = rng.uniform(0.06, np.pi - 0.06) * rng.choice([-1, 1])
            a = la * np.array([np.sin(ang), np.cos(ang)])
            b = lb * np.array([np.sin(ang + d), np.cos(ang + d)])
            zero = rng.uniform(-20, 120, 2)
        na, nb = np.linalg.norm(a), np.linalg.norm(b)
        if na < 1 or nb < 1:
            continue
        s = abs(a[0] * b[1] - a[1] * b[0]) / (na * nb)
        if s >= 0.05:
            return zero, a, b
