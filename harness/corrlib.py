"""Shared machinery for the correlation properties (C01-C04, C08, C09, C14, C15, C10):
generators, exact conversion of inputs for the Coq model, Gallina case builders, comparators."""
import math
from fractions import Fraction

import numpy as np

from core import cz, clist, clist2

from libertem_blobfinder.base import correlation as blc
from libertem_blobfinder.common import patterns as pat

QB = 20            # fixed-point fraction bits for log values and mask values handed to the model
QS = 1 << QB


def quant(a):
    """round to QB fraction bits; returns python ints (value * 2**QB)"""
    a = np.asarray(a, dtype=np.float64)
    return np.rint(a * QS).astype(np.int64)


# ---------------------------------------------------------------------------------------------
# generators
# ---------------------------------------------------------------------------------------------
PATTERN_KINDS = ['Circular', 'RadialGradient', 'BackgroundSubtraction', 'RadialGradientBackgroundSubtraction', 'UserTemplate']


def make_pattern(kind, radius, search=None, radius_outer=None, rng=None, tshape=None):
    if kind == 'Circular':
        return pat.Circular(radius=radius, search=search)
    if kind == 'RadialGradient':
        return pat.RadialGradient(radius=radius, search=search)
    if kind == 'BackgroundSubtraction':
        return pat.BackgroundSubtraction(radius=radius, search=search, radius_outer=radius_outer)
    if kind == 'RadialGradientBackgroundSubtraction':
        return pat.RadialGradientBackgroundSubtraction(radius=radius, search=search, radius_outer=radius_outer)
    if kind == 'UserTemplate':
        # centro-symmetric user template about shape//2 (odd sizes: fully symmetric; values in steps of 1/8)
        ty, tx = tshape
        t = np.zeros((ty, tx))
        cy, cx = ty // 2, tx // 2
        for y in range(ty):
            for x in range(tx):
                yy, xx = 2 * cy - y, 2 * cx - x
                if 0 <= yy < ty and 0 <= xx < tx:
                    if (y, x) <= (yy, xx):
                        v = float(rng.integers(-4, 9)) / 8.0 if math.hypot(y - cy, x - cx) <= radius + 0.5 else 0.0
                        t[y, x] = v
                        t[yy, xx] = v
        t[cy, cx] = 1.0
        return pat.UserTemplate(template=t, search=search)
    raise ValueError(kind)


def rand_pattern(rng, cmax=4, kinds=None):
    """random pattern with crop size 2..cmax"""
    kind = str(rng.choice(kinds or PATTERN_KINDS))
    c = int(rng.integers(2, cmax + 1))
    search = float(c) if rng.integers(0, 3) else float(c) - float(rng.choice([0.25, 0.5, 0.75]))
    if kind in ('BackgroundSubtraction', 'RadialGradientBackgroundSubtraction'):
        ro = float(rng.uniform(1.2, search)) if search > 1.3 else search
        ro = min(ro, search)
        radius = float(rng.uniform(0.5 * ro, 0.9 * ro))
        p = make_pattern(kind, radius, search=search, radius_outer=ro)
        desc = {'kind': kind, 'radius': radius, 'radius_outer': ro, 'search': search}
    elif kind == 'UserTemplate':
        ty, tx = int(rng.integers(1, 2 * c + 2)), int(rng.integers(1, 2 * c + 2))
        radius = float(rng.uniform(0.8, c))
        p = make_pattern(kind, radius, search=search, rng=rng, tshape=(ty, tx))
        desc = {'kind': kind, 'template': p.template.tolist(), 'search': search}
    else:
        radius = float(rng.uniform(0.8, search))
        p = make_pattern(kind, radius, search=search)
        desc = {'kind': kind, 'radius': radius, 'search': search}
    assert p.get_crop_size() == c, (p.get_crop_size(), c, search)
    return p, desc


def pattern_from_desc(d):
    if d['kind'] == 'UserTemplate':
        return pat.UserTemplate(template=np.array(d['template'], dtype=d.get('tdtype')), search=d['search'])
    return make_pattern(d['kind'], d['radius'], search=d['search'], radius_outer=d.get('radius_outer'))


def render_disk(cy, cx, fy, fx, radius, antialiased=True):
    """a disk rendered by the harness itself (independent of base.masks): sharp: r <= radius; antialiased: linear edge of
    width 1 around the radius, i.e. clip(radius + 0.5 - r, 0, 1), the centre pixel filled (r < 0.5)"""
    yy, xx = np.mgrid[0:fy, 0:fx]
    r = np.hypot(yy - cy, xx - cx)
    if not antialiased:
        return (r <= radius).astype(np.float64)
    v = np.clip(np.minimum(0.5 + r, radius + 0.5 - r), 0.0, 1.0)
    v[r < 0.5] = 1.0
    return v


def rand_frame(rng, fy, fx, kind=None, one=1):
    """integer-valued data at scale [one] (value = ints / one); returns ints (int64)"""
    kind = kind or str(rng.choice(['noise', 'structured', 'constant', 'hot', 'negative', 'blobs']))
    if kind == 'noise':
        v = rng.poisson(20, size=(fy, fx)) * one + rng.integers(0, one, size=(fy, fx))
    elif kind == 'structured':
        y, x = np.mgrid[0:fy, 0:fx]
        v = ((y * 7 + x * 3) % 11 + (y // 2) * 2) * one + rng.integers(0, one, size=(fy, fx))
    elif kind == 'constant':
        v = np.full((fy, fx), int(rng.integers(-5, 50)) * one)
    elif kind == 'hot':
        v = np.zeros((fy, fx), dtype=np.int64)
        v[int(rng.integers(0, fy)), int(rng.integers(0, fx))] = int(rng.integers(1, 10000)) * one
    elif kind == 'negative':
        v = rng.integers(-300 * one, 300 * one, size=(fy, fx))
    else:
        v = rng.poisson(2, size=(fy, fx)) * one
        for _ in range(int(rng.integers(1, 4))):
            cy, cx, r = rng.integers(0, fy), rng.integers(0, fx), rng.uniform(1, 3)
            y, x = np.mgrid[0:fy, 0:fx]
            v = v + ((y - cy) ** 2 + (x - cx) ** 2 <= r * r) * int(rng.integers(20, 500)) * one
    return np.asarray(v, dtype=np.int64), kind


def rand_peaks(rng, fy, fx, c, n, where=None):
    out = []
    for _ in range(n):
        k = where or str(rng.choice(['inside', 'inside', 'border', 'outside']))
        if k == 'inside' and fy > 2 * c and fx > 2 * c:
            out.append((int(rng.integers(c, fy - c + 1)), int(rng.integers(c, fx - c + 1))))
        elif k == 'border' or k == 'inside':
            # window overhangs exactly one border (other axis inside where possible), or a corner
            by = int(rng.choice([-c + 1, 0, 1, c - 1, fy - c + 1, fy - 1, fy, fy + c - 1]))
            bx = int(rng.choice([-c + 1, 0, 1, c - 1, fx - c + 1, fx - 1, fx, fx + c - 1]))
            iy = int(rng.integers(min(c, fy - 1), max(fy - c, min(c, fy - 1)) + 1))
            ix = int(rng.integers(min(c, fx - 1), max(fx - c, min(c, fx - 1)) + 1))
            m = int(rng.integers(0, 3))
            out.append([(by, ix), (iy, bx), (by, bx)][m])
        else:
            out.append((int(rng.integers(-2 * c, fy + 2 * c + 1)), int(rng.integers(-2 * c, fx + 2 * c + 1))))
    return out


# ---------------------------------------------------------------------------------------------
# running the implementation
# ---------------------------------------------------------------------------------------------
class InputModified(Exception):
    """an argument that is documented as input only was modified in place by the library"""


def _unchanged(what, triples):
    for name, now, before in triples:
        if not np.array_equal(np.asarray(now), before, equal_nan=True):
            raise InputModified('%s modified its input `%s` in place' % (what, name))


def run_fast(pattern, frame, peaks, bc=None, crop_function=None, upsample=False, dtype=np.float32, fill=0.0, crop_bufs=None, outs=None):
    c = pattern.get_crop_size()
    template = pattern.get_template(sig_shape=(2 * c, 2 * c))
    n = len(peaks)
    if outs is None:
        outs = (np.full((n, 2), -99, dtype=np.int32), np.full((n, 2), np.nan, dtype=np.float32),
                np.full((n,), np.nan, dtype=np.float32), np.full((n,), np.nan, dtype=np.float32))
    if crop_bufs is None:
        crop_bufs = np.full((bc or max(n, 1), 2 * c, 2 * c), fill, dtype=dtype)
    kw = {}
    if crop_function is not None:
        kw['crop_function'] = crop_function
    pk = np.asarray(peaks, dtype=np.int64).reshape(-1, 2).copy()
    pk0, fr0, t0 = pk.copy(), np.array(frame, copy=True), np.array(template, copy=True)
    blc.process_frame_fast(template=template, crop_size=c, frame=frame, peaks=pk,
                           out_centers=outs[0], out_refineds=outs[1], out_heights=outs[2], out_elevations=outs[3],
                           crop_bufs=crop_bufs, upsample=upsample, **kw)
    _unchanged('process_frame_fast', (('peaks', pk, pk0), ('frame', frame, fr0), ('template', template, t0)))
    return outs


def run_full(pattern, frame, peaks, bc=None, crop_function=None, upsample=False, dtype=np.float32, frame_buf=None, outs=None):
    c = pattern.get_crop_size()
    template = pattern.get_template(sig_shape=frame.shape)
    n = len(peaks)
    if outs is None:
        outs = (np.full((n, 2), -99, dtype=np.int32), np.full((n, 2), np.nan, dtype=np.float32),
                np.full((n,), np.nan, dtype=np.float32), np.full((n,), np.nan, dtype=np.float32))
    if frame_buf is None:
        frame_buf = np.zeros(frame.shape, dtype=dtype)
    kw = {}
    if crop_function is not None:
        kw['crop_function'] = crop_function
    pk = np.asarray(peaks, dtype=np.int64).reshape(-1, 2).copy()
    pk0, fr0, t0 = pk.copy(), np.array(frame, copy=True), np.array(template, copy=True)
    blc.process_frame_full(template=template, crop_size=c, frame=frame, peaks=pk,
                           out_centers=outs[0], out_refineds=outs[1], out_heights=outs[2], out_elevations=outs[3],
                           frame_buf=frame_buf, buf_count=bc or max(n, 1), upsample=upsample, **kw)
    _unchanged('process_frame_full', (('peaks', pk, pk0), ('frame', frame, fr0), ('template', template, t0)))
    return outs


# ---------------------------------------------------------------------------------------------
# Gallina case for one peak
# ---------------------------------------------------------------------------------------------
def window_ints(frame_ints, c, p):
    fy, fx = frame_ints.shape
    w = np.zeros((2 * c, 2 * c), dtype=np.int64)
    for y in range(2 * c):
        for x in range(2 * c):
            yy, xx = p[0] - c + y, p[1] - c + x
            if 0 <= yy < fy and 0 <= xx < fx:
                w[y, x] = frame_ints[yy, xx]
    return w


def log_table(args, one):
    """harness side of the abstracted primitive: log of every distinct argument, from the documented definition"""
    tab = []
    for a in sorted(set(int(v) for v in np.asarray(args).flat)):
        if a <= 0:
            tab.append((a, -(1 << 40)))   # log of a non-positive number: -inf/nan in the code; a huge negative marker
        else:
            tab.append((a, int(round(math.log(a / one) * QS))))
    return tab


def ctab(tab):
    return '[' + '; '.join('(%s, %s)' % (cz(a), cz(b)) for a, b in tab) + ']'


def coq_case(method, frame_ints, one, mask_q, c, p, icentre_win):
    """Gallina expression evaluating Pipeline.report for one peak.
    icentre_win: implementation's integer centre in window coordinates (or None -> (0,0))"""
    fy, fx = frame_ints.shape
    if method == 'fast':
        w = window_ints(frame_ints, c, p)
        args = w - w.min() + one
    else:
        args = frame_ints - frame_ints.min() + one
    tab = log_table(args, one)
    icy, icx = icentre_win if icentre_win is not None else (0, 0)
    icy = min(max(int(icy), 0), 2 * c - 1)
    icx = min(max(int(icx), 0), 2 * c - 1)
    f = '(Crop.of_list2 %s)' % clist2(frame_ints.tolist())
    m = '(Corr.of_list2 %s)' % clist2(mask_q.tolist())
    fn = 'corr_fast' if method == 'fast' else 'corr_full'
    return ('report %d (%s %s (lookup %s) %d %d %s %d %s %s %s) %d %d'
            % (c, fn, cz(one), ctab(tab), fy, fx, f, c, m, cz(p[0]), cz(p[1]), icy, icx))


COQ_IMPORTS = 'Base.Util Model.Crop Model.Corr Model.Eval Model.Prelog Model.Blocks Model.Pipeline'


def model_outputs(mv, c, p):
    """convert the parsed 'report' value to floats: dict(centre, height, height_at_ic, refined, elevation, flags)"""
    y, x, vmax, vic, (r, sy, sx, s), elev = mv   # Coq prints left-nested pairs flat
    sc = float(QS) * float(QS)
    out = {'centre_win': (y, x), 'centre': (y + p[0] - c, x + p[1] - c), 'height': vmax / sc, 'height_at_ic': vic / sc,
           'r': r, 's': s / sc}
    return out, (r, sy, sx, s), elev, sc


def refined_from_com(icy, icx, com, p, c):
    r, sy, sx, s = com
    if r <= 0:
        return (float(icy + p[0] - c), float(icx + p[1] - c)), True
    if s == 0:
        return (float('nan'), float('nan')), False
    return (icy + float(Fraction(sy, s)) - r + p[0] - c, icx + float(Fraction(sx, s)) - r + p[1] - c), True


def compare_peak(mv, impl, c, p, scale):
    """impl = (centre(2), refined(2), height, elevation) of the implementation (frame coordinates).
    Returns (ok, detail, flags). The model was evaluated at the implementation's centre."""
    y, x, vmax, vic, (r, sy, sx, s), elev = mv   # Coq prints left-nested pairs flat
    sc = float(QS) * float(QS)
    icy, icx = int(impl[0][0]) - p[0] + c, int(impl[0][1]) - p[1] + c
    flags = {}
    tol_h = 3e-4 * scale + 2e-3
    problems = []
    if not (0 <= icy < 2 * c and 0 <= icx < 2 * c):
        return False, 'centre outside the search window: %s' % (impl[0],), flags
    hmax = vmax / sc
    hic = vic / sc
    # centre attains the maximum (near ties within float tolerance are accepted and counted)
    if (icy, icx) != (y, x):
        if hmax - hic > tol_h:
            problems.append('centre %s does not attain the maximum of the correlation map: model value there %.6g, maximum %.6g at %s'
                            % (tuple(int(v) for v in impl[0]), hic, hmax, (y + p[0] - c, x + p[1] - c)))
        else:
            flags['near_tie'] = True
    if not (abs(float(impl[2]) - hmax) <= tol_h):
        problems.append('height %.6g differs from the maximum of the direct correlation %.6g' % (float(impl[2]), hmax))
    # refined position = centre of mass at the implementation's centre
    if r <= 0:
        ref = (float(impl[0][0]), float(impl[0][1]))
        tol_r = 1e-4
    elif s == 0:
        ref = None
        flags['flat_cutout'] = True
    else:
        ref = (icy + float(Fraction(sy, s)) - r + p[0] - c, icx + float(Fraction(sx, s)) - r + p[1] - c)
        sfl = s / sc
        tol_r = 2e-3 + 400.0 * (3e-7 * scale + 1e-5) / max(sfl, 1e-12)
    if ref is not None:
        if tol_r > 0.25:
            flags['com_ill_conditioned'] = True
        elif not (abs(float(impl[1][0]) - ref[0]) <= tol_r and abs(float(impl[1][1]) - ref[1]) <= tol_r):
            problems.append('refined %s differs from the centre of mass of the (2r+1)^2 neighbourhood %s (r=%d)'
                            % ((float(impl[1][0]), float(impl[1][1])), ref, r))
    # elevation
    if elev is None:
        ev = float('inf')
    else:
        a, q = elev[1]
        D = s if (r > 0 and s != 0) else 1
        ev = max(0.0, (a / sc) * abs(D) / math.sqrt(q)) if q > 0 else float('inf')
    ie = float(impl[3])
    if math.isinf(ev):
        if not math.isinf(ie):
            problems.append('elevation %.6g but no map pixel at distance >= 1.5 (expected inf)' % ie)
    elif 'com_ill_conditioned' in flags or 'flat_cutout' in flags:
        pass
    else:
        if not (abs(ie - ev) <= tol_h + 2e-3 * abs(ev)):
            problems.append('elevation %.6g differs from the smallest slope (height-value)/distance %.6g' % (ie, ev))
    return (not problems), '; '.join(problems), flags


def corr_scale(mask, L_max):
    return float(np.abs(mask).sum()) * float(L_max)


# ---------------------------------------------------------------------------------------------
# (S) oracle: the statement of C03 evaluated directly (float64, no FFT) -- independent of the Coq model
# ---------------------------------------------------------------------------------------------
def direct_xcorr(L, mask):
    """circular cross-correlation with the mask centred on pixel shape//2:  out[i,k] = sum_tu mask[t,u] L[i+t-N//2, k+u-M//2]"""
    N, M = L.shape
    out = np.zeros((N, M), dtype=np.float64)
    for t in range(N):
        for u in range(M):
            if mask[t, u] != 0:
                out += mask[t, u] * np.roll(L, (-(t - N // 2), -(u - M // 2)), axis=(0, 1))
    return out


def window_float(a, c, p):
    fy, fx = a.shape
    w = np.zeros((2 * c, 2 * c), dtype=np.float64)
    for y in range(2 * c):
        for x in range(2 * c):
            yy, xx = p[0] - c + y, p[1] - c + x
            if 0 <= yy < fy and 0 <= xx < fx:
                w[y, x] = a[yy, xx]
    return w


def oracle_maps(pattern, frame, peaks, method):
    """the correlation window (2c x 2c, float64) the documentation defines, for every peak"""
    c = pattern.get_crop_size()
    frame = np.asarray(frame, dtype=np.float64)
    maps = []
    if method == 'fast':
        mask = np.asarray(pattern.get_mask((2 * c, 2 * c)), dtype=np.float64)
        for p in peaks:
            w = window_float(frame, c, p)
            L = np.log(w - w.min() + 1)
            maps.append(direct_xcorr(L, mask))
    else:
        mask = np.asarray(pattern.get_mask(frame.shape), dtype=np.float64)
        L = np.log(frame - frame.min() + 1)
        full = direct_xcorr(L, mask)
        for p in peaks:
            maps.append(window_float(full, c, p))
    Lmax = float(np.log(frame.max() - frame.min() + 1)) if frame.size else 0.0
    return maps, corr_scale(mask, max(Lmax, 1e-9))


def oracle_eval(cm, impl, c, p, scale, upsampled=False):
    """check one peak's outputs against the definitions on the map cm; returns list of problems"""
    N = 2 * c
    problems = []
    tol_h = 3e-4 * scale + 2e-3
    icy, icx = int(impl[0][0]) - p[0] + c, int(impl[0][1]) - p[1] + c
    if not (0 <= icy < N and 0 <= icx < N):
        return ['centre %s outside the search window of peak %s' % (tuple(int(v) for v in impl[0]), tuple(p))]
    hmax = float(cm.max())
    if hmax - cm[icy, icx] > tol_h:
        problems.append('centre %s does not attain the window maximum: value %.6g < max %.6g' % (tuple(int(v) for v in impl[0]), cm[icy, icx], hmax))
    if not abs(float(impl[2]) - hmax) <= tol_h:
        problems.append('height %.6g != maximum of the direct cross-correlation %.6g' % (float(impl[2]), hmax))
    r = min(2, icy, icx, N - icy - 1, N - icx - 1)
    if r <= 0:
        ref = (float(icy), float(icx))
        tol_r = 1e-4
    else:
        cut = cm[icy - r:icy + r + 1, icx - r:icx + r + 1]
        v = cut - cut.min()
        s = v.sum()
        if s <= 0:
            ref = None
        else:
            yy, xx = np.mgrid[0:2 * r + 1, 0:2 * r + 1]
            ref = (icy + (v * yy).sum() / s - r, icx + (v * xx).sum() / s - r)
            tol_r = 2e-3 + 400.0 * (3e-7 * scale + 1e-5) / max(s, 1e-12)
    irw = (float(impl[1][0]) - p[0] + c, float(impl[1][1]) - p[1] + c)
    ill = False
    if upsampled:
        # DFT upsampling replaces the refined position only: the centre-of-mass position of the definition takes its place for the elevation
        if ref is not None and tol_r > 0.25:
            ill = True
        elif ref is not None:
            irw = (float(ref[0]), float(ref[1]))
    elif ref is not None:
        if tol_r > 0.25:
            ill = True
        elif not (abs(irw[0] - ref[0]) <= tol_r and abs(irw[1] - ref[1]) <= tol_r):
            problems.append('refined %s is not the centre of mass of the minimum-subtracted (2r+1)^2 neighbourhood %s (r=%d)'
                            % ((float(impl[1][0]), float(impl[1][1])), (ref[0] + p[0] - c, ref[1] + p[1] - c), r))
    if ref is not None and not ill and np.isfinite(irw).all():
        yy, xx = np.mgrid[0:N, 0:N]
        dist = np.hypot(yy - irw[0], xx - irw[1])
        h = float(impl[2])
        cands = []
        for thr in (1.5 - 1e-5, 1.5 + 1e-5):
            sel = dist >= thr
            if sel.any():
                cands.append(max(0.0, float(((h - cm[sel]) / dist[sel]).min())))
            else:
                cands.append(float('inf'))
        ie = float(impl[3])
        if not any((math.isinf(e) and math.isinf(ie)) or abs(ie - e) <= tol_h + 2e-3 * abs(e) for e in cands):
            problems.append('elevation %.6g is not the smallest slope over pixels at distance >= 1.5: %.6g' % (ie, cands[0]))
    return problems


# ---------------------------------------------------------------------------------------------
# (K) generic: compare implementation outputs with the Coq pipeline model
# ---------------------------------------------------------------------------------------------
def case_replay(desc, frame_ints, one, peaks, method, problems, extra=None):
    r = {'kind': 'input', 'call': 'process_frame_%s' % method,
         'args': {'pattern': desc, 'frame_ints': np.asarray(frame_ints).tolist(), 'one': int(one),
                  'peaks': [list(map(int, p)) for p in peaks], 'method': method},
         'failure': problems}
    if extra:
        r['args'].update(extra)
    return r


PREMISE_SKIPS = {'not_centro_symmetric': 0}


def is_csym(mask):
    """cyclic point symmetry about pixel shape//2 (the premise 'centro-symmetric template' of C03)"""
    N, M = mask.shape
    t = (2 * (N // 2) - np.arange(N)) % N
    u = (2 * (M // 2) - np.arange(M)) % M
    return bool(np.allclose(mask, mask[np.ix_(t, u)], atol=1e-12))


def check_oracle(pattern, frame, peaks, method, outs, upsampled=False):
    c0 = pattern.get_crop_size()
    shape = (2 * c0, 2 * c0) if method == 'fast' else np.asarray(frame).shape
    if not is_csym(np.asarray(pattern.get_mask(shape), dtype=np.float64)):
        # e.g. a user template cropped to a smaller frame with the other parity: outside the property's premise
        PREMISE_SKIPS['not_centro_symmetric'] += 1
        return []
    maps, scale = oracle_maps(pattern, frame, peaks, method)
    c = pattern.get_crop_size()
    probs = []
    for i, p in enumerate(peaks):
        impl = (outs[0][i], outs[1][i], outs[2][i], outs[3][i])
        for pr in oracle_eval(maps[i], impl, c, p, scale, upsampled):
            probs.append('peak %s: %s' % (tuple(p), pr))
    return probs


def model_check(ctx, items, pid, what):
    """items: list of dict(pattern, desc, ints, one, peaks, method, outs, note).  Evaluates Pipeline.report for every
    peak under vm_compute and compares with the implementation's outputs [outs] (which may have been produced under
    any buffer count / history / back-end: the model is stateless).  Disagreements are classified with the float
    oracle: a concrete failing input (violation) or a broken correspondence (obligation)."""
    exprs, meta = [], []
    for it in items:
        pattern, ints, one, peaks, method, outs = it['pattern'], it['ints'], it['one'], it['peaks'], it['method'], it['outs']
        c = pattern.get_crop_size()
        frame_shape = ints.shape
        mask = pattern.get_mask((2 * c, 2 * c)) if method == 'fast' else pattern.get_mask(frame_shape)
        mq = quant(mask)
        Lmax = float(np.log(float(ints.max() - ints.min()) / one + 1))
        scale = corr_scale(mask, max(Lmax, 1e-9))
        for i, p in enumerate(peaks):
            ic = (int(outs[0][i][0]) - p[0] + c, int(outs[0][i][1]) - p[1] + c)
            exprs.append(coq_case(method, ints, one, mq, c, p, ic))
            meta.append((it, i, scale))
    vals = ctx.coq_eval('k', COQ_IMPORTS, exprs, shard=8, timeout=1500)
    ndis = 0
    flags_total = {}
    for mv, (it, i, scale) in zip(vals, meta):
        pattern, ints, one, peaks, method, outs = it['pattern'], it['ints'], it['one'], it['peaks'], it['method'], it['outs']
        c = pattern.get_crop_size()
        p = peaks[i]
        impl = (outs[0][i], outs[1][i], outs[2][i], outs[3][i])
        ok, detail, flags = compare_peak(mv, impl, c, p, scale)
        for f in flags:
            flags_total[f] = flags_total.get(f, 0) + 1
        ctx.count(1, key=(it['desc'], ints.tolist(), p, method, it.get('note')))
        if len(ctx.cov['samples']) < 4:
            d = it['desc']
            ctx.sample({'pattern': d if d['kind'] != 'UserTemplate' else {'kind': 'UserTemplate', 'shape': list(np.array(d['template']).shape)},
                        'frame_shape': list(ints.shape), 'method': method, 'peak': list(p), 'note': it.get('note'),
                        'impl': {'centre': [int(v) for v in impl[0]], 'refined': [float(v) for v in impl[1]], 'height': float(impl[2]), 'elevation': float(impl[3])},
                        'model': {'argmax_window': [mv[0], mv[1]], 'max': mv[2] / float(QS) ** 2}})
        if not ok:
            ndis += 1
            frame = (ints.astype(np.float64) / one)
            probs = check_oracle(pattern, frame, [p], method, tuple(o[i:i + 1] for o in outs))
            if probs:
                ctx.violation('input', '%s: %s' % (what, probs[0]),
                              case_replay(it['desc'], ints, one, [p], method, probs, {'note': it.get('note'), 'all_peaks': [list(map(int, q)) for q in peaks]}))
            else:
                ctx.obligation('K:%s/%s peak %s' % (pid, method, (p,)), False,
                               'model and implementation differ (%s) but the float oracle accepts; note=%s' % (detail, it.get('note')))
    ctx.obligation('K:%s correspondence Pipeline.report (crop, x-min+1, cconv, argmax2, refine_com, elevation) vs implementation (%d peaks)' % (pid, len(vals)),
                   ndis == 0, '%d disagreements' % ndis)
    ctx.extra['near_tie'] = flags_total.get('near_tie', 0)
    ctx.extra['comparator_flags'] = flags_total
    ctx.extra['traces_validated_against_impl'] = ctx.extra.get('traces_validated_against_impl', 0) + len(vals)
    return ndis


def replay_case(body, pid):
    """replay of a failing input recorded by model_check (case_replay format): the stand-alone kernel on the stored frame / pattern / peak
    against the definitions (check_oracle)"""
    import json
    a = body['args']
    pattern = pattern_from_desc(a['pattern'])
    frame = (np.array(a['frame_ints'], dtype=np.float64) / a['one']).astype(np.float32)
    run = run_fast if a['method'] == 'fast' else run_full
    probs = []
    # the peak alone, then the whole peak list of the recorded call with every buffer count (the failure may need the block structure)
    lists = [a['peaks']] + ([a['all_peaks']] if a.get('all_peaks') and a['all_peaks'] != a['peaks'] else [])
    for pk in lists:
        for bc in [None] + sorted(set([1, 2, max(1, len(pk) - 1), len(pk) + 1])):
            if bc is not None and len(pk) == 1 and bc > 2:
                continue
            try:
                outs = run(pattern, frame, pk, bc=bc)
                probs = check_oracle(pattern, frame, pk, a['method'], outs)
            except Exception as e:  # noqa
                probs = ['raised %s: %s' % (type(e).__name__, e)]
            if probs:
                probs = ['peak list %s, buffer count %s: %s' % (pk, bc, probs[0])]
                break
        if probs:
            break
    print(json.dumps({'replayed': {k: a[k] for k in ('pattern', 'peaks', 'method')}, 'failure_now': probs}, indent=1, default=str))
    if probs:
        print('VIOLATION property=%s replay=(given)' % pid)
        return 1
    return 0


def results_close(a, b, rtol=1e-5, scale=1.0):
    """two (centres, refineds, heights, elevations) tuples agree: centres equal, rest within rtol relative to scale"""
    if not np.array_equal(np.asarray(a[0]), np.asarray(b[0])):
        return False
    for x, y in zip(a[1:], b[1:]):
        x = np.asarray(x, dtype=np.float64)
        y = np.asarray(y, dtype=np.float64)
        if not np.allclose(x, y, rtol=rtol, atol=rtol * max(scale, 1.0), equal_nan=True):
            return False
    return True
